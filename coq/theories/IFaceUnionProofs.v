(* IFaceUnionProofs.v — named interface types that embed interfaces: the method set of an
   interface is a set (IFaceModel.iface_methods), and what that means for a struct that embeds
   such an interface (interface.go namedTypeToInterface, `methodz = iface`). *)
From Coq Require Import List Bool String Ascii NArith Arith Lia.
From GT Require Import IFaceModel IFaceNamesProofs IFaceEmbProofs IFaceRefProofs.
Import ListNotations.
Local Open Scope string_scope.

Lemma itree_ind' (P : itree -> Prop) :
  (forall s ex embs, Forall P embs -> P (IT s ex embs)) -> forall i, P i.
Proof.
  intros H. fix IH 1. intros [s ex embs]. apply H.
  induction embs as [|x r IHr]; constructor; [apply IH|exact IHr].
Qed.

Lemma stree_ind' (P : stree -> Prop) :
  (forall s own embs, Forall P embs -> P (SStruct s own embs)) -> (forall i, P (SIface i)) ->
  forall t, P t.
Proof.
  intros H Hi. fix IH 1. intros [s own embs|i]; [|apply Hi]. apply H.
  induction embs as [|x r IHr]; constructor; [apply IH|exact IHr].
Qed.

Notation names l := (map m_name l).

(* ------------------------------------------------------------------ union_add *)
Lemma has_name_In acc n : has_name acc n = true <-> In n (names acc).
Proof.
  unfold has_name. rewrite existsb_exists. split.
  - intros [x [Hx He]]. apply String.eqb_eq in He. subst. apply in_map. assumption.
  - intros H. apply in_map_iff in H as [x [<- Hx]]. exists x. split; [assumption|apply String.eqb_refl].
Qed.

Lemma has_name_false acc n : has_name acc n = false <-> ~ In n (names acc).
Proof. rewrite <- has_name_In. destruct (has_name acc n); split; congruence. Qed.

Lemma union_add_names : forall ms acc n,
  In n (names (union_add acc ms)) <-> In n (names acc) \/ In n (names ms).
Proof.
  unfold union_add. induction ms as [|a r IH]; intros acc n; cbn [fold_left map].
  - simpl. tauto.
  - rewrite IH. destruct (has_name acc (m_name a)) eqn:E.
    + apply has_name_In in E. simpl. split; [tauto|]. intros [H|[<-|H]]; auto.
    + rewrite map_app, in_app_iff. simpl. tauto.
Qed.

Lemma union_add_nodup : forall ms acc, NoDup (names acc) -> NoDup (names (union_add acc ms)).
Proof.
  unfold union_add. induction ms as [|a r IH]; intros acc H; cbn [fold_left]; [assumption|].
  apply IH. destruct (has_name acc (m_name a)) eqn:E; [assumption|].
  rewrite map_app. apply NoDup_app_intro; [assumption|repeat constructor; intros []|].
  intros x Hx [<-|[]]. apply has_name_false in E. auto.
Qed.

Lemma union_add_incl : forall ms acc m, In m (union_add acc ms) -> In m acc \/ In m ms.
Proof.
  unfold union_add. induction ms as [|a r IH]; intros acc m H; cbn [fold_left] in H; [auto|].
  apply IH in H as [H|H]; [|right; right; assumption].
  destruct (has_name acc (m_name a)); [auto|]. apply in_app_or in H as [H|[<-|[]]]; auto.
  right. left. reflexivity.
Qed.

Lemma union_add_keeps : forall ms acc m, In m acc -> In m (union_add acc ms).
Proof.
  unfold union_add. induction ms as [|a r IH]; intros acc m H; cbn [fold_left]; [assumption|].
  apply IH. destruct (has_name acc (m_name a)); [assumption|]. apply in_or_app. auto.
Qed.

(* ------------------------------------------------------------------ iface_methods *)
Definition iface_fold (embs : list itree) (acc : list meth) : list meth :=
  fold_left (fun acc f => union_add acc (iface_methods f)) embs acc.

Lemma iface_methods_unfold s ex embs :
  iface_methods (IT s ex embs) = iface_fold embs (union_add [] ex).
Proof. reflexivity. Qed.

Lemma decl_names_unfold s ex embs :
  decl_names (IT s ex embs) = (names ex ++ flat_map decl_names embs)%list.
Proof.
  unfold decl_names. cbn [all_decls]. rewrite map_app. f_equal.
  induction embs as [|x r IH]; simpl; [reflexivity|]. rewrite map_app, IH. reflexivity.
Qed.

Lemma iface_fold_names : forall embs acc n,
  Forall (fun f => forall n, In n (names (iface_methods f)) <-> In n (decl_names f)) embs ->
  (In n (names (iface_fold embs acc)) <-> In n (names acc) \/ In n (flat_map decl_names embs)).
Proof.
  unfold iface_fold. induction embs as [|f r IH]; intros acc n H; cbn [fold_left flat_map].
  - simpl. tauto.
  - inversion H as [|? ? Hf Hr]; subst. rewrite (IH _ _ Hr), union_add_names, Hf, in_app_iff. tauto.
Qed.

(* the method set of an interface contains a name exactly when some interface below declares it *)
Lemma iface_methods_names : forall i n, In n (names (iface_methods i)) <-> In n (decl_names i).
Proof.
  induction i as [s ex embs IH] using itree_ind'. intros n.
  rewrite iface_methods_unfold, decl_names_unfold, (iface_fold_names _ _ _ IH), union_add_names, in_app_iff.
  simpl. tauto.
Qed.

Lemma iface_fold_nodup : forall embs acc, NoDup (names acc) -> NoDup (names (iface_fold embs acc)).
Proof.
  unfold iface_fold. induction embs as [|f r IH]; intros acc H; cbn [fold_left]; [assumption|].
  apply IH. apply union_add_nodup. assumption.
Qed.

(* ... and contains it once: methods that several embedded interfaces share are merged *)
Lemma iface_methods_nodup : forall i, NoDup (names (iface_methods i)).
Proof.
  intros [s ex embs]. rewrite iface_methods_unfold. apply iface_fold_nodup, union_add_nodup. constructor.
Qed.

Lemma iface_fold_incl : forall embs acc m,
  Forall (fun f => forall m, In m (iface_methods f) -> In m (all_decls f)) embs ->
  In m (iface_fold embs acc) -> In m acc \/ In m (flat_map all_decls embs).
Proof.
  unfold iface_fold. induction embs as [|f r IH]; intros acc m H Hin; cbn [fold_left flat_map] in *; [auto|].
  inversion H as [|? ? Hf Hr]; subst. apply (IH _ _ Hr) in Hin as [Hin|Hin].
  - apply union_add_incl in Hin as [Hin|Hin]; [auto|]. right. apply in_or_app. auto.
  - right. apply in_or_app. auto.
Qed.

(* every method of the set is one of the declarations *)
Lemma iface_methods_decl : forall i m, In m (iface_methods i) -> In m (all_decls i).
Proof.
  induction i as [s ex embs IH] using itree_ind'. intros m H.
  rewrite iface_methods_unfold in H. apply (iface_fold_incl _ _ _ IH) in H as [H|H]; cbn [all_decls].
  - apply union_add_incl in H as [[]|H]. apply in_or_app. auto.
  - apply in_or_app. auto.
Qed.

Lemma iface_union_is_set i :
  NoDup (names (iface_methods i)) /\
  (forall n, In n (names (iface_methods i)) <-> In n (decl_names i)) /\
  (forall m, In m (iface_methods i) -> In m (all_decls i)).
Proof.
  split; [apply iface_methods_nodup|]. split; [apply iface_methods_names|apply iface_methods_decl].
Qed.

Lemma NoDup_map_inj_in {A B} (f : A -> B) l a b :
  NoDup (map f l) -> In a l -> In b l -> f a = f b -> a = b.
Proof.
  induction l as [|x r IH]; simpl; intros H Ha Hb E; [contradiction|].
  inversion H as [|? ? Hx Hr]; subst. destruct Ha as [<-|Ha]; destruct Hb as [<-|Hb]; auto.
  - exfalso. apply Hx. rewrite E. apply in_map. assumption.
  - exfalso. apply Hx. rewrite <- E. apply in_map. assumption.
Qed.

(* Go demands that the declarations of one name below an interface have identical types
   (parameter names aside) and, of course, interfaces declare methods, not fields *)
Definition same_sig (a b : meth) : Prop := erase (meth_ty a) = erase (meth_ty b).
Definition wf_itree (i : itree) : Prop :=
  (forall a b, In a (all_decls i) -> In b (all_decls i) -> m_name a = m_name b -> same_sig a b) /\
  (forall a, In a (all_decls i) -> m_field a = false).

(* identical signatures in an interface union are ONE method: each declared method is
   represented in the method set by exactly one method, of the same name and the same type *)
Lemma iface_union_identical i m0 : wf_itree i -> In m0 (all_decls i) ->
  exists m, In m (iface_methods i) /\ m_name m = m_name m0 /\ same_sig m m0 /\ is_meth m = true /\
            forall m', In m' (iface_methods i) -> m_name m' = m_name m0 -> m' = m.
Proof.
  intros [Hsig Hmeth] Hin.
  assert (Hn : In (m_name m0) (names (iface_methods i))).
  { apply iface_methods_names. unfold decl_names. apply in_map. assumption. }
  apply in_map_iff in Hn as [m [Hname Hm]]. exists m.
  pose proof (iface_methods_decl _ _ Hm) as Hd.
  split; [assumption|]. split; [assumption|]. split; [apply Hsig; assumption|]. split.
  - unfold is_meth. rewrite (Hmeth _ Hd). reflexivity.
  - intros m' Hm' E. apply (NoDup_map_inj_in m_name (iface_methods i)); [apply iface_methods_nodup|assumption|assumption|congruence].
Qed.

Lemma iface_methods_all_meth i : (forall a, In a (all_decls i) -> m_field a = false) ->
  filter is_meth (iface_methods i) = iface_methods i.
Proof.
  intros H. assert (Hall : forall m, In m (iface_methods i) -> is_meth m = true).
  { intros m Hm. unfold is_meth. rewrite (H _ (iface_methods_decl _ _ Hm)). reflexivity. }
  induction (iface_methods i) as [|x r IH]; simpl; [reflexivity|].
  rewrite (Hall x) by (left; reflexivity). f_equal. apply IH. intros m Hm. apply Hall. right. assumption.
Qed.

(* ------------------------------------------------------------------ the flattened tree *)
Inductive wf_stree : stree -> Prop :=
| WSS s own embs : NoDup (map m_name own) -> Forall wf_stree embs -> wf_stree (SStruct s own embs)
| WSI i : wf_stree (SIface i).

Lemma flatten_wf : forall s, wf_stree s -> wf_tree (flatten s).
Proof.
  induction s as [s own embs IH|i] using stree_ind'; intros H; cbn [flatten].
  - inversion H as [? ? ? Hown Hembs|]; subst. constructor; [assumption|].
    apply Forall_forall. intros t Ht. apply in_map_iff in Ht as [x [<- Hx]].
    rewrite Forall_forall in IH, Hembs. auto.
  - constructor; [apply iface_methods_nodup|constructor].
Qed.

Lemma flatten_iface_height i : height (flatten (SIface i)) = 0.
Proof. reflexivity. Qed.

(* the whole chain of statements about embedding trees holds of declared trees *)
Lemma src_two_levels priv emb s n : height (flatten s) <= 2 -> wf_stree s ->
  (In n (iface_names priv emb (flatten s)) <-> spec_methodb priv emb (flatten s) n = true).
Proof. intros Hh Hwf. apply iface_two_levels; [assumption|apply flatten_wf; assumption]. Qed.

(* ------------------------------------------------------------------ names below a tree *)
Lemma ms_level_in_all_names : forall fuel lvl n, ms_level fuel lvl n = true ->
  exists t, In t lvl /\ In n (all_names t).
Proof.
  induction fuel as [|f IH]; intros lvl n H; rewrite ms_level_unfold in H.
  - destruct (count_level lvl n) as [|[|c]] eqn:E; try discriminate.
    apply mlevel_exists in H as [x [Hx Hm]]. exists x. split; [assumption|].
    destruct x as [s own embs]. cbn [all_names]. apply in_or_app. left.
    apply mem_In in Hm. apply (meth_in_own (Tr s own embs)). assumption.
  - destruct (count_level lvl n) as [|[|c]] eqn:E; try discriminate.
    + apply IH in H as [t [Ht Hn]]. apply in_flat_map in Ht as [p [Hp Ht]]. exists p. split; [assumption|].
      destruct p as [s own embs]. cbn [all_names t_emb] in *. apply in_or_app. right.
      apply in_flat_map. exists t. auto.
    + apply mlevel_exists in H as [x [Hx Hm]]. exists x. split; [assumption|].
      destruct x as [s own embs]. cbn [all_names]. apply in_or_app. left.
      apply mem_In in Hm. apply (meth_in_own (Tr s own embs)). assumption.
Qed.

Lemma go_ms_in_all_names t n : go_ms t n = true -> In n (all_names t).
Proof.
  intros H. apply ms_level_in_all_names in H as [x [[<-|[]] Hn]]. assumption.
Qed.

Lemma iface_names_in_all_names priv emb t n : wf_tree t ->
  In n (iface_names priv emb t) -> In n (all_names t).
Proof. intros Hwf H. apply go_ms_in_all_names. apply (iface_names_fit priv emb); assumption. Qed.

Lemma own_in_all_names t n : In n (own_names t) -> In n (all_names t).
Proof. destruct t as [s own embs]. cbn [all_names]. intros H. apply in_or_app. auto. Qed.

Lemma count_level_none lvl n : (forall f, In f lvl -> ~ In n (all_names f)) -> count_level lvl n = 0.
Proof.
  intros H. unfold count_level. induction lvl as [|x r IH]; simpl; [reflexivity|].
  destruct (mem n (own_names x)) eqn:E.
  - exfalso. apply (H x); [left; reflexivity|]. apply own_in_all_names, mem_In. assumption.
  - apply IH. intros f Hf. apply H. right. assumption.
Qed.

Lemma filter_none {A} (p : A -> bool) l : (forall x, In x l -> p x = false) -> filter p l = [].
Proof.
  induction l as [|x r IH]; simpl; intros H; [reflexivity|].
  rewrite (H x) by (left; reflexivity). apply IH. intros y Hy. apply H. right. assumption.
Qed.

Lemma hmax_app_pos a x b : 1 <= hmax (a ++ x :: b).
Proof.
  induction a as [|y r IH]; cbn [app]; rewrite hmax_cons; lia.
Qed.

(* ------------------------------------------------------------------ the overlap is promoted *)
(* A struct that embeds a named interface I (among other fields that do not mention n): every
   visible method I has — declared by I itself or by ANY interface below it, by one of them or by
   several (Reader and Writer both declaring Close) — that the struct does not define itself is
   collected with IncludeEmbedded.  Go promotes it: the method set of I is a set. *)
Lemma embedded_iface_overlap_promoted priv self own l1 i l2 n :
  wf_stree (SStruct self own (l1 ++ SIface i :: l2)) ->
  (forall a, In a (all_decls i) -> m_field a = false) ->
  In n (decl_names i) -> visn priv n = true ->
  ~ In n (map m_name own) ->
  (forall f, In f (l1 ++ l2) -> ~ In n (all_names (flatten f))) ->
  In n (iface_names priv true (flatten (SStruct self own (l1 ++ SIface i :: l2)))) /\
  go_ms (flatten (SStruct self own (l1 ++ SIface i :: l2))) n = true.
Proof.
  intros Hwf Hmeth Hdecl Hvis Hown Hothers.
  pose proof (flatten_wf _ Hwf) as Hwt.
  set (t := flatten (SStruct self own (l1 ++ SIface i :: l2))) in *.
  set (fi := flatten (SIface i)).
  assert (Hembs : t_emb t = (map flatten l1 ++ fi :: map flatten l2)%list).
  { unfold t. cbn [flatten t_emb]. rewrite map_app. reflexivity. }
  assert (Hfi_own : mem n (own_names fi) = true).
  { apply mem_In. unfold fi, own_names. cbn [flatten t_own]. apply iface_methods_names. assumption. }
  assert (Hfi_meth : mem n (meth_names fi) = true).
  { unfold fi, meth_names. cbn [flatten t_own]. rewrite (iface_methods_all_meth _ Hmeth).
    apply mem_In, iface_methods_names. assumption. }
  assert (Ho1 : forall f, In f (map flatten l1) -> ~ In n (all_names f)).
  { intros f Hf. apply in_map_iff in Hf as [x [<- Hx]]. apply Hothers. apply in_or_app. auto. }
  assert (Ho2 : forall f, In f (map flatten l2) -> ~ In n (all_names f)).
  { intros f Hf. apply in_map_iff in Hf as [x [<- Hx]]. apply Hothers. apply in_or_app. auto. }
  assert (Hnot_own : mem n (own_names t) = false).
  { apply mem_false. unfold t, own_names. cbn [flatten t_own]. assumption. }
  assert (Hms : go_ms t n = true).
  { unfold go_ms. assert (Hh : exists k, height t = S k).
    { unfold t. cbn [flatten]. rewrite height_hmax, map_app. cbn [map].
      pose proof (hmax_app_pos (map flatten l1) (flatten (SIface i)) (map flatten l2)) as Hp.
      destruct (hmax (map flatten l1 ++ flatten (SIface i) :: map flatten l2)); [lia|eauto]. }
    destruct Hh as [k ->].
    rewrite ms_level_unfold, (count_level_one _ _ (wf_own _ Hwt)), Hnot_own.
    cbn [flat_map]. rewrite app_nil_r, Hembs, ms_level_unfold.
    rewrite count_level_app. change (fi :: map flatten l2) with ([fi] ++ map flatten l2)%list.
    rewrite count_level_app, (count_level_none _ _ Ho1), (count_level_none _ _ Ho2).
    unfold count_level at 1. cbn [filter]. rewrite Hfi_own. cbn [List.length Nat.add].
    unfold mlevel. rewrite existsb_app. cbn [existsb app]. rewrite Hfi_meth. apply orb_true_iff. right. reflexivity. }
  split; [|assumption].
  apply iface_names_spec; [assumption|]. right. split; [reflexivity|]. split.
  - intros H. apply vis_names_In in H as [H _]. apply meth_in_own in H. apply mem_false in Hnot_own. auto.
  - split; [assumption|]. unfold exactly_one_field. rewrite Hembs, filter_app. cbn [filter].
    assert (Hfi : mem n (iface_names priv true fi) = true).
    { rewrite iface_leaf by (unfold fi; rewrite flatten_iface_height; lia).
      apply mem_In, vis_names_In. split; [apply mem_In; assumption|assumption]. }
    rewrite Hfi. rewrite !filter_none; [reflexivity| |].
    + intros x Hx. apply mem_false. intros Hin. apply (Ho2 x Hx).
      apply (iface_names_in_all_names priv true); [|assumption].
      apply (wf_emb t); [assumption|]. rewrite Hembs. apply in_or_app. right. right. assumption.
    + intros x Hx. apply mem_false. intros Hin. apply (Ho1 x Hx).
      apply (iface_names_in_all_names priv true); [|assumption].
      apply (wf_emb t); [assumption|]. rewrite Hembs. apply in_or_app. left. assumption.
Qed.

(* ------------------------------------------------------------------ the seeded collection *)
(* Reader{Read;Close} and Writer{Write;Close} inside ReadWriter inside struct Conn *)
Definition ex_pk (n : string) : ty := TNamed (Some ("ex.com/p", "p")) n [].
Definition ex_close (pn : string) : meth :=
  M "Close" [(PI pn false false, TBasic "bool")] false [(PI "" false true, TNamed None "error" [])] false.
Definition ex_rw : itree :=
  IT (ex_pk "ReadWriter") []
     [IT (ex_pk "Reader") [mk "Read"; ex_close "force"] [];
      IT (ex_pk "Writer") [mk "Write"; ex_close ""] []].
Definition ex_conn : stree := SStruct (ex_pk "Conn") [mk "Addr"] [SIface ex_rw].

Lemma ex_conn_union :
  wf_stree ex_conn /\ wf_itree ex_rw /\
  names (iface_methods ex_rw) = ["Read"; "Close"; "Write"] /\
  names (iface_methods_concat ex_rw) = ["Read"; "Close"; "Write"; "Close"] /\
  iface_names false true (flatten ex_conn) = ["Addr"; "Read"; "Close"; "Write"] /\
  iface_names false true (flatten_concat ex_conn) = ["Addr"; "Read"; "Write"] /\
  go_ms (flatten ex_conn) "Close" = true.
Proof.
  split; [repeat constructor; simpl; tauto|]. split.
  - split.
    + intros a b Ha Hb. simpl in Ha, Hb.
      repeat (destruct Ha as [<-|Ha]; [repeat (destruct Hb as [<-|Hb]; [simpl; try discriminate; intros _; reflexivity|]); contradiction|]).
      contradiction.
    + intros a Ha. simpl in Ha. repeat (destruct Ha as [<-|Ha]; [reflexivity|]). contradiction.
  - vm_compute. repeat split; reflexivity.
Qed.
