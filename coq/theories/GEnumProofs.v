(* GEnumProofs.v — lemmas about the genum model (GEnumModel.v).

   Part 1  Value.Less on the generator's (u64, Signed) representation is the lexicographic
           order on (integer value, name); Go's unstable sort has exactly one possible result.
   Part 2  ValueDeduplicatedSet keeps, per value, the first non-deprecated constant (else the
           first), i.e. the primary name; the value table is the ascending list of distinct values.
   Part 3  behaviour of the emitted code: Values, IsValid, String, StringValues, Parse*.
   Part 4  codecs (C05).     Part 5  traits (C12).                                            *)
From Coq Require Import String Ascii ZArith List Bool Lia Permutation Sorted.
From GT Require Import Base.GEnumStr.
From GT Require Import Base.GEnumStrFacts.
From GT Require Import Base.GEnumSort.
From GT Require Import Base.GEnumSortFacts.
From GT Require Import GEnumModel.
Import ListNotations.
Local Open Scope string_scope.
Local Open Scope list_scope.
Local Open Scope Z_scope.

(* ================================================================== Part 1: order *)

Definition ty_ok (t : ety) : Prop := 1 <= ty_bits t <= 64.

(* range of constants whose (u64, Signed) representation is faithful *)
Definition rep_ok (signed : bool) (z : Z) : Prop :=
  if signed then - 2 ^ 63 <= z < 2 ^ 63 else 0 <= z < 2 ^ 64.

Lemma pow2_le_63 : forall b, 1 <= b <= 64 -> 2 ^ (b - 1) <= 2 ^ 63.
Proof. intros b Hb. apply Z.pow_le_mono_r; lia. Qed.
Lemma pow2_le_64 : forall b, 1 <= b <= 64 -> 2 ^ b <= 2 ^ 64.
Proof. intros b Hb. apply Z.pow_le_mono_r; lia. Qed.

Lemma in_range_rep : forall t z, ty_ok t -> in_range t z = true -> rep_ok (ty_signed t) z.
Proof.
  intros t z Ht H. unfold in_range, ty_min, ty_max in H. unfold rep_ok.
  apply andb_true_iff in H. destruct H as [H1 H2]. apply Z.leb_le in H1, H2.
  destruct (ty_signed t).
  - pose proof (pow2_le_63 _ Ht). lia.
  - pose proof (pow2_le_64 _ Ht). lia.
Qed.

Definition lex_less (a b : gvalue) : bool :=
  (g_z a <? g_z b) || ((g_z a =? g_z b) && str_ltb (g_name a) (g_name b)).

Lemma as_i64_mod : forall z, - 2 ^ 63 <= z < 2 ^ 63 -> as_i64 (z mod two64) = z.
Proof.
  intros z Hz. unfold as_i64, two64 in *.
  change (2 ^ 63) with 9223372036854775808 in *. change (2 ^ 64) with 18446744073709551616 in *.
  destruct (Z_lt_dec z 0) as [Hneg|Hpos].
  - assert (E : z mod 18446744073709551616 = z + 18446744073709551616).
    { symmetry. apply Z.mod_unique with (q := -1); lia. }
    rewrite E. destruct (Z.ltb_spec (z + 18446744073709551616) 9223372036854775808); lia.
  - rewrite Z.mod_small by lia. destruct (Z.ltb_spec z 9223372036854775808); lia.
Qed.

Lemma u64_small : forall z, 0 <= z < 2 ^ 64 -> z mod two64 = z.
Proof. intros z Hz. unfold two64. apply Z.mod_small. assumption. Qed.

Lemma g_less_lex : forall sg ca cb, rep_ok sg (c_val ca) -> rep_ok sg (c_val cb) ->
  g_less (to_gvalue ca) (to_gvalue cb) = lex_less (to_gvalue ca) (to_gvalue cb).
Proof.
  intros sg ca cb Ha Hb. unfold g_less, lex_less, to_gvalue; cbn [g_name g_u64 g_signed g_z].
  set (za := c_val ca) in *. set (zb := c_val cb) in *.
  set (na := c_name ca). set (nb := c_name cb).
  assert (Hfinal : forall x y, (if x =? y then str_ltb na nb else x <? y)
                               = (x <? y) || ((x =? y) && str_ltb na nb)).
  { intros x y. destruct (Z.eqb_spec x y); destruct (Z.ltb_spec x y); try lia; simpl; reflexivity. }
  destruct sg; unfold rep_ok in Ha, Hb.
  - (* signed type *)
    destruct ((za <? 0) || (zb <? 0)) eqn:Hs.
    + rewrite !as_i64_mod by assumption. apply Hfinal.
    + apply orb_false_iff in Hs. destruct Hs as [Hs1 Hs2].
      apply Z.ltb_ge in Hs1, Hs2.
      rewrite !u64_small by (change (2 ^ 64) with 18446744073709551616;
                             change (2 ^ 63) with 9223372036854775808 in *; lia).
      apply Hfinal.
  - (* unsigned type *)
    assert (H1 : za <? 0 = false) by (apply Z.ltb_ge; lia).
    assert (H2 : zb <? 0 = false) by (apply Z.ltb_ge; lia).
    rewrite H1, H2. simpl. rewrite !u64_small by assumption. apply Hfinal.
Qed.

Lemma u64_eq_z : forall sg ca cb, rep_ok sg (c_val ca) -> rep_ok sg (c_val cb) ->
  (g_u64 (to_gvalue ca) =? g_u64 (to_gvalue cb)) = (c_val ca =? c_val cb).
Proof.
  intros sg ca cb Ha Hb. cbn [to_gvalue g_u64].
  destruct (Z.eqb_spec (c_val ca) (c_val cb)) as [E|NE].
  - rewrite E. apply Z.eqb_refl.
  - apply Z.eqb_neq. intro E. apply NE.
    destruct sg; unfold rep_ok in *.
    + rewrite <- (as_i64_mod (c_val ca)), <- (as_i64_mod (c_val cb)) by assumption. rewrite E. reflexivity.
    + rewrite <- (u64_small (c_val ca)), <- (u64_small (c_val cb)) by assumption. exact E.
Qed.

Lemma lex_irrefl : forall a, lex_less a a = false.
Proof.
  intros a. unfold lex_less. rewrite Z.ltb_irrefl, str_ltb_irrefl, andb_false_r. reflexivity.
Qed.

Lemma lex_trans : forall a b c, lex_less a b = true -> lex_less b c = true -> lex_less a c = true.
Proof.
  intros a b c. unfold lex_less. intros H1 H2.
  apply orb_true_iff in H1. apply orb_true_iff in H2. apply orb_true_iff.
  destruct H1 as [H1|H1]; destruct H2 as [H2|H2];
    try apply Z.ltb_lt in H1; try apply Z.ltb_lt in H2;
    try (apply andb_true_iff in H1; destruct H1 as [E1 S1]; apply Z.eqb_eq in E1);
    try (apply andb_true_iff in H2; destruct H2 as [E2 S2]; apply Z.eqb_eq in E2).
  - left. apply Z.ltb_lt. lia.
  - left. apply Z.ltb_lt. lia.
  - left. apply Z.ltb_lt. lia.
  - right. apply andb_true_iff. split; [apply Z.eqb_eq; lia|]. eapply str_ltb_trans; eauto.
Qed.

Lemma lex_total : forall a b, g_name a <> g_name b -> lex_less a b = true \/ lex_less b a = true.
Proof.
  intros a b Hn. unfold lex_less.
  destruct (Z.lt_total (g_z a) (g_z b)) as [H|[H|H]].
  - left. apply orb_true_iff. left. apply Z.ltb_lt. assumption.
  - destruct (str_ltb_total _ _ Hn) as [S|S]; [left|right]; apply orb_true_iff; right;
      apply andb_true_iff; (split; [apply Z.eqb_eq; lia|assumption]).
  - right. apply orb_true_iff. left. apply Z.ltb_lt. assumption.
Qed.

Lemma lex_asym : forall a b, lex_less a b = true -> lex_less b a = false.
Proof.
  intros a b H. destruct (lex_less b a) eqn:E; [|reflexivity].
  pose proof (lex_trans _ _ _ H E) as T. rewrite lex_irrefl in T. discriminate.
Qed.

Lemma lex_z_le : forall a b, lex_less a b = true -> g_z a <= g_z b.
Proof.
  intros a b H. unfold lex_less in H. apply orb_true_iff in H. destruct H as [H|H].
  - apply Z.ltb_lt in H. lia.
  - apply andb_true_iff in H. destruct H as [H _]. apply Z.eqb_eq in H. lia.
Qed.

Lemma NoDup_map_inj_in : forall {A B} (f : A -> B) l a b,
  NoDup (map f l) -> In a l -> In b l -> f a = f b -> a = b.
Proof.
  intros A B f l. induction l as [|x r IH]; intros a b Hnd Ha Hb E; simpl in *.
  - contradiction.
  - inversion Hnd as [|? ? Hx Hr]; subst.
    destruct Ha as [->|Ha]; destruct Hb as [->|Hb].
    + reflexivity.
    + exfalso. apply Hx. rewrite E. apply in_map. assumption.
    + exfalso. apply Hx. rewrite <- E. apply in_map. assumption.
    + apply IH; assumption.
Qed.

Section Order.
  Variable ty : ety.
  Hypothesis Hty : ty_ok ty.
  Variable cs : list const.
  Hypothesis Hrange : Forall (fun c => in_range ty (c_val c) = true) cs.
  Hypothesis Hnames : NoDup (map c_name cs).

  Definition gvals : list gvalue := map to_gvalue cs.
  Definition inL (g : gvalue) : Prop := In g gvals.

  Lemma inL_const : forall g, inL g -> exists c, In c cs /\ g = to_gvalue c /\ rep_ok (ty_signed ty) (c_val c).
  Proof.
    intros g Hg. unfold inL, gvals in Hg. apply in_map_iff in Hg. destruct Hg as [c [E Hc]].
    exists c. split; [assumption|]. split; [symmetry; assumption|].
    rewrite Forall_forall in Hrange. apply in_range_rep; [assumption|]. apply Hrange. assumption.
  Qed.

  Lemma g_less_lex_L : forall a b, inL a -> inL b -> g_less a b = lex_less a b.
  Proof.
    intros a b Ha Hb. destruct (inL_const _ Ha) as [ca [_ [-> Ra]]].
    destruct (inL_const _ Hb) as [cb [_ [-> Rb]]]. eapply g_less_lex; eauto.
  Qed.

  Lemma u64_eq_z_L : forall a b, inL a -> inL b -> (g_u64 a =? g_u64 b) = (g_z a =? g_z b).
  Proof.
    intros a b Ha Hb. destruct (inL_const _ Ha) as [ca [_ [-> Ra]]].
    destruct (inL_const _ Hb) as [cb [_ [-> Rb]]]. eapply u64_eq_z; eauto.
  Qed.

  Lemma gvals_names : map g_name gvals = map c_name cs.
  Proof. unfold gvals. rewrite map_map. reflexivity. Qed.

  Lemma NoDup_gvals : NoDup gvals.
  Proof.
    apply (NoDup_map_inv g_name). rewrite gvals_names. assumption.
  Qed.

  Lemma inL_name_inj : forall a b, inL a -> inL b -> g_name a = g_name b -> a = b.
  Proof.
    intros a b Ha Hb E. apply (NoDup_map_inj_in g_name gvals); try assumption.
    rewrite gvals_names. assumption.
  Qed.

  Lemma gl_irrefl : forall a, inL a -> g_less a a = false.
  Proof. intros a Ha. rewrite g_less_lex_L by assumption. apply lex_irrefl. Qed.
  Lemma gl_trans : forall a b c, inL a -> inL b -> inL c ->
    g_less a b = true -> g_less b c = true -> g_less a c = true.
  Proof.
    intros a b c Ha Hb Hc. rewrite !g_less_lex_L by assumption. apply lex_trans.
  Qed.
  Lemma gl_total : forall a b, inL a -> inL b -> a <> b -> g_less a b = true \/ g_less b a = true.
  Proof.
    intros a b Ha Hb Hne. rewrite !g_less_lex_L by assumption. apply lex_total.
    intro E. apply Hne. apply inL_name_inj; assumption.
  Qed.

  Lemma Forall_inL : Forall inL gvals.
  Proof. apply Forall_forall. intros x Hx. exact Hx. Qed.

  (* Go's sort.Sort is not stable and its result is not specified beyond "sorted permutation":
     there is exactly one such list *)
  Lemma sort_values_unique : forall s,
    Permutation s gvals -> StronglySorted (fun a b => g_less b a = false) s -> s = sort_values cs.
  Proof.
    intros s Hp Hs. unfold sort_values. fold gvals.
    apply (sorted_perm_unique g_less inL gl_irrefl gl_trans gl_total); try assumption.
    - apply Forall_inL.
    - apply NoDup_gvals.
  Qed.

  Lemma sort_values_perm : Permutation (sort_values cs) gvals.
  Proof. unfold sort_values. apply isort_perm. Qed.

  Lemma sort_values_in : forall g, In g (sort_values cs) <-> inL g.
  Proof. intros g. unfold sort_values, inL, gvals. apply isort_in. Qed.

  Lemma sort_values_NoDup : NoDup (sort_values cs).
  Proof.
    eapply Permutation_NoDup; [apply Permutation_sym, sort_values_perm|apply NoDup_gvals].
  Qed.

  Lemma sort_values_sorted : StronglySorted (fun a b => lex_less a b = true) (sort_values cs).
  Proof.
    assert (H : StronglySorted (fun a b => g_less a b = true) (sort_values cs)).
    { unfold sort_values. fold gvals.
      apply (isort_sorted g_less inL gl_trans gl_total); [apply Forall_inL|apply NoDup_gvals]. }
    assert (Hin : forall g, In g (sort_values cs) -> inL g) by (intros g; apply sort_values_in).
    revert H Hin. generalize (sort_values cs). intros l H. induction H as [|a l Hs IH Hall]; intros Hin.
    - constructor.
    - constructor.
      + apply IH. intros g Hg. apply Hin. right. assumption.
      + rewrite Forall_forall in Hall. rewrite Forall_forall. intros x Hx. rewrite <- g_less_lex_L.
        * apply Hall. assumption.
        * apply Hin. left. reflexivity.
        * apply Hin. right. assumption.
  Qed.
End Order.

(* ================================================================== Part 2: ValueDeduplicatedSet *)

(* the loop of ValueDeduplicatedSet with the state (last kept constant p) made explicit;
   in the repaired code addedDeprecated always equals p.IsDeprecated *)
Fixpoint dedupL (p : gvalue) (s : list gvalue) : list gvalue :=
  match s with
  | [] => [p]
  | c :: r =>
      if negb (g_u64 p =? g_u64 c) then p :: dedupL c r
      else if g_dep p && negb (g_dep c) then dedupL c r
      else dedupL p r
  end.

Lemma dedup_go_L : forall s acc p,
  dedup_go true s (p :: acc) (g_u64 p) (g_dep p) = rev acc ++ dedupL p s.
Proof.
  induction s as [|c r IH]; intros acc p; simpl.
  - reflexivity.
  - destruct (negb (g_u64 p =? g_u64 c)) eqn:E1.
    + rewrite IH. simpl. rewrite <- app_assoc. reflexivity.
    + destruct (g_dep p && negb (g_dep c)) eqn:E2.
      * apply negb_false_iff in E1. apply Z.eqb_eq in E1.
        apply andb_true_iff in E2. destruct E2 as [_ E2]. apply negb_true_iff in E2.
        simpl. rewrite E1. rewrite <- E2 at 1. apply IH.
      * apply IH.
Qed.

Lemma dedup_L : forall s, dedup s = match s with [] => [] | p :: r => dedupL p r end.
Proof.
  intros [|p [|c r]]; try reflexivity.
  unfold dedup, dedup_gen. rewrite dedup_go_L. reflexivity.
Qed.

Lemma dedupL_incl : forall s p g, In g (dedupL p s) -> In g (p :: s).
Proof.
  induction s as [|c r IH]; intros p g H; simpl in H.
  - assumption.
  - destruct (negb (g_u64 p =? g_u64 c)).
    + destruct H as [->|H]; [left; reflexivity|]. right. apply IH. assumption.
    + destruct (g_dep p && negb (g_dep c)).
      * right. apply IH. assumption.
      * apply IH in H. destruct H as [->|H]; [left; reflexivity|right; right; assumption].
Qed.

(* first non-deprecated constant of value v, else the first constant of value v *)
Definition pick (L : list gvalue) (v : Z) : option gvalue :=
  match find (fun g => (g_z g =? v) && negb (g_dep g)) L with
  | Some g => Some g
  | None => find (fun g => g_z g =? v) L
  end.

Lemma pick_cons_skip : forall p L v, g_z p <> v -> pick (p :: L) v = pick L v.
Proof.
  intros p L v H. unfold pick. simpl. apply Z.eqb_neq in H. rewrite H. reflexivity.
Qed.

Lemma pick_cons_live : forall p L, g_dep p = false -> pick (p :: L) (g_z p) = Some p.
Proof. intros p L H. unfold pick. simpl. rewrite Z.eqb_refl, H. reflexivity. Qed.

Lemma pick_cons_dep : forall p L, g_dep p = true ->
  pick (p :: L) (g_z p) =
  match find (fun g => (g_z g =? g_z p) && negb (g_dep g)) L with Some g => Some g | None => Some p end.
Proof. intros p L H. unfold pick. simpl. rewrite Z.eqb_refl, H. reflexivity. Qed.

Lemma find_all_false : forall {A} (f : A -> bool) l, (forall x, In x l -> f x = false) -> find f l = None.
Proof.
  intros A f l. induction l as [|x r IH]; intros H; simpl.
  - reflexivity.
  - rewrite (H x) by (left; reflexivity). apply IH. intros y Hy. apply H. right. assumption.
Qed.

Section DedupSorted.
  (* a list sorted by non-decreasing value on which u64-equality is value-equality *)
  Definition z_le (a b : gvalue) : Prop := g_z a <= g_z b.

  Lemma dedupL_pick : forall s p,
    (forall a b, In a (p :: s) -> In b (p :: s) -> (g_u64 a =? g_u64 b) = (g_z a =? g_z b)) ->
    StronglySorted z_le (p :: s) ->
    Forall (fun g => pick (p :: s) (g_z g) = Some g) (dedupL p s).
  Proof.
    induction s as [|c r IH]; intros p Hu Hs.
    - simpl. constructor; [|constructor]. unfold pick. simpl. rewrite Z.eqb_refl.
      destruct (g_dep p); reflexivity.
    - simpl.
      assert (Hpc : (g_u64 p =? g_u64 c) = (g_z p =? g_z c))
        by (apply Hu; [left; reflexivity|right; left; reflexivity]).
      inversion Hs as [|? ? Hs' Hall]; subst. inversion Hall as [|? ? Hle Hall']; subst.
      inversion Hs' as [|? ? Hs'' Hallc]; subst.
      assert (Hu_c : forall a b, In a (c :: r) -> In b (c :: r) -> (g_u64 a =? g_u64 b) = (g_z a =? g_z b))
        by (intros a b Ha Hb; apply Hu; right; assumption).
      assert (Hu_p : forall a b, In a (p :: r) -> In b (p :: r) -> (g_u64 a =? g_u64 b) = (g_z a =? g_z b)).
      { intros a b Ha Hb; apply Hu; simpl in *; tauto. }
      assert (Hs_p : StronglySorted z_le (p :: r)) by (constructor; assumption).
      rewrite Hpc. destruct (Z.eqb_spec (g_z p) (g_z c)) as [E|NE]; simpl.
      + (* same value *)
        destruct (g_dep p && negb (g_dep c)) eqn:E2.
        * apply andb_true_iff in E2. destruct E2 as [Dp Dc]. apply negb_true_iff in Dc.
          specialize (IH c Hu_c Hs'). rewrite Forall_forall in IH. rewrite Forall_forall.
          intros g Hg. specialize (IH g Hg).
          destruct (Z.eq_dec (g_z p) (g_z g)) as [Eg|NEg].
          -- rewrite <- Eg. rewrite pick_cons_dep by assumption. simpl.
             rewrite E, Z.eqb_refl, Dc. simpl.
             rewrite <- Eg, E in IH. rewrite pick_cons_live in IH by assumption. assumption.
          -- rewrite pick_cons_skip by assumption. assumption.
        * specialize (IH p Hu_p Hs_p). rewrite Forall_forall in IH. rewrite Forall_forall.
          intros g Hg. specialize (IH g Hg).
          destruct (Z.eq_dec (g_z p) (g_z g)) as [Eg|NEg].
          -- rewrite <- Eg in *. destruct (g_dep p) eqn:Dp.
             ++ simpl in E2. apply negb_false_iff in E2.
                rewrite pick_cons_dep in * by assumption. simpl.
                rewrite <- E, Z.eqb_refl, E2. simpl. assumption.
             ++ rewrite pick_cons_live in * by assumption. assumption.
          -- rewrite pick_cons_skip in * by assumption.
             rewrite pick_cons_skip by (rewrite <- E; assumption). assumption.
      + (* a new value starts at c *)
        unfold z_le in Hle.
        assert (Hgt : forall h, In h (c :: r) -> g_z p < g_z h).
        { intros h [->|Hh]; [lia|]. rewrite Forall_forall in Hallc. specialize (Hallc h Hh).
          unfold z_le in Hallc. lia. }
        constructor.
        * destruct (g_dep p) eqn:Dp.
          -- rewrite pick_cons_dep by assumption. rewrite find_all_false; [reflexivity|].
             intros h Hh. specialize (Hgt h Hh). apply andb_false_iff. left. apply Z.eqb_neq. lia.
          -- apply pick_cons_live. assumption.
        * specialize (IH c Hu_c Hs'). rewrite Forall_forall in IH. rewrite Forall_forall.
          intros g Hg. rewrite pick_cons_skip; [apply IH; assumption|].
          apply dedupL_incl in Hg. specialize (Hgt g Hg). lia.
  Qed.

  Lemma dedupL_sorted : forall s p,
    (forall a b, In a (p :: s) -> In b (p :: s) -> (g_u64 a =? g_u64 b) = (g_z a =? g_z b)) ->
    StronglySorted z_le (p :: s) ->
    StronglySorted Z.lt (map g_z (dedupL p s)).
  Proof.
    induction s as [|c r IH]; intros p Hu Hs.
    - simpl. constructor; constructor.
    - simpl.
      assert (Hpc : (g_u64 p =? g_u64 c) = (g_z p =? g_z c))
        by (apply Hu; [left; reflexivity|right; left; reflexivity]).
      inversion Hs as [|? ? Hs' Hall]; subst. inversion Hall as [|? ? Hle Hall']; subst.
      inversion Hs' as [|? ? Hs'' Hallc]; subst.
      assert (Hu_c : forall a b, In a (c :: r) -> In b (c :: r) -> (g_u64 a =? g_u64 b) = (g_z a =? g_z b))
        by (intros a b Ha Hb; apply Hu; right; assumption).
      assert (Hu_p : forall a b, In a (p :: r) -> In b (p :: r) -> (g_u64 a =? g_u64 b) = (g_z a =? g_z b)).
      { intros a b Ha Hb; apply Hu; simpl in *; tauto. }
      assert (Hs_p : StronglySorted z_le (p :: r)) by (constructor; assumption).
      rewrite Hpc. destruct (Z.eqb_spec (g_z p) (g_z c)) as [E|NE]; simpl.
      + destruct (g_dep p && negb (g_dep c)); [apply IH|apply IH]; assumption.
      + simpl. constructor; [apply IH; assumption|].
        rewrite Forall_forall. intros v Hv. apply in_map_iff in Hv. destruct Hv as [g [<- Hg]].
        apply dedupL_incl in Hg. unfold z_le in Hle.
        destruct Hg as [->|Hg]; [lia|]. rewrite Forall_forall in Hallc. specialize (Hallc g Hg).
        unfold z_le in Hallc. lia.
  Qed.

  Lemma dedupL_values_in : forall s p v,
    (forall a b, In a (p :: s) -> In b (p :: s) -> (g_u64 a =? g_u64 b) = (g_z a =? g_z b)) ->
    (In v (map g_z (dedupL p s)) <-> In v (map g_z (p :: s))).
  Proof.
    intros s p v Hu. split.
    - intros H. apply in_map_iff in H. destruct H as [g [<- Hg]]. apply in_map. apply dedupL_incl. assumption.
    - revert p Hu. induction s as [|c r IH]; intros p Hu H.
      + assumption.
      + simpl.
        assert (Hpc : (g_u64 p =? g_u64 c) = (g_z p =? g_z c))
          by (apply Hu; [left; reflexivity|right; left; reflexivity]).
        assert (Hu_c : forall a b, In a (c :: r) -> In b (c :: r) -> (g_u64 a =? g_u64 b) = (g_z a =? g_z b))
          by (intros a b Ha Hb; apply Hu; right; assumption).
        assert (Hu_p : forall a b, In a (p :: r) -> In b (p :: r) -> (g_u64 a =? g_u64 b) = (g_z a =? g_z b)).
        { intros a b Ha Hb; apply Hu; simpl in *; tauto. }
        rewrite Hpc. destruct (Z.eqb_spec (g_z p) (g_z c)) as [E|NE]; simpl.
        * destruct (g_dep p && negb (g_dep c)).
          -- apply IH; [assumption|]. simpl in H. simpl. destruct H as [H|[H|H]]; [left; lia|left; assumption|right; assumption].
          -- apply IH; [assumption|]. simpl in H. simpl. destruct H as [H|[H|H]]; [left; assumption|left; lia|right; assumption].
        * simpl in H. destruct H as [H|H]; [left; assumption|]. right. apply IH; assumption.
  Qed.
End DedupSorted.

Lemma StronglySorted_weaken : forall {A} (R R' : A -> A -> Prop) l,
  (forall a b, R a b -> R' a b) -> StronglySorted R l -> StronglySorted R' l.
Proof.
  intros A R R' l HR H. induction H as [|a l Hs IH Hall]; constructor; [assumption|].
  rewrite Forall_forall in *. intros x Hx. apply HR. apply Hall. assumption.
Qed.

Lemma sorted_lt_ext : forall l1 l2, StronglySorted Z.lt l1 -> StronglySorted Z.lt l2 ->
  (forall v, In v l1 <-> In v l2) -> l1 = l2.
Proof.
  induction l1 as [|a r1 IH]; intros l2 H1 H2 Hext.
  - destruct l2 as [|b r2]; [reflexivity|]. exfalso. apply (proj2 (Hext b)). left. reflexivity.
  - destruct l2 as [|b r2]; [exfalso; apply (proj1 (Hext a)); left; reflexivity|].
    inversion H1 as [|? ? Hs1 Ha]; subst. inversion H2 as [|? ? Hs2 Hb]; subst.
    rewrite Forall_forall in Ha, Hb.
    assert (E : a = b).
    { destruct (proj1 (Hext a) (or_introl eq_refl)) as [E|Hin]; [symmetry; assumption|].
      destruct (proj2 (Hext b) (or_introl eq_refl)) as [E|Hin']; [assumption|].
      specialize (Ha _ Hin'). specialize (Hb _ Hin). lia. }
    subst b. f_equal. apply IH; try assumption.
    intros v. split; intros Hv.
    + destruct (proj1 (Hext v) (or_intror Hv)) as [E|Hin]; [|assumption].
      specialize (Ha _ Hv). lia.
    + destruct (proj2 (Hext v) (or_intror Hv)) as [E|Hin]; [|assumption].
      specialize (Hb _ Hv). lia.
Qed.

(* ---- the specification side *)
Lemma values_spec_in : forall cs v, In v (values_spec cs) <-> In v (map c_val cs).
Proof.
  intros cs v. unfold values_spec. rewrite isort_in. apply nodup_In.
Qed.

Lemma values_spec_sorted : forall cs, StronglySorted Z.lt (values_spec cs).
Proof.
  intros cs. unfold values_spec.
  apply (StronglySorted_weaken (fun a b => Z.ltb a b = true)); [intros a b H; apply Z.ltb_lt; assumption|].
  apply (isort_sorted Z.ltb (fun _ => True)).
  - intros a b c _ _ _ H1 H2. apply Z.ltb_lt in H1, H2. apply Z.ltb_lt. lia.
  - intros a b _ _ Hne. destruct (Z.lt_total a b) as [H|[H|H]]; [left|contradiction|right]; apply Z.ltb_lt; assumption.
  - apply Forall_forall. intros; exact I.
  - apply NoDup_nodup.
Qed.

Lemma min_string_spec : forall l x,
  In (min_string x l) (x :: l) /\ str_leb (min_string x l) x = true
  /\ forall m, In m l -> str_leb (min_string x l) m = true.
Proof.
  induction l as [|y r IH]; intros x; simpl.
  - split; [left; reflexivity|]. split; [apply str_leb_refl|]. intros m [].
  - destruct (str_ltb y x) eqn:E.
    + destruct (IH y) as [Hin [Hle Hall]]. split; [right; assumption|].
      split; [eapply str_leb_trans; [exact Hle|apply str_ltb_leb; assumption]|].
      intros m [<-|Hm]; [assumption|apply Hall; assumption].
    + destruct (IH x) as [Hin [Hle Hall]]. split.
      * destruct Hin as [Hin|Hin]; [left; assumption|right; right; assumption].
      * split; [assumption|]. intros m [<-|Hm]; [|apply Hall; assumption].
        eapply str_leb_trans; [exact Hle|]. unfold str_leb. rewrite E. reflexivity.
Qed.

Lemma least_spec : forall l n, least l = Some n -> In n l /\ forall m, In m l -> str_leb n m = true.
Proof.
  intros [|x r] n H; simpl in H; [discriminate|]. inversion H; subst.
  destruct (min_string_spec r x) as [Hin [Hle Hall]]. split; [assumption|].
  intros m [<-|Hm]; [assumption|apply Hall; assumption].
Qed.

Lemma least_none : forall l, least l = None -> l = [].
Proof. intros [|x r] H; [reflexivity|discriminate]. Qed.

Lemma least_some : forall l, l <> [] -> exists n, least l = Some n.
Proof. intros [|x r] H; [contradiction|eexists; reflexivity]. Qed.

Lemma find_first_sorted : forall {A} (R : A -> A -> Prop) (f : A -> bool) L g,
  StronglySorted R L -> find f L = Some g ->
  In g L /\ f g = true /\ forall h, In h L -> f h = true -> h = g \/ R g h.
Proof.
  intros A R f L g Hs. induction Hs as [|a l Hs IH Hall]; intros H; simpl in H.
  - discriminate.
  - destruct (f a) eqn:E.
    + inversion H; subst. split; [left; reflexivity|]. split; [assumption|].
      intros h [<-|Hh] _; [left; reflexivity|right]. rewrite Forall_forall in Hall. apply Hall. assumption.
    + destruct (IH H) as [Hin [Hf Hfirst]]. split; [right; assumption|]. split; [assumption|].
      intros h [<-|Hh] Hfh; [congruence|]. apply Hfirst; assumption.
Qed.

Section Primary.
  Variable ty : ety.
  Hypothesis Hty : ty_ok ty.
  Variable cs : list const.
  Hypothesis Hrange : Forall (fun c => in_range ty (c_val c) = true) cs.
  Hypothesis Hnames : NoDup (map c_name cs).

  Let L := sort_values cs.

  Lemma L_in_const : forall g, In g L <-> exists c, In c cs /\ g = to_gvalue c.
  Proof.
    intros g. unfold L. rewrite (sort_values_in cs). unfold inL, gvals. rewrite in_map_iff.
    split; intros [c [H1 H2]]; exists c; split; auto.
  Qed.

  Lemma L_sorted_z : StronglySorted z_le L.
  Proof.
    eapply StronglySorted_weaken; [|apply (sort_values_sorted ty Hty cs Hrange Hnames)].
    intros a b H. apply lex_z_le. assumption.
  Qed.

  Lemma L_u64 : forall a b, In a L -> In b L -> (g_u64 a =? g_u64 b) = (g_z a =? g_z b).
  Proof.
    intros a b Ha Hb. apply (u64_eq_z_L ty Hty cs Hrange); apply (sort_values_in cs); assumption.
  Qed.

  Lemma dedup_values : map g_z (dedup L) = values_spec cs.
  Proof.
    apply sorted_lt_ext.
    - rewrite dedup_L. pose proof L_sorted_z as Hs. pose proof L_u64 as Hu.
      destruct L as [|p s]; [constructor|]. apply dedupL_sorted; assumption.
    - apply values_spec_sorted.
    - intros v. rewrite values_spec_in. rewrite dedup_L. pose proof L_u64 as Hu.
      assert (HL : In v (map g_z L) <-> In v (map c_val cs)).
      { split; intros H; apply in_map_iff in H; destruct H as [x [<- Hx]].
        - apply L_in_const in Hx. destruct Hx as [c [Hc ->]]. apply in_map_iff. exists c. split; [reflexivity|assumption].
        - apply in_map_iff. exists (to_gvalue x). split; [reflexivity|]. apply L_in_const. exists x. split; [assumption|reflexivity]. }
      rewrite <- HL. destruct L as [|p s]; [reflexivity|]. apply dedupL_values_in. assumption.
  Qed.

  Lemma dedup_pick : forall g, In g (dedup L) -> pick L (g_z g) = Some g.
  Proof.
    intros g Hg. rewrite dedup_L in Hg. pose proof L_sorted_z as Hs. pose proof L_u64 as Hu.
    destruct L as [|p s]; [contradiction|].
    pose proof (dedupL_pick s p Hu Hs) as H. rewrite Forall_forall in H. apply H. assumption.
  Qed.

  Lemma dedup_incl_L : forall g, In g (dedup L) -> In g L.
  Proof.
    intros g Hg. rewrite dedup_L in Hg. destruct L as [|p s]; [contradiction|]. apply dedupL_incl. assumption.
  Qed.

  (* the constant picked for a value carries the primary name *)
  Lemma pick_primary : forall v g, pick L v = Some g -> g_z g = v /\ primary cs v = Some (g_name g).
  Proof.
    intros v g H. unfold pick in H.
    pose proof (sort_values_sorted ty Hty cs Hrange Hnames) as Hs. fold L in Hs.
    assert (Hname_le : forall a b, lex_less a b = true -> g_z a = g_z b -> str_leb (g_name a) (g_name b) = true).
    { intros a b Hl Ez. unfold lex_less in Hl. apply orb_true_iff in Hl. destruct Hl as [Hl|Hl].
      - apply Z.ltb_lt in Hl. lia.
      - apply andb_true_iff in Hl. destruct Hl as [_ Hl]. apply str_ltb_leb. assumption. }
    unfold primary.
    set (mine := filter (fun c => c_val c =? v) cs).
    set (live := filter (fun c => negb (c_dep c)) mine).
    assert (Hmine : forall c, In c mine <-> In c cs /\ c_val c = v).
    { intros c. unfold mine. rewrite filter_In. rewrite Z.eqb_eq. tauto. }
    assert (Hlive : forall c, In c live <-> In c cs /\ c_val c = v /\ c_dep c = false).
    { intros c. unfold live. rewrite filter_In, Hmine, negb_true_iff. tauto. }
    destruct (find (fun g0 => (g_z g0 =? v) && negb (g_dep g0)) L) as [g1|] eqn:F1.
    - (* a non-deprecated constant exists *)
      inversion H; subst g1. clear H.
      destruct (find_first_sorted _ _ _ _ Hs F1) as [Hin [Hf Hfirst]].
      apply andb_true_iff in Hf. destruct Hf as [Hz Hd]. apply Z.eqb_eq in Hz. apply negb_true_iff in Hd.
      split; [assumption|].
      apply L_in_const in Hin. destruct Hin as [c [Hc ->]]. cbn [to_gvalue g_z g_dep g_name] in *.
      assert (Hcl : In c live) by (apply Hlive; auto).
      destruct (least_some (map c_name live)) as [n Hn].
      { intro E. apply map_eq_nil in E. rewrite E in Hcl. contradiction. }
      rewrite Hn. f_equal. destruct (least_spec _ _ Hn) as [Hnin Hnle].
      apply in_map_iff in Hnin. destruct Hnin as [c' [<- Hc']].
      apply str_leb_antisym.
      + apply Hnle. apply in_map. assumption.
      + apply Hlive in Hc'. destruct Hc' as [Hc'1 [Hc'2 Hc'3]].
        destruct (Hfirst (to_gvalue c')) as [E|Hl].
        * apply L_in_const. exists c'. auto.
        * cbn [to_gvalue g_z g_dep]. rewrite Hc'2, Z.eqb_refl, Hc'3. reflexivity.
        * apply (f_equal g_name) in E. cbn [to_gvalue g_name] in E. rewrite E. apply str_leb_refl.
        * apply (Hname_le _ _ Hl). cbn [to_gvalue g_z]. lia.
    - (* every constant of value v is deprecated *)
      destruct (find_first_sorted _ _ _ _ Hs H) as [Hin [Hz Hfirst]]. apply Z.eqb_eq in Hz.
      split; [assumption|].
      assert (Hnolive : live = []).
      { assert (Hno : forall c', ~ In c' live).
        { intros c' Hc'. apply Hlive in Hc'. destruct Hc' as [Hc'1 [Hc'2 Hc'3]].
          pose proof (find_none _ _ F1 (to_gvalue c')) as Hn.
          assert (Hin' : In (to_gvalue c') L) by (apply L_in_const; exists c'; auto).
          specialize (Hn Hin'). cbn [to_gvalue g_z g_dep] in Hn. rewrite Hc'2, Z.eqb_refl, Hc'3 in Hn. discriminate. }
        clear Hlive. destruct live as [|c' r']; [reflexivity|]. exfalso. apply (Hno c'). left. reflexivity. }
      rewrite Hnolive. simpl.
      apply L_in_const in Hin. destruct Hin as [c [Hc ->]]. cbn [to_gvalue g_z g_dep g_name] in *.
      assert (Hcm : In c mine) by (apply Hmine; auto).
      destruct (least_some (map c_name mine)) as [n Hn].
      { intro E. apply map_eq_nil in E. rewrite E in Hcm. contradiction. }
      rewrite Hn. f_equal. destruct (least_spec _ _ Hn) as [Hnin Hnle].
      apply in_map_iff in Hnin. destruct Hnin as [c' [<- Hc']].
      apply str_leb_antisym.
      + apply Hnle. apply in_map. assumption.
      + apply Hmine in Hc'. destruct Hc' as [Hc'1 Hc'2].
        destruct (Hfirst (to_gvalue c')) as [E|Hl].
        * apply L_in_const. exists c'. auto.
        * cbn [to_gvalue g_z]. apply Z.eqb_eq. assumption.
        * apply (f_equal g_name) in E. cbn [to_gvalue g_name] in E. rewrite E. apply str_leb_refl.
        * apply (Hname_le _ _ Hl). cbn [to_gvalue g_z]. lia.
  Qed.

  Lemma primary_none : forall v, ~ In v (map c_val cs) -> primary cs v = None.
  Proof.
    intros v Hv. unfold primary.
    assert (E : filter (fun c => c_val c =? v) cs = []).
    { destruct (filter (fun c => c_val c =? v) cs) as [|c r] eqn:F; [reflexivity|]. exfalso.
      assert (Hc : In c (filter (fun c => c_val c =? v) cs)) by (rewrite F; left; reflexivity).
      apply filter_In in Hc. destruct Hc as [Hc Hz]. apply Z.eqb_eq in Hz. apply Hv. rewrite <- Hz. apply in_map. assumption. }
    rewrite E. reflexivity.
  Qed.
End Primary.

(* ================================================================== Part 3: behaviour of the emitted code *)

Definition wf_defn (d : defn) : Prop :=
  ty_ok (d_ty d)
  /\ Forall (fun c => in_range (d_ty d) (c_val c) = true) (d_consts d)
  /\ NoDup (map c_name (d_consts d)).

Lemma mk_tables_built : forall d o vs cols t, mk_tables d o vs cols = Built t ->
  build_ok o vs cols = true /\
  t = {| t_ty := d_ty d; t_opts := o; t_all := vs; t_dedup := dedup vs;
         t_binsearch := Nat.ltb 15 (length vs); t_cols := cols |}.
Proof.
  intros d o vs cols t H. unfold mk_tables in H. destruct (build_ok o vs cols); [|discriminate].
  inversion H. split; reflexivity.
Qed.

Lemma sort_values_length : forall cs, length (sort_values cs) = length cs.
Proof. intros cs. unfold sort_values. rewrite isort_length, map_length. reflexivity. Qed.

Lemma gen_built : forall d o t, gen d o = Built t ->
  t_all t = sort_values (d_consts d) /\ t_dedup t = dedup (sort_values (d_consts d))
  /\ t_ty t = d_ty d /\ t_opts t = o
  /\ t_binsearch t = Nat.ltb 15 (length (d_consts d))
  /\ build_ok o (t_all t) (t_cols t) = true.
Proof.
  intros d o t H. unfold gen in H.
  assert (Hmk : forall cols, mk_tables d o (sort_values (d_consts d)) cols = Built t ->
    t_all t = sort_values (d_consts d) /\ t_dedup t = dedup (sort_values (d_consts d))
    /\ t_ty t = d_ty d /\ t_opts t = o
    /\ t_binsearch t = Nat.ltb 15 (length (d_consts d))
    /\ build_ok o (t_all t) (t_cols t) = true).
  { intros cols Hm. apply mk_tables_built in Hm. destruct Hm as [Hb ->]. cbn.
    rewrite sort_values_length. repeat split; try reflexivity. assumption. }
  destruct (sort_values (d_consts d)) as [|first rest] eqn:Es; [discriminate|].
  destruct (existsb (fun v => reserved_name o (g_name v)) (first :: rest)); [discriminate|].
  destruct (o_ci o && negb (str_nodupb (map (fun v => to_lower (g_name v)) (first :: rest)))); [discriminate|].
  destruct (o_notraits o); [apply (Hmk _ H)|].
  destruct (existsb (fun v => existsb (fun c => reserved_cell_var (cl_var c)) (g_cells v)) (first :: rest)); [discriminate|].
  destruct (first_columns d o first (g_cells first)) as [cols0| | |]; try discriminate.
  destruct (Nat.eqb (length cols0) 0).
  - destruct (forallb _ _); [apply (Hmk _ H)|discriminate].
  - destruct (negb (validate_counts (first :: rest) (length cols0))); [discriminate|].
    destruct (existsb _ rest); [discriminate|].
    destruct (negb (validate_parsable _)); [discriminate|].
    destruct (negb (validate_trait_names _ _)); [discriminate|]. apply (Hmk _ H).
Qed.

Section Behaviour.
  Variable d : defn.
  Variable o : opts.
  Variable t : tables.
  Hypothesis Hwf : wf_defn d.
  Hypothesis Hgen : gen d o = Built t.

  Let cs := d_consts d.
  Let L := sort_values cs.

  Lemma B_all : t_all t = L.
  Proof. destruct (gen_built _ _ _ Hgen) as [H _]. exact H. Qed.
  Lemma B_dedup : t_dedup t = dedup L.
  Proof. destruct (gen_built _ _ _ Hgen) as [_ [H _]]. exact H. Qed.
  Lemma B_ty : t_ty t = d_ty d.
  Proof. destruct (gen_built _ _ _ Hgen) as [_ [_ [H _]]]. exact H. Qed.
  Lemma B_opts : t_opts t = o.
  Proof. destruct (gen_built _ _ _ Hgen) as [_ [_ [_ [H _]]]]. exact H. Qed.
  Lemma B_build : build_ok o L (t_cols t) = true.
  Proof. destruct (gen_built _ _ _ Hgen) as [_ [_ [_ [_ [_ H]]]]]. rewrite B_all in H. exact H. Qed.

  Lemma sem_values_spec : sem_values t = values_spec cs.
  Proof.
    unfold sem_values. rewrite B_dedup. destruct Hwf as [H1 [H2 H3]].
    apply (dedup_values (d_ty d) H1 cs H2 H3).
  Qed.

  Lemma sem_isvalid_spec : forall e, sem_isvalid t e = true <-> In e (values_spec cs).
  Proof.
    intros e. unfold sem_isvalid. rewrite sem_values_spec.
    destruct (t_binsearch t).
    - apply binsearch_found. apply values_spec_sorted.
    - rewrite existsb_exists. split.
      + intros [x [Hin Heq]]. apply Z.eqb_eq in Heq. subst. assumption.
      + intros H. exists e. split; [assumption|apply Z.eqb_refl].
  Qed.

  Lemma sem_string_spec : forall e, sem_string t e = string_spec d e.
  Proof.
    intros e. unfold sem_string, string_spec. rewrite B_dedup, B_ty. fold cs.
    destruct Hwf as [H1 [H2 H3]].
    destruct (find (fun g => g_z g =? e) (dedup L)) as [g|] eqn:F.
    - apply find_some in F. destruct F as [Hin Hz]. apply Z.eqb_eq in Hz.
      pose proof (dedup_pick (d_ty d) H1 cs H2 H3 g Hin) as Hp.
      destruct (pick_primary (d_ty d) H1 cs H2 H3 _ _ Hp) as [_ Hprim].
      rewrite Hz in Hprim. rewrite Hprim. reflexivity.
    - rewrite primary_none; [reflexivity|].
      intro Hin. apply values_spec_in in Hin.
      rewrite <- (dedup_values (d_ty d) H1 cs H2 H3) in Hin.
      apply in_map_iff in Hin. destruct Hin as [g [Hz Hg]].
      pose proof (find_none _ _ F g Hg) as Hn. simpl in Hn. rewrite Hz, Z.eqb_refl in Hn. discriminate.
  Qed.

  Lemma sem_stringvalues_spec : sem_stringvalues t = map (string_spec d) (values_spec cs).
  Proof.
    rewrite <- sem_values_spec. unfold sem_stringvalues, sem_values. rewrite map_map.
    apply map_ext_in. intros g Hg. rewrite <- sem_string_spec.
    unfold sem_string.
    (* the constant g is the one found for its own value: values are pairwise distinct *)
    destruct Hwf as [H1 [H2 H3]]. rewrite B_dedup in *.
    destruct (find (fun g0 => g_z g0 =? g_z g) (dedup L)) as [g'|] eqn:F.
    - apply find_some in F. destruct F as [Hin Hz]. apply Z.eqb_eq in Hz.
      pose proof (dedup_pick (d_ty d) H1 cs H2 H3 g Hg) as Hp.
      pose proof (dedup_pick (d_ty d) H1 cs H2 H3 g' Hin) as Hp'.
      rewrite Hz in Hp'. rewrite Hp in Hp'. inversion Hp'. reflexivity.
    - pose proof (find_none _ _ F g Hg) as Hn. simpl in Hn. rewrite Z.eqb_refl in Hn. discriminate.
  Qed.

  Lemma sem_stringvalues_string : sem_stringvalues t = map (sem_string t) (sem_values t).
  Proof.
    rewrite sem_stringvalues_spec, sem_values_spec. apply map_ext. intros e. symmetry. apply sem_string_spec.
  Qed.

  (* ---- Parse *)
  Definition trait_consts (g : gvalue) : list dyn :=
    dyn_dedup_from [DStr (g_name g)]
      (flat_map (fun c => if col_parsable c then owned_cells c g else []) (t_cols t)).
  (* x is one of the parsable trait constants listed in the Parse switch *)
  Definition is_trait_const (x : dyn) : Prop := exists g, In g L /\ In x (trait_consts g).

  Lemma case_consts_split : forall g, case_consts (t_cols t) g = DStr (g_name g) :: trait_consts g.
  Proof. reflexivity. Qed.

  Lemma payload_eqb_eq : forall a b, payload_eqb a b = true <-> a = b.
  Proof.
    intros [x|x|x] [y|y|y]; simpl; split; intro H; try discriminate; try congruence.
    - apply String.eqb_eq in H. congruence.
    - inversion H. apply String.eqb_refl.
    - apply Z.eqb_eq in H. congruence.
    - inversion H. apply Z.eqb_refl.
    - apply Bool.eqb_prop in H. congruence.
    - inversion H. apply Bool.eqb_reflx.
  Qed.

  Lemma dyn_eqb_eq : forall a b, dyn_eqb a b = true <-> a = b.
  Proof.
    intros [ta pa] [tb pb]. unfold dyn_eqb. simpl. rewrite andb_true_iff, String.eqb_eq, payload_eqb_eq.
    split; [intros [-> ->]; reflexivity|intros H; inversion H; auto].
  Qed.

  Lemma existsb_dyn_In : forall x l, existsb (dyn_eqb x) l = true <-> In x l.
  Proof.
    intros x l. rewrite existsb_exists. split.
    - intros [y [Hin Heq]]. apply dyn_eqb_eq in Heq. subst. assumption.
    - intros H. exists x. split; [assumption|apply dyn_eqb_eq; reflexivity].
  Qed.

  Lemma dyn_dedup_from_In : forall l seen x,
    In x (dyn_dedup_from seen l) <-> In x l /\ ~ In x seen.
  Proof.
    induction l as [|a r IH]; intros seen x; simpl.
    - tauto.
    - destruct (existsb (dyn_eqb a) seen) eqn:E.
      + apply existsb_dyn_In in E. rewrite IH. split.
        * intros [H1 H2]. auto.
        * intros [[->|H1] H2]; [contradiction|auto].
      + assert (Hna : ~ In a seen) by (intro H; apply existsb_dyn_In in H; congruence).
        simpl. rewrite IH. simpl. split.
        * intros [<-|[H1 H2]]; [auto|]. split; [auto|]. intro H. apply H2. right. assumption.
        * intros [[<-|H1] H2]; [left; reflexivity|].
          destruct (dyn_eqb a x) eqn:Eax.
          -- apply dyn_eqb_eq in Eax. left. assumption.
          -- right. split; [assumption|]. intros [Hax|Hs]; [|contradiction].
             subst. assert (T : dyn_eqb x x = true) by (apply dyn_eqb_eq; reflexivity). congruence.
  Qed.

  Lemma dyn_dedup_In : forall l x, In x (dyn_dedup l) <-> In x l.
  Proof. intros l x. unfold dyn_dedup. rewrite dyn_dedup_from_In. simpl. tauto. Qed.

  Lemma dyn_nodupb_NoDup : forall l, dyn_nodupb l = true -> NoDup l.
  Proof.
    induction l as [|x r IH]; simpl; intros H; [constructor|].
    apply andb_true_iff in H. destruct H as [Hn Hr]. apply negb_true_iff in Hn.
    constructor; [|apply IH; assumption]. intro Hin. apply existsb_dyn_In in Hin. congruence.
  Qed.

  Lemma NoDup_app_disjoint : forall {A} (l1 l2 : list A) x, NoDup (l1 ++ l2) -> In x l1 -> In x l2 -> False.
  Proof.
    intros A l1. induction l1 as [|a r IH]; intros l2 x Hnd H1 H2; simpl in *; [contradiction|].
    inversion Hnd as [|? ? Hna Hr]; subst. destruct H1 as [->|H1].
    - apply Hna. apply in_or_app. right. assumption.
    - eapply IH; eauto.
  Qed.

  Lemma NoDup_app_right : forall {A} (l1 l2 : list A), NoDup (l1 ++ l2) -> NoDup l2.
  Proof.
    intros A l1. induction l1 as [|a r IH]; intros l2 H; simpl in *; [assumption|].
    inversion H; subst. apply IH. assumption.
  Qed.

  Lemma NoDup_flat_map_unique : forall {A B} (f : A -> list B) l a b x,
    NoDup l -> NoDup (flat_map f l) -> In a l -> In b l -> In x (f a) -> In x (f b) -> a = b.
  Proof.
    intros A B f l. induction l as [|h r IH]; intros a b x Hl Hnd Ha Hb Hxa Hxb; simpl in *; [contradiction|].
    inversion Hl as [|? ? Hh Hr]; subst.
    assert (Hdis : forall y c, In c r -> In y (f h) -> In y (f c) -> False).
    { intros y c Hc Hy1 Hy2. eapply NoDup_app_disjoint; [exact Hnd|exact Hy1|].
      apply in_flat_map. exists c. split; assumption. }
    destruct Ha as [<-|Ha]; destruct Hb as [<-|Hb]; try reflexivity.
    - exfalso. eapply Hdis; eauto.
    - exfalso. eapply Hdis; eauto.
    - eapply IH; eauto. eapply NoDup_app_right. exact Hnd.
  Qed.

  Lemma L_NoDup : NoDup L.
  Proof. destruct Hwf as [H1 [H2 H3]]. apply (sort_values_NoDup cs H3). Qed.

  Lemma L_const : forall c, In c cs -> In (to_gvalue c) L.
  Proof.
    intros c Hc. unfold L. apply (sort_values_in cs). unfold inL, gvals. apply in_map. assumption.
  Qed.

  Lemma L_inv : forall g, In g L -> exists c, In c cs /\ g = to_gvalue c.
  Proof.
    intros g Hg. unfold L in Hg. apply (sort_values_in cs) in Hg. unfold inL, gvals in Hg.
    apply in_map_iff in Hg. destruct Hg as [c [E Hc]]. exists c. split; auto.
  Qed.

  Lemma cases_NoDup : NoDup (flat_map (case_consts (t_cols t)) L).
  Proof.
    pose proof B_build as Hb. unfold build_ok in Hb.
    apply andb_true_iff in Hb. destruct Hb as [Hb _]. apply andb_true_iff in Hb. destruct Hb as [Hb _].
    apply andb_true_iff in Hb. destruct Hb as [_ Hb]. apply dyn_nodupb_NoDup. assumption.
  Qed.

  Lemma lower_NoDup : o_ci o = true -> NoDup (map (fun v => to_lower (g_name v)) L).
  Proof.
    intros Hci. pose proof B_build as Hb. unfold build_ok in Hb.
    apply andb_true_iff in Hb. destruct Hb as [Hb _]. apply andb_true_iff in Hb. destruct Hb as [_ Hb].
    rewrite Hci in Hb. simpl in Hb. apply str_nodupb_NoDup. assumption.
  Qed.

  Lemma find_exists : forall {A} (f : A -> bool) l x, In x l -> f x = true -> exists y, find f l = Some y.
  Proof.
    intros A f l x Hin Hf. destruct (find f l) as [y|] eqn:F; [eexists; reflexivity|].
    pose proof (find_none _ _ F x Hin). congruence.
  Qed.

  (* every constant name parses to the constant's value *)
  Lemma parse_name : forall c, In c cs -> sem_parse_string t (c_name c) = Some (c_val c).
  Proof.
    intros c Hc. unfold sem_parse_string, sem_parse. rewrite B_all.
    set (f := fun g => existsb (dyn_eqb (DStr (c_name c))) (case_consts (t_cols t) g)).
    assert (Hf0 : f (to_gvalue c) = true).
    { unfold f. apply existsb_dyn_In. rewrite case_consts_split. left. reflexivity. }
    destruct (find_exists f L _ (L_const c Hc) Hf0) as [g' F]. rewrite F.
    apply find_some in F. destruct F as [Hin' Hf']. unfold f in Hf'. apply existsb_dyn_In in Hf'.
    assert (E : g' = to_gvalue c).
    { apply (NoDup_flat_map_unique (case_consts (t_cols t)) L g' (to_gvalue c) (DStr (c_name c))).
      - apply L_NoDup.
      - apply cases_NoDup.
      - assumption.
      - apply L_const. assumption.
      - assumption.
      - rewrite case_consts_split. left. reflexivity. }
    rewrite E. reflexivity.
  Qed.

  (* with -caseInsensitive every case variant of a name parses to the constant's value,
     unless the string is itself a parsable trait constant *)
  Lemma parse_name_ci : forall c s, o_ci o = true -> In c cs -> to_lower s = to_lower (c_name c) ->
    ~ is_trait_const (DStr s) -> sem_parse_string t s = Some (c_val c).
  Proof.
    intros c s Hci Hc Hlow Hnt. unfold sem_parse_string, sem_parse. rewrite B_all, B_opts, Hci.
    assert (Huniq : forall g, In g L -> to_lower (g_name g) = to_lower s -> g = to_gvalue c).
    { intros g Hg Hl. apply (NoDup_map_inj_in (fun v => to_lower (g_name v)) L).
      - apply lower_NoDup. assumption.
      - assumption.
      - apply L_const. assumption.
      - simpl. rewrite Hl. assumption. }
    destruct (find _ L) as [g'|] eqn:F.
    - apply find_some in F. destruct F as [Hin' Hf']. apply existsb_dyn_In in Hf'.
      rewrite case_consts_split in Hf'. destruct Hf' as [E|Ht].
      + inversion E as [En]. rewrite (Huniq g' Hin'); [reflexivity|]. rewrite En. reflexivity.
      + exfalso. apply Hnt. exists g'. split; assumption.
    - cbn [DStr dval dty]. rewrite String.eqb_refl.
      set (f := fun g => (to_lower (g_name g) =? to_lower s)%string).
      assert (Hf0 : f (to_gvalue c) = true).
      { unfold f. cbn [to_gvalue g_name]. rewrite Hlow. apply String.eqb_refl. }
      destruct (find_exists f L _ (L_const c Hc) Hf0) as [g'' F']. rewrite F'.
      apply find_some in F'. destruct F' as [Hin'' Hf'']. unfold f in Hf''. apply String.eqb_eq in Hf''.
      rewrite (Huniq g'' Hin'' Hf''). reflexivity.
  Qed.

  (* every other string is rejected *)
  Lemma parse_reject : forall s,
    (forall c, In c cs -> c_name c <> s) ->
    (o_ci o = true -> forall c, In c cs -> to_lower (c_name c) <> to_lower s) ->
    ~ is_trait_const (DStr s) -> sem_parse_string t s = None.
  Proof.
    intros s Hname Hlow Hnt. unfold sem_parse_string, sem_parse. rewrite B_all, B_opts.
    rewrite find_all_false.
    - destruct (o_ci o) eqn:Hci; [|reflexivity]. cbn [DStr dval dty]. rewrite String.eqb_refl.
      rewrite find_all_false; [reflexivity|].
      intros g Hg. apply String.eqb_neq. destruct (L_inv g Hg) as [c [Hc ->]]. cbn [to_gvalue g_name].
      apply Hlow; [reflexivity|assumption].
    - intros g Hg. destruct (existsb (dyn_eqb (DStr s)) (case_consts (t_cols t) g)) eqn:E; [|reflexivity].
      exfalso. apply existsb_dyn_In in E. rewrite case_consts_split in E. destruct E as [E|E].
      + inversion E as [En]. destruct (L_inv g Hg) as [c [Hc ->]]. cbn [to_gvalue g_name] in En.
        apply (Hname c Hc). assumption.
      + apply Hnt. exists g. split; assumption.
  Qed.
End Behaviour.

(* generation is defined under -caseInsensitive only when the lower-cased names are pairwise
   distinct (validateCaseInsensitiveNames): the premise under which C04_parse_name_ci can map
   every case variant to ONE constant *)
Lemma built_ci_names_distinct : forall d o t, wf_defn d -> gen d o = Built t -> o_ci o = true ->
  NoDup (map (fun c => to_lower (c_name c)) (d_consts d)).
Proof.
  intros d o t [H1 [H2 H3]] Hg Hci.
  pose proof (lower_NoDup d o t Hg Hci) as Hl.
  assert (Hp : Permutation (map (fun v => to_lower (g_name v)) (sort_values (d_consts d)))
                           (map (fun c => to_lower (c_name c)) (d_consts d))).
  { eapply perm_trans.
    - apply Permutation_map. apply sort_values_perm.
    - unfold gvals. rewrite map_map. apply Permutation_refl. }
  eapply Permutation_NoDup; [exact Hp|exact Hl].
Qed.

Lemma ci_collision_rejected : forall d o, o_ci o = true -> sort_values (d_consts d) <> [] ->
  str_nodupb (map (fun v => to_lower (g_name v)) (sort_values (d_consts d))) = false -> gen d o = GenErr.
Proof.
  intros d o Hci Hne Hdup. unfold gen. destruct (sort_values (d_consts d)) as [|first rest]; [contradiction|].
  rewrite Hci, Hdup. destruct (existsb _ (first :: rest)); reflexivity.
Qed.

(* any result of Go's unstable sort.Sort on the collected constants *)
Lemma sort_any : forall d s, wf_defn d ->
  Permutation s (map to_gvalue (d_consts d)) ->
  StronglySorted (fun a b => g_less b a = false) s -> s = sort_values (d_consts d).
Proof.
  intros d s [H1 [H2 H3]] Hp Hs. apply (sort_values_unique (d_ty d) H1 (d_consts d) H2 H3); assumption.
Qed.

(* the pinned ValueDeduplicatedSet (addedDeprecated never reset) picks the LAST non-deprecated name *)
Definition abc_consts : list const :=
  [ {| c_name := "A"; c_val := 1; c_dep := true; c_cells := [] |};
    {| c_name := "B"; c_val := 1; c_dep := false; c_cells := [] |};
    {| c_name := "C"; c_val := 1; c_dep := false; c_cells := [] |} ].
Lemma dedup_orig_abc :
  map g_name (dedup_orig (sort_values abc_consts)) = ["C"] /\ primary abc_consts 1 = Some "B"
  /\ map g_name (dedup (sort_values abc_consts)) = ["B"].
Proof. vm_compute. repeat split. Qed.

(* what "primary name" means: the least non-deprecated name of the value, or the least name
   when every name of the value is deprecated *)
Lemma primary_meaning : forall cs v n, primary cs v = Some n ->
  exists c, In c cs /\ c_val c = v /\ c_name c = n /\
    ((c_dep c = false /\
      forall c', In c' cs -> c_val c' = v -> c_dep c' = false -> str_leb n (c_name c') = true)
     \/ ((forall c', In c' cs -> c_val c' = v -> c_dep c' = true) /\
         forall c', In c' cs -> c_val c' = v -> str_leb n (c_name c') = true)).
Proof.
  intros cs v n H. unfold primary in H.
  set (mine := filter (fun c => c_val c =? v) cs) in *.
  set (live := filter (fun c => negb (c_dep c)) mine) in *.
  assert (Hmine : forall c, In c mine <-> In c cs /\ c_val c = v).
  { intros c. unfold mine. rewrite filter_In. rewrite Z.eqb_eq. tauto. }
  assert (Hlive : forall c, In c live <-> In c cs /\ c_val c = v /\ c_dep c = false).
  { intros c. unfold live. rewrite filter_In, Hmine, negb_true_iff. tauto. }
  destruct (least (map c_name live)) as [m|] eqn:E1.
  - inversion H; subst m. destruct (least_spec _ _ E1) as [Hin Hle].
    apply in_map_iff in Hin. destruct Hin as [c [En Hc]]. apply Hlive in Hc. destruct Hc as [Hc1 [Hc2 Hc3]].
    exists c. repeat split; try assumption. left. split; [assumption|].
    intros c' H1 H2 H3. apply Hle. apply in_map. apply Hlive. auto.
  - apply least_none in E1. apply map_eq_nil in E1.
    destruct (least_spec _ _ H) as [Hin Hle].
    apply in_map_iff in Hin. destruct Hin as [c [En Hc]]. apply Hmine in Hc. destruct Hc as [Hc1 Hc2].
    exists c. repeat split; try assumption. right. split.
    + intros c' H1 H2. destruct (c_dep c') eqn:D; [reflexivity|]. exfalso.
      assert (Hl : In c' live) by (apply Hlive; auto). rewrite E1 in Hl. contradiction.
    + intros c' H1 H2. apply Hle. apply in_map. apply Hmine. auto.
Qed.

Lemma primary_some : forall cs v, In v (map c_val cs) -> exists n, primary cs v = Some n.
Proof.
  intros cs v Hv. apply in_map_iff in Hv. destruct Hv as [c [Ev Hc]]. unfold primary.
  destruct (least (map c_name (filter (fun c0 => negb (c_dep c0)) (filter (fun c0 => c_val c0 =? v) cs)))) as [n|];
    [eexists; reflexivity|].
  apply least_some. intro E. apply map_eq_nil in E.
  assert (Hin : In c (filter (fun c0 => c_val c0 =? v) cs)) by (apply filter_In; split; [assumption|apply Z.eqb_eq; assumption]).
  rewrite E in Hin. contradiction.
Qed.

Lemma values_spec_meaning : forall cs,
  StronglySorted Z.lt (values_spec cs) /\ forall v, In v (values_spec cs) <-> In v (map c_val cs).
Proof. intros cs. split; [apply values_spec_sorted|apply values_spec_in]. Qed.

Lemma string_spec_defined : forall d v, In v (map c_val (d_consts d)) ->
  exists n, primary (d_consts d) v = Some n /\ string_spec d v = n.
Proof.
  intros d v H. destruct (primary_some _ _ H) as [n Hn]. exists n. split; [exact Hn|].
  unfold string_spec. rewrite Hn. reflexivity.
Qed.

Lemma string_spec_undefined : forall d v, ~ In v (map c_val (d_consts d)) ->
  string_spec d v = ("Undefined" ++ ty_name (d_ty d) ++ ":" ++ dec v)%string.
Proof. intros d v H. unfold string_spec. rewrite (primary_none _ _ H). reflexivity. Qed.

Lemma dedup_orig_refuted :
  exists cs v, map g_name (dedup_orig (sort_values cs)) = ["C"] /\ primary cs v = Some "B"
               /\ map g_name (dedup (sort_values cs)) = ["B"].
Proof. exists abc_consts, 1. exact dedup_orig_abc. Qed.

(* ================================================================== Part 4: codecs (C05) *)

(* ---- generic facts about the skeleton interpreter *)
Lemma try_with_none : forall P l, (forall x, In x l -> P x = None) -> try_with P l = None.
Proof.
  induction l as [|x r IH]; intros H; simpl; [reflexivity|].
  rewrite (H x) by (left; reflexivity). apply IH. intros y Hy. apply H. right. assumption.
Qed.
Lemma try_with_app : forall P a b,
  try_with P (a ++ b) = match try_with P a with Some z => Some z | None => try_with P b end.
Proof.
  induction a as [|x r IH]; intros b; simpl; [reflexivity|]. destruct (P x); [reflexivity|apply IH].
Qed.
Lemma try_with_ext : forall P Q l, (forall x, P x = Q x) -> try_with P l = try_with Q l.
Proof. induction l as [|x r IH]; intros H; simpl; [reflexivity|]. rewrite H, IH by assumption. reflexivity. Qed.
Lemma run_steps_ext : forall P Q t v sk, (forall x, P x = Q x) -> run_steps P t v sk = run_steps Q t v sk.
Proof.
  intros P Q t v sk H. induction sk as [|st r IH]; [reflexivity|].
  destruct st; cbn [run_steps]; rewrite ?IH, ?(try_with_ext P Q _ H); reflexivity.
Qed.
Lemma skel_attempts_cons : forall t v st r, skel_attempts t v (st :: r) = step_dyns t v st ++ skel_attempts t v r.
Proof. reflexivity. Qed.
Lemma skel_attempts_app : forall t v a b, skel_attempts t v (a ++ b) = skel_attempts t v a ++ skel_attempts t v b.
Proof. intros. unfold skel_attempts. apply flat_map_app. Qed.
(* on a document that is not the literal null a decoder is "first successful Parse among its attempts" *)
Lemma run_steps_attempts : forall P t v sk, dv_null v = false ->
  run_steps P t v sk = try_with P (skel_attempts t v sk).
Proof.
  intros P t v sk Hnn. induction sk as [|st r IH]; [reflexivity|].
  rewrite skel_attempts_cons, try_with_app, <- IH.
  destruct st; cbn [run_steps]; try reflexivity. rewrite Hnn. reflexivity.
Qed.
Lemma run_steps_none : forall P t v sk, (forall x, In x (skel_attempts t v sk) -> P x = None) ->
  run_steps P t v sk = None.
Proof.
  intros P t v sk. induction sk as [|st r IH]; intros H; [reflexivity|].
  rewrite skel_attempts_cons in H.
  assert (Hr : run_steps P t v r = None) by (apply IH; intros x Hx; apply H; apply in_or_app; right; assumption).
  assert (Hs : try_with P (step_dyns t v st) = None)
    by (apply try_with_none; intros x Hx; apply H; apply in_or_app; left; assumption).
  destruct st; cbn [run_steps]; rewrite ?Hs, ?Hr; try reflexivity. destruct (dv_null v); reflexivity.
Qed.
Lemma run_steps_null : forall P t v sk, null_checked sk = true -> dv_null v = true -> run_steps P t v sk = None.
Proof.
  intros P t v sk H Hn. destruct sk as [|st r]; [discriminate|]. destruct st; try discriminate.
  cbn [run_steps]. rewrite Hn. reflexivity.
Qed.

(* ---- decidable equalities of the skeleton language *)
Lemma tkind_eqb_eq : forall a b, tkind_eqb a b = true -> a = b.
Proof. intros [] []; simpl; intro H; try discriminate; reflexivity. Qed.
Lemma codec_eqb_eq : forall a b, codec_eqb a b = true -> a = b.
Proof. intros [] []; simpl; intro H; try discriminate; reflexivity. Qed.
Lemma fam_eqb_eq : forall a b, fam_eqb a b = true -> a = b.
Proof.
  intros [k c|c] [k' c'|c']; simpl; intro H; try discriminate.
  - apply andb_true_iff in H. destruct H as [H1 H2]. apply tkind_eqb_eq in H1. apply codec_eqb_eq in H2. congruence.
  - apply codec_eqb_eq in H. congruence.
Qed.
Lemma opt_fam_eqb_eq : forall a b, opt_fam_eqb a b = true -> a = b.
Proof. intros [a|] [b|]; simpl; intro H; try discriminate; [apply fam_eqb_eq in H; congruence|reflexivity]. Qed.
Lemma src_eqb_eq : forall a b, src_eqb a b = true -> a = b.
Proof. intros [] []; simpl; intro H; try discriminate; reflexivity. Qed.
Lemma conv_eqb_eq : forall a b, conv_eqb a b = true -> a = b.
Proof. intros [] []; simpl; intro H; try discriminate; reflexivity. Qed.
Lemma attempt_eqb_eq : forall a b, attempt_eqb a b = true -> a = b.
Proof.
  intros [f c] [f' c']. unfold attempt_eqb. simpl. intro H. apply andb_true_iff in H. destruct H as [H1 H2].
  apply opt_fam_eqb_eq in H1. apply conv_eqb_eq in H2. congruence.
Qed.
Lemma list_eqb_eq : forall {A} (eqb : A -> A -> bool), (forall x y, eqb x y = true -> x = y) ->
  forall a b, list_eqb eqb a b = true -> a = b.
Proof.
  intros A eqb He. induction a as [|x a IH]; intros [|y b] H; simpl in H; try discriminate; [reflexivity|].
  apply andb_true_iff in H. destruct H as [H1 H2]. apply He in H1. apply IH in H2. congruence.
Qed.
Lemma pswitch_eqb_eq : forall a b, pswitch_eqb a b = true -> a = b.
Proof.
  intros [k v c] [k' v' c']. unfold pswitch_eqb. simpl. intro H.
  apply andb_true_iff in H. destruct H as [H H3]. apply andb_true_iff in H. destruct H as [H1 H2].
  assert (k = k') by (destruct k, k'; try discriminate; reflexivity).
  assert (v = v') by (destruct v, v'; try discriminate; reflexivity).
  assert (c = c').
  { apply (list_eqb_eq pconst_eqb); [|assumption]. intros [] []; simpl; intro; try discriminate; reflexivity. }
  congruence.
Qed.

(* ---- Parse<T>: the interpreter at the current skeleton is sem_parse; a skeleton accepted by
   parse_skel_ok is the current one *)
Lemma find_ext : forall {A} (f g : A -> bool) l, (forall x, f x = g x) -> find f l = find g l.
Proof. induction l as [|x r IH]; intros H; simpl; [reflexivity|]. rewrite H, IH by assumption. reflexivity. Qed.

Lemma sem_parse_sk_cur : forall t x, sem_parse_sk cur_parse_skel t x = sem_parse t x.
Proof.
  intros t x. unfold sem_parse_sk, cur_parse_skel, sem_parse. cbn [run_psteps run_pstep].
  unfold run_switch at 1. cbn [sw_key sw_keyval sw_over vs_list sw_consts].
  rewrite (find_ext _ (fun g => existsb (dyn_eqb x) (case_consts (t_cols t) g))).
  2:{ intros g. unfold sw_case. cbn [sw_consts flat_map]. unfold parsable_values_of, case_consts. cbn [tl].
      rewrite app_nil_r. reflexivity. }
  destruct (find _ (t_all t)) as [g|]; [reflexivity|].
  change (flag_on (t_opts t) "CaseInsensitive") with (o_ci (t_opts t)).
  destruct (o_ci (t_opts t)); [|reflexivity].
  unfold run_switch. cbn [sw_key sw_keyval sw_over vs_list].
  destruct (dval x) as [s| |]; try reflexivity.
  destruct (String.eqb (dty x) "string"); [|reflexivity].
  rewrite (find_ext _ (fun g => String.eqb (to_lower (g_name g)) (to_lower s))).
  2:{ intros g. unfold sw_case. cbn [sw_consts flat_map app existsb]. unfold dyn_eqb, DStr. cbn [dty dval payload_eqb].
      rewrite String.eqb_refl, orb_false_r. cbn [andb]. apply String.eqb_sym. }
  destruct (find _ (t_all t)); reflexivity.
Qed.

Lemma parse_skel_ok_cur : forall sk, parse_skel_ok sk = true -> sk = cur_parse_skel.
Proof.
  intros sk H. unfold parse_skel_ok in H.
  destruct sk as [|[a| | |] [|[|fl [|[b| | |] [|]]| |] [|]]]; try discriminate.
  apply andb_true_iff in H. destruct H as [H H3]. apply andb_true_iff in H. destruct H as [H1 H2].
  apply pswitch_eqb_eq in H1. apply pswitch_eqb_eq in H3. apply String.eqb_eq in H2. subst. reflexivity.
Qed.

Lemma sem_parse_sk_ok : forall sk t x, parse_skel_ok sk = true -> sem_parse_sk sk t x = sem_parse t x.
Proof. intros sk t x H. rewrite (parse_skel_ok_cur sk H). apply sem_parse_sk_cur. Qed.

(* ---- the attempts a decoder makes are faithful readings of the document: a string reading
   only when the library produced that string, an integer reading only when the library /
   strconv produced that integer and it fits the trait's type, a native reading only when the
   type's own unmarshaler succeeded.  (This is what fails for the pinned YAML decoder.) *)
Inductive reading (str : option string) (u64 i64 : option Z) (native : list (string * option payload))
          (t : tables) (x : dyn) : Prop :=
| RdStr : forall s, str = Some s -> dval x = PStr s -> reading str u64 i64 native t x
| RdU64 : forall u c, u64 = Some u -> In c (t_cols t) -> col_parsable c = true ->
                      conv_int (ti_bkind (col_info c)) u = u ->     (* the number fits the trait's type *)
                      x = typed c (PInt u) -> reading str u64 i64 native t x
| RdI64 : forall i c, i64 = Some i -> In c (t_cols t) -> col_parsable c = true ->
                      conv_int (ti_bkind (col_info c)) i = i ->
                      x = typed c (PInt i) -> reading str u64 i64 native t x
| RdNative : forall c p, In c (t_cols t) -> col_parsable c = true ->
                         lookup (col_type c) native = Some (Some p) -> x = typed c p ->
                         reading str u64 i64 native t x.
Definition dv_reading (v : dview) := reading (dv_str v) (dv_u64 v) (dv_i64 v) (dv_native v).

Lemma family_in : forall t k own c, In c (family t k own) -> In c (t_cols t) /\ col_parsable c = true.
Proof.
  intros t k own c H. unfold family in H. apply filter_In in H. destruct H as [H1 H2].
  apply andb_true_iff in H2. destruct H2 as [H2 _]. apply andb_true_iff in H2. destruct H2 as [H2 _]. auto.
Qed.
Lemma family_own_in : forall t own c, In c (family_own t own) -> In c (t_cols t) /\ col_parsable c = true.
Proof.
  intros t own c H. unfold family_own in H. apply filter_In in H. destruct H as [H1 H2].
  apply andb_true_iff in H2. destruct H2 as [H2 _]. auto.
Qed.
Lemma fam_cols_in : forall t f c, In c (fam_cols t f) -> In c (t_cols t) /\ col_parsable c = true.
Proof. intros t [k c0|c0] c H; simpl in H; [eapply family_in|eapply family_own_in]; eassumption. Qed.

Lemma native_attempts_reading : forall str u64 i64 native t cols x,
  (forall c, In c cols -> In c (t_cols t) /\ col_parsable c = true) ->
  In x (native_attempts cols native) -> reading str u64 i64 native t x.
Proof.
  intros str u64 i64 native t cols x Hc H. unfold native_attempts in H. apply in_flat_map in H.
  destruct H as [c [Hin Hx]]. destruct (lookup (col_type c) native) as [[p|]|] eqn:E; simpl in Hx; try contradiction.
  destruct Hx as [<-|[]]. destruct (Hc c Hin) as [H1 H2]. eapply RdNative; eauto.
Qed.

Lemma int_attempts_rc : forall cols x y, In y (int_attempts true cols x) ->
  exists c, In c cols /\ conv_int (ti_bkind (col_info c)) x = x /\ y = typed c (PInt x).
Proof.
  intros cols x y H. unfold int_attempts in H. apply in_flat_map in H. destruct H as [c [Hc Hy]].
  simpl in Hy. destruct (Z.eqb_spec (conv_int (ti_bkind (col_info c)) x) x) as [E|NE]; simpl in Hy; [|contradiction].
  destruct Hy as [<-|[]]. exists c. split; [assumption|]. split; [assumption|].
  unfold typed_int. rewrite E. reflexivity.
Qed.

Lemma int_attempts_in : forall rc cols c x, In c cols -> conv_int (ti_bkind (col_info c)) x = x ->
  In (typed_int c x) (int_attempts rc cols x).
Proof.
  intros rc cols c x Hc E. unfold int_attempts. apply in_flat_map. exists c. split; [assumption|].
  rewrite E, Z.eqb_refl. simpl. rewrite andb_false_r. left. reflexivity.
Qed.

(* every attempt of a sound skeleton is a faithful reading *)
Lemma steps_faithful : forall c t v sk x, steps_sound c sk = true -> In x (skel_attempts t v sk) -> dv_reading v t x.
Proof.
  intros c t v sk x Hs Hx. unfold skel_attempts in Hx. apply in_flat_map in Hx. destruct Hx as [st [Hst Hx]].
  unfold steps_sound in Hs. rewrite forallb_forall in Hs. specialize (Hs st Hst).
  destruct st as [|g s ok body|g f via|w]; simpl in Hx; try contradiction.
  - (* a guarded reading *)
    simpl in Hs. apply andb_true_iff in Hs. destruct Hs as [Hok Hb]. subst ok.
    destruct (gate_open t g); [|contradiction].
    destruct (read_src v s) as [p|] eqn:Er; [|contradiction].
    apply in_flat_map in Hx. destruct Hx as [a [Ha Hx]].
    rewrite forallb_forall in Hb. specialize (Hb a Ha).
    unfold attempt_dyns in Hx. unfold dv_reading.
    destruct s; simpl in Er.
    + (* string *)
      destruct (dv_str v) as [str|] eqn:Es; [|discriminate]. inversion Er; subst p.
      destruct (at_fam a) as [f|].
      * apply in_map_iff in Hx. destruct Hx as [col [<- _]]. eapply RdStr; reflexivity.
      * destruct Hx as [<-|[]]. eapply RdStr; reflexivity.
    + (* uint64 *)
      destruct (dv_u64 v) as [u|] eqn:Eu; [|discriminate]. inversion Er; subst p.
      simpl in Hb. destruct (at_fam a) as [f|]; [|discriminate]. destruct (at_conv a); try discriminate.
      apply int_attempts_rc in Hx. destruct Hx as [col [Hc [Hr ->]]].
      destruct (fam_cols_in _ _ _ Hc). eapply RdU64; eauto.
    + destruct (dv_i64 v) as [i|] eqn:Ei; [|discriminate]. inversion Er; subst p.
      simpl in Hb. destruct (at_fam a) as [f|]; [|discriminate]. destruct (at_conv a); try discriminate.
      apply int_attempts_rc in Hx. destruct Hx as [col [Hc [Hr ->]]].
      destruct (fam_cols_in _ _ _ Hc). eapply RdI64; eauto.
    + discriminate.
    + discriminate.
  - destruct (gate_open t g); [|contradiction].
    eapply native_attempts_reading; [|exact Hx]. intros col Hc. apply (fam_cols_in _ _ _ Hc).
Qed.

(* which readings a complete skeleton tries *)
Lemma fam_nonempty_open : forall t f c, In c (fam_cols t f) -> gate_open t (Some f) = true.
Proof. intros t f c H. simpl. destruct (fam_cols t f); [contradiction|reflexivity]. Qed.

Lemma steps_try : forall t v sk s a p y, steps_have s a sk = true -> read_src v s = Some p ->
  In y (attempt_dyns t s p a) -> In y (skel_attempts t v sk).
Proof.
  intros t v sk s a p y H Hr Hy. unfold steps_have in H. apply existsb_exists in H. destruct H as [st [Hst H]].
  unfold skel_attempts. apply in_flat_map. exists st. split; [assumption|].
  destruct st as [|g s' ok body| |]; simpl in H; try discriminate. destruct ok; [|discriminate].
  apply andb_true_iff in H. destruct H as [H Hb]. apply andb_true_iff in H. destruct H as [Hs Hg].
  apply src_eqb_eq in Hs. subst s'. apply existsb_exists in Hb. destruct Hb as [a' [Ha' E]].
  apply attempt_eqb_eq in E. subst a'.
  assert (Hopen : gate_open t g = true).
  { destruct g as [f|]; [|reflexivity]. simpl in Hg. apply opt_fam_eqb_eq in Hg.
    unfold attempt_dyns in Hy. rewrite Hg in Hy.
    destruct p as [str|x|b].
    - apply in_map_iff in Hy. destruct Hy as [col [_ Hc]]. eapply fam_nonempty_open; eassumption.
    - unfold int_attempts in Hy. apply in_flat_map in Hy. destruct Hy as [col [Hc _]]. eapply fam_nonempty_open; eassumption.
    - apply in_map_iff in Hy. destruct Hy as [col [_ Hc]]. eapply fam_nonempty_open; eassumption. }
  cbn [step_dyns]. rewrite Hopen, Hr. apply in_flat_map. exists a. split; assumption.
Qed.

Lemma native_tries : forall cols nat_view c p, In c cols -> lookup (col_type c) nat_view = Some (Some p) ->
  In (typed c p) (native_attempts cols nat_view).
Proof.
  intros cols nat_view c p Hc Hl. unfold native_attempts. apply in_flat_map. exists c. split; [assumption|].
  rewrite Hl. left. reflexivity.
Qed.

Lemma steps_try_native : forall t v sk co c p, existsb (step_has_native co) sk = true ->
  In c (fam_cols t (FamOwn co)) -> lookup (col_type c) (dv_native v) = Some (Some p) ->
  In (typed c p) (skel_attempts t v sk).
Proof.
  intros t v sk co c p H Hc Hl. apply existsb_exists in H. destruct H as [st [Hst H]].
  unfold skel_attempts. apply in_flat_map. exists st. split; [assumption|].
  destruct st as [| |g f via|]; simpl in H; try discriminate.
  apply andb_true_iff in H. destruct H as [H Hg]. apply andb_true_iff in H. destruct H as [Hf _].
  apply fam_eqb_eq in Hf. subst f.
  assert (Hopen : gate_open t g = true).
  { destruct g as [f'|]; [|reflexivity]. apply fam_eqb_eq in Hg. subst f'. eapply fam_nonempty_open; eassumption. }
  cbn [step_dyns]. rewrite Hopen. apply native_tries; assumption.
Qed.

Lemma name_first_inv : forall sk, name_first sk = true ->
  exists pre cv body rest, (pre = [] \/ pre = [StNullReject])
    /\ sk = pre ++ StRead None SrcString true ({| at_fam := None; at_conv := cv |} :: body) :: rest.
Proof.
  intros sk H. unfold name_first in H.
  assert (K : forall l, match l with
     | StRead None SrcString true ({| at_fam := None; at_conv := _ |} :: _) :: _ => true | _ => false end = true ->
     exists cv body rest, l = StRead None SrcString true ({| at_fam := None; at_conv := cv |} :: body) :: rest).
  { intros l Hl. destruct l as [|st rest]; [discriminate|]. destruct st as [|g s ok body| |]; try discriminate.
    destruct g; [discriminate|]. destruct s; try discriminate. destruct ok; [|discriminate].
    destruct body as [|[f cv] body]; [discriminate|]. destruct f; [discriminate|]. eauto. }
  set (inner := match sk with StNullReject :: r => r | _ => sk end) in H.
  destruct (K inner H) as [cv [body [rest E]]].
  destruct sk as [|st r]; [discriminate E|].
  destruct st as [|g s ok body0|g f via|w]; subst inner; cbn in E.
  - exists [StNullReject], cv, body, rest. split; [right; reflexivity|]. rewrite E. reflexivity.
  - exists [], cv, body, rest. split; [left; reflexivity|exact E].
  - discriminate E.
  - discriminate E.
Qed.

Section Codecs.
  Variable d : defn.
  Variable o : opts.
  Variable t : tables.
  Hypothesis Hwf : wf_defn d.
  Hypothesis Hgen : gen d o = Built t.

  Let cs := d_consts d.

  Lemma try_all_head : forall x rest v, sem_parse t x = Some v -> try_all t (x :: rest) = Some v.
  Proof. intros x rest v H. unfold try_all. simpl. rewrite H. reflexivity. Qed.

  Lemma try_all_none : forall l, (forall x, In x l -> sem_parse t x = None) -> try_all t l = None.
  Proof. intros l H. apply try_with_none. exact H. Qed.

  (* the string every encoder emits for a defined value parses back to that value *)
  Lemma parse_primary : forall v, In v (values_spec cs) -> sem_parse t (DStr (sem_string t v)) = Some v.
  Proof.
    intros v Hv. rewrite (sem_string_spec d o t Hwf Hgen).
    apply values_spec_in in Hv. destruct (string_spec_defined d v Hv) as [n [Hp Hs]].
    rewrite Hs. destruct (primary_meaning _ _ _ Hp) as [c [Hc [Hval [Hname _]]]].
    rewrite <- Hname, <- Hval. apply (parse_name d o t Hwf Hgen c Hc).
  Qed.

  Lemma encode_json_spec : forall v, encode_json t v = quote (string_spec d v).
  Proof. intros v. unfold encode_json. rewrite (sem_string_spec d o t Hwf Hgen). reflexivity. Qed.
  Lemma encode_text_spec : forall v, encode_text t v = string_spec d v.
  Proof. intros v. unfold encode_text. apply (sem_string_spec d o t Hwf Hgen). Qed.
  Lemma encode_yaml_spec : forall v, encode_yaml t v = string_spec d v.
  Proof. intros v. unfold encode_yaml. apply (sem_string_spec d o t Hwf Hgen). Qed.

  (* round trips: whenever the name attempt comes first, a document whose string reading is the emitted
     name decodes to the value (view soundness: the library's string reading of the encoded document is
     that name — measured for every round trip by the farm) *)
  Lemma roundtrip_steps : forall sk v dv, name_first sk = true -> In v (values_spec cs) ->
    dv_null dv = false -> dv_str dv = Some (sem_string t v) -> run_steps (sem_parse t) t dv sk = Some v.
  Proof.
    intros sk v dv Hn Hv Hnn Hs. rewrite run_steps_attempts by assumption.
    destruct (name_first_inv sk Hn) as [pre [cv [body [rest [Hpre ->]]]]].
    rewrite skel_attempts_app, skel_attempts_cons.
    assert (Ep : skel_attempts t dv pre = []) by (destruct Hpre as [->| ->]; reflexivity).
    rewrite Ep. cbn [app step_dyns gate_open]. unfold read_src. rewrite Hs.
    cbn [flat_map attempt_dyns at_fam src_type app try_with].
    change {| dty := "string"; dval := PStr (sem_string t v) |} with (DStr (sem_string t v)).
    rewrite (parse_primary v Hv). reflexivity.
  Qed.

  (* ---- rejection *)
  (* x is a constant name (or, under -caseInsensitive, a case variant of one) *)
  Definition names_constant (x : dyn) : Prop :=
    exists c, In c cs /\
      (x = DStr (c_name c) \/
       (o_ci o = true /\ exists s, x = DStr s /\ to_lower s = to_lower (c_name c))).

  Lemma parse_reject_dyn : forall x, ~ names_constant x -> ~ is_trait_const d t x -> sem_parse t x = None.
  Proof.
    intros x Hn Ht. unfold sem_parse.
    rewrite (B_all d o t Hgen), (B_opts d o t Hgen).
    rewrite find_all_false.
    - destruct (o_ci o) eqn:Hci; [|reflexivity].
      destruct x as [ty p]. cbn [dval dty]. destruct p as [s| |]; try reflexivity.
      destruct (String.eqb ty "string") eqn:Ety; [|reflexivity]. apply String.eqb_eq in Ety. subst ty.
      rewrite find_all_false; [reflexivity|].
      intros g Hg. apply String.eqb_neq. intro E.
      destruct (L_inv d g Hg) as [c [Hc ->]]. cbn [to_gvalue g_name] in E.
      apply Hn. exists c. split; [assumption|]. right. split; [assumption|]. exists s. split; [reflexivity|].
      symmetry. assumption.
    - intros g Hg. destruct (existsb (dyn_eqb x) (case_consts (t_cols t) g)) eqn:E; [|reflexivity].
      exfalso. apply existsb_dyn_In in E. rewrite case_consts_split in E. destruct E as [E|E].
      + destruct (L_inv d g Hg) as [c [Hc ->]]. cbn [to_gvalue g_name] in E.
        apply Hn. exists c. split; [assumption|]. left. symmetry. assumption.
      + apply Ht. exists g. split; assumption.
  Qed.

  Definition rejectable (x : dyn) : Prop := ~ names_constant x /\ ~ is_trait_const d t x.

  (* a sound decoder rejects every document none of whose faithful readings names a constant or is a
     parsable trait constant *)
  Lemma reject_steps : forall c sk dv, steps_sound c sk = true ->
    (forall x, dv_reading dv t x -> rejectable x) -> run_steps (sem_parse t) t dv sk = None.
  Proof.
    intros c sk dv Hs H. apply run_steps_none. intros x Hx.
    destruct (H x (steps_faithful c t dv sk x Hs Hx)). apply parse_reject_dyn; assumption.
  Qed.
End Codecs.

(* ---- the same for any well-formed skeleton record *)
Lemma skels_ok_parts : forall k, skels_ok k = true ->
  dskel_ok CoJSON (sk_json k) = true /\ dskel_ok CoText (sk_text k) = true /\ dskel_ok CoYAML (sk_yaml k) = true
  /\ parse_skel_ok (sk_parse k) = true /\ small_ok k = true.
Proof.
  intros k H. unfold skels_ok in H.
  apply andb_true_iff in H. destruct H as [H H5]. apply andb_true_iff in H. destruct H as [H H4].
  apply andb_true_iff in H. destruct H as [H H3]. apply andb_true_iff in H. destruct H as [H1 H2]. auto.
Qed.
Lemma dskel_ok_parts : forall c dk, dskel_ok c dk = true ->
  gates_are (codec_flag c) (ds_gates dk) = true /\ steps_sound c (ds_steps dk) = true
  /\ steps_complete c (ds_steps dk) = true /\ (c <> CoText -> null_checked (ds_steps dk) = true).
Proof.
  intros c dk H. unfold dskel_ok in H.
  apply andb_true_iff in H. destruct H as [H H4]. apply andb_true_iff in H. destruct H as [H H3].
  apply andb_true_iff in H. destruct H as [H1 H2].
  repeat split; try assumption. intros Hc. destruct c; try assumption. congruence.
Qed.
Lemma steps_complete_parts : forall c sk, steps_complete c sk = true ->
  name_first sk = true /\ steps_have SrcString (fam_attempt (FamKind KString c) CvTyped) sk = true
  /\ (c <> CoText -> steps_have SrcU64 (fam_attempt (FamKind KUint64 c) CvChecked) sk = true
                     /\ steps_have SrcI64 (fam_attempt (FamKind KInt64 c) CvChecked) sk = true)
  /\ existsb (step_has_native c) sk = true.
Proof.
  intros c sk H. unfold steps_complete in H.
  apply andb_true_iff in H. destruct H as [H H4]. apply andb_true_iff in H. destruct H as [H H3].
  apply andb_true_iff in H. destruct H as [H1 H2].
  repeat split; try assumption; destruct c; try congruence;
    apply andb_true_iff in H3; destruct H3; assumption.
Qed.

Lemma decode_json_sk_parse : forall k t jv, skels_ok k = true ->
  decode_json_sk k t jv = run_steps (sem_parse t) t (dv_of_j jv) (ds_steps (sk_json k)).
Proof.
  intros k t jv H. unfold decode_json_sk. apply run_steps_ext. intros x. apply sem_parse_sk_ok.
  apply (skels_ok_parts k H).
Qed.
Lemma decode_yaml_sk_parse : forall k t yv, skels_ok k = true ->
  decode_yaml_sk k t yv = run_steps (sem_parse t) t (dv_of_y yv) (ds_steps (sk_yaml k)).
Proof.
  intros k t jv H. unfold decode_yaml_sk. apply run_steps_ext. intros x. apply sem_parse_sk_ok.
  apply (skels_ok_parts k H).
Qed.
Lemma decode_text_sk_parse : forall k t tv, skels_ok k = true ->
  decode_text_sk k t tv = run_steps (sem_parse t) t (dv_of_t tv) (ds_steps (sk_text k)).
Proof.
  intros k t jv H. unfold decode_text_sk. apply run_steps_ext. intros x. apply sem_parse_sk_ok.
  apply (skels_ok_parts k H).
Qed.

Lemma cur_skels_ok : skels_ok cur_skels = true.
Proof. vm_compute. reflexivity. Qed.

Lemma json_sound : forall k, skels_ok k = true -> steps_sound CoJSON (ds_steps (sk_json k)) = true.
Proof. intros k H. apply (dskel_ok_parts CoJSON _ (proj1 (skels_ok_parts k H))). Qed.
Lemma text_sound : forall k, skels_ok k = true -> steps_sound CoText (ds_steps (sk_text k)) = true.
Proof. intros k H. apply (dskel_ok_parts CoText _ (proj1 (proj2 (skels_ok_parts k H)))). Qed.
Lemma yaml_sound : forall k, skels_ok k = true -> steps_sound CoYAML (ds_steps (sk_yaml k)) = true.
Proof. intros k H. apply (dskel_ok_parts CoYAML _ (proj1 (proj2 (proj2 (skels_ok_parts k H))))). Qed.
Lemma json_complete : forall k, skels_ok k = true -> steps_complete CoJSON (ds_steps (sk_json k)) = true.
Proof. intros k H. apply (dskel_ok_parts CoJSON _ (proj1 (skels_ok_parts k H))). Qed.
Lemma text_complete : forall k, skels_ok k = true -> steps_complete CoText (ds_steps (sk_text k)) = true.
Proof. intros k H. apply (dskel_ok_parts CoText _ (proj1 (proj2 (skels_ok_parts k H)))). Qed.
Lemma yaml_complete : forall k, skels_ok k = true -> steps_complete CoYAML (ds_steps (sk_yaml k)) = true.
Proof. intros k H. apply (dskel_ok_parts CoYAML _ (proj1 (proj2 (proj2 (skels_ok_parts k H))))). Qed.
Lemma json_null_checked : forall k, skels_ok k = true -> null_checked (ds_steps (sk_json k)) = true.
Proof. intros k H. apply (dskel_ok_parts CoJSON _ (proj1 (skels_ok_parts k H))). discriminate. Qed.
Lemma yaml_null_checked : forall k, skels_ok k = true -> null_checked (ds_steps (sk_yaml k)) = true.
Proof. intros k H. apply (dskel_ok_parts CoYAML _ (proj1 (proj2 (proj2 (skels_ok_parts k H))))). discriminate. Qed.

(* round trips, for every well-formed skeleton record *)
Lemma roundtrip_json_sk : forall k, skels_ok k = true -> forall d o t, wf_defn d -> gen d o = Built t ->
  forall v jv, In v (values_spec (d_consts d)) -> jv_null jv = false ->
  jv_string jv = Some (sem_string t v) -> decode_json_sk k t jv = Some v.
Proof.
  intros k Hk d o t Hwf Hg v jv Hv Hnn Hs. rewrite decode_json_sk_parse by assumption.
  apply (roundtrip_steps d o t Hwf Hg); try assumption.
  apply (steps_complete_parts CoJSON _ (json_complete k Hk)).
Qed.
Lemma roundtrip_text_sk : forall k, skels_ok k = true -> forall d o t, wf_defn d -> gen d o = Built t ->
  forall v tv, In v (values_spec (d_consts d)) ->
  tv_text tv = sem_string t v -> decode_text_sk k t tv = Some v.
Proof.
  intros k Hk d o t Hwf Hg v tv Hv Hs. rewrite decode_text_sk_parse by assumption.
  apply (roundtrip_steps d o t Hwf Hg); try assumption; try reflexivity.
  - apply (steps_complete_parts CoText _ (text_complete k Hk)).
  - simpl. rewrite Hs. reflexivity.
Qed.
Lemma roundtrip_yaml_sk : forall k, skels_ok k = true -> forall d o t, wf_defn d -> gen d o = Built t ->
  forall v yv, In v (values_spec (d_consts d)) -> yv_scalar yv = true ->
  yv_value yv = sem_string t v -> decode_yaml_sk k t yv = Some v.
Proof.
  intros k Hk d o t Hwf Hg v yv Hv Hsc Hs. rewrite decode_yaml_sk_parse by assumption.
  apply (roundtrip_steps d o t Hwf Hg); try assumption.
  - apply (steps_complete_parts CoYAML _ (yaml_complete k Hk)).
  - simpl. rewrite Hsc. reflexivity.
  - simpl. rewrite Hs. reflexivity.
Qed.

(* a document none of whose faithful readings names a constant or is a parsable trait constant
   is rejected — by each of the three decoders, for every well-formed skeleton record *)
Lemma reject_json_sk : forall k, skels_ok k = true -> forall d o t jv, gen d o = Built t ->
  (forall x, reading (jv_string jv) (jv_u64 jv) (jv_i64 jv) (jv_native jv) t x -> rejectable d o t x) ->
  decode_json_sk k t jv = None.
Proof.
  intros k Hk d o t jv Hg H. rewrite decode_json_sk_parse by assumption.
  apply (reject_steps d o t Hg CoJSON); [apply json_sound; assumption|exact H].
Qed.
Lemma reject_text_sk : forall k, skels_ok k = true -> forall d o t tv, gen d o = Built t ->
  (forall x, reading (Some (tv_text tv)) None None (tv_native tv) t x -> rejectable d o t x) ->
  decode_text_sk k t tv = None.
Proof.
  intros k Hk d o t tv Hg H. rewrite decode_text_sk_parse by assumption.
  apply (reject_steps d o t Hg CoText); [apply text_sound; assumption|exact H].
Qed.
Lemma reject_yaml_sk : forall k, skels_ok k = true -> forall d o t yv, gen d o = Built t ->
  (forall x, reading (Some (yv_value yv)) (yv_u64 yv) (yv_i64 yv) (yv_native yv) t x -> rejectable d o t x) ->
  decode_yaml_sk k t yv = None.
Proof.
  intros k Hk d o t yv Hg H. rewrite decode_yaml_sk_parse by assumption.
  apply (reject_steps d o t Hg CoYAML); [apply yaml_sound; assumption|exact H].
Qed.
(* a YAML sequence or mapping holds no scalar: refused outright by a decoder that checks the node kind *)
Lemma decode_yaml_nonscalar_sk : forall k, skels_ok k = true ->
  forall t yv, yv_scalar yv = false -> decode_yaml_sk k t yv = None.
Proof.
  intros k Hk t yv Hn. unfold decode_yaml_sk. apply run_steps_null; [apply yaml_null_checked; exact Hk|]. simpl. rewrite Hn. reflexivity.
Qed.
Lemma decode_json_null_sk : forall k, skels_ok k = true -> forall t jv, jv_null jv = true -> decode_json_sk k t jv = None.
Proof.
  intros k Hk t jv Hn. unfold decode_json_sk. apply run_steps_null; [apply json_null_checked; assumption|exact Hn].
Qed.

(* … and for the current skeletons *)
Lemma decode_json_cur : forall t jv, decode_json t jv = run_steps (sem_parse t) t (dv_of_j jv) (json_steps_gen true CvChecked).
Proof. intros. apply (decode_json_sk_parse cur_skels t jv cur_skels_ok). Qed.
Lemma decode_yaml_cur : forall t yv, decode_yaml t yv = run_steps (sem_parse t) t (dv_of_y yv) (yaml_steps_gen true CvChecked).
Proof. intros. apply (decode_yaml_sk_parse cur_skels t yv cur_skels_ok). Qed.
Lemma decode_text_cur : forall t tv, decode_text t tv = run_steps (sem_parse t) t (dv_of_t tv) text_steps.
Proof. intros. apply (decode_text_sk_parse cur_skels t tv cur_skels_ok). Qed.

Lemma roundtrip_json : forall d o t, wf_defn d -> gen d o = Built t ->
  forall v jv, In v (values_spec (d_consts d)) -> jv_null jv = false ->
  jv_string jv = Some (sem_string t v) -> decode_json t jv = Some v.
Proof. exact (roundtrip_json_sk cur_skels cur_skels_ok). Qed.
Lemma roundtrip_text : forall d o t, wf_defn d -> gen d o = Built t ->
  forall v tv, In v (values_spec (d_consts d)) ->
  tv_text tv = sem_string t v -> decode_text t tv = Some v.
Proof. exact (roundtrip_text_sk cur_skels cur_skels_ok). Qed.
Lemma roundtrip_yaml : forall d o t, wf_defn d -> gen d o = Built t ->
  forall v yv, In v (values_spec (d_consts d)) -> yv_scalar yv = true ->
  yv_value yv = sem_string t v -> decode_yaml t yv = Some v.
Proof. exact (roundtrip_yaml_sk cur_skels cur_skels_ok). Qed.

Lemma json_attempts_faithful : forall t jv x, In x (json_attempts t jv) ->
  reading (jv_string jv) (jv_u64 jv) (jv_i64 jv) (jv_native jv) t x.
Proof. intros t jv x H. apply (steps_faithful CoJSON t (dv_of_j jv) _ x (json_sound cur_skels cur_skels_ok) H). Qed.
Lemma text_attempts_faithful : forall t tv x, In x (text_attempts t tv) ->
  reading (Some (tv_text tv)) None None (tv_native tv) t x.
Proof. intros t tv x H. apply (steps_faithful CoText t (dv_of_t tv) _ x (text_sound cur_skels cur_skels_ok) H). Qed.
Lemma yaml_attempts_faithful : forall t yv x, In x (yaml_attempts t yv) ->
  reading (Some (yv_value yv)) (yv_u64 yv) (yv_i64 yv) (yv_native yv) t x.
Proof. intros t yv x H. apply (steps_faithful CoYAML t (dv_of_y yv) _ x (yaml_sound cur_skels cur_skels_ok) H). Qed.

Lemma reject_json_readings : forall d o t jv, gen d o = Built t ->
  (forall x, reading (jv_string jv) (jv_u64 jv) (jv_i64 jv) (jv_native jv) t x -> rejectable d o t x) ->
  decode_json t jv = None.
Proof. exact (reject_json_sk cur_skels cur_skels_ok). Qed.
Lemma reject_text_readings : forall d o t tv, gen d o = Built t ->
  (forall x, reading (Some (tv_text tv)) None None (tv_native tv) t x -> rejectable d o t x) ->
  decode_text t tv = None.
Proof. exact (reject_text_sk cur_skels cur_skels_ok). Qed.
Lemma reject_yaml_readings : forall d o t yv, gen d o = Built t ->
  (forall x, reading (Some (yv_value yv)) (yv_u64 yv) (yv_i64 yv) (yv_native yv) t x -> rejectable d o t x) ->
  decode_yaml t yv = None.
Proof. exact (reject_yaml_sk cur_skels cur_skels_ok). Qed.

(* integer readings are not narrowed for the 64-bit trait kinds *)
Lemma wrap_to_id_signed64 : forall x, - 2 ^ 63 <= x < 2 ^ 63 -> wrap_to true 64 x = x.
Proof.
  intros x Hx. unfold wrap_to. change (2 ^ (64 - 1)) with 9223372036854775808.
  change (2 ^ 63) with 9223372036854775808 in Hx. change (2 ^ 64) with 18446744073709551616.
  destruct (Z_lt_dec x 0) as [Hneg|Hpos].
  - assert (E : x mod 18446744073709551616 = x + 18446744073709551616).
    { symmetry. apply Z.mod_unique with (q := -1); lia. }
    rewrite E. simpl. destruct (Z.leb_spec 9223372036854775808 (x + 18446744073709551616)); lia.
  - rewrite Z.mod_small by lia. simpl. destruct (Z.leb_spec 9223372036854775808 x); lia.
Qed.
Lemma wrap_to_id_unsigned64 : forall x, 0 <= x < 2 ^ 64 -> wrap_to false 64 x = x.
Proof. intros x Hx. unfold wrap_to. simpl. apply Z.mod_small. assumption. Qed.

Lemma conv_int_id_64 : forall b x,
  (In b [BUntypedInt; BInt; BInt64] -> - 2 ^ 63 <= x < 2 ^ 63 -> conv_int b x = x) /\
  (In b [BUint; BUint64] -> 0 <= x < 2 ^ 64 -> conv_int b x = x).
Proof.
  intros b x. split; intros Hb Hx; simpl in Hb.
  - destruct Hb as [<-|[<-|[<-|[]]]]; apply wrap_to_id_signed64; assumption.
  - destruct Hb as [<-|[<-|[]]]; apply wrap_to_id_unsigned64; assumption.
Qed.

(* ---- the pinned YAML decoder: strconv guards inverted.  Witness: P0/P1/P2 with the parsable
   integer trait Code = 0/7/9; the scalar `garbage` (not a name, not a number) decodes to P0,
   and `7` (a genuine trait value) is rejected. *)
Definition yw_cell (var : string) (z : Z) : cell :=
  {| cl_var := var; cl_expr := dec z; cl_val := {| dty := "int"; dval := PInt z |} |}.
Definition yw_defn : defn :=
  {| d_ty := {| ty_name := "E0"; ty_signed := true; ty_bits := 64 |};
     d_consts := [ {| c_name := "P0"; c_val := 0; c_dep := false; c_cells := [yw_cell "_Code" 0] |};
                   {| c_name := "P1"; c_val := 1; c_dep := false; c_cells := [yw_cell "_" 7] |};
                   {| c_name := "P2"; c_val := 2; c_dep := false; c_cells := [yw_cell "_" 9] |} ];
     d_types := [("int", {| ti_bkind := BUntypedInt; ti_json_own := false; ti_yaml_own := false; ti_text_own := false |})] |}.
Definition yw_opts : opts :=
  {| o_json := true; o_yaml := true; o_text := true; o_ci := false; o_notraits := false; o_parsable := ["Code"] |}.
Definition yw_garbage : yview := {| yv_scalar := true; yv_value := "garbage"; yv_u64 := None; yv_i64 := None; yv_native := [] |}.
Definition yw_seven : yview := {| yv_scalar := true; yv_value := "7"; yv_u64 := Some 7; yv_i64 := Some 7; yv_native := [] |}.

Lemma decode_yaml_orig_refuted :
  exists t, gen yw_defn yw_opts = Built t
            /\ decode_yaml_orig t yw_garbage = Some 0 /\ decode_yaml_orig t yw_seven = None
            /\ decode_yaml t yw_garbage = None /\ decode_yaml t yw_seven = Some 1.
Proof. eexists. split; [vm_compute; reflexivity|]. vm_compute. repeat split. Qed.

(* the skeleton of the pinned YAML decoder is not sound (guards inverted, no range check) *)
Lemma yaml_orig_unsound : steps_sound CoYAML (yaml_steps_gen2 false false CvTyped) = false
                          /\ steps_sound CoYAML (yaml_steps_gen true CvTyped) = false
                          /\ steps_sound CoJSON (json_steps_gen true CvTyped) = false
                          /\ null_checked (json_steps_gen false CvChecked) = false.
Proof. vm_compute. repeat split. Qed.

(* ================================================================== Part 5: traits (C12) *)

(* ---- what gen guarantees about the columns *)
Definition cols_owned (vs : list gvalue) (cols : list column) : Prop :=
  forall c r, In c cols -> In r (col_rows c) -> In (r_owner r) vs.

Lemma first_columns_owned : forall d o first cells cols vs,
  In first vs -> first_columns d o first cells = Built cols -> cols_owned vs cols.
Proof.
  intros d o first cells. induction cells as [|cl rest IH]; intros cols vs Hf H; simpl in H.
  - inversion H; subst. intros c r [].
  - destruct (String.eqb (cl_var cl) "_"); [discriminate|].
    destruct (String.eqb (trim_underscore (cl_var cl)) "" || String.eqb (trim_underscore (cl_var cl)) "_"); [discriminate|].
    destruct (lookup (dty (cl_val cl)) (d_types d)) as [info|]; [|discriminate].
    destruct (first_columns d o first rest) as [cols'| | |] eqn:E; try discriminate.
    inversion H; subst. intros c r [<-|Hc] Hr.
    + simpl in Hr. destruct Hr as [<-|[]]. assumption.
    + eapply IH; eauto.
Qed.

Lemma later_rows_owner : forall rest j r, In r (later_rows rest j) -> In (r_owner r) rest.
Proof.
  intros rest j r H. unfold later_rows in H. apply in_flat_map in H. destruct H as [v [Hv Hr]].
  destruct (nth_error (g_cells v) j); [|contradiction]. destruct Hr as [<-|[]]. assumption.
Qed.

Lemma add_rows_owned : forall rest cols j vs,
  (forall v, In v rest -> In v vs) -> cols_owned vs cols -> cols_owned vs (add_rows rest j cols).
Proof.
  intros rest cols. induction cols as [|c cs IH]; intros j vs Hsub H; simpl.
  - intros c r [].
  - intros c' r [<-|Hc] Hr.
    + simpl in Hr. apply in_app_or in Hr. destruct Hr as [Hr|Hr].
      * apply (H c r); [left; reflexivity|assumption].
      * apply Hsub. eapply later_rows_owner; eauto.
    + eapply IH; eauto. intros c0 r0 Hc0 Hr0. apply (H c0 r0); [right; assumption|assumption].
Qed.

Lemma drop_dup_owned : forall b vs0 vs cols, cols_owned vs cols -> cols_owned vs (drop_dup_rows_gen b vs0 cols).
Proof.
  intros b vs0 vs cols H c r Hc Hr. unfold drop_dup_rows_gen in Hc. apply in_map_iff in Hc.
  destruct Hc as [c0 [<- Hc0]]. simpl in Hr. apply filter_In in Hr. destruct Hr as [Hr _].
  apply (H c0 r); assumption.
Qed.

Lemma sort_columns_owned : forall vs cols, cols_owned vs cols -> cols_owned vs (sort_columns cols).
Proof.
  intros vs cols H c r Hc Hr. unfold sort_columns in Hc. apply isort_in in Hc. apply (H c r); assumption.
Qed.

Lemma gen_cols_owned : forall d o t, gen d o = Built t -> cols_owned (t_all t) (t_cols t).
Proof.
  intros d o t H. unfold gen in H.
  assert (Hmk : forall vs cols, mk_tables d o vs cols = Built t -> cols_owned vs cols ->
                                cols_owned (t_all t) (t_cols t)).
  { intros vs cols Hm Ho. apply mk_tables_built in Hm. destruct Hm as [_ ->]. exact Ho. }
  destruct (sort_values (d_consts d)) as [|first rest] eqn:Es; [discriminate|].
  assert (Hnil : cols_owned (first :: rest) []) by (intros c r []).
  destruct (existsb (fun v => reserved_name o (g_name v)) (first :: rest)); [discriminate|].
  destruct (o_ci o && negb (str_nodupb (map (fun v => to_lower (g_name v)) (first :: rest)))); [discriminate|].
  destruct (o_notraits o); [apply (Hmk _ _ H Hnil)|].
  destruct (existsb (fun v => existsb (fun c => reserved_cell_var (cl_var c)) (g_cells v)) (first :: rest)); [discriminate|].
  destruct (first_columns d o first (g_cells first)) as [cols0| | |] eqn:Ef; try discriminate.
  destruct (Nat.eqb (length cols0) 0).
  - destruct (forallb _ _); [apply (Hmk _ _ H Hnil)|discriminate].
  - destruct (negb (validate_counts (first :: rest) (length cols0))); [discriminate|].
    destruct (existsb _ rest); [discriminate|].
    destruct (negb (validate_parsable _)); [discriminate|].
    destruct (negb (validate_trait_names _ _)); [discriminate|]. apply (Hmk _ _ H).
    apply sort_columns_owned. apply drop_dup_owned. apply add_rows_owned.
    + intros v Hv. right. assumption.
    + eapply first_columns_owned; [|exact Ef]. left. reflexivity.
Qed.

Section Traits.
  Variable d : defn.
  Variable o : opts.
  Variable t : tables.
  Hypothesis Hwf : wf_defn d.
  Hypothesis Hgen : gen d o = Built t.

  Let cs := d_consts d.
  Let L := sort_values cs.

  Lemma rows_owner_in_L : forall c r, In c (t_cols t) -> In r (col_rows c) -> In (r_owner r) L.
  Proof.
    intros c r Hc Hr. pose proof (gen_cols_owned d o t Hgen c r Hc Hr) as H.
    rewrite (B_all d o t Hgen) in H. exact H.
  Qed.

  Lemma z_nodupb_NoDup : forall l, z_nodupb l = true -> NoDup l.
  Proof.
    induction l as [|x r IH]; simpl; intros H; [constructor|].
    apply andb_true_iff in H. destruct H as [Hn Hr]. apply negb_true_iff in Hn.
    constructor; [|apply IH; assumption]. intro Hin.
    assert (E : existsb (Z.eqb x) r = true) by (apply existsb_exists; exists x; split; [assumption|apply Z.eqb_refl]).
    congruence.
  Qed.

  Lemma rows_values_NoDup : forall c, In c (t_cols t) -> NoDup (map (fun r => g_z (r_owner r)) (col_rows c)).
  Proof.
    intros c Hc. pose proof (B_build d o t Hgen) as Hb. unfold build_ok in Hb.
    apply andb_true_iff in Hb. destruct Hb as [Hb _]. apply andb_true_iff in Hb. destruct Hb as [Hb _].
    apply andb_true_iff in Hb. destruct Hb as [Hb _]. rewrite forallb_forall in Hb.
    apply z_nodupb_NoDup. apply Hb. assumption.
  Qed.

  (* accessor, table level: the cell of the (unique) row owned by the value, else the zero value *)
  Lemma accessor_row : forall c r, In c (t_cols t) -> In r (col_rows c) ->
    sem_accessor c (g_z (r_owner r)) = dval (cl_val (r_cell r)).
  Proof.
    intros c r Hc Hr. unfold sem_accessor.
    destruct (find (fun r0 => g_z (r_owner r0) =? g_z (r_owner r)) (col_rows c)) as [r'|] eqn:F.
    - apply find_some in F. destruct F as [Hin' Hz]. apply Z.eqb_eq in Hz.
      assert (E : r' = r).
      { apply (NoDup_map_inj_in (fun r0 => g_z (r_owner r0)) (col_rows c)); try assumption.
        apply rows_values_NoDup. assumption. }
      rewrite E. reflexivity.
    - pose proof (find_none _ _ F r Hr) as Hn. simpl in Hn. rewrite Z.eqb_refl in Hn. discriminate.
  Qed.

  Lemma accessor_zero : forall c e, (forall r, In r (col_rows c) -> g_z (r_owner r) <> e) ->
    sem_accessor c e = zero_payload (ti_bkind (col_info c)).
  Proof.
    intros c e H. unfold sem_accessor. rewrite find_all_false; [reflexivity|].
    intros r Hr. apply Z.eqb_neq. apply H. assumption.
  Qed.

  (* Parse<T> of a parsable trait constant returns the owning value *)
  Lemma parse_trait_row : forall c r, In c (t_cols t) -> col_parsable c = true -> In r (col_rows c) ->
    sem_parse t (cl_val (r_cell r)) = Some (g_z (r_owner r)).
  Proof.
    intros c r Hc Hp Hr. unfold sem_parse. rewrite (B_all d o t Hgen). fold cs. fold L.
    set (x := cl_val (r_cell r)).
    assert (Hown : In x (case_consts (t_cols t) (r_owner r))).
    { unfold case_consts.
      destruct (dyn_eqb x (DStr (g_name (r_owner r)))) eqn:Ex.
      - apply dyn_eqb_eq in Ex. left. symmetry. exact Ex.
      - right. apply dyn_dedup_from_In. split.
        + apply in_flat_map. exists c. split; [assumption|]. rewrite Hp.
          unfold owned_cells. apply in_map_iff. exists r. split; [reflexivity|].
          apply filter_In. split; [assumption|apply String.eqb_refl].
        + intros [E|[]]. rewrite <- E in Ex.
          assert (T : dyn_eqb x x = true) by (apply dyn_eqb_eq; reflexivity). congruence. }
    set (f := fun g => existsb (dyn_eqb x) (case_consts (t_cols t) g)).
    assert (Hf0 : f (r_owner r) = true) by (unfold f; apply (existsb_dyn_In x); assumption).
    destruct (find_exists f L _ (rows_owner_in_L c r Hc Hr) Hf0) as [g' F]. rewrite F.
    apply find_some in F. destruct F as [Hin' Hf']. unfold f in Hf'. apply existsb_dyn_In in Hf'.
    assert (E : g' = r_owner r).
    { apply (NoDup_flat_map_unique (case_consts (t_cols t)) L g' (r_owner r) x).
      - apply (L_NoDup d Hwf).
      - apply (cases_NoDup d o t Hgen).
      - assumption.
      - apply (rows_owner_in_L c r Hc Hr).
      - assumption.
      - assumption. }
    rewrite E. reflexivity.
  Qed.

  (* a decoder returns v as soon as one of its attempts parses to v and no attempt parses to
     anything else (documents with two readings of different values are ambiguous) *)
  Lemma try_all_unique : forall l x v, In x l -> sem_parse t x = Some v ->
    (forall y w, In y l -> sem_parse t y = Some w -> w = v) -> try_all t l = Some v.
  Proof.
    unfold try_all. induction l as [|a r IH]; intros x v Hin Hx Hu; [contradiction|]. simpl.
    destruct (sem_parse t a) as [w|] eqn:Ea.
    - f_equal. apply (Hu a w); [left; reflexivity|assumption].
    - destruct Hin as [->|Hin]; [congruence|]. eapply IH; eauto.
      intros y w Hy Hw. apply (Hu y w); [right; assumption|assumption].
  Qed.

  Definition unambiguous (l : list dyn) (v : Z) : Prop :=
    forall y w, In y l -> sem_parse t y = Some w -> w = v.

  (* which readings a decoder with a complete skeleton tries for a trait column *)
  Lemma steps_try_string : forall co sk dv c s, steps_complete co sk = true ->
    In c (family t KString (own_of co)) -> dv_str dv = Some s -> In (typed c (PStr s)) (skel_attempts t dv sk).
  Proof.
    intros co sk dv c s Hc Hin Hs. destruct (steps_complete_parts co sk Hc) as [_ [H _]].
    eapply steps_try; [exact H| |].
    - unfold read_src. rewrite Hs. reflexivity.
    - unfold attempt_dyns, fam_attempt. cbn [at_fam fam_cols]. apply in_map_iff. exists c. split; [reflexivity|assumption].
  Qed.
  Lemma steps_try_uint : forall co sk dv c u, steps_complete co sk = true -> co <> CoText ->
    In c (family t KUint64 (own_of co)) -> dv_u64 dv = Some u ->
    conv_int (ti_bkind (col_info c)) u = u -> In (typed_int c u) (skel_attempts t dv sk).
  Proof.
    intros co sk dv c u Hc Hnt Hin Hu Hr. destruct (steps_complete_parts co sk Hc) as [_ [_ [H _]]].
    destruct (H Hnt) as [H1 _].
    eapply steps_try; [exact H1| |].
    - unfold read_src. rewrite Hu. reflexivity.
    - unfold attempt_dyns, fam_attempt. cbn [at_fam at_conv fam_cols]. apply int_attempts_in; assumption.
  Qed.
  Lemma steps_try_int : forall co sk dv c i, steps_complete co sk = true -> co <> CoText ->
    In c (family t KInt64 (own_of co)) -> dv_i64 dv = Some i ->
    conv_int (ti_bkind (col_info c)) i = i -> In (typed_int c i) (skel_attempts t dv sk).
  Proof.
    intros co sk dv c i Hc Hnt Hin Hi Hr. destruct (steps_complete_parts co sk Hc) as [_ [_ [H _]]].
    destruct (H Hnt) as [_ H2].
    eapply steps_try; [exact H2| |].
    - unfold read_src. rewrite Hi. reflexivity.
    - unfold attempt_dyns, fam_attempt. cbn [at_fam at_conv fam_cols]. apply int_attempts_in; assumption.
  Qed.
  Lemma steps_try_plain : forall co sk dv s, steps_complete co sk = true -> dv_str dv = Some s ->
    In (DStr s) (skel_attempts t dv sk).
  Proof.
    intros co sk dv s Hc Hs. destruct (steps_complete_parts co sk Hc) as [Hn _].
    destruct (name_first_inv sk Hn) as [pre [cv [body [rest [_ ->]]]]].
    rewrite skel_attempts_app. apply in_or_app. right. rewrite skel_attempts_cons. apply in_or_app. left.
    cbn [step_dyns gate_open]. unfold read_src. rewrite Hs. cbn [flat_map attempt_dyns at_fam src_type].
    apply in_or_app. left. left. reflexivity.
  Qed.
  Lemma steps_try_own : forall co sk dv c p, steps_complete co sk = true ->
    In c (family_own t (own_of co)) -> lookup (col_type c) (dv_native dv) = Some (Some p) ->
    In (typed c p) (skel_attempts t dv sk).
  Proof.
    intros co sk dv c p Hc Hin Hl. destruct (steps_complete_parts co sk Hc) as [_ [_ [_ H]]].
    eapply steps_try_native; eassumption.
  Qed.

  (* decoding a document that holds the trait constant of row r (as one of the readings the
     decoder tries) returns the owning value *)
  Lemma decode_trait_steps : forall sk dv c r, In c (t_cols t) -> col_parsable c = true -> In r (col_rows c) ->
    dv_null dv = false ->
    In (cl_val (r_cell r)) (skel_attempts t dv sk) -> unambiguous (skel_attempts t dv sk) (g_z (r_owner r)) ->
    run_steps (sem_parse t) t dv sk = Some (g_z (r_owner r)).
  Proof.
    intros sk dv c r Hc Hp Hr Hnn Hin Hu. rewrite run_steps_attempts by assumption.
    eapply try_all_unique; [exact Hin|apply (parse_trait_row c r Hc Hp Hr)|exact Hu].
  Qed.

  (* for every well-formed skeleton record *)
  Lemma decode_trait_json_sk : forall k, skels_ok k = true ->
    forall c r jv, In c (t_cols t) -> col_parsable c = true -> In r (col_rows c) ->
    jv_null jv = false ->
    In (cl_val (r_cell r)) (json_attempts_sk k t jv) -> unambiguous (json_attempts_sk k t jv) (g_z (r_owner r)) ->
    decode_json_sk k t jv = Some (g_z (r_owner r)).
  Proof.
    intros k Hk c r jv Hc Hp Hr Hnn Hin Hu. rewrite decode_json_sk_parse by assumption.
    apply (decode_trait_steps _ (dv_of_j jv) c r); assumption.
  Qed.
  Lemma decode_trait_yaml_sk : forall k, skels_ok k = true ->
    forall c r yv, In c (t_cols t) -> col_parsable c = true -> In r (col_rows c) ->
    yv_scalar yv = true ->
    In (cl_val (r_cell r)) (yaml_attempts_sk k t yv) -> unambiguous (yaml_attempts_sk k t yv) (g_z (r_owner r)) ->
    decode_yaml_sk k t yv = Some (g_z (r_owner r)).
  Proof.
    intros k Hk c r yv Hc Hp Hr Hsc Hin Hu. rewrite decode_yaml_sk_parse by assumption.
    apply (decode_trait_steps _ (dv_of_y yv) c r); try assumption. simpl. rewrite Hsc. reflexivity.
  Qed.
  Lemma decode_trait_text_sk : forall k, skels_ok k = true ->
    forall c r tv, In c (t_cols t) -> col_parsable c = true -> In r (col_rows c) ->
    In (cl_val (r_cell r)) (text_attempts_sk k t tv) -> unambiguous (text_attempts_sk k t tv) (g_z (r_owner r)) ->
    decode_text_sk k t tv = Some (g_z (r_owner r)).
  Proof.
    intros k Hk c r tv Hc Hp Hr Hin Hu. rewrite decode_text_sk_parse by assumption.
    apply (decode_trait_steps _ (dv_of_t tv) c r); try assumption. reflexivity.
  Qed.

  Lemma decode_trait_json : forall c r jv, In c (t_cols t) -> col_parsable c = true -> In r (col_rows c) ->
    jv_null jv = false ->
    In (cl_val (r_cell r)) (json_attempts t jv) -> unambiguous (json_attempts t jv) (g_z (r_owner r)) ->
    decode_json t jv = Some (g_z (r_owner r)).
  Proof. exact (decode_trait_json_sk cur_skels cur_skels_ok). Qed.
  Lemma decode_trait_yaml : forall c r yv, In c (t_cols t) -> col_parsable c = true -> In r (col_rows c) ->
    yv_scalar yv = true ->
    In (cl_val (r_cell r)) (yaml_attempts t yv) -> unambiguous (yaml_attempts t yv) (g_z (r_owner r)) ->
    decode_yaml t yv = Some (g_z (r_owner r)).
  Proof. exact (decode_trait_yaml_sk cur_skels cur_skels_ok). Qed.
  Lemma decode_trait_text : forall c r tv, In c (t_cols t) -> col_parsable c = true -> In r (col_rows c) ->
    In (cl_val (r_cell r)) (text_attempts t tv) -> unambiguous (text_attempts t tv) (g_z (r_owner r)) ->
    decode_text t tv = Some (g_z (r_owner r)).
  Proof. exact (decode_trait_text_sk cur_skels cur_skels_ok). Qed.
End Traits.

(* ---- before the range check (fix C05-numeric-trait-range-check): a parsable uint8 trait
   Code = 1/2; the number 257 is not a trait value, yet uint8(257) = 1 and the document decoded
   to the value whose Code is 1.  The current decoders reject it and still accept 1. *)
Definition nw_cell (var : string) (z : Z) : cell :=
  {| cl_var := var; cl_expr := "uint8(" ++ dec z ++ ")"; cl_val := {| dty := "uint8"; dval := PInt z |} |}.
Definition nw_defn : defn :=
  {| d_ty := {| ty_name := "E0"; ty_signed := true; ty_bits := 64 |};
     d_consts := [ {| c_name := "A"; c_val := 0; c_dep := false; c_cells := [nw_cell "_Code" 1] |};
                   {| c_name := "B"; c_val := 1; c_dep := false; c_cells := [nw_cell "_" 2] |} ];
     d_types := [("uint8", {| ti_bkind := BUint8; ti_json_own := false; ti_yaml_own := false; ti_text_own := false |})] |}.
Definition nw_opts : opts :=
  {| o_json := true; o_yaml := true; o_text := true; o_ci := false; o_notraits := false; o_parsable := ["Code"] |}.
Definition nw_json (z : Z) : jview := {| jv_null := false; jv_string := None; jv_u64 := Some z; jv_i64 := Some z; jv_native := [] |}.
Definition nw_yaml (z : Z) : yview := {| yv_scalar := true; yv_value := dec z; yv_u64 := Some z; yv_i64 := Some z; yv_native := [] |}.

Lemma decode_norc_refuted :
  exists t, gen nw_defn nw_opts = Built t
            /\ decode_json_norc t (nw_json 257) = Some 0 /\ decode_yaml_norc t (nw_yaml 257) = Some 0
            /\ decode_json t (nw_json 257) = None /\ decode_yaml t (nw_yaml 257) = None
            /\ decode_json t (nw_json 1) = Some 0 /\ decode_yaml t (nw_yaml 2) = Some 1.
Proof. eexists. split; [vm_compute; reflexivity|]. vm_compute. repeat split. Qed.

(* ---- before fix C05-json-null-rejected: json.Unmarshal of `null` into string / uint64 / int64 succeeds
   (leaving "" and 0), so the document null decoded to the value whose parsable numeric trait is 0 *)
Definition null_view : jview :=
  {| jv_null := true; jv_string := Some ""; jv_u64 := Some 0; jv_i64 := Some 0; jv_native := [] |}.
Lemma decode_null_refuted :
  exists t, gen yw_defn yw_opts = Built t
            /\ decode_json_nullok t null_view = Some 0 /\ decode_json t null_view = None.
Proof. eexists. split; [vm_compute; reflexivity|]. vm_compute. split; reflexivity. Qed.

Lemma decode_json_null : forall t jv, jv_null jv = true -> decode_json t jv = None.
Proof. intros t jv H. apply (decode_json_null_sk cur_skels cur_skels_ok t jv H). Qed.

(* ---- a parsable plain-string trait that spells the value's own name (fix C12-parsable-trait-equals-name) *)
Definition on_defn : defn :=
  {| d_ty := {| ty_name := "E0"; ty_signed := true; ty_bits := 64 |};
     d_consts := [ {| c_name := "Red"; c_val := 0; c_dep := false;
                      c_cells := [ {| cl_var := "_Label"; cl_expr := """Red"""; cl_val := DStr "Red" |} ] |};
                   {| c_name := "Blue"; c_val := 1; c_dep := false;
                      c_cells := [ {| cl_var := "_"; cl_expr := """blu"""; cl_val := DStr "blu" |} ] |} ];
     d_types := [("string", {| ti_bkind := BUntypedString; ti_json_own := false; ti_yaml_own := false; ti_text_own := false |})] |}.
Definition on_clash : defn :=
  {| d_ty := d_ty on_defn;
     d_consts := [ {| c_name := "Red"; c_val := 0; c_dep := false;
                      c_cells := [ {| cl_var := "_Label"; cl_expr := """Blue"""; cl_val := DStr "Blue" |} ] |};
                   {| c_name := "Blue"; c_val := 1; c_dep := false;
                      c_cells := [ {| cl_var := "_"; cl_expr := """x"""; cl_val := DStr "x" |} ] |} ];
     d_types := d_types on_defn |}.
Definition on_opts : opts :=
  {| o_json := true; o_yaml := true; o_text := true; o_ci := false; o_notraits := false; o_parsable := ["Label"] |}.
Lemma own_name_trait :
  (exists t, gen on_defn on_opts = Built t
             /\ sem_parse t (DStr "Red") = Some 0 /\ sem_parse t (DStr "blu") = Some 1)
  /\ gen on_clash on_opts = GenErr.
Proof. split; [eexists; split; [vm_compute; reflexivity|vm_compute; split; reflexivity]|vm_compute; reflexivity]. Qed.

(* ================================================================== Part 6: every well-formed skeleton record *)
(* Parse<T> and the small functions interpreted over a skeleton record accepted by skels_ok are the
   functions Parts 3-5 are about *)
Section SkelSmall.
  Variable k : skels.
  Hypothesis Hk : skels_ok k = true.

  Lemma small_facts :
    sk_enc_json k = EncJSONOfString /\ sk_enc_text k = EncBytesOfString /\ sk_enc_yaml k = EncString
    /\ sk_table k = TblNames VsDedup /\ sk_values k = ValCloneOfTable /\ sk_stringvalues k = TblNames VsDedup
    /\ sk_string k = StrSwitch VsDedup "Undefined" ":%d"
    /\ sk_isvalid k = IvThreshold VsAll 15 MemBinarySearch MemLinear
    /\ sk_accessor k = AccSwitchRowsElseZero
    /\ sk_parsestring k = true /\ sk_parsegeneric k = true.
  Proof.
    destruct (skels_ok_parts k Hk) as [_ [_ [_ [_ H]]]]. unfold small_ok in H.
    repeat match goal with X : _ && _ = true |- _ => apply andb_true_iff in X; destruct X end.
    repeat match goal with
           | X : enc_eqb ?a _ = true |- _ => destruct a; try discriminate X; clear X
           end.
    destruct (sk_table k) as [[]|]; try discriminate.
    destruct (sk_values k); try discriminate.
    destruct (sk_stringvalues k) as [[]|]; try discriminate.
    destruct (sk_string k) as [[] pre suf|]; try discriminate.
    destruct (sk_isvalid k) as [vs n above below|]; try discriminate.
    destruct vs; try discriminate.
    do 15 (destruct n as [|n]; try discriminate). destruct n; try discriminate.
    destruct above; try discriminate. destruct below; try discriminate.
    destruct (sk_accessor k); try discriminate.
    repeat match goal with X : _ && _ = true |- _ => apply andb_true_iff in X; destruct X end.
    repeat match goal with X : String.eqb _ _ = true |- _ => apply String.eqb_eq in X; subst end.
    repeat split; try reflexivity; assumption.
  Qed.

  Lemma sem_parse_sk_eq : forall t x, sem_parse_sk (sk_parse k) t x = sem_parse t x.
  Proof. intros t x. apply sem_parse_sk_ok. apply (skels_ok_parts k Hk). Qed.
  Lemma sem_values_sk_eq : forall t, sem_values_sk k t = sem_values t.
  Proof.
    intros t. destruct small_facts as [_ [_ [_ [Ht [Hv _]]]]]. unfold sem_values_sk. rewrite Hv, Ht. reflexivity.
  Qed.
  Lemma sem_stringvalues_sk_eq : forall t, sem_stringvalues_sk k t = sem_stringvalues t.
  Proof.
    intros t. destruct small_facts as [_ [_ [_ [_ [_ [Hs _]]]]]]. unfold sem_stringvalues_sk. rewrite Hs. reflexivity.
  Qed.
  Lemma sem_string_sk_eq : forall t e, sem_string_sk k t e = sem_string t e.
  Proof.
    intros t e. destruct small_facts as [_ [_ [_ [_ [_ [_ [Hs _]]]]]]]. unfold sem_string_sk, sem_string. rewrite Hs.
    cbn [vs_list]. destruct (find _ (t_dedup t)); reflexivity.
  Qed.
  Lemma sem_accessor_sk_eq : forall c e, sem_accessor_sk k c e = sem_accessor c e.
  Proof.
    intros c e. destruct small_facts as [_ [_ [_ [_ [_ [_ [_ [_ [Ha _]]]]]]]]]. unfold sem_accessor_sk. rewrite Ha. reflexivity.
  Qed.
  Lemma encode_json_sk_eq : forall t e, encode_json_sk k t e = encode_json t e.
  Proof.
    intros t e. destruct small_facts as [H _]. unfold encode_json_sk, encode_json. rewrite H, sem_string_sk_eq. reflexivity.
  Qed.
  Lemma encode_text_sk_eq : forall t e, encode_text_sk k t e = encode_text t e.
  Proof.
    intros t e. destruct small_facts as [_ [H _]]. unfold encode_text_sk, encode_text. rewrite H, sem_string_sk_eq. reflexivity.
  Qed.
  Lemma encode_yaml_sk_eq : forall t e, encode_yaml_sk k t e = encode_yaml t e.
  Proof.
    intros t e. destruct small_facts as [_ [_ [H _]]]. unfold encode_yaml_sk, encode_yaml. rewrite H, sem_string_sk_eq. reflexivity.
  Qed.
  Lemma sem_isvalid_sk_eq : forall d o t e, gen d o = Built t -> sem_isvalid_sk k t e = sem_isvalid t e.
  Proof.
    intros d o t e Hg. destruct small_facts as [_ [_ [_ [_ [_ [_ [_ [Hi _]]]]]]]].
    unfold sem_isvalid_sk, sem_isvalid_tbl, sem_isvalid. rewrite Hi, sem_values_sk_eq. cbn [vs_list].
    destruct (gen_built d o t Hg) as [Hall [_ [_ [_ [Hb _]]]]].
    rewrite Hb, Hall, sort_values_length. destruct (Nat.ltb 15 (length (d_consts d))); reflexivity.
  Qed.

  (* history independence of the generated API: whatever callers wrote into the slices that Values() and
     StringValues() handed out earlier, later calls return and decide the same (the slices are fresh copies) *)
  Lemma table_after_fresh : forall tb h, table_after k tb h = tb.
  Proof.
    intros tb h. destruct small_facts as [_ [_ [_ [_ [Hv _]]]]]. unfold table_after. rewrite Hv.
    revert tb. induction h as [|ev r IH]; intros tb; simpl; [reflexivity|]. destruct ev; apply IH.
  Qed.
  Lemma history_independent : forall t h,
    sem_values_hist k t h = sem_values_sk k t /\ forall e, sem_isvalid_hist k t h e = sem_isvalid_sk k t e.
  Proof.
    intros t h. unfold sem_values_hist, sem_isvalid_hist, sem_isvalid_sk. rewrite table_after_fresh. split; reflexivity.
  Qed.
End SkelSmall.

(* encoders over a well-formed skeleton record *)
Lemma encode_json_sk_spec : forall k, skels_ok k = true -> forall d o t, wf_defn d -> gen d o = Built t ->
  forall v, encode_json_sk k t v = quote (string_spec d v).
Proof. intros k Hk d o t Hwf Hg v. rewrite (encode_json_sk_eq k Hk). apply (encode_json_spec d o t Hwf Hg). Qed.
Lemma encode_text_sk_spec : forall k, skels_ok k = true -> forall d o t, wf_defn d -> gen d o = Built t ->
  forall v, encode_text_sk k t v = string_spec d v.
Proof. intros k Hk d o t Hwf Hg v. rewrite (encode_text_sk_eq k Hk). apply (encode_text_spec d o t Hwf Hg). Qed.
Lemma encode_yaml_sk_spec : forall k, skels_ok k = true -> forall d o t, wf_defn d -> gen d o = Built t ->
  forall v, encode_yaml_sk k t v = string_spec d v.
Proof. intros k Hk d o t Hwf Hg v. rewrite (encode_yaml_sk_eq k Hk). apply (encode_yaml_spec d o t Hwf Hg). Qed.

(* ---- before fix C05-yaml-nonscalar-rejected: a parsable string trait with value "" and the YAML
   sequence `[1, 2]` (node.Value = "") *)
Definition es_cell (var s : string) : cell :=
  {| cl_var := var; cl_expr := quote s; cl_val := DStr s |}.
Definition es_defn : defn :=
  {| d_ty := {| ty_name := "E0"; ty_signed := true; ty_bits := 64 |};
     d_consts := [ {| c_name := "A"; c_val := 0; c_dep := false; c_cells := [es_cell "_Label" ""] |};
                   {| c_name := "B"; c_val := 1; c_dep := false; c_cells := [es_cell "_" "b"] |} ];
     d_types := [("string", {| ti_bkind := BUntypedString; ti_json_own := false; ti_yaml_own := false; ti_text_own := false |})] |}.
Definition es_opts : opts :=
  {| o_json := true; o_yaml := true; o_text := true; o_ci := false; o_notraits := false; o_parsable := ["Label"] |}.
Definition es_seq : yview := {| yv_scalar := false; yv_value := ""; yv_u64 := None; yv_i64 := None; yv_native := [] |}.
Lemma decode_yaml_anykind_refuted :
  exists t, gen es_defn es_opts = Built t
            /\ decode_yaml_anykind t es_seq = Some 0 /\ decode_yaml t es_seq = None.
Proof. eexists. split; [vm_compute; reflexivity|]. vm_compute. split; reflexivity. Qed.

(* the functions interpreted over a well-formed skeleton record are the functions of Parts 3-5 *)
Lemma skel_functions : forall k, skels_ok k = true -> forall d o t, gen d o = Built t ->
  sem_values_sk k t = sem_values t /\ sem_stringvalues_sk k t = sem_stringvalues t
  /\ (forall e, sem_isvalid_sk k t e = sem_isvalid t e) /\ (forall e, sem_string_sk k t e = sem_string t e)
  /\ (forall x, sem_parse_sk (sk_parse k) t x = sem_parse t x)
  /\ sk_parsestring k = true /\ sk_parsegeneric k = true.
Proof.
  intros k Hk d o t Hg. split; [apply sem_values_sk_eq; assumption|]. split; [apply sem_stringvalues_sk_eq; assumption|].
  split; [intros e; apply (sem_isvalid_sk_eq k Hk d o t e Hg)|]. split; [intros e; apply sem_string_sk_eq; assumption|].
  split; [intros x; apply sem_parse_sk_eq; assumption|]. apply (small_facts k Hk).
Qed.
Lemma skel_accessor : forall k, skels_ok k = true -> forall c e, sem_accessor_sk k c e = sem_accessor c e.
Proof. intros k Hk c e. apply sem_accessor_sk_eq. assumption. Qed.

(* a Values() that returns the table itself (seeded change C04-32) is not history independent: after a caller
   reversed its result, the next Values() is descending and the binary search of IsValid misses defined values *)
Definition alias_skels : skels :=
  {| sk_json := sk_json cur_skels; sk_text := sk_text cur_skels; sk_yaml := sk_yaml cur_skels;
     sk_enc_json := sk_enc_json cur_skels; sk_enc_text := sk_enc_text cur_skels; sk_enc_yaml := sk_enc_yaml cur_skels;
     sk_enc_gates := sk_enc_gates cur_skels; sk_parse := sk_parse cur_skels; sk_parse_gates := sk_parse_gates cur_skels;
     sk_parsestring := true; sk_parsegeneric := true;
     sk_table := sk_table cur_skels; sk_values := ValAliasOfTable; sk_stringvalues := sk_stringvalues cur_skels;
     sk_string := sk_string cur_skels; sk_isvalid := sk_isvalid cur_skels; sk_accessor := sk_accessor cur_skels;
     sk_plain_gates := sk_plain_gates cur_skels; sk_accessor_gates := sk_accessor_gates cur_skels |}.
Lemma alias_not_history_independent :
  skels_ok alias_skels = false
  /\ exists t, gen yw_defn yw_opts = Built t
       /\ sem_values_hist alias_skels t [HWriteValues 0 2; HWriteValues 2 0] = [2; 1; 0]
       /\ sem_values_hist cur_skels t [HWriteValues 0 2; HWriteValues 2 0] = [0; 1; 2].
Proof. split; [vm_compute; reflexivity|]. eexists. split; [vm_compute; reflexivity|]. vm_compute. split; reflexivity. Qed.
