(* GEnumProofs.v — lemmas about the genum model (GEnumModel.v).

   Part 1  Value.Less on the generator's (u64, Signed) representation is the lexicographic
           order on (integer value, name); Go's unstable sort has exactly one possible result.
   Part 2  ValueDeduplicatedSet keeps, per value, the first non-deprecated constant (else the
           first), i.e. the primary name; the value table is the ascending list of distinct values.
   Part 3  behaviour of the emitted code: Values, IsValid, String, StringValues, Parse*.
   Part 4  codecs (C05).     Part 5  traits (C12).                                            *)
From Coq Require Import String Ascii ZArith List Bool Lia Permutation Sorted.
From GT Require Import Base.GEnumStr.
From GT Require Import Base.GEnumStrFacts.
From GT Require Import Base.GEnumSort.
From GT Require Import Base.GEnumSortFacts.
From GT Require Import GEnumModel.
Import ListNotations.
Local Open Scope string_scope.
Local Open Scope list_scope.
Local Open Scope Z_scope.

(* ================================================================== Part 1: order *)

Definition ty_ok (t : ety) : Prop := 1 <= ty_bits t <= 64.

(* range of constants whose (u64, Signed) representation is faithful *)
Definition rep_ok (signed : bool) (z : Z) : Prop :=
  if signed then - 2 ^ 63 <= z < 2 ^ 63 else 0 <= z < 2 ^ 64.

Lemma pow2_le_63 : forall b, 1 <= b <= 64 -> 2 ^ (b - 1) <= 2 ^ 63.
Proof. intros b Hb. apply Z.pow_le_mono_r; lia. Qed.
Lemma pow2_le_64 : forall b, 1 <= b <= 64 -> 2 ^ b <= 2 ^ 64.
Proof. intros b Hb. apply Z.pow_le_mono_r; lia. Qed.

Lemma in_range_rep : forall t z, ty_ok t -> in_range t z = true -> rep_ok (ty_signed t) z.
Proof.
  intros t z Ht H. unfold in_range, ty_min, ty_max in H. unfold rep_ok.
  apply andb_true_iff in H. destruct H as [H1 H2]. apply Z.leb_le in H1, H2.
  destruct (ty_signed t).
  - pose proof (pow2_le_63 _ Ht). lia.
  - pose proof (pow2_le_64 _ Ht). lia.
Qed.

Definition lex_less (a b : gvalue) : bool :=
  (g_z a <? g_z b) || ((g_z a =? g_z b) && str_ltb (g_name a) (g_name b)).

Lemma as_i64_mod : forall z, - 2 ^ 63 <= z < 2 ^ 63 -> as_i64 (z mod two64) = z.
Proof.
  intros z Hz. unfold as_i64, two64 in *.
  change (2 ^ 63) with 9223372036854775808 in *. change (2 ^ 64) with 18446744073709551616 in *.
  destruct (Z_lt_dec z 0) as [Hneg|Hpos].
  - assert (E : z mod 18446744073709551616 = z + 18446744073709551616).
    { symmetry. apply Z.mod_unique with (q := -1); lia. }
    rewrite E. destruct (Z.ltb_spec (z + 18446744073709551616) 9223372036854775808); lia.
  - rewrite Z.mod_small by lia. destruct (Z.ltb_spec z 9223372036854775808); lia.
Qed.

Lemma u64_small : forall z, 0 <= z < 2 ^ 64 -> z mod two64 = z.
Proof. intros z Hz. unfold two64. apply Z.mod_small. assumption. Qed.

Lemma g_less_lex : forall sg ca cb, rep_ok sg (c_val ca) -> rep_ok sg (c_val cb) ->
  g_less (to_gvalue ca) (to_gvalue cb) = lex_less (to_gvalue ca) (to_gvalue cb).
Proof.
  intros sg ca cb Ha Hb. unfold g_less, lex_less, to_gvalue; cbn [g_name g_u64 g_signed g_z].
  set (za := c_val ca) in *. set (zb := c_val cb) in *.
  set (na := c_name ca). set (nb := c_name cb).
  assert (Hfinal : forall x y, (if x =? y then str_ltb na nb else x <? y)
                               = (x <? y) || ((x =? y) && str_ltb na nb)).
  { intros x y. destruct (Z.eqb_spec x y); destruct (Z.ltb_spec x y); try lia; simpl; reflexivity. }
  destruct sg; unfold rep_ok in Ha, Hb.
  - (* signed type *)
    destruct ((za <? 0) || (zb <? 0)) eqn:Hs.
    + rewrite !as_i64_mod by assumption. apply Hfinal.
    + apply orb_false_iff in Hs. destruct Hs as [Hs1 Hs2].
      apply Z.ltb_ge in Hs1, Hs2.
      rewrite !u64_small by (change (2 ^ 64) with 18446744073709551616;
                             change (2 ^ 63) with 9223372036854775808 in *; lia).
      apply Hfinal.
  - (* unsigned type *)
    assert (H1 : za <? 0 = false) by (apply Z.ltb_ge; lia).
    assert (H2 : zb <? 0 = false) by (apply Z.ltb_ge; lia).
    rewrite H1, H2. simpl. rewrite !u64_small by assumption. apply Hfinal.
Qed.

Lemma u64_eq_z : forall sg ca cb, rep_ok sg (c_val ca) -> rep_ok sg (c_val cb) ->
  (g_u64 (to_gvalue ca) =? g_u64 (to_gvalue cb)) = (c_val ca =? c_val cb).
Proof.
  intros sg ca cb Ha Hb. cbn [to_gvalue g_u64].
  destruct (Z.eqb_spec (c_val ca) (c_val cb)) as [E|NE].
  - rewrite E. apply Z.eqb_refl.
  - apply Z.eqb_neq. intro E. apply NE.
    destruct sg; unfold rep_ok in *.
    + rewrite <- (as_i64_mod (c_val ca)), <- (as_i64_mod (c_val cb)) by assumption. rewrite E. reflexivity.
    + rewrite <- (u64_small (c_val ca)), <- (u64_small (c_val cb)) by assumption. exact E.
Qed.

Lemma lex_irrefl : forall a, lex_less a a = false.
Proof.
  intros a. unfold lex_less. rewrite Z.ltb_irrefl, str_ltb_irrefl, andb_false_r. reflexivity.
Qed.

Lemma lex_trans : forall a b c, lex_less a b = true -> lex_less b c = true -> lex_less a c = true.
Proof.
  intros a b c. unfold lex_less. intros H1 H2.
  apply orb_true_iff in H1. apply orb_true_iff in H2. apply orb_true_iff.
  destruct H1 as [H1|H1]; destruct H2 as [H2|H2];
    try apply Z.ltb_lt in H1; try apply Z.ltb_lt in H2;
    try (apply andb_true_iff in H1; destruct H1 as [E1 S1]; apply Z.eqb_eq in E1);
    try (apply andb_true_iff in H2; destruct H2 as [E2 S2]; apply Z.eqb_eq in E2).
  - left. apply Z.ltb_lt. lia.
  - left. apply Z.ltb_lt. lia.
  - left. apply Z.ltb_lt. lia.
  - right. apply andb_true_iff. split; [apply Z.eqb_eq; lia|]. eapply str_ltb_trans; eauto.
Qed.

Lemma lex_total : forall a b, g_name a <> g_name b -> lex_less a b = true \/ lex_less b a = true.
Proof.
  intros a b Hn. unfold lex_less.
  destruct (Z.lt_total (g_z a) (g_z b)) as [H|[H|H]].
  - left. apply orb_true_iff. left. apply Z.ltb_lt. assumption.
  - destruct (str_ltb_total _ _ Hn) as [S|S]; [left|right]; apply orb_true_iff; right;
      apply andb_true_iff; (split; [apply Z.eqb_eq; lia|assumption]).
  - right. apply orb_true_iff. left. apply Z.ltb_lt. assumption.
Qed.

Lemma lex_asym : forall a b, lex_less a b = true -> lex_less b a = false.
Proof.
  intros a b H. destruct (lex_less b a) eqn:E; [|reflexivity].
  pose proof (lex_trans _ _ _ H E) as T. rewrite lex_irrefl in T. discriminate.
Qed.

Lemma lex_z_le : forall a b, lex_less a b = true -> g_z a <= g_z b.
Proof.
  intros a b H. unfold lex_less in H. apply orb_true_iff in H. destruct H as [H|H].
  - apply Z.ltb_lt in H. lia.
  - apply andb_true_iff in H. destruct H as [H _]. apply Z.eqb_eq in H. lia.
Qed.

Lemma NoDup_map_inj_in : forall {A B} (f : A -> B) l a b,
  NoDup (map f l) -> In a l -> In b l -> f a = f b -> a = b.
Proof.
  intros A B f l. induction l as [|x r IH]; intros a b Hnd Ha Hb E; simpl in *.
  - contradiction.
  - inversion Hnd as [|? ? Hx Hr]; subst.
    destruct Ha as [->|Ha]; destruct Hb as [->|Hb].
    + reflexivity.
    + exfalso. apply Hx. rewrite E. apply in_map. assumption.
    + exfalso. apply Hx. rewrite <- E. apply in_map. assumption.
    + apply IH; assumption.
Qed.

Section Order.
  Variable ty : ety.
  Hypothesis Hty : ty_ok ty.
  Variable cs : list const.
  Hypothesis Hrange : Forall (fun c => in_range ty (c_val c) = true) cs.
  Hypothesis Hnames : NoDup (map c_name cs).

  Definition gvals : list gvalue := map to_gvalue cs.
  Definition inL (g : gvalue) : Prop := In g gvals.

  Lemma inL_const : forall g, inL g -> exists c, In c cs /\ g = to_gvalue c /\ rep_ok (ty_signed ty) (c_val c).
  Proof.
    intros g Hg. unfold inL, gvals in Hg. apply in_map_iff in Hg. destruct Hg as [c [E Hc]].
    exists c. split; [assumption|]. split; [symmetry; assumption|].
    rewrite Forall_forall in Hrange. apply in_range_rep; [assumption|]. apply Hrange. assumption.
  Qed.

  Lemma g_less_lex_L : forall a b, inL a -> inL b -> g_less a b = lex_less a b.
  Proof.
    intros a b Ha Hb. destruct (inL_const _ Ha) as [ca [_ [-> Ra]]].
    destruct (inL_const _ Hb) as [cb [_ [-> Rb]]]. eapply g_less_lex; eauto.
  Qed.

  Lemma u64_eq_z_L : forall a b, inL a -> inL b -> (g_u64 a =? g_u64 b) = (g_z a =? g_z b).
  Proof.
    intros a b Ha Hb. destruct (inL_const _ Ha) as [ca [_ [-> Ra]]].
    destruct (inL_const _ Hb) as [cb [_ [-> Rb]]]. eapply u64_eq_z; eauto.
  Qed.

  Lemma gvals_names : map g_name gvals = map c_name cs.
  Proof. unfold gvals. rewrite map_map. reflexivity. Qed.

  Lemma NoDup_gvals : NoDup gvals.
  Proof.
    apply (NoDup_map_inv g_name). rewrite gvals_names. assumption.
  Qed.

  Lemma inL_name_inj : forall a b, inL a -> inL b -> g_name a = g_name b -> a = b.
  Proof.
    intros a b Ha Hb E. apply (NoDup_map_inj_in g_name gvals); try assumption.
    rewrite gvals_names. assumption.
  Qed.

  Lemma gl_irrefl : forall a, inL a -> g_less a a = false.
  Proof. intros a Ha. rewrite g_less_lex_L by assumption. apply lex_irrefl. Qed.
  Lemma gl_trans : forall a b c, inL a -> inL b -> inL c ->
    g_less a b = true -> g_less b c = true -> g_less a c = true.
  Proof.
    intros a b c Ha Hb Hc. rewrite !g_less_lex_L by assumption. apply lex_trans.
  Qed.
  Lemma gl_total : forall a b, inL a -> inL b -> a <> b -> g_less a b = true \/ g_less b a = true.
  Proof.
    intros a b Ha Hb Hne. rewrite !g_less_lex_L by assumption. apply lex_total.
    intro E. apply Hne. apply inL_name_inj; assumption.
  Qed.

  Lemma Forall_inL : Forall inL gvals.
  Proof. apply Forall_forall. intros x Hx. exact Hx. Qed.

  (* Go's sort.Sort is not stable and its result is not specified beyond "sorted permutation":
     there is exactly one such list *)
  Lemma sort_values_unique : forall s,
    Permutation s gvals -> StronglySorted (fun a b => g_less b a = false) s -> s = sort_values cs.
  Proof.
    intros s Hp Hs. unfold sort_values. fold gvals.
    apply (sorted_perm_unique g_less inL gl_irrefl gl_trans gl_total); try assumption.
    - apply Forall_inL.
    - apply NoDup_gvals.
  Qed.

  Lemma sort_values_perm : Permutation (sort_values cs) gvals.
  Proof. unfold sort_values. apply isort_perm. Qed.

  Lemma sort_values_in : forall g, In g (sort_values cs) <-> inL g.
  Proof. intros g. unfold sort_values, inL, gvals. apply isort_in. Qed.

  Lemma sort_values_NoDup : NoDup (sort_values cs).
  Proof.
    eapply Permutation_NoDup; [apply Permutation_sym, sort_values_perm|apply NoDup_gvals].
  Qed.

  Lemma sort_values_sorted : StronglySorted (fun a b => lex_less a b = true) (sort_values cs).
  Proof.
    assert (H : StronglySorted (fun a b => g_less a b = true) (sort_values cs)).
    { unfold sort_values. fold gvals.
      apply (isort_sorted g_less inL gl_trans gl_total); [apply Forall_inL|apply NoDup_gvals]. }
    assert (Hin : forall g, In g (sort_values cs) -> inL g) by (intros g; apply sort_values_in).
    revert H Hin. generalize (sort_values cs). intros l H. induction H as [|a l Hs IH Hall]; intros Hin.
    - constructor.
    - constructor.
      + apply IH. intros g Hg. apply Hin. right. assumption.
      + rewrite Forall_forall in Hall. rewrite Forall_forall. intros x Hx. rewrite <- g_less_lex_L.
        * apply Hall. assumption.
        * apply Hin. left. reflexivity.
        * apply Hin. right. assumption.
  Qed.
End Order.

(* ================================================================== Part 2: ValueDeduplicatedSet *)

(* the loop of ValueDeduplicatedSet with the state (last kept constant p) made explicit;
   in the repaired code addedDeprecated always equals p.IsDeprecated *)
Fixpoint dedupL (p : gvalue) (s : list gvalue) : list gvalue :=
  match s with
  | [] => [p]
  | c :: r =>
      if negb (g_u64 p =? g_u64 c) then p :: dedupL c r
      else if g_dep p && negb (g_dep c) then dedupL c r
      else dedupL p r
  end.

Lemma dedup_go_L : forall s acc p,
  dedup_go true s (p :: acc) (g_u64 p) (g_dep p) = rev acc ++ dedupL p s.
Proof.
  induction s as [|c r IH]; intros acc p; simpl.
  - reflexivity.
  - destruct (negb (g_u64 p =? g_u64 c)) eqn:E1.
    + rewrite IH. simpl. rewrite <- app_assoc. reflexivity.
    + destruct (g_dep p && negb (g_dep c)) eqn:E2.
      * apply negb_false_iff in E1. apply Z.eqb_eq in E1.
        apply andb_true_iff in E2. destruct E2 as [_ E2]. apply negb_true_iff in E2.
        simpl. rewrite E1. rewrite <- E2 at 1. apply IH.
      * apply IH.
Qed.

Lemma dedup_L : forall s, dedup s = match s with [] => [] | p :: r => dedupL p r end.
Proof.
  intros [|p [|c r]]; try reflexivity.
  unfold dedup, dedup_gen. rewrite dedup_go_L. reflexivity.
Qed.

Lemma dedupL_incl : forall s p g, In g (dedupL p s) -> In g (p :: s).
Proof.
  induction s as [|c r IH]; intros p g H; simpl in H.
  - assumption.
  - destruct (negb (g_u64 p =? g_u64 c)).
    + destruct H as [->|H]; [left; reflexivity|]. right. apply IH. assumption.
    + destruct (g_dep p && negb (g_dep c)).
      * right. apply IH. assumption.
      * apply IH in H. destruct H as [->|H]; [left; reflexivity|right; right; assumption].
Qed.

(* first non-deprecated constant of value v, else the first constant of value v *)
Definition pick (L : list gvalue) (v : Z) : option gvalue :=
  match find (fun g => (g_z g =? v) && negb (g_dep g)) L with
  | Some g => Some g
  | None => find (fun g => g_z g =? v) L
  end.

Lemma pick_cons_skip : forall p L v, g_z p <> v -> pick (p :: L) v = pick L v.
Proof.
  intros p L v H. unfold pick. simpl. apply Z.eqb_neq in H. rewrite H. reflexivity.
Qed.

Lemma pick_cons_live : forall p L, g_dep p = false -> pick (p :: L) (g_z p) = Some p.
Proof. intros p L H. unfold pick. simpl. rewrite Z.eqb_refl, H. reflexivity. Qed.

Lemma pick_cons_dep : forall p L, g_dep p = true ->
  pick (p :: L) (g_z p) =
  match find (fun g => (g_z g =? g_z p) && negb (g_dep g)) L with Some g => Some g | None => Some p end.
Proof. intros p L H. unfold pick. simpl. rewrite Z.eqb_refl, H. reflexivity. Qed.

Lemma find_all_false : forall {A} (f : A -> bool) l, (forall x, In x l -> f x = false) -> find f l = None.
Proof.
  intros A f l. induction l as [|x r IH]; intros H; simpl.
  - reflexivity.
  - rewrite (H x) by (left; reflexivity). apply IH. intros y Hy. apply H. right. assumption.
Qed.

Section DedupSorted.
  (* a list sorted by non-decreasing value on which u64-equality is value-equality *)
  Definition z_le (a b : gvalue) : Prop := g_z a <= g_z b.

  Lemma dedupL_pick : forall s p,
    (forall a b, In a (p :: s) -> In b (p :: s) -> (g_u64 a =? g_u64 b) = (g_z a =? g_z b)) ->
    StronglySorted z_le (p :: s) ->
    Forall (fun g => pick (p :: s) (g_z g) = Some g) (dedupL p s).
  Proof.
    induction s as [|c r IH]; intros p Hu Hs.
    - simpl. constructor; [|constructor]. unfold pick. simpl. rewrite Z.eqb_refl.
      destruct (g_dep p); reflexivity.
    - simpl.
      assert (Hpc : (g_u64 p =? g_u64 c) = (g_z p =? g_z c))
        by (apply Hu; [left; reflexivity|right; left; reflexivity]).
      inversion Hs as [|? ? Hs' Hall]; subst. inversion Hall as [|? ? Hle Hall']; subst.
      inversion Hs' as [|? ? Hs'' Hallc]; subst.
      assert (Hu_c : forall a b, In a (c :: r) -> In b (c :: r) -> (g_u64 a =? g_u64 b) = (g_z a =? g_z b))
        by (intros a b Ha Hb; apply Hu; right; assumption).
      assert (Hu_p : forall a b, In a (p :: r) -> In b (p :: r) -> (g_u64 a =? g_u64 b) = (g_z a =? g_z b)).
      { intros a b Ha Hb; apply Hu; simpl in *; tauto. }
      assert (Hs_p : StronglySorted z_le (p :: r)) by (constructor; assumption).
      rewrite Hpc. destruct (Z.eqb_spec (g_z p) (g_z c)) as [E|NE]; simpl.
      + (* same value *)
        destruct (g_dep p && negb (g_dep c)) eqn:E2.
        * apply andb_true_iff in E2. destruct E2 as [Dp Dc]. apply negb_true_iff in Dc.
          specialize (IH c Hu_c Hs'). rewrite Forall_forall in IH. rewrite Forall_forall.
          intros g Hg. specialize (IH g Hg).
          destruct (Z.eq_dec (g_z p) (g_z g)) as [Eg|NEg].
          -- rewrite <- Eg. rewrite pick_cons_dep by assumption. simpl.
             rewrite E, Z.eqb_refl, Dc. simpl.
             rewrite <- Eg, E in IH. rewrite pick_cons_live in IH by assumption. assumption.
          -- rewrite pick_cons_skip by assumption. assumption.
        * specialize (IH p Hu_p Hs_p). rewrite Forall_forall in IH. rewrite Forall_forall.
          intros g Hg. specialize (IH g Hg).
          destruct (Z.eq_dec (g_z p) (g_z g)) as [Eg|NEg].
          -- rewrite <- Eg in *. destruct (g_dep p) eqn:Dp.
             ++ simpl in E2. apply negb_false_iff in E2.
                rewrite pick_cons_dep in * by assumption. simpl.
                rewrite <- E, Z.eqb_refl, E2. simpl. assumption.
             ++ rewrite pick_cons_live in * by assumption. assumption.
          -- rewrite pick_cons_skip in * by assumption.
             rewrite pick_cons_skip by (rewrite <- E; assumption). assumption.
      + (* a new value starts at c *)
        unfold z_le in Hle.
        assert (Hgt : forall h, In h (c :: r) -> g_z p < g_z h).
        { intros h [->|Hh]; [lia|]. rewrite Forall_forall in Hallc. specialize (Hallc h Hh).
          unfold z_le in Hallc. lia. }
        constructor.
        * destruct (g_dep p) eqn:Dp.
          -- rewrite pick_cons_dep by assumption. rewrite find_all_false; [reflexivity|].
             intros h Hh. specialize (Hgt h Hh). apply andb_false_iff. left. apply Z.eqb_neq. lia.
          -- apply pick_cons_live. assumption.
        * specialize (IH c Hu_c Hs'). rewrite Forall_forall in IH. rewrite Forall_forall.
          intros g Hg. rewrite pick_cons_skip; [apply IH; assumption|].
          apply dedupL_incl in Hg. specialize (Hgt g Hg). lia.
  Qed.

  Lemma dedupL_sorted : forall s p,
    (forall a b, In a (p :: s) -> In b (p :: s) -> (g_u64 a =? g_u64 b) = (g_z a =? g_z b)) ->
    StronglySorted z_le (p :: s) ->
    StronglySorted Z.lt (map g_z (dedupL p s)).
  Proof.
    induction s as [|c r IH]; intros p Hu Hs.
    - simpl. constructor; constructor.
    - simpl.
      assert (Hpc : (g_u64 p =? g_u64 c) = (g_z p =? g_z c))
        by (apply Hu; [left; reflexivity|right; left; reflexivity]).
      inversion Hs as [|? ? Hs' Hall]; subst. inversion Hall as [|? ? Hle Hall']; subst.
      inversion Hs' as [|? ? Hs'' Hallc]; subst.
      assert (Hu_c : forall a b, In a (c :: r) -> In b (c :: r) -> (g_u64 a =? g_u64 b) = (g_z a =? g_z b))
        by (intros a b Ha Hb; apply Hu; right; assumption).
      assert (Hu_p : forall a b, In a (p :: r) -> In b (p :: r) -> (g_u64 a =? g_u64 b) = (g_z a =? g_z b)).
      { intros a b Ha Hb; apply Hu; simpl in *; tauto. }
      assert (Hs_p : StronglySorted z_le (p :: r)) by (constructor; assumption).
      rewrite Hpc. destruct (Z.eqb_spec (g_z p) (g_z c)) as [E|NE]; simpl.
      + destruct (g_dep p && negb (g_dep c)); [apply IH|apply IH]; assumption.
      + simpl. constructor; [apply IH; assumption|].
        rewrite Forall_forall. intros v Hv. apply in_map_iff in Hv. destruct Hv as [g [<- Hg]].
        apply dedupL_incl in Hg. unfold z_le in Hle.
        destruct Hg as [->|Hg]; [lia|]. rewrite Forall_forall in Hallc. specialize (Hallc g Hg).
        unfold z_le in Hallc. lia.
  Qed.

  Lemma dedupL_values_in : forall s p v,
    (forall a b, In a (p :: s) -> In b (p :: s) -> (g_u64 a =? g_u64 b) = (g_z a =? g_z b)) ->
    (In v (map g_z (dedupL p s)) <-> In v (map g_z (p :: s))).
  Proof.
    intros s p v Hu. split.
    - intros H. apply in_map_iff in H. destruct H as [g [<- Hg]]. apply in_map. apply dedupL_incl. assumption.
    - revert p Hu. induction s as [|c r IH]; intros p Hu H.
      + assumption.
      + simpl.
        assert (Hpc : (g_u64 p =? g_u64 c) = (g_z p =? g_z c))
          by (apply Hu; [left; reflexivity|right; left; reflexivity]).
        assert (Hu_c : forall a b, In a (c :: r) -> In b (c :: r) -> (g_u64 a =? g_u64 b) = (g_z a =? g_z b))
          by (intros a b Ha Hb; apply Hu; right; assumption).
        assert (Hu_p : forall a b, In a (p :: r) -> In b (p :: r) -> (g_u64 a =? g_u64 b) = (g_z a =? g_z b)).
        { intros a b Ha Hb; apply Hu; simpl in *; tauto. }
        rewrite Hpc. destruct (Z.eqb_spec (g_z p) (g_z c)) as [E|NE]; simpl.
        * destruct (g_dep p && negb (g_dep c)).
          -- apply IH; [assumption|]. simpl in H. simpl. destruct H as [H|[H|H]]; [left; lia|left; assumption|right; assumption].
          -- apply IH; [assumption|]. simpl in H. simpl. destruct H as [H|[H|H]]; [left; assumption|left; lia|right; assumption].
        * simpl in H. destruct H as [H|H]; [left; assumption|]. right. apply IH; assumption.
  Qed.
End DedupSorted.

Lemma StronglySorted_weaken : forall {A} (R R' : A -> A -> Prop) l,
  (forall a b, R a b -> R' a b) -> StronglySorted R l -> StronglySorted R' l.
Proof.
  intros A R R' l HR H. induction H as [|a l Hs IH Hall]; constructor; [assumption|].
  rewrite Forall_forall in *. intros x Hx. apply HR. apply Hall. assumption.
Qed.

Lemma sorted_lt_ext : forall l1 l2, StronglySorted Z.lt l1 -> StronglySorted Z.lt l2 ->
  (forall v, In v l1 <-> In v l2) -> l1 = l2.
Proof.
  induction l1 as [|a r1 IH]; intros l2 H1 H2 Hext.
  - destruct l2 as [|b r2]; [reflexivity|]. exfalso. apply (proj2 (Hext b)). left. reflexivity.
  - destruct l2 as [|b r2]; [exfalso; apply (proj1 (Hext a)); left; reflexivity|].
    inversion H1 as [|? ? Hs1 Ha]; subst. inversion H2 as [|? ? Hs2 Hb]; subst.
    rewrite Forall_forall in Ha, Hb.
    assert (E : a = b).
    { destruct (proj1 (Hext a) (or_introl eq_refl)) as [E|Hin]; [symmetry; assumption|].
      destruct (proj2 (Hext b) (or_introl eq_refl)) as [E|Hin']; [assumption|].
      specialize (Ha _ Hin'). specialize (Hb _ Hin). lia. }
    subst b. f_equal. apply IH; try assumption.
    intros v. split; intros Hv.
    + destruct (proj1 (Hext v) (or_intror Hv)) as [E|Hin]; [|assumption].
      specialize (Ha _ Hv). lia.
    + destruct (proj2 (Hext v) (or_intror Hv)) as [E|Hin]; [|assumption].
      specialize (Hb _ Hv). lia.
Qed.

(* ---- the specification side *)
Lemma values_spec_in : forall cs v, In v (values_spec cs) <-> In v (map c_val cs).
Proof.
  intros cs v. unfold values_spec. rewrite isort_in. apply nodup_In.
Qed.

Lemma values_spec_sorted : forall cs, StronglySorted Z.lt (values_spec cs).
Proof.
  intros cs. unfold values_spec.
  apply (StronglySorted_weaken (fun a b => Z.ltb a b = true)); [intros a b H; apply Z.ltb_lt; assumption|].
  apply (isort_sorted Z.ltb (fun _ => True)).
  - intros a b c _ _ _ H1 H2. apply Z.ltb_lt in H1, H2. apply Z.ltb_lt. lia.
  - intros a b _ _ Hne. destruct (Z.lt_total a b) as [H|[H|H]]; [left|contradiction|right]; apply Z.ltb_lt; assumption.
  - apply Forall_forall. intros; exact I.
  - apply NoDup_nodup.
Qed.

Lemma min_string_spec : forall l x,
  In (min_string x l) (x :: l) /\ str_leb (min_string x l) x = true
  /\ forall m, In m l -> str_leb (min_string x l) m = true.
Proof.
  induction l as [|y r IH]; intros x; simpl.
  - split; [left; reflexivity|]. split; [apply str_leb_refl|]. intros m [].
  - destruct (str_ltb y x) eqn:E.
    + destruct (IH y) as [Hin [Hle Hall]]. split; [right; assumption|].
      split; [eapply str_leb_trans; [exact Hle|apply str_ltb_leb; assumption]|].
      intros m [<-|Hm]; [assumption|apply Hall; assumption].
    + destruct (IH x) as [Hin [Hle Hall]]. split.
      * destruct Hin as [Hin|Hin]; [left; assumption|right; right; assumption].
      * split; [assumption|]. intros m [<-|Hm]; [|apply Hall; assumption].
        eapply str_leb_trans; [exact Hle|]. unfold str_leb. rewrite E. reflexivity.
Qed.

Lemma least_spec : forall l n, least l = Some n -> In n l /\ forall m, In m l -> str_leb n m = true.
Proof.
  intros [|x r] n H; simpl in H; [discriminate|]. inversion H; subst.
  destruct (min_string_spec r x) as [Hin [Hle Hall]]. split; [assumption|].
  intros m [<-|Hm]; [assumption|apply Hall; assumption].
Qed.

Lemma least_none : forall l, least l = None -> l = [].
Proof. intros [|x r] H; [reflexivity|discriminate]. Qed.

Lemma least_some : forall l, l <> [] -> exists n, least l = Some n.
Proof. intros [|x r] H; [contradiction|eexists; reflexivity]. Qed.

Lemma find_first_sorted : forall {A} (R : A -> A -> Prop) (f : A -> bool) L g,
  StronglySorted R L -> find f L = Some g ->
  In g L /\ f g = true /\ forall h, In h L -> f h = true -> h = g \/ R g h.
Proof.
  intros A R f L g Hs. induction Hs as [|a l Hs IH Hall]; intros H; simpl in H.
  - discriminate.
  - destruct (f a) eqn:E.
    + inversion H; subst. split; [left; reflexivity|]. split; [assumption|].
      intros h [<-|Hh] _; [left; reflexivity|right]. rewrite Forall_forall in Hall. apply Hall. assumption.
    + destruct (IH H) as [Hin [Hf Hfirst]]. split; [right; assumption|]. split; [assumption|].
      intros h [<-|Hh] Hfh; [congruence|]. apply Hfirst; assumption.
Qed.

Section Primary.
  Variable ty : ety.
  Hypothesis Hty : ty_ok ty.
  Variable cs : list const.
  Hypothesis Hrange : Forall (fun c => in_range ty (c_val c) = true) cs.
  Hypothesis Hnames : NoDup (map c_name cs).

  Let L := sort_values cs.

  Lemma L_in_const : forall g, In g L <-> exists c, In c cs /\ g = to_gvalue c.
  Proof.
    intros g. unfold L. rewrite (sort_values_in cs). unfold inL, gvals. rewrite in_map_iff.
    split; intros [c [H1 H2]]; exists c; split; auto.
  Qed.

  Lemma L_sorted_z : StronglySorted z_le L.
  Proof.
    eapply StronglySorted_weaken; [|apply (sort_values_sorted ty Hty cs Hrange Hnames)].
    intros a b H. apply lex_z_le. assumption.
  Qed.

  Lemma L_u64 : forall a b, In a L -> In b L -> (g_u64 a =? g_u64 b) = (g_z a =? g_z b).
  Proof.
    intros a b Ha Hb. apply (u64_eq_z_L ty Hty cs Hrange); apply (sort_values_in cs); assumption.
  Qed.

  Lemma dedup_values : map g_z (dedup L) = values_spec cs.
  Proof.
    apply sorted_lt_ext.
    - rewrite dedup_L. pose proof L_sorted_z as Hs. pose proof L_u64 as Hu.
      destruct L as [|p s]; [constructor|]. apply dedupL_sorted; assumption.
    - apply values_spec_sorted.
    - intros v. rewrite values_spec_in. rewrite dedup_L. pose proof L_u64 as Hu.
      assert (HL : In v (map g_z L) <-> In v (map c_val cs)).
      { split; intros H; apply in_map_iff in H; destruct H as [x [<- Hx]].
        - apply L_in_const in Hx. destruct Hx as [c [Hc ->]]. apply in_map_iff. exists c. split; [reflexivity|assumption].
        - apply in_map_iff. exists (to_gvalue x). split; [reflexivity|]. apply L_in_const. exists x. split; [assumption|reflexivity]. }
      rewrite <- HL. destruct L as [|p s]; [reflexivity|]. apply dedupL_values_in. assumption.
  Qed.

  Lemma dedup_pick : forall g, In g (dedup L) -> pick L (g_z g) = Some g.
  Proof.
    intros g Hg. rewrite dedup_L in Hg. pose proof L_sorted_z as Hs. pose proof L_u64 as Hu.
    destruct L as [|p s]; [contradiction|].
    pose proof (dedupL_pick s p Hu Hs) as H. rewrite Forall_forall in H. apply H. assumption.
  Qed.

  Lemma dedup_incl_L : forall g, In g (dedup L) -> In g L.
  Proof.
    intros g Hg. rewrite dedup_L in Hg. destruct L as [|p s]; [contradiction|]. apply dedupL_incl. assumption.
  Qed.

  (* the constant picked for a value carries the primary name *)
  Lemma pick_primary : forall v g, pick L v = Some g -> g_z g = v /\ primary cs v = Some (g_name g).
  Proof.
    intros v g H. unfold pick in H.
    pose proof (sort_values_sorted ty Hty cs Hrange Hnames) as Hs. fold L in Hs.
    assert (Hname_le : forall a b, lex_less a b = true -> g_z a = g_z b -> str_leb (g_name a) (g_name b) = true).
    { intros a b Hl Ez. unfold lex_less in Hl. apply orb_true_iff in Hl. destruct Hl as [Hl|Hl].
      - apply Z.ltb_lt in Hl. lia.
      - apply andb_true_iff in Hl. destruct Hl as [_ Hl]. apply str_ltb_leb. assumption. }
    unfold primary.
    set (mine := filter (fun c => c_val c =? v) cs).
    set (live := filter (fun c => negb (c_dep c)) mine).
    assert (Hmine : forall c, In c mine <-> In c cs /\ c_val c = v).
    { intros c. unfold mine. rewrite filter_In. rewrite Z.eqb_eq. tauto. }
    assert (Hlive : forall c, In c live <-> In c cs /\ c_val c = v /\ c_dep c = false).
    { intros c. unfold live. rewrite filter_In, Hmine, negb_true_iff. tauto. }
    destruct (find (fun g0 => (g_z g0 =? v) && negb (g_dep g0)) L) as [g1|] eqn:F1.
    - (* a non-deprecated constant exists *)
      inversion H; subst g1. clear H.
      destruct (find_first_sorted _ _ _ _ Hs F1) as [Hin [Hf Hfirst]].
      apply andb_true_iff in Hf. destruct Hf as [Hz Hd]. apply Z.eqb_eq in Hz. apply negb_true_iff in Hd.
      split; [assumption|].
      apply L_in_const in Hin. destruct Hin as [c [Hc ->]]. cbn [to_gvalue g_z g_dep g_name] in *.
      assert (Hcl : In c live) by (apply Hlive; auto).
      destruct (least_some (map c_name live)) as [n Hn].
      { intro E. apply map_eq_nil in E. rewrite E in Hcl. contradiction. }
      rewrite Hn. f_equal. destruct (least_spec _ _ Hn) as [Hnin Hnle].
      apply in_map_iff in Hnin. destruct Hnin as [c' [<- Hc']].
      apply str_leb_antisym.
      + apply Hnle. apply in_map. assumption.
      + apply Hlive in Hc'. destruct Hc' as [Hc'1 [Hc'2 Hc'3]].
        destruct (Hfirst (to_gvalue c')) as [E|Hl].
        * apply L_in_const. exists c'. auto.
        * cbn [to_gvalue g_z g_dep]. rewrite Hc'2, Z.eqb_refl, Hc'3. reflexivity.
        * apply (f_equal g_name) in E. cbn [to_gvalue g_name] in E. rewrite E. apply str_leb_refl.
        * apply (Hname_le _ _ Hl). cbn [to_gvalue g_z]. lia.
    - (* every constant of value v is deprecated *)
      destruct (find_first_sorted _ _ _ _ Hs H) as [Hin [Hz Hfirst]]. apply Z.eqb_eq in Hz.
      split; [assumption|].
      assert (Hnolive : live = []).
      { assert (Hno : forall c', ~ In c' live).
        { intros c' Hc'. apply Hlive in Hc'. destruct Hc' as [Hc'1 [Hc'2 Hc'3]].
          pose proof (find_none _ _ F1 (to_gvalue c')) as Hn.
          assert (Hin' : In (to_gvalue c') L) by (apply L_in_const; exists c'; auto).
          specialize (Hn Hin'). cbn [to_gvalue g_z g_dep] in Hn. rewrite Hc'2, Z.eqb_refl, Hc'3 in Hn. discriminate. }
        clear Hlive. destruct live as [|c' r']; [reflexivity|]. exfalso. apply (Hno c'). left. reflexivity. }
      rewrite Hnolive. simpl.
      apply L_in_const in Hin. destruct Hin as [c [Hc ->]]. cbn [to_gvalue g_z g_dep g_name] in *.
      assert (Hcm : In c mine) by (apply Hmine; auto).
      destruct (least_some (map c_name mine)) as [n Hn].
      { intro E. apply map_eq_nil in E. rewrite E in Hcm. contradiction. }
      rewrite Hn. f_equal. destruct (least_spec _ _ Hn) as [Hnin Hnle].
      apply in_map_iff in Hnin. destruct Hnin as [c' [<- Hc']].
      apply str_leb_antisym.
      + apply Hnle. apply in_map. assumption.
      + apply Hmine in Hc'. destruct Hc' as [Hc'1 Hc'2].
        destruct (Hfirst (to_gvalue c')) as [E|Hl].
        * apply L_in_const. exists c'. auto.
        * cbn [to_gvalue g_z]. apply Z.eqb_eq. assumption.
        * apply (f_equal g_name) in E. cbn [to_gvalue g_name] in E. rewrite E. apply str_leb_refl.
        * apply (Hname_le _ _ Hl). cbn [to_gvalue g_z]. lia.
  Qed.

  Lemma primary_none : forall v, ~ In v (map c_val cs) -> primary cs v = None.
  Proof.
    intros v Hv. unfold primary.
    assert (E : filter (fun c => c_val c =? v) cs = []).
    { destruct (filter (fun c => c_val c =? v) cs) as [|c r] eqn:F; [reflexivity|]. exfalso.
      assert (Hc : In c (filter (fun c => c_val c =? v) cs)) by (rewrite F; left; reflexivity).
      apply filter_In in Hc. destruct Hc as [Hc Hz]. apply Z.eqb_eq in Hz. apply Hv. rewrite <- Hz. apply in_map. assumption. }
    rewrite E. reflexivity.
  Qed.
End Primary.

(* ================================================================== Part 3: behaviour of the emitted code *)

Definition wf_defn (d : defn) : Prop :=
  ty_ok (d_ty d)
  /\ Forall (fun c => in_range (d_ty d) (c_val c) = true) (d_consts d)
  /\ NoDup (map c_name (d_consts d)).

Lemma mk_tables_built : forall d o vs cols t, mk_tables d o vs cols = Built t ->
  build_ok o vs cols = true /\
  t = {| t_ty := d_ty d; t_opts := o; t_all := vs; t_dedup := dedup vs;
         t_binsearch := Nat.ltb 15 (length vs); t_cols := cols |}.
Proof.
  intros d o vs cols t H. unfold mk_tables in H. destruct (build_ok o vs cols); [|discriminate].
  inversion H. split; reflexivity.
Qed.

Lemma sort_values_length : forall cs, length (sort_values cs) = length cs.
Proof. intros cs. unfold sort_values. rewrite isort_length, map_length. reflexivity. Qed.

Lemma gen_built : forall d o t, gen d o = Built t ->
  t_all t = sort_values (d_consts d) /\ t_dedup t = dedup (sort_values (d_consts d))
  /\ t_ty t = d_ty d /\ t_opts t = o
  /\ t_binsearch t = Nat.ltb 15 (length (d_consts d))
  /\ build_ok o (t_all t) (t_cols t) = true.
Proof.
  intros d o t H. unfold gen in H.
  assert (Hmk : forall cols, mk_tables d o (sort_values (d_consts d)) cols = Built t ->
    t_all t = sort_values (d_consts d) /\ t_dedup t = dedup (sort_values (d_consts d))
    /\ t_ty t = d_ty d /\ t_opts t = o
    /\ t_binsearch t = Nat.ltb 15 (length (d_consts d))
    /\ build_ok o (t_all t) (t_cols t) = true).
  { intros cols Hm. apply mk_tables_built in Hm. destruct Hm as [Hb ->]. cbn.
    rewrite sort_values_length. repeat split; try reflexivity. assumption. }
  destruct (sort_values (d_consts d)) as [|first rest] eqn:Es; [discriminate|].
  destruct (o_ci o && negb (str_nodupb (map (fun v => to_lower (g_name v)) (first :: rest)))); [discriminate|].
  destruct (o_notraits o); [apply (Hmk _ H)|].
  destruct (first_columns d o first (g_cells first)) as [cols0| | |]; try discriminate.
  destruct (Nat.eqb (length cols0) 0).
  - destruct (forallb _ _); [apply (Hmk _ H)|discriminate].
  - destruct (negb (validate_counts (first :: rest) (length cols0))); [discriminate|].
    destruct (existsb _ rest); [discriminate|].
    destruct (negb (validate_parsable _)); [discriminate|].
    destruct (negb (validate_trait_names _ _)); [discriminate|]. apply (Hmk _ H).
Qed.

Section Behaviour.
  Variable d : defn.
  Variable o : opts.
  Variable t : tables.
  Hypothesis Hwf : wf_defn d.
  Hypothesis Hgen : gen d o = Built t.

  Let cs := d_consts d.
  Let L := sort_values cs.

  Lemma B_all : t_all t = L.
  Proof. destruct (gen_built _ _ _ Hgen) as [H _]. exact H. Qed.
  Lemma B_dedup : t_dedup t = dedup L.
  Proof. destruct (gen_built _ _ _ Hgen) as [_ [H _]]. exact H. Qed.
  Lemma B_ty : t_ty t = d_ty d.
  Proof. destruct (gen_built _ _ _ Hgen) as [_ [_ [H _]]]. exact H. Qed.
  Lemma B_opts : t_opts t = o.
  Proof. destruct (gen_built _ _ _ Hgen) as [_ [_ [_ [H _]]]]. exact H. Qed.
  Lemma B_build : build_ok o L (t_cols t) = true.
  Proof. destruct (gen_built _ _ _ Hgen) as [_ [_ [_ [_ [_ H]]]]]. rewrite B_all in H. exact H. Qed.

  Lemma sem_values_spec : sem_values t = values_spec cs.
  Proof.
    unfold sem_values. rewrite B_dedup. destruct Hwf as [H1 [H2 H3]].
    apply (dedup_values (d_ty d) H1 cs H2 H3).
  Qed.

  Lemma sem_isvalid_spec : forall e, sem_isvalid t e = true <-> In e (values_spec cs).
  Proof.
    intros e. unfold sem_isvalid. rewrite sem_values_spec.
    destruct (t_binsearch t).
    - apply binsearch_found. apply values_spec_sorted.
    - rewrite existsb_exists. split.
      + intros [x [Hin Heq]]. apply Z.eqb_eq in Heq. subst. assumption.
      + intros H. exists e. split; [assumption|apply Z.eqb_refl].
  Qed.

  Lemma sem_string_spec : forall e, sem_string t e = string_spec d e.
  Proof.
    intros e. unfold sem_string, string_spec. rewrite B_dedup, B_ty. fold cs.
    destruct Hwf as [H1 [H2 H3]].
    destruct (find (fun g => g_z g =? e) (dedup L)) as [g|] eqn:F.
    - apply find_some in F. destruct F as [Hin Hz]. apply Z.eqb_eq in Hz.
      pose proof (dedup_pick (d_ty d) H1 cs H2 H3 g Hin) as Hp.
      destruct (pick_primary (d_ty d) H1 cs H2 H3 _ _ Hp) as [_ Hprim].
      rewrite Hz in Hprim. rewrite Hprim. reflexivity.
    - rewrite primary_none; [reflexivity|].
      intro Hin. apply values_spec_in in Hin.
      rewrite <- (dedup_values (d_ty d) H1 cs H2 H3) in Hin.
      apply in_map_iff in Hin. destruct Hin as [g [Hz Hg]].
      pose proof (find_none _ _ F g Hg) as Hn. simpl in Hn. rewrite Hz, Z.eqb_refl in Hn. discriminate.
  Qed.

  Lemma sem_stringvalues_spec : sem_stringvalues t = map (string_spec d) (values_spec cs).
  Proof.
    rewrite <- sem_values_spec. unfold sem_stringvalues, sem_values. rewrite map_map.
    apply map_ext_in. intros g Hg. rewrite <- sem_string_spec.
    unfold sem_string.
    (* the constant g is the one found for its own value: values are pairwise distinct *)
    destruct Hwf as [H1 [H2 H3]]. rewrite B_dedup in *.
    destruct (find (fun g0 => g_z g0 =? g_z g) (dedup L)) as [g'|] eqn:F.
    - apply find_some in F. destruct F as [Hin Hz]. apply Z.eqb_eq in Hz.
      pose proof (dedup_pick (d_ty d) H1 cs H2 H3 g Hg) as Hp.
      pose proof (dedup_pick (d_ty d) H1 cs H2 H3 g' Hin) as Hp'.
      rewrite Hz in Hp'. rewrite Hp in Hp'. inversion Hp'. reflexivity.
    - pose proof (find_none _ _ F g Hg) as Hn. simpl in Hn. rewrite Z.eqb_refl in Hn. discriminate.
  Qed.

  Lemma sem_stringvalues_string : sem_stringvalues t = map (sem_string t) (sem_values t).
  Proof.
    rewrite sem_stringvalues_spec, sem_values_spec. apply map_ext. intros e. symmetry. apply sem_string_spec.
  Qed.

  (* ---- Parse *)
  Definition trait_consts (g : gvalue) : list dyn :=
    dyn_dedup_from [DStr (g_name g)]
      (flat_map (fun c => if col_parsable c then owned_cells c g else []) (t_cols t)).
  (* x is one of the parsable trait constants listed in the Parse switch *)
  Definition is_trait_const (x : dyn) : Prop := exists g, In g L /\ In x (trait_consts g).

  Lemma case_consts_split : forall g, case_consts (t_cols t) g = DStr (g_name g) :: trait_consts g.
  Proof. reflexivity. Qed.

  Lemma payload_eqb_eq : forall a b, payload_eqb a b = true <-> a = b.
  Proof.
    intros [x|x|x] [y|y|y]; simpl; split; intro H; try discriminate; try congruence.
    - apply String.eqb_eq in H. congruence.
    - inversion H. apply String.eqb_refl.
    - apply Z.eqb_eq in H. congruence.
    - inversion H. apply Z.eqb_refl.
    - apply Bool.eqb_prop in H. congruence.
    - inversion H. apply Bool.eqb_reflx.
  Qed.

  Lemma dyn_eqb_eq : forall a b, dyn_eqb a b = true <-> a = b.
  Proof.
    intros [ta pa] [tb pb]. unfold dyn_eqb. simpl. rewrite andb_true_iff, String.eqb_eq, payload_eqb_eq.
    split; [intros [-> ->]; reflexivity|intros H; inversion H; auto].
  Qed.

  Lemma existsb_dyn_In : forall x l, existsb (dyn_eqb x) l = true <-> In x l.
  Proof.
    intros x l. rewrite existsb_exists. split.
    - intros [y [Hin Heq]]. apply dyn_eqb_eq in Heq. subst. assumption.
    - intros H. exists x. split; [assumption|apply dyn_eqb_eq; reflexivity].
  Qed.

  Lemma dyn_dedup_from_In : forall l seen x,
    In x (dyn_dedup_from seen l) <-> In x l /\ ~ In x seen.
  Proof.
    induction l as [|a r IH]; intros seen x; simpl.
    - tauto.
    - destruct (existsb (dyn_eqb a) seen) eqn:E.
      + apply existsb_dyn_In in E. rewrite IH. split.
        * intros [H1 H2]. auto.
        * intros [[->|H1] H2]; [contradiction|auto].
      + assert (Hna : ~ In a seen) by (intro H; apply existsb_dyn_In in H; congruence).
        simpl. rewrite IH. simpl. split.
        * intros [<-|[H1 H2]]; [auto|]. split; [auto|]. intro H. apply H2. right. assumption.
        * intros [[<-|H1] H2]; [left; reflexivity|].
          destruct (dyn_eqb a x) eqn:Eax.
          -- apply dyn_eqb_eq in Eax. left. assumption.
          -- right. split; [assumption|]. intros [Hax|Hs]; [|contradiction].
             subst. assert (T : dyn_eqb x x = true) by (apply dyn_eqb_eq; reflexivity). congruence.
  Qed.

  Lemma dyn_dedup_In : forall l x, In x (dyn_dedup l) <-> In x l.
  Proof. intros l x. unfold dyn_dedup. rewrite dyn_dedup_from_In. simpl. tauto. Qed.

  Lemma dyn_nodupb_NoDup : forall l, dyn_nodupb l = true -> NoDup l.
  Proof.
    induction l as [|x r IH]; simpl; intros H; [constructor|].
    apply andb_true_iff in H. destruct H as [Hn Hr]. apply negb_true_iff in Hn.
    constructor; [|apply IH; assumption]. intro Hin. apply existsb_dyn_In in Hin. congruence.
  Qed.

  Lemma NoDup_app_disjoint : forall {A} (l1 l2 : list A) x, NoDup (l1 ++ l2) -> In x l1 -> In x l2 -> False.
  Proof.
    intros A l1. induction l1 as [|a r IH]; intros l2 x Hnd H1 H2; simpl in *; [contradiction|].
    inversion Hnd as [|? ? Hna Hr]; subst. destruct H1 as [->|H1].
    - apply Hna. apply in_or_app. right. assumption.
    - eapply IH; eauto.
  Qed.

  Lemma NoDup_app_right : forall {A} (l1 l2 : list A), NoDup (l1 ++ l2) -> NoDup l2.
  Proof.
    intros A l1. induction l1 as [|a r IH]; intros l2 H; simpl in *; [assumption|].
    inversion H; subst. apply IH. assumption.
  Qed.

  Lemma NoDup_flat_map_unique : forall {A B} (f : A -> list B) l a b x,
    NoDup l -> NoDup (flat_map f l) -> In a l -> In b l -> In x (f a) -> In x (f b) -> a = b.
  Proof.
    intros A B f l. induction l as [|h r IH]; intros a b x Hl Hnd Ha Hb Hxa Hxb; simpl in *; [contradiction|].
    inversion Hl as [|? ? Hh Hr]; subst.
    assert (Hdis : forall y c, In c r -> In y (f h) -> In y (f c) -> False).
    { intros y c Hc Hy1 Hy2. eapply NoDup_app_disjoint; [exact Hnd|exact Hy1|].
      apply in_flat_map. exists c. split; assumption. }
    destruct Ha as [<-|Ha]; destruct Hb as [<-|Hb]; try reflexivity.
    - exfalso. eapply Hdis; eauto.
    - exfalso. eapply Hdis; eauto.
    - eapply IH; eauto. eapply NoDup_app_right. exact Hnd.
  Qed.

  Lemma L_NoDup : NoDup L.
  Proof. destruct Hwf as [H1 [H2 H3]]. apply (sort_values_NoDup cs H3). Qed.

  Lemma L_const : forall c, In c cs -> In (to_gvalue c) L.
  Proof.
    intros c Hc. unfold L. apply (sort_values_in cs). unfold inL, gvals. apply in_map. assumption.
  Qed.

  Lemma L_inv : forall g, In g L -> exists c, In c cs /\ g = to_gvalue c.
  Proof.
    intros g Hg. unfold L in Hg. apply (sort_values_in cs) in Hg. unfold inL, gvals in Hg.
    apply in_map_iff in Hg. destruct Hg as [c [E Hc]]. exists c. split; auto.
  Qed.

  Lemma cases_NoDup : NoDup (flat_map (case_consts (t_cols t)) L).
  Proof.
    pose proof B_build as Hb. unfold build_ok in Hb.
    apply andb_true_iff in Hb. destruct Hb as [Hb _]. apply andb_true_iff in Hb. destruct Hb as [Hb _].
    apply andb_true_iff in Hb. destruct Hb as [_ Hb]. apply dyn_nodupb_NoDup. assumption.
  Qed.

  Lemma lower_NoDup : o_ci o = true -> NoDup (map (fun v => to_lower (g_name v)) L).
  Proof.
    intros Hci. pose proof B_build as Hb. unfold build_ok in Hb.
    apply andb_true_iff in Hb. destruct Hb as [Hb _]. apply andb_true_iff in Hb. destruct Hb as [_ Hb].
    rewrite Hci in Hb. simpl in Hb. apply str_nodupb_NoDup. assumption.
  Qed.

  Lemma find_exists : forall {A} (f : A -> bool) l x, In x l -> f x = true -> exists y, find f l = Some y.
  Proof.
    intros A f l x Hin Hf. destruct (find f l) as [y|] eqn:F; [eexists; reflexivity|].
    pose proof (find_none _ _ F x Hin). congruence.
  Qed.

  (* every constant name parses to the constant's value *)
  Lemma parse_name : forall c, In c cs -> sem_parse_string t (c_name c) = Some (c_val c).
  Proof.
    intros c Hc. unfold sem_parse_string, sem_parse. rewrite B_all.
    set (f := fun g => existsb (dyn_eqb (DStr (c_name c))) (case_consts (t_cols t) g)).
    assert (Hf0 : f (to_gvalue c) = true).
    { unfold f. apply existsb_dyn_In. rewrite case_consts_split. left. reflexivity. }
    destruct (find_exists f L _ (L_const c Hc) Hf0) as [g' F]. rewrite F.
    apply find_some in F. destruct F as [Hin' Hf']. unfold f in Hf'. apply existsb_dyn_In in Hf'.
    assert (E : g' = to_gvalue c).
    { apply (NoDup_flat_map_unique (case_consts (t_cols t)) L g' (to_gvalue c) (DStr (c_name c))).
      - apply L_NoDup.
      - apply cases_NoDup.
      - assumption.
      - apply L_const. assumption.
      - assumption.
      - rewrite case_consts_split. left. reflexivity. }
    rewrite E. reflexivity.
  Qed.

  (* with -caseInsensitive every case variant of a name parses to the constant's value,
     unless the string is itself a parsable trait constant *)
  Lemma parse_name_ci : forall c s, o_ci o = true -> In c cs -> to_lower s = to_lower (c_name c) ->
    ~ is_trait_const (DStr s) -> sem_parse_string t s = Some (c_val c).
  Proof.
    intros c s Hci Hc Hlow Hnt. unfold sem_parse_string, sem_parse. rewrite B_all, B_opts, Hci.
    assert (Huniq : forall g, In g L -> to_lower (g_name g) = to_lower s -> g = to_gvalue c).
    { intros g Hg Hl. apply (NoDup_map_inj_in (fun v => to_lower (g_name v)) L).
      - apply lower_NoDup. assumption.
      - assumption.
      - apply L_const. assumption.
      - simpl. rewrite Hl. assumption. }
    destruct (find _ L) as [g'|] eqn:F.
    - apply find_some in F. destruct F as [Hin' Hf']. apply existsb_dyn_In in Hf'.
      rewrite case_consts_split in Hf'. destruct Hf' as [E|Ht].
      + inversion E as [En]. rewrite (Huniq g' Hin'); [reflexivity|]. rewrite En. reflexivity.
      + exfalso. apply Hnt. exists g'. split; assumption.
    - cbn [DStr dval dty]. rewrite String.eqb_refl.
      set (f := fun g => (to_lower (g_name g) =? to_lower s)%string).
      assert (Hf0 : f (to_gvalue c) = true).
      { unfold f. cbn [to_gvalue g_name]. rewrite Hlow. apply String.eqb_refl. }
      destruct (find_exists f L _ (L_const c Hc) Hf0) as [g'' F']. rewrite F'.
      apply find_some in F'. destruct F' as [Hin'' Hf'']. unfold f in Hf''. apply String.eqb_eq in Hf''.
      rewrite (Huniq g'' Hin'' Hf''). reflexivity.
  Qed.

  (* every other string is rejected *)
  Lemma parse_reject : forall s,
    (forall c, In c cs -> c_name c <> s) ->
    (o_ci o = true -> forall c, In c cs -> to_lower (c_name c) <> to_lower s) ->
    ~ is_trait_const (DStr s) -> sem_parse_string t s = None.
  Proof.
    intros s Hname Hlow Hnt. unfold sem_parse_string, sem_parse. rewrite B_all, B_opts.
    rewrite find_all_false.
    - destruct (o_ci o) eqn:Hci; [|reflexivity]. cbn [DStr dval dty]. rewrite String.eqb_refl.
      rewrite find_all_false; [reflexivity|].
      intros g Hg. apply String.eqb_neq. destruct (L_inv g Hg) as [c [Hc ->]]. cbn [to_gvalue g_name].
      apply Hlow; [reflexivity|assumption].
    - intros g Hg. destruct (existsb (dyn_eqb (DStr s)) (case_consts (t_cols t) g)) eqn:E; [|reflexivity].
      exfalso. apply existsb_dyn_In in E. rewrite case_consts_split in E. destruct E as [E|E].
      + inversion E as [En]. destruct (L_inv g Hg) as [c [Hc ->]]. cbn [to_gvalue g_name] in En.
        apply (Hname c Hc). assumption.
      + apply Hnt. exists g. split; assumption.
  Qed.
End Behaviour.

(* generation is defined under -caseInsensitive only when the lower-cased names are pairwise
   distinct (validateCaseInsensitiveNames): the premise under which C04_parse_name_ci can map
   every case variant to ONE constant *)
Lemma built_ci_names_distinct : forall d o t, wf_defn d -> gen d o = Built t -> o_ci o = true ->
  NoDup (map (fun c => to_lower (c_name c)) (d_consts d)).
Proof.
  intros d o t [H1 [H2 H3]] Hg Hci.
  pose proof (lower_NoDup d o t Hg Hci) as Hl.
  assert (Hp : Permutation (map (fun v => to_lower (g_name v)) (sort_values (d_consts d)))
                           (map (fun c => to_lower (c_name c)) (d_consts d))).
  { eapply perm_trans.
    - apply Permutation_map. apply sort_values_perm.
    - unfold gvals. rewrite map_map. apply Permutation_refl. }
  eapply Permutation_NoDup; [exact Hp|exact Hl].
Qed.

Lemma ci_collision_rejected : forall d o, o_ci o = true -> sort_values (d_consts d) <> [] ->
  str_nodupb (map (fun v => to_lower (g_name v)) (sort_values (d_consts d))) = false -> gen d o = GenErr.
Proof.
  intros d o Hci Hne Hdup. unfold gen. destruct (sort_values (d_consts d)) as [|first rest]; [contradiction|].
  rewrite Hci, Hdup. reflexivity.
Qed.

(* any result of Go's unstable sort.Sort on the collected constants *)
Lemma sort_any : forall d s, wf_defn d ->
  Permutation s (map to_gvalue (d_consts d)) ->
  StronglySorted (fun a b => g_less b a = false) s -> s = sort_values (d_consts d).
Proof.
  intros d s [H1 [H2 H3]] Hp Hs. apply (sort_values_unique (d_ty d) H1 (d_consts d) H2 H3); assumption.
Qed.

(* the pinned ValueDeduplicatedSet (addedDeprecated never reset) picks the LAST non-deprecated name *)
Definition abc_consts : list const :=
  [ {| c_name := "A"; c_val := 1; c_dep := true; c_cells := [] |};
    {| c_name := "B"; c_val := 1; c_dep := false; c_cells := [] |};
    {| c_name := "C"; c_val := 1; c_dep := false; c_cells := [] |} ].
Lemma dedup_orig_abc :
  map g_name (dedup_orig (sort_values abc_consts)) = ["C"] /\ primary abc_consts 1 = Some "B"
  /\ map g_name (dedup (sort_values abc_consts)) = ["B"].
Proof. vm_compute. repeat split. Qed.

(* what "primary name" means: the least non-deprecated name of the value, or the least name
   when every name of the value is deprecated *)
Lemma primary_meaning : forall cs v n, primary cs v = Some n ->
  exists c, In c cs /\ c_val c = v /\ c_name c = n /\
    ((c_dep c = false /\
      forall c', In c' cs -> c_val c' = v -> c_dep c' = false -> str_leb n (c_name c') = true)
     \/ ((forall c', In c' cs -> c_val c' = v -> c_dep c' = true) /\
         forall c', In c' cs -> c_val c' = v -> str_leb n (c_name c') = true)).
Proof.
  intros cs v n H. unfold primary in H.
  set (mine := filter (fun c => c_val c =? v) cs) in *.
  set (live := filter (fun c => negb (c_dep c)) mine) in *.
  assert (Hmine : forall c, In c mine <-> In c cs /\ c_val c = v).
  { intros c. unfold mine. rewrite filter_In. rewrite Z.eqb_eq. tauto. }
  assert (Hlive : forall c, In c live <-> In c cs /\ c_val c = v /\ c_dep c = false).
  { intros c. unfold live. rewrite filter_In, Hmine, negb_true_iff. tauto. }
  destruct (least (map c_name live)) as [m|] eqn:E1.
  - inversion H; subst m. destruct (least_spec _ _ E1) as [Hin Hle].
    apply in_map_iff in Hin. destruct Hin as [c [En Hc]]. apply Hlive in Hc. destruct Hc as [Hc1 [Hc2 Hc3]].
    exists c. repeat split; try assumption. left. split; [assumption|].
    intros c' H1 H2 H3. apply Hle. apply in_map. apply Hlive. auto.
  - apply least_none in E1. apply map_eq_nil in E1.
    destruct (least_spec _ _ H) as [Hin Hle].
    apply in_map_iff in Hin. destruct Hin as [c [En Hc]]. apply Hmine in Hc. destruct Hc as [Hc1 Hc2].
    exists c. repeat split; try assumption. right. split.
    + intros c' H1 H2. destruct (c_dep c') eqn:D; [reflexivity|]. exfalso.
      assert (Hl : In c' live) by (apply Hlive; auto). rewrite E1 in Hl. contradiction.
    + intros c' H1 H2. apply Hle. apply in_map. apply Hmine. auto.
Qed.

Lemma primary_some : forall cs v, In v (map c_val cs) -> exists n, primary cs v = Some n.
Proof.
  intros cs v Hv. apply in_map_iff in Hv. destruct Hv as [c [Ev Hc]]. unfold primary.
  destruct (least (map c_name (filter (fun c0 => negb (c_dep c0)) (filter (fun c0 => c_val c0 =? v) cs)))) as [n|];
    [eexists; reflexivity|].
  apply least_some. intro E. apply map_eq_nil in E.
  assert (Hin : In c (filter (fun c0 => c_val c0 =? v) cs)) by (apply filter_In; split; [assumption|apply Z.eqb_eq; assumption]).
  rewrite E in Hin. contradiction.
Qed.

Lemma values_spec_meaning : forall cs,
  StronglySorted Z.lt (values_spec cs) /\ forall v, In v (values_spec cs) <-> In v (map c_val cs).
Proof. intros cs. split; [apply values_spec_sorted|apply values_spec_in]. Qed.

Lemma string_spec_defined : forall d v, In v (map c_val (d_consts d)) ->
  exists n, primary (d_consts d) v = Some n /\ string_spec d v = n.
Proof.
  intros d v H. destruct (primary_some _ _ H) as [n Hn]. exists n. split; [exact Hn|].
  unfold string_spec. rewrite Hn. reflexivity.
Qed.

Lemma string_spec_undefined : forall d v, ~ In v (map c_val (d_consts d)) ->
  string_spec d v = ("Undefined" ++ ty_name (d_ty d) ++ ":" ++ dec v)%string.
Proof. intros d v H. unfold string_spec. rewrite (primary_none _ _ H). reflexivity. Qed.

Lemma dedup_orig_refuted :
  exists cs v, map g_name (dedup_orig (sort_values cs)) = ["C"] /\ primary cs v = Some "B"
               /\ map g_name (dedup (sort_values cs)) = ["B"].
Proof. exists abc_consts, 1. exact dedup_orig_abc. Qed.

(* ================================================================== Part 4: codecs (C05) *)

Section Codecs.
  Variable d : defn.
  Variable o : opts.
  Variable t : tables.
  Hypothesis Hwf : wf_defn d.
  Hypothesis Hgen : gen d o = Built t.

  Let cs := d_consts d.

  Lemma try_all_head : forall x rest v, sem_parse t x = Some v -> try_all t (x :: rest) = Some v.
  Proof. intros x rest v H. simpl. rewrite H. reflexivity. Qed.

  Lemma try_all_none : forall l, (forall x, In x l -> sem_parse t x = None) -> try_all t l = None.
  Proof.
    induction l as [|x r IH]; intros H; simpl; [reflexivity|].
    rewrite (H x) by (left; reflexivity). apply IH. intros y Hy. apply H. right. assumption.
  Qed.

  (* the string every encoder emits for a defined value parses back to that value *)
  Lemma parse_primary : forall v, In v (values_spec cs) -> sem_parse t (DStr (sem_string t v)) = Some v.
  Proof.
    intros v Hv. rewrite (sem_string_spec d o t Hwf Hgen).
    apply values_spec_in in Hv. destruct (string_spec_defined d v Hv) as [n [Hp Hs]].
    rewrite Hs. destruct (primary_meaning _ _ _ Hp) as [c [Hc [Hval [Hname _]]]].
    rewrite <- Hname, <- Hval. apply (parse_name d o t Hwf Hgen c Hc).
  Qed.

  Lemma encode_json_spec : forall v, encode_json t v = quote (string_spec d v).
  Proof. intros v. unfold encode_json. rewrite (sem_string_spec d o t Hwf Hgen). reflexivity. Qed.
  Lemma encode_text_spec : forall v, encode_text t v = string_spec d v.
  Proof. intros v. unfold encode_text. apply (sem_string_spec d o t Hwf Hgen). Qed.
  Lemma encode_yaml_spec : forall v, encode_yaml t v = string_spec d v.
  Proof. intros v. unfold encode_yaml. apply (sem_string_spec d o t Hwf Hgen). Qed.

  (* round trips: the library view of an encoded value is the emitted name (view soundness) *)
  Lemma roundtrip_json : forall v jv, In v (values_spec cs) -> jv_null jv = false ->
    jv_string jv = Some (sem_string t v) -> decode_json t jv = Some v.
  Proof.
    intros v jv Hv Hnn Hs. unfold decode_json, json_attempts, json_attempts_gen. rewrite Hnn, Hs. simpl.
    rewrite (parse_primary v Hv). reflexivity.
  Qed.
  Lemma roundtrip_text : forall v tv, In v (values_spec cs) ->
    tv_text tv = sem_string t v -> decode_text t tv = Some v.
  Proof.
    intros v tv Hv Hs. unfold decode_text, text_attempts. rewrite Hs. simpl.
    rewrite (parse_primary v Hv). reflexivity.
  Qed.
  Lemma roundtrip_yaml : forall v yv, In v (values_spec cs) ->
    yv_value yv = sem_string t v -> decode_yaml t yv = Some v.
  Proof.
    intros v yv Hv Hs. unfold decode_yaml, yaml_attempts_gen, yaml_attempts_gen2. rewrite Hs. simpl.
    rewrite (parse_primary v Hv). reflexivity.
  Qed.

  (* ---- rejection *)
  (* x is a constant name (or, under -caseInsensitive, a case variant of one) *)
  Definition names_constant (x : dyn) : Prop :=
    exists c, In c cs /\
      (x = DStr (c_name c) \/
       (o_ci o = true /\ exists s, x = DStr s /\ to_lower s = to_lower (c_name c))).

  Lemma parse_reject_dyn : forall x, ~ names_constant x -> ~ is_trait_const d t x -> sem_parse t x = None.
  Proof.
    intros x Hn Ht. unfold sem_parse.
    rewrite (B_all d o t Hgen), (B_opts d o t Hgen).
    rewrite find_all_false.
    - destruct (o_ci o) eqn:Hci; [|reflexivity].
      destruct x as [ty p]. cbn [dval dty]. destruct p as [s| |]; try reflexivity.
      destruct (String.eqb ty "string") eqn:Ety; [|reflexivity]. apply String.eqb_eq in Ety. subst ty.
      rewrite find_all_false; [reflexivity|].
      intros g Hg. apply String.eqb_neq. intro E.
      destruct (L_inv d g Hg) as [c [Hc ->]]. cbn [to_gvalue g_name] in E.
      apply Hn. exists c. split; [assumption|]. right. split; [assumption|]. exists s. split; [reflexivity|].
      symmetry. assumption.
    - intros g Hg. destruct (existsb (dyn_eqb x) (case_consts (t_cols t) g)) eqn:E; [|reflexivity].
      exfalso. apply existsb_dyn_In in E. rewrite case_consts_split in E. destruct E as [E|E].
      + destruct (L_inv d g Hg) as [c [Hc ->]]. cbn [to_gvalue g_name] in E.
        apply Hn. exists c. split; [assumption|]. left. symmetry. assumption.
      + apply Ht. exists g. split; assumption.
  Qed.

  Definition rejectable (x : dyn) : Prop := ~ names_constant x /\ ~ is_trait_const d t x.

  Lemma reject_json : forall jv, (forall x, In x (json_attempts t jv) -> rejectable x) -> decode_json t jv = None.
  Proof.
    intros jv H. unfold decode_json. destruct (jv_null jv); [reflexivity|].
    apply try_all_none. intros x Hx. destruct (H x Hx). apply parse_reject_dyn; assumption.
  Qed.
  Lemma reject_text : forall tv, (forall x, In x (text_attempts t tv) -> rejectable x) -> decode_text t tv = None.
  Proof.
    intros tv H. unfold decode_text. apply try_all_none. intros x Hx. destruct (H x Hx). apply parse_reject_dyn; assumption.
  Qed.
  Lemma reject_yaml : forall yv, (forall x, In x (yaml_attempts_gen true t yv) -> rejectable x) -> decode_yaml t yv = None.
  Proof.
    intros yv H. unfold decode_yaml. apply try_all_none. intros x Hx. destruct (H x Hx). apply parse_reject_dyn; assumption.
  Qed.
End Codecs.

(* ---- the attempts a decoder makes are faithful readings of the document: a string reading
   only when the library produced that string, an integer reading only when the library /
   strconv produced that integer, a native reading only when the type's own unmarshaler
   succeeded.  (This is what fails for the pinned YAML decoder.) *)
Inductive reading (str : option string) (u64 i64 : option Z) (native : list (string * option payload))
          (t : tables) (x : dyn) : Prop :=
| RdStr : forall s, str = Some s -> dval x = PStr s -> reading str u64 i64 native t x
| RdU64 : forall u c, u64 = Some u -> In c (t_cols t) -> col_parsable c = true ->
                      conv_int (ti_bkind (col_info c)) u = u ->     (* the number fits the trait's type *)
                      x = typed c (PInt u) -> reading str u64 i64 native t x
| RdI64 : forall i c, i64 = Some i -> In c (t_cols t) -> col_parsable c = true ->
                      conv_int (ti_bkind (col_info c)) i = i ->
                      x = typed c (PInt i) -> reading str u64 i64 native t x
| RdNative : forall c p, In c (t_cols t) -> col_parsable c = true ->
                         lookup (col_type c) native = Some (Some p) -> x = typed c p ->
                         reading str u64 i64 native t x.

Lemma family_in : forall t k own c, In c (family t k own) -> In c (t_cols t) /\ col_parsable c = true.
Proof.
  intros t k own c H. unfold family in H. apply filter_In in H. destruct H as [H1 H2].
  apply andb_true_iff in H2. destruct H2 as [H2 _]. apply andb_true_iff in H2. destruct H2 as [H2 _]. auto.
Qed.
Lemma family_own_in : forall t own c, In c (family_own t own) -> In c (t_cols t) /\ col_parsable c = true.
Proof.
  intros t own c H. unfold family_own in H. apply filter_In in H. destruct H as [H1 H2].
  apply andb_true_iff in H2. destruct H2 as [H2 _]. auto.
Qed.

Lemma native_attempts_reading : forall str u64 i64 native t cols x,
  (forall c, In c cols -> In c (t_cols t) /\ col_parsable c = true) ->
  In x (native_attempts cols native) -> reading str u64 i64 native t x.
Proof.
  intros str u64 i64 native t cols x Hc H. unfold native_attempts in H. apply in_flat_map in H.
  destruct H as [c [Hin Hx]]. destruct (lookup (col_type c) native) as [[p|]|] eqn:E; simpl in Hx; try contradiction.
  destruct Hx as [<-|[]]. destruct (Hc c Hin) as [H1 H2]. eapply RdNative; eauto.
Qed.

Lemma int_attempts_rc : forall cols x y, In y (int_attempts true cols x) ->
  exists c, In c cols /\ conv_int (ti_bkind (col_info c)) x = x /\ y = typed c (PInt x).
Proof.
  intros cols x y H. unfold int_attempts in H. apply in_flat_map in H. destruct H as [c [Hc Hy]].
  simpl in Hy. destruct (Z.eqb_spec (conv_int (ti_bkind (col_info c)) x) x) as [E|NE]; simpl in Hy; [|contradiction].
  destruct Hy as [<-|[]]. exists c. split; [assumption|]. split; [assumption|].
  unfold typed_int. rewrite E. reflexivity.
Qed.

Lemma int_attempts_in : forall rc cols c x, In c cols -> conv_int (ti_bkind (col_info c)) x = x ->
  In (typed_int c x) (int_attempts rc cols x).
Proof.
  intros rc cols c x Hc E. unfold int_attempts. apply in_flat_map. exists c. split; [assumption|].
  rewrite E, Z.eqb_refl. simpl. rewrite andb_false_r. left. reflexivity.
Qed.

Lemma json_attempts_faithful : forall t jv x, In x (json_attempts t jv) ->
  reading (jv_string jv) (jv_u64 jv) (jv_i64 jv) (jv_native jv) t x.
Proof.
  intros t jv x H. unfold json_attempts, json_attempts_gen in H.
  apply in_app_or in H. destruct H as [H|H].
  - destruct (jv_string jv) as [s|] eqn:E; [|contradiction]. destruct H as [<-|H].
    + eapply RdStr; reflexivity.
    + apply in_map_iff in H. destruct H as [c [<- _]]. eapply RdStr; reflexivity.
  - apply in_app_or in H. destruct H as [H|H].
    + destruct (jv_u64 jv) as [u|] eqn:E; [|contradiction]. apply int_attempts_rc in H. destruct H as [c [Hc [Hr ->]]].
      destruct (family_in _ _ _ _ Hc). eapply RdU64; eauto.
    + apply in_app_or in H. destruct H as [H|H].
      * destruct (jv_i64 jv) as [i|] eqn:E; [|contradiction]. apply int_attempts_rc in H. destruct H as [c [Hc [Hr ->]]].
        destruct (family_in _ _ _ _ Hc). eapply RdI64; eauto.
      * eapply native_attempts_reading; [|exact H]. intros c Hc. apply (family_own_in _ _ _ Hc).
Qed.

Lemma text_attempts_faithful : forall t tv x, In x (text_attempts t tv) ->
  reading (Some (tv_text tv)) None None (tv_native tv) t x.
Proof.
  intros t tv x H. unfold text_attempts in H. destruct H as [<-|H].
  - eapply RdStr; reflexivity.
  - apply in_app_or in H. destruct H as [H|H].
    + apply in_map_iff in H. destruct H as [c [<- _]]. eapply RdStr; reflexivity.
    + eapply native_attempts_reading; [|exact H]. intros c Hc. apply (family_own_in _ _ _ Hc).
Qed.

Lemma yaml_attempts_faithful : forall t yv x, In x (yaml_attempts_gen true t yv) ->
  reading (Some (yv_value yv)) (yv_u64 yv) (yv_i64 yv) (yv_native yv) t x.
Proof.
  intros t yv x H. unfold yaml_attempts_gen, yaml_attempts_gen2 in H. destruct H as [<-|H].
  - eapply RdStr; reflexivity.
  - apply in_app_or in H. destruct H as [H|H].
    + apply in_map_iff in H. destruct H as [c [<- _]]. eapply RdStr; reflexivity.
    + apply in_app_or in H. destruct H as [H|H].
      * destruct (yv_u64 yv) as [u|] eqn:E; [|contradiction]. apply int_attempts_rc in H. destruct H as [c [Hc [Hr ->]]].
        destruct (family_in _ _ _ _ Hc). eapply RdU64; eauto.
      * apply in_app_or in H. destruct H as [H|H].
        -- destruct (yv_i64 yv) as [i|] eqn:E; [|contradiction]. apply int_attempts_rc in H. destruct H as [c [Hc [Hr ->]]].
           destruct (family_in _ _ _ _ Hc). eapply RdI64; eauto.
        -- eapply native_attempts_reading; [|exact H]. intros c Hc. apply (family_own_in _ _ _ Hc).
Qed.

(* a document none of whose faithful readings names a constant or is a parsable trait constant
   is rejected — by each of the three decoders *)
Lemma reject_json_readings : forall d o t jv, gen d o = Built t ->
  (forall x, reading (jv_string jv) (jv_u64 jv) (jv_i64 jv) (jv_native jv) t x -> rejectable d o t x) ->
  decode_json t jv = None.
Proof.
  intros d o t jv Hg H. apply (reject_json d o t Hg). intros x Hx. apply H. apply json_attempts_faithful. assumption.
Qed.
Lemma reject_text_readings : forall d o t tv, gen d o = Built t ->
  (forall x, reading (Some (tv_text tv)) None None (tv_native tv) t x -> rejectable d o t x) ->
  decode_text t tv = None.
Proof.
  intros d o t tv Hg H. apply (reject_text d o t Hg). intros x Hx. apply H. apply text_attempts_faithful. assumption.
Qed.
Lemma reject_yaml_readings : forall d o t yv, gen d o = Built t ->
  (forall x, reading (Some (yv_value yv)) (yv_u64 yv) (yv_i64 yv) (yv_native yv) t x -> rejectable d o t x) ->
  decode_yaml t yv = None.
Proof.
  intros d o t yv Hg H. apply (reject_yaml d o t Hg). intros x Hx. apply H. apply yaml_attempts_faithful. assumption.
Qed.

(* integer readings are not narrowed for the 64-bit trait kinds *)
Lemma wrap_to_id_signed64 : forall x, - 2 ^ 63 <= x < 2 ^ 63 -> wrap_to true 64 x = x.
Proof.
  intros x Hx. unfold wrap_to. change (2 ^ (64 - 1)) with 9223372036854775808.
  change (2 ^ 63) with 9223372036854775808 in Hx. change (2 ^ 64) with 18446744073709551616.
  destruct (Z_lt_dec x 0) as [Hneg|Hpos].
  - assert (E : x mod 18446744073709551616 = x + 18446744073709551616).
    { symmetry. apply Z.mod_unique with (q := -1); lia. }
    rewrite E. simpl. destruct (Z.leb_spec 9223372036854775808 (x + 18446744073709551616)); lia.
  - rewrite Z.mod_small by lia. simpl. destruct (Z.leb_spec 9223372036854775808 x); lia.
Qed.
Lemma wrap_to_id_unsigned64 : forall x, 0 <= x < 2 ^ 64 -> wrap_to false 64 x = x.
Proof. intros x Hx. unfold wrap_to. simpl. apply Z.mod_small. assumption. Qed.

Lemma conv_int_id_64 : forall b x,
  (In b [BUntypedInt; BInt; BInt64] -> - 2 ^ 63 <= x < 2 ^ 63 -> conv_int b x = x) /\
  (In b [BUint; BUint64] -> 0 <= x < 2 ^ 64 -> conv_int b x = x).
Proof.
  intros b x. split; intros Hb Hx; simpl in Hb.
  - destruct Hb as [<-|[<-|[<-|[]]]]; apply wrap_to_id_signed64; assumption.
  - destruct Hb as [<-|[<-|[]]]; apply wrap_to_id_unsigned64; assumption.
Qed.

(* ---- the pinned YAML decoder: strconv guards inverted.  Witness: P0/P1/P2 with the parsable
   integer trait Code = 0/7/9; the scalar `garbage` (not a name, not a number) decodes to P0,
   and `7` (a genuine trait value) is rejected. *)
Definition yw_cell (var : string) (z : Z) : cell :=
  {| cl_var := var; cl_expr := dec z; cl_val := {| dty := "int"; dval := PInt z |} |}.
Definition yw_defn : defn :=
  {| d_ty := {| ty_name := "E0"; ty_signed := true; ty_bits := 64 |};
     d_consts := [ {| c_name := "P0"; c_val := 0; c_dep := false; c_cells := [yw_cell "_Code" 0] |};
                   {| c_name := "P1"; c_val := 1; c_dep := false; c_cells := [yw_cell "_" 7] |};
                   {| c_name := "P2"; c_val := 2; c_dep := false; c_cells := [yw_cell "_" 9] |} ];
     d_types := [("int", {| ti_bkind := BUntypedInt; ti_json_own := false; ti_yaml_own := false; ti_text_own := false |})] |}.
Definition yw_opts : opts :=
  {| o_json := true; o_yaml := true; o_text := true; o_ci := false; o_notraits := false; o_parsable := ["Code"] |}.
Definition yw_garbage : yview := {| yv_value := "garbage"; yv_u64 := None; yv_i64 := None; yv_native := [] |}.
Definition yw_seven : yview := {| yv_value := "7"; yv_u64 := Some 7; yv_i64 := Some 7; yv_native := [] |}.

Lemma decode_yaml_orig_refuted :
  exists t, gen yw_defn yw_opts = Built t
            /\ decode_yaml_orig t yw_garbage = Some 0 /\ decode_yaml_orig t yw_seven = None
            /\ decode_yaml t yw_garbage = None /\ decode_yaml t yw_seven = Some 1.
Proof. eexists. split; [vm_compute; reflexivity|]. vm_compute. repeat split. Qed.

(* ================================================================== Part 5: traits (C12) *)

(* ---- what gen guarantees about the columns *)
Definition cols_owned (vs : list gvalue) (cols : list column) : Prop :=
  forall c r, In c cols -> In r (col_rows c) -> In (r_owner r) vs.

Lemma first_columns_owned : forall d o first cells cols vs,
  In first vs -> first_columns d o first cells = Built cols -> cols_owned vs cols.
Proof.
  intros d o first cells. induction cells as [|cl rest IH]; intros cols vs Hf H; simpl in H.
  - inversion H; subst. intros c r [].
  - destruct (String.eqb (cl_var cl) "_"); [discriminate|].
    destruct (String.eqb (trim_underscore (cl_var cl)) "" || String.eqb (trim_underscore (cl_var cl)) "_"); [discriminate|].
    destruct (lookup (dty (cl_val cl)) (d_types d)) as [info|]; [|discriminate].
    destruct (first_columns d o first rest) as [cols'| | |] eqn:E; try discriminate.
    inversion H; subst. intros c r [<-|Hc] Hr.
    + simpl in Hr. destruct Hr as [<-|[]]. assumption.
    + eapply IH; eauto.
Qed.

Lemma later_rows_owner : forall rest j r, In r (later_rows rest j) -> In (r_owner r) rest.
Proof.
  intros rest j r H. unfold later_rows in H. apply in_flat_map in H. destruct H as [v [Hv Hr]].
  destruct (nth_error (g_cells v) j); [|contradiction]. destruct Hr as [<-|[]]. assumption.
Qed.

Lemma add_rows_owned : forall rest cols j vs,
  (forall v, In v rest -> In v vs) -> cols_owned vs cols -> cols_owned vs (add_rows rest j cols).
Proof.
  intros rest cols. induction cols as [|c cs IH]; intros j vs Hsub H; simpl.
  - intros c r [].
  - intros c' r [<-|Hc] Hr.
    + simpl in Hr. apply in_app_or in Hr. destruct Hr as [Hr|Hr].
      * apply (H c r); [left; reflexivity|assumption].
      * apply Hsub. eapply later_rows_owner; eauto.
    + eapply IH; eauto. intros c0 r0 Hc0 Hr0. apply (H c0 r0); [right; assumption|assumption].
Qed.

Lemma drop_dup_owned : forall b vs0 vs cols, cols_owned vs cols -> cols_owned vs (drop_dup_rows_gen b vs0 cols).
Proof.
  intros b vs0 vs cols H c r Hc Hr. unfold drop_dup_rows_gen in Hc. apply in_map_iff in Hc.
  destruct Hc as [c0 [<- Hc0]]. simpl in Hr. apply filter_In in Hr. destruct Hr as [Hr _].
  apply (H c0 r); assumption.
Qed.

Lemma sort_columns_owned : forall vs cols, cols_owned vs cols -> cols_owned vs (sort_columns cols).
Proof.
  intros vs cols H c r Hc Hr. unfold sort_columns in Hc. apply isort_in in Hc. apply (H c r); assumption.
Qed.

Lemma gen_cols_owned : forall d o t, gen d o = Built t -> cols_owned (t_all t) (t_cols t).
Proof.
  intros d o t H. unfold gen in H.
  assert (Hmk : forall vs cols, mk_tables d o vs cols = Built t -> cols_owned vs cols ->
                                cols_owned (t_all t) (t_cols t)).
  { intros vs cols Hm Ho. apply mk_tables_built in Hm. destruct Hm as [_ ->]. exact Ho. }
  destruct (sort_values (d_consts d)) as [|first rest] eqn:Es; [discriminate|].
  assert (Hnil : cols_owned (first :: rest) []) by (intros c r []).
  destruct (o_ci o && negb (str_nodupb (map (fun v => to_lower (g_name v)) (first :: rest)))); [discriminate|].
  destruct (o_notraits o); [apply (Hmk _ _ H Hnil)|].
  destruct (first_columns d o first (g_cells first)) as [cols0| | |] eqn:Ef; try discriminate.
  destruct (Nat.eqb (length cols0) 0).
  - destruct (forallb _ _); [apply (Hmk _ _ H Hnil)|discriminate].
  - destruct (negb (validate_counts (first :: rest) (length cols0))); [discriminate|].
    destruct (existsb _ rest); [discriminate|].
    destruct (negb (validate_parsable _)); [discriminate|].
    destruct (negb (validate_trait_names _ _)); [discriminate|]. apply (Hmk _ _ H).
    apply sort_columns_owned. apply drop_dup_owned. apply add_rows_owned.
    + intros v Hv. right. assumption.
    + eapply first_columns_owned; [|exact Ef]. left. reflexivity.
Qed.

Section Traits.
  Variable d : defn.
  Variable o : opts.
  Variable t : tables.
  Hypothesis Hwf : wf_defn d.
  Hypothesis Hgen : gen d o = Built t.

  Let cs := d_consts d.
  Let L := sort_values cs.

  Lemma rows_owner_in_L : forall c r, In c (t_cols t) -> In r (col_rows c) -> In (r_owner r) L.
  Proof.
    intros c r Hc Hr. pose proof (gen_cols_owned d o t Hgen c r Hc Hr) as H.
    rewrite (B_all d o t Hgen) in H. exact H.
  Qed.

  Lemma z_nodupb_NoDup : forall l, z_nodupb l = true -> NoDup l.
  Proof.
    induction l as [|x r IH]; simpl; intros H; [constructor|].
    apply andb_true_iff in H. destruct H as [Hn Hr]. apply negb_true_iff in Hn.
    constructor; [|apply IH; assumption]. intro Hin.
    assert (E : existsb (Z.eqb x) r = true) by (apply existsb_exists; exists x; split; [assumption|apply Z.eqb_refl]).
    congruence.
  Qed.

  Lemma rows_values_NoDup : forall c, In c (t_cols t) -> NoDup (map (fun r => g_z (r_owner r)) (col_rows c)).
  Proof.
    intros c Hc. pose proof (B_build d o t Hgen) as Hb. unfold build_ok in Hb.
    apply andb_true_iff in Hb. destruct Hb as [Hb _]. apply andb_true_iff in Hb. destruct Hb as [Hb _].
    apply andb_true_iff in Hb. destruct Hb as [Hb _]. rewrite forallb_forall in Hb.
    apply z_nodupb_NoDup. apply Hb. assumption.
  Qed.

  (* accessor, table level: the cell of the (unique) row owned by the value, else the zero value *)
  Lemma accessor_row : forall c r, In c (t_cols t) -> In r (col_rows c) ->
    sem_accessor c (g_z (r_owner r)) = dval (cl_val (r_cell r)).
  Proof.
    intros c r Hc Hr. unfold sem_accessor.
    destruct (find (fun r0 => g_z (r_owner r0) =? g_z (r_owner r)) (col_rows c)) as [r'|] eqn:F.
    - apply find_some in F. destruct F as [Hin' Hz]. apply Z.eqb_eq in Hz.
      assert (E : r' = r).
      { apply (NoDup_map_inj_in (fun r0 => g_z (r_owner r0)) (col_rows c)); try assumption.
        apply rows_values_NoDup. assumption. }
      rewrite E. reflexivity.
    - pose proof (find_none _ _ F r Hr) as Hn. simpl in Hn. rewrite Z.eqb_refl in Hn. discriminate.
  Qed.

  Lemma accessor_zero : forall c e, (forall r, In r (col_rows c) -> g_z (r_owner r) <> e) ->
    sem_accessor c e = zero_payload (ti_bkind (col_info c)).
  Proof.
    intros c e H. unfold sem_accessor. rewrite find_all_false; [reflexivity|].
    intros r Hr. apply Z.eqb_neq. apply H. assumption.
  Qed.

  (* Parse<T> of a parsable trait constant returns the owning value *)
  Lemma parse_trait_row : forall c r, In c (t_cols t) -> col_parsable c = true -> In r (col_rows c) ->
    sem_parse t (cl_val (r_cell r)) = Some (g_z (r_owner r)).
  Proof.
    intros c r Hc Hp Hr. unfold sem_parse. rewrite (B_all d o t Hgen). fold cs. fold L.
    set (x := cl_val (r_cell r)).
    assert (Hown : In x (case_consts (t_cols t) (r_owner r))).
    { unfold case_consts.
      destruct (dyn_eqb x (DStr (g_name (r_owner r)))) eqn:Ex.
      - apply dyn_eqb_eq in Ex. left. symmetry. exact Ex.
      - right. apply dyn_dedup_from_In. split.
        + apply in_flat_map. exists c. split; [assumption|]. rewrite Hp.
          unfold owned_cells. apply in_map_iff. exists r. split; [reflexivity|].
          apply filter_In. split; [assumption|apply String.eqb_refl].
        + intros [E|[]]. rewrite <- E in Ex.
          assert (T : dyn_eqb x x = true) by (apply dyn_eqb_eq; reflexivity). congruence. }
    set (f := fun g => existsb (dyn_eqb x) (case_consts (t_cols t) g)).
    assert (Hf0 : f (r_owner r) = true) by (unfold f; apply (existsb_dyn_In x); assumption).
    destruct (find_exists f L _ (rows_owner_in_L c r Hc Hr) Hf0) as [g' F]. rewrite F.
    apply find_some in F. destruct F as [Hin' Hf']. unfold f in Hf'. apply existsb_dyn_In in Hf'.
    assert (E : g' = r_owner r).
    { apply (NoDup_flat_map_unique (case_consts (t_cols t)) L g' (r_owner r) x).
      - apply (L_NoDup d Hwf).
      - apply (cases_NoDup d o t Hgen).
      - assumption.
      - apply (rows_owner_in_L c r Hc Hr).
      - assumption.
      - assumption. }
    rewrite E. reflexivity.
  Qed.

  (* a decoder returns v as soon as one of its attempts parses to v and no attempt parses to
     anything else (documents with two readings of different values are ambiguous) *)
  Lemma try_all_unique : forall l x v, In x l -> sem_parse t x = Some v ->
    (forall y w, In y l -> sem_parse t y = Some w -> w = v) -> try_all t l = Some v.
  Proof.
    induction l as [|a r IH]; intros x v Hin Hx Hu; [contradiction|]. simpl.
    destruct (sem_parse t a) as [w|] eqn:Ea.
    - f_equal. apply (Hu a w); [left; reflexivity|assumption].
    - destruct Hin as [->|Hin]; [congruence|]. eapply IH; eauto.
      intros y w Hy Hw. apply (Hu y w); [right; assumption|assumption].
  Qed.

  Definition unambiguous (l : list dyn) (v : Z) : Prop :=
    forall y w, In y l -> sem_parse t y = Some w -> w = v.

  (* which readings the decoders try for a trait column *)
  Lemma json_tries_string : forall c jv s, In c (family t KString ti_json_own) -> jv_string jv = Some s ->
    In (typed c (PStr s)) (json_attempts t jv).
  Proof.
    intros c jv s Hc Hs. unfold json_attempts, json_attempts_gen. rewrite Hs. apply in_or_app. left. right.
    apply in_map_iff. exists c. split; [reflexivity|assumption].
  Qed.
  Lemma json_tries_uint : forall c jv u, In c (family t KUint64 ti_json_own) -> jv_u64 jv = Some u ->
    conv_int (ti_bkind (col_info c)) u = u -> In (typed_int c u) (json_attempts t jv).
  Proof.
    intros c jv u Hc Hu Hr. unfold json_attempts, json_attempts_gen. rewrite Hu. apply in_or_app. right. apply in_or_app. left.
    apply int_attempts_in; assumption.
  Qed.
  Lemma json_tries_int : forall c jv i, In c (family t KInt64 ti_json_own) -> jv_i64 jv = Some i ->
    conv_int (ti_bkind (col_info c)) i = i -> In (typed_int c i) (json_attempts t jv).
  Proof.
    intros c jv i Hc Hi Hr. unfold json_attempts, json_attempts_gen. rewrite Hi. apply in_or_app. right. apply in_or_app. right.
    apply in_or_app. left. apply int_attempts_in; assumption.
  Qed.
  Lemma native_tries : forall cols nat_view c p, In c cols -> lookup (col_type c) nat_view = Some (Some p) ->
    In (typed c p) (native_attempts cols nat_view).
  Proof.
    intros cols nat_view c p Hc Hl. unfold native_attempts. apply in_flat_map. exists c. split; [assumption|].
    rewrite Hl. left. reflexivity.
  Qed.
  Lemma json_tries_native : forall c jv p, In c (family_own t ti_json_own) ->
    lookup (col_type c) (jv_native jv) = Some (Some p) -> In (typed c p) (json_attempts t jv).
  Proof.
    intros c jv p Hc Hl. unfold json_attempts, json_attempts_gen. apply in_or_app. right. apply in_or_app. right.
    apply in_or_app. right. apply native_tries; assumption.
  Qed.
  Lemma yaml_tries_string : forall c yv, In c (family t KString ti_yaml_own) ->
    In (typed c (PStr (yv_value yv))) (yaml_attempts_gen true t yv).
  Proof.
    intros c yv Hc. unfold yaml_attempts_gen, yaml_attempts_gen2. right. apply in_or_app. left. apply in_map_iff. exists c. split; [reflexivity|assumption].
  Qed.
  Lemma yaml_tries_uint : forall c yv u, In c (family t KUint64 ti_yaml_own) -> yv_u64 yv = Some u ->
    conv_int (ti_bkind (col_info c)) u = u -> In (typed_int c u) (yaml_attempts_gen true t yv).
  Proof.
    intros c yv u Hc Hu Hr. unfold yaml_attempts_gen, yaml_attempts_gen2. rewrite Hu. right. apply in_or_app. right.
    apply in_or_app. left. apply int_attempts_in; assumption.
  Qed.
  Lemma yaml_tries_int : forall c yv i, In c (family t KInt64 ti_yaml_own) -> yv_i64 yv = Some i ->
    conv_int (ti_bkind (col_info c)) i = i -> In (typed_int c i) (yaml_attempts_gen true t yv).
  Proof.
    intros c yv i Hc Hi Hr. unfold yaml_attempts_gen, yaml_attempts_gen2. rewrite Hi. right. apply in_or_app. right.
    apply in_or_app. right. apply in_or_app. left. apply int_attempts_in; assumption.
  Qed.
  Lemma yaml_tries_native : forall c yv p, In c (family_own t ti_yaml_own) ->
    lookup (col_type c) (yv_native yv) = Some (Some p) -> In (typed c p) (yaml_attempts_gen true t yv).
  Proof.
    intros c yv p Hc Hl. unfold yaml_attempts_gen, yaml_attempts_gen2. right. apply in_or_app. right. apply in_or_app. right.
    apply in_or_app. right. apply native_tries; assumption.
  Qed.
  Lemma text_tries_string : forall c tv, In c (family t KString ti_text_own) ->
    In (typed c (PStr (tv_text tv))) (text_attempts t tv).
  Proof.
    intros c tv Hc. unfold text_attempts. right. apply in_or_app. left. apply in_map_iff. exists c. split; [reflexivity|assumption].
  Qed.
  Lemma text_tries_native : forall c tv p, In c (family_own t ti_text_own) ->
    lookup (col_type c) (tv_native tv) = Some (Some p) -> In (typed c p) (text_attempts t tv).
  Proof.
    intros c tv p Hc Hl. unfold text_attempts. right. apply in_or_app. right. apply native_tries; assumption.
  Qed.

  (* decoding a document that holds the trait constant of row r (as one of the readings the
     decoder tries) returns the owning value *)
  Lemma decode_trait_json : forall c r jv, In c (t_cols t) -> col_parsable c = true -> In r (col_rows c) ->
    jv_null jv = false ->
    In (cl_val (r_cell r)) (json_attempts t jv) -> unambiguous (json_attempts t jv) (g_z (r_owner r)) ->
    decode_json t jv = Some (g_z (r_owner r)).
  Proof.
    intros c r jv Hc Hp Hr Hnn Hin Hu. unfold decode_json. rewrite Hnn.
    eapply try_all_unique; [exact Hin|apply (parse_trait_row c r Hc Hp Hr)|exact Hu].
  Qed.
  Lemma decode_trait_yaml : forall c r yv, In c (t_cols t) -> col_parsable c = true -> In r (col_rows c) ->
    In (cl_val (r_cell r)) (yaml_attempts_gen true t yv) -> unambiguous (yaml_attempts_gen true t yv) (g_z (r_owner r)) ->
    decode_yaml t yv = Some (g_z (r_owner r)).
  Proof.
    intros c r yv Hc Hp Hr Hin Hu. unfold decode_yaml.
    eapply try_all_unique; [exact Hin|apply (parse_trait_row c r Hc Hp Hr)|exact Hu].
  Qed.
  Lemma decode_trait_text : forall c r tv, In c (t_cols t) -> col_parsable c = true -> In r (col_rows c) ->
    In (cl_val (r_cell r)) (text_attempts t tv) -> unambiguous (text_attempts t tv) (g_z (r_owner r)) ->
    decode_text t tv = Some (g_z (r_owner r)).
  Proof.
    intros c r tv Hc Hp Hr Hin Hu. unfold decode_text.
    eapply try_all_unique; [exact Hin|apply (parse_trait_row c r Hc Hp Hr)|exact Hu].
  Qed.
End Traits.

(* ---- before the range check (fix C05-numeric-trait-range-check): a parsable uint8 trait
   Code = 1/2; the number 257 is not a trait value, yet uint8(257) = 1 and the document decoded
   to the value whose Code is 1.  The current decoders reject it and still accept 1. *)
Definition nw_cell (var : string) (z : Z) : cell :=
  {| cl_var := var; cl_expr := "uint8(" ++ dec z ++ ")"; cl_val := {| dty := "uint8"; dval := PInt z |} |}.
Definition nw_defn : defn :=
  {| d_ty := {| ty_name := "E0"; ty_signed := true; ty_bits := 64 |};
     d_consts := [ {| c_name := "A"; c_val := 0; c_dep := false; c_cells := [nw_cell "_Code" 1] |};
                   {| c_name := "B"; c_val := 1; c_dep := false; c_cells := [nw_cell "_" 2] |} ];
     d_types := [("uint8", {| ti_bkind := BUint8; ti_json_own := false; ti_yaml_own := false; ti_text_own := false |})] |}.
Definition nw_opts : opts :=
  {| o_json := true; o_yaml := true; o_text := true; o_ci := false; o_notraits := false; o_parsable := ["Code"] |}.
Definition nw_json (z : Z) : jview := {| jv_null := false; jv_string := None; jv_u64 := Some z; jv_i64 := Some z; jv_native := [] |}.
Definition nw_yaml (z : Z) : yview := {| yv_value := dec z; yv_u64 := Some z; yv_i64 := Some z; yv_native := [] |}.

Lemma decode_norc_refuted :
  exists t, gen nw_defn nw_opts = Built t
            /\ decode_json_norc t (nw_json 257) = Some 0 /\ decode_yaml_norc t (nw_yaml 257) = Some 0
            /\ decode_json t (nw_json 257) = None /\ decode_yaml t (nw_yaml 257) = None
            /\ decode_json t (nw_json 1) = Some 0 /\ decode_yaml t (nw_yaml 2) = Some 1.
Proof. eexists. split; [vm_compute; reflexivity|]. vm_compute. repeat split. Qed.

(* ---- before fix C05-json-null-rejected: json.Unmarshal of `null` into string / uint64 / int64 succeeds
   (leaving "" and 0), so the document null decoded to the value whose parsable numeric trait is 0 *)
Definition null_view : jview :=
  {| jv_null := true; jv_string := Some ""; jv_u64 := Some 0; jv_i64 := Some 0; jv_native := [] |}.
Lemma decode_null_refuted :
  exists t, gen yw_defn yw_opts = Built t
            /\ decode_json_nullok t null_view = Some 0 /\ decode_json t null_view = None.
Proof. eexists. split; [vm_compute; reflexivity|]. vm_compute. split; reflexivity. Qed.

Lemma decode_json_null : forall t jv, jv_null jv = true -> decode_json t jv = None.
Proof. intros t jv H. unfold decode_json. rewrite H. reflexivity. Qed.

(* ---- a parsable plain-string trait that spells the value's own name (fix C12-parsable-trait-equals-name) *)
Definition on_defn : defn :=
  {| d_ty := {| ty_name := "E0"; ty_signed := true; ty_bits := 64 |};
     d_consts := [ {| c_name := "Red"; c_val := 0; c_dep := false;
                      c_cells := [ {| cl_var := "_Label"; cl_expr := """Red"""; cl_val := DStr "Red" |} ] |};
                   {| c_name := "Blue"; c_val := 1; c_dep := false;
                      c_cells := [ {| cl_var := "_"; cl_expr := """blu"""; cl_val := DStr "blu" |} ] |} ];
     d_types := [("string", {| ti_bkind := BUntypedString; ti_json_own := false; ti_yaml_own := false; ti_text_own := false |})] |}.
Definition on_clash : defn :=
  {| d_ty := d_ty on_defn;
     d_consts := [ {| c_name := "Red"; c_val := 0; c_dep := false;
                      c_cells := [ {| cl_var := "_Label"; cl_expr := """Blue"""; cl_val := DStr "Blue" |} ] |};
                   {| c_name := "Blue"; c_val := 1; c_dep := false;
                      c_cells := [ {| cl_var := "_"; cl_expr := """x"""; cl_val := DStr "x" |} ] |} ];
     d_types := d_types on_defn |}.
Definition on_opts : opts :=
  {| o_json := true; o_yaml := true; o_text := true; o_ci := false; o_notraits := false; o_parsable := ["Label"] |}.
Lemma own_name_trait :
  (exists t, gen on_defn on_opts = Built t
             /\ sem_parse t (DStr "Red") = Some 0 /\ sem_parse t (DStr "blu") = Some 1)
  /\ gen on_clash on_opts = GenErr.
Proof. split; [eexists; split; [vm_compute; reflexivity|vm_compute; split; reflexivity]|vm_compute; reflexivity]. Qed.
