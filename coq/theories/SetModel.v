(* SetModel.v — executable mirror of /repo/set/set.go (Set[T comparable] = map[T]struct{}).
   No proofs here.

   A Go map value is modelled by [is_nil] (the nil map) and the list of its keys [elems]
   (invariant NoDup, proved in SetProofs).  Where the Go code ranges over a map (AddSet,
   RemoveSet, Slice) the iteration order is an explicit argument / any permutation.

   Go source (current tree)                               model
   ---------------------------------------------------    -----------------
   Make(items...)     s[item] = setVal                    s_make
   Slice()            nil when len(s)==0, else the keys   s_slice
   ptr s.Add(items...) allocate when nil; added flag      s_add
                      computed during insertion
   ptr s.AddSet(t)    same, ranging over t                 s_addset (order argument)
   Remove(items...)   false when len(s)==0; removed flag  s_remove
   RemoveSet(t)       same, ranging over t                s_removeset (order argument)
   Has(items...)      false when len(s)==0; all present   s_has
   HasAny(items...)   false when len(s)==0; some present  s_hasany
   s_has_orig is the pinned (pre-fix) Has with its `len(s) < len(items)` shortcut.        *)
From Coq Require Import List Bool Arith.
Import ListNotations.

Section SetModel.
  Variable T : Type.
  Variable eqb : T -> T -> bool.

  Definition memb (x : T) (l : list T) : bool := existsb (eqb x) l.
  (* m[x] = struct{}{} *)
  Definition insert (x : T) (l : list T) : list T := if memb x l then l else l ++ [x].
  (* delete(m, x) *)
  Definition delete (x : T) (l : list T) : list T := filter (fun y => negb (eqb x y)) l.

  Record sset := { is_nil : bool; elems : list T }.

  Definition s_nil : sset := {| is_nil := true; elems := [] |}.
  Definition s_make (items : list T) : sset :=
    {| is_nil := false; elems := fold_left (fun l x => insert x l) items [] |}.

  Definition s_slice (s : sset) : option (list T) :=
    match elems s with [] => None | l => Some l end.

  Definition add_step (st : list T * bool) (x : T) : list T * bool :=
    let '(l, added) := st in (insert x l, added || negb (memb x l)).
  Definition s_add (s : sset) (items : list T) : sset * bool :=
    let '(l, added) := fold_left add_step items (elems s, false) in
    ({| is_nil := false; elems := l |}, added).
  (* [order] = the keys of the argument set in the order the runtime happens to range over them *)
  Definition s_addset (s : sset) (order : list T) : sset * bool := s_add s order.

  Definition rem_step (st : list T * bool) (x : T) : list T * bool :=
    let '(l, removed) := st in (delete x l, removed || memb x l).
  Definition s_remove (s : sset) (items : list T) : sset * bool :=
    if Nat.eqb (length (elems s)) 0 then (s, false)
    else let '(l, removed) := fold_left rem_step items (elems s, false) in
         ({| is_nil := is_nil s; elems := l |}, removed).
  Definition s_removeset (s : sset) (order : list T) : sset * bool := s_remove s order.

  Definition s_has (s : sset) (items : list T) : bool :=
    if Nat.eqb (length (elems s)) 0 then false
    else forallb (fun x => memb x (elems s)) items.
  Definition s_hasany (s : sset) (items : list T) : bool :=
    if Nat.eqb (length (elems s)) 0 then false
    else existsb (fun x => memb x (elems s)) items.

  (* pinned code before fix ad9c99c *)
  Definition s_has_orig (s : sset) (items : list T) : bool :=
    if Nat.eqb (length (elems s)) 0 || Nat.ltb (length (elems s)) (length items) then false
    else forallb (fun x => memb x (elems s)) items.

  (* ---- operation sequences ---- *)
  Inductive sop :=
  | ONil                       (* var s Set[T] — back to the nil set *)
  | OMake (items : list T)
  | OAdd (items : list T)
  | OAddSet (items : list T)   (* s.AddSet(Make(items...)) *)
  | OAddSetNil                 (* s.AddSet(nil) *)
  | OAddSelf                   (* s.AddSet(s) *)
  | ORemove (items : list T)
  | ORemoveSet (items : list T)
  | ORemoveSetNil
  | ORemoveSelf                (* s.RemoveSet(s) *)
  | OHas (items : list T)
  | OHasAny (items : list T).

  Definition s_step (s : sset) (o : sop) : sset * bool :=
    match o with
    | ONil => (s_nil, false)
    | OMake items => (s_make items, false)
    | OAdd items => s_add s items
    | OAddSet items => s_addset s (elems (s_make items))
    | OAddSetNil => s_addset s []
    | OAddSelf => s_addset s (elems s)
    | ORemove items => s_remove s items
    | ORemoveSet items => s_removeset s (elems (s_make items))
    | ORemoveSetNil => s_removeset s []
    | ORemoveSelf => s_removeset s (elems s)
    | OHas items => (s, s_has s items)
    | OHasAny items => (s, s_hasany s items)
    end.

  Fixpoint s_run (s : sset) (ops : list sop) : list (sset * bool) :=
    match ops with
    | [] => []
    | o :: rest => let r := s_step s o in r :: s_run (fst r) rest
    end.

  (* ---- abstract specification: a mathematical set is its membership predicate ---- *)
  Definition aset := T -> bool.
  Definition a_empty : aset := fun _ => false.
  Definition a_of (items : list T) : aset := fun x => memb x items.
  Definition a_union (p q : aset) : aset := fun x => p x || q x.
  Definition a_diff (p q : aset) : aset := fun x => p x && negb (q x).

  (* result of an operation on the abstract set: new set, boolean result.  [dom] is any finite
     list covering the members (needed only to say "the set was non-empty" for RemoveSet(self)).
     Has with an empty argument list is outside the property's quantifier (op_ok excludes it). *)
  Definition a_step (p : aset) (dom : list T) (o : sop) : aset * bool :=
    match o with
    | ONil => (a_empty, false)
    | OMake items => (a_of items, false)
    | OAdd items | OAddSet items => (a_union p (a_of items), existsb (fun x => negb (p x)) items)
    | OAddSetNil | OAddSelf => (p, false)
    | ORemove items | ORemoveSet items => (a_diff p (a_of items), existsb p items)
    | ORemoveSetNil => (p, false)
    | ORemoveSelf => (a_empty, existsb p dom)
    | OHas items => (p, forallb p items)
    | OHasAny items => (p, existsb p items)
    end.
End SetModel.

Arguments add_step {T}. Arguments rem_step {T}. Arguments memb {T}. Arguments insert {T}. Arguments delete {T}.
Arguments is_nil {T}. Arguments elems {T}. Arguments s_nil {T}. Arguments s_make {T}.
Arguments s_slice {T}. Arguments s_add {T}. Arguments s_addset {T}. Arguments s_remove {T}.
Arguments s_removeset {T}. Arguments s_has {T}. Arguments s_hasany {T}. Arguments s_has_orig {T}.
Arguments s_step {T}. Arguments s_run {T}. Arguments a_step {T}. Arguments a_of {T}.
Arguments a_empty {T}. Arguments a_union {T}. Arguments a_diff {T}.
Arguments ONil {T}. Arguments OMake {T}. Arguments OAdd {T}. Arguments OAddSet {T}.
Arguments OAddSetNil {T}. Arguments OAddSelf {T}. Arguments ORemove {T}. Arguments ORemoveSet {T}.
Arguments ORemoveSetNil {T}. Arguments ORemoveSelf {T}. Arguments OHas {T}. Arguments OHasAny {T}.
