(* WGJudgeProofs.v — what the verdicts of the C02 judges MEAN for the recorded trace.

   The judges of WGJudge.v are evaluated on traces recorded from the real code.  These lemmas tie
   their verdicts to the declarative specification c02_spec (WGSpec.v), so that
     - verdict 1 caused by the monitor is a violation of the sentence c02_spec by the recording,
     - verdict 0 means the recording satisfies c02_spec (and the probes their expectations, and
       equals the model's trace),
   for the gated judge (C01's side condition) and for the unconditional one used on the
   negative-excursion histories. *)
From Coq Require Import List Arith ZArith Bool.
From GT Require Import Base.Verdict Base.Conc.
From GT Require Import WGModel WGSpec WGSpecProofs WGJudge.
Import ListNotations.

Lemma verdict_0 : forall a b, verdict a b = 0%nat -> a = true /\ b = true.
Proof. intros [|] [|]; cbn; intro H; try discriminate; split; reflexivity. Qed.

Lemma verdict_1 : forall a b, verdict a b = 1%nat -> a = false.
Proof. intros [|] [|]; cbn; intro H; try discriminate; reflexivity. Qed.

Lemma and3_false : forall a b c, a && b && c = false -> a = false \/ b = false \/ c = false.
Proof. intros [|] [|] [|]; cbn; intro H; try discriminate; auto. Qed.

Lemma and3_true : forall a b c, a && b && c = true -> a = true /\ b = true /\ c = true.
Proof. intros [|] [|] [|]; cbn; intro H; try discriminate; auto. Qed.

(* a well-formed recording rejected by the monitor violates the declarative sentence *)
Lemma monitor_reject_violates : forall c,
  obs_wf c = true -> c02_ok (obs_trace c) = false -> ~ c02_spec (obs_trace c).
Proof.
  intros c Hwf Hno Hspec. unfold obs_wf in Hwf.
  apply (c02_ok_iff_spec _ Hwf) in Hspec. rewrite Hspec in Hno. discriminate.
Qed.

(* ---- the unconditional judge (negative-excursion histories) *)
Lemma c02_judge_unc_one : forall c, c02_judge_unc c = 1%nat ->
  obs_wf c = true /\
  (c02_ok (obs_trace c) = false \/ tmo_ok c = false \/ probes_ok c = false).
Proof.
  intros c H. unfold c02_judge_unc in H. destruct (obs_wf c) eqn:Ewf; [|discriminate].
  split; [reflexivity|]. apply verdict_1 in H. apply and3_false. exact H.
Qed.

Lemma c02_judge_unc_zero : forall c, c02_judge_unc c = 0%nat ->
  c02_spec (obs_trace c) /\ tmo_ok c = true /\ probes_ok c = true /\
  model_eq c = true /\ tmo_model c = true.
Proof.
  intros c H. unfold c02_judge_unc in H. destruct (obs_wf c) eqn:Ewf; [|discriminate].
  apply verdict_0 in H. destruct H as [Hs Hm]. apply and3_true in Hs. destruct Hs as [Ho [Ht Hp]].
  apply andb_true_iff in Hm. destruct Hm as [Hm1 Hm2].
  split; [apply c02_ok_spec; exact Ho|]. repeat split; assumption.
Qed.

(* ---- the gated judge (inside C01's side condition) *)
Lemma c02_judge_one : forall c, c02_judge c = 1%nat ->
  in_domain c = true /\ obs_wf c = true /\
  (c02_ok (obs_trace c) = false \/ tmo_ok c = false \/ probes_ok c = false).
Proof.
  intros c H. unfold c02_judge in H. destruct (in_domain c) eqn:Ed; [|discriminate].
  destruct (obs_wf c) eqn:Ewf; [|discriminate].
  split; [reflexivity|]. split; [reflexivity|]. apply verdict_1 in H. apply and3_false. exact H.
Qed.

Lemma c02_judge_zero : forall c, c02_judge c = 0%nat -> in_domain c = true ->
  c02_spec (obs_trace c) /\ tmo_ok c = true /\ probes_ok c = true /\
  model_eq c = true /\ tmo_model c = true.
Proof.
  intros c H Hd. unfold c02_judge in H. rewrite Hd in H. destruct (obs_wf c) eqn:Ewf; [|discriminate].
  apply verdict_0 in H. destruct H as [Hs Hm]. apply and3_true in Hs. destruct Hs as [Ho [Ht Hp]].
  apply andb_true_iff in Hm. destruct Hm as [Hm1 Hm2].
  split; [apply c02_ok_spec; exact Ho|]. repeat split; assumption.
Qed.

(* on every history the gated judge looks at, the two judges agree: the unconditional judge only
   ADDS the histories outside the side condition *)
Lemma c02_judge_unc_extends : forall c, in_domain c = true -> c02_judge_unc c = c02_judge c.
Proof. intros c Hd. unfold c02_judge_unc, c02_judge. rewrite Hd. reflexivity. Qed.

Print Assumptions monitor_reject_violates.
Print Assumptions c02_judge_unc_one.
Print Assumptions c02_judge_unc_zero.
Print Assumptions c02_judge_one.
Print Assumptions c02_judge_zero.
Print Assumptions c02_judge_unc_extends.
