(* GConfCacheProofs.v — the memo of gconfig.Config never changes an answer: every request of
   every history (hence of every interleaving of atomic requests) returns what a freshly
   loaded Config returns, and no request panics; the pinned code violated both.            *)
From Coq Require Import List String Bool Arith Lia.
From GT Require Import GConfModel GConfCacheModel.
Import ListNotations.
Local Open Scope string_scope.

Section CacheProofs.
  Variable ty : Type.
  Variable ty_eqb : ty -> ty -> bool.
  Hypothesis ty_eqb_eq : forall a b, ty_eqb a b = true <-> a = b.
  Variable is_iface : ty -> bool.
  Variable conv : string -> ty -> res val.

  Notation cache := (cache ty).
  Notation lookup := (lookup ty ty_eqb).
  Notation get_cached := (get_cached ty ty_eqb conv).
  Notation run_op := (run_op ty ty_eqb conv).
  Notation run := (run ty ty_eqb conv).
  Notation fresh := (fresh ty ty_eqb conv).
  Notation spec := (spec ty conv).

  (* the memo only ever holds what the conversion gives *)
  Definition Inv (c : cache) : Prop :=
    forall key T v, lookup key T c = Some v -> conv key T = Ok v.

  Lemma inv_nil : Inv [].
  Proof. intros key T v H. discriminate. Qed.

  Lemma lookup_cons_same : forall key T v c, lookup key T (((key, T), v) :: c) = Some v.
  Proof.
    intros. cbn. rewrite String.eqb_refl. assert (ty_eqb T T = true) by (apply ty_eqb_eq; reflexivity).
    rewrite H. reflexivity.
  Qed.

  Lemma get_cached_spec : forall c key T,
    Inv c ->
    snd (get_cached c key T) = (match conv key T with Ok v => OVal v | Err => OErr end) /\
    Inv (fst (get_cached c key T)).
  Proof.
    intros c key T HI. unfold get_cached. destruct (lookup key T c) as [v|] eqn:E.
    - cbn. rewrite (HI key T v E). split; [reflexivity| exact HI].
    - destruct (conv key T) as [v|] eqn:Ec; cbn; split; try reflexivity; try exact HI.
      intros k T' v' H. cbn in H.
      destruct (String.eqb k key && ty_eqb T' T) eqn:Eq.
      + apply andb_true_iff in Eq. destruct Eq as [E1 E2].
        apply String.eqb_eq in E1. apply ty_eqb_eq in E2. subst. inversion H; subst. exact Ec.
      + apply HI. exact H.
  Qed.

  Lemma run_op_spec : forall c o, Inv c -> snd (run_op c o) = spec o /\ Inv (fst (run_op c o)).
  Proof.
    intros c o HI. unfold run_op, spec.
    destruct (get_cached_spec c (op_key ty o) (op_ty ty o) HI) as [H1 H2].
    destruct (get_cached c (op_key ty o) (op_ty ty o)) as [c' r]. cbn in *. subst r.
    split; [reflexivity| exact H2].
  Qed.

  Lemma fresh_is_spec : forall o, fresh o = spec o.
  Proof. intros o. unfold GConfCacheModel.fresh. apply run_op_spec. exact inv_nil. Qed.

  (* every request of every history answers as on a fresh Config *)
  Lemma run_all_fresh : forall h c, Inv c -> run c h = map fresh h.
  Proof.
    induction h as [|o rest IH]; intros c HI; [reflexivity|].
    cbn [GConfCacheModel.run map]. destruct (run_op_spec c o HI) as [H1 H2].
    destruct (run_op c o) as [c' r]. cbn in *. subst r. rewrite fresh_is_spec.
    f_equal. apply IH. exact H2.
  Qed.

  Lemma last_is_fresh : forall h o, last (run [] (h ++ [o])%list) OPanic = fresh o.
  Proof.
    intros h o. rewrite (run_all_fresh (h ++ [o]) [] inv_nil), map_app. cbn.
    apply last_last.
  Qed.

  (* no request panics, except MustGet reporting the error of the conversion *)
  Lemma spec_no_panic : forall o, spec o <> OPanic.
  Proof.
    intros o. unfold GConfCacheModel.spec. destruct o; cbn; destruct (conv _ _); cbn; discriminate.
  Qed.

  Lemma run_all_fresh_nil : forall h, run [] h = map fresh h.
  Proof. intros h. exact (run_all_fresh h [] inv_nil). Qed.

  Lemma run_no_panic : forall h, ~ In OPanic (run [] h).
  Proof.
    intros h H. rewrite (run_all_fresh h [] inv_nil) in H. apply in_map_iff in H.
    destruct H as [o [Ho _]]. rewrite fresh_is_spec in Ho. exact (spec_no_panic o Ho).
  Qed.

  Lemma must_panic_only_on_error : forall o,
    spec o = OMustPanic -> exists k T, o = MustGet k T /\ conv k T = Err.
  Proof.
    intros o H. unfold GConfCacheModel.spec in H. destruct o as [k T|k T|k T d]; cbn in H.
    - destruct (conv k T); discriminate.
    - exists k, T. split; [reflexivity|]. destruct (conv k T); [discriminate| reflexivity].
    - destruct (conv k T); discriminate.
  Qed.

  (* an earlier request never changes the outcome of a later one: removing any request from
     a history leaves the outcomes of the others as they were *)
  Lemma run_remove : forall h1 o h2,
    run [] (h1 ++ o :: h2)%list
    = (run [] h1 ++ fresh o :: skipn (List.length h1) (run [] (h1 ++ h2)))%list.
  Proof.
    intros. rewrite !(run_all_fresh _ [] inv_nil). rewrite !map_app. cbn [map].
    f_equal. f_equal. rewrite <- (map_length fresh h1). rewrite skipn_app, Nat.sub_diag, skipn_all.
    reflexivity.
  Qed.

  (* ---------------------------------------------------------------- concurrency: a run of
     several goroutines whose requests are atomic steps is an interleaving of their request
     lists; every interleaving is a history, so every request still answers as if fresh *)
  Inductive Merge : list (list (op ty)) -> list (op ty * nat) -> Prop :=
  | Merge_done : forall ts, Forall (fun t => t = []) ts -> Merge ts []
  | Merge_step : forall ts i o rest h,
      nth_error ts i = Some (o :: rest) ->
      Merge (firstn i ts ++ rest :: skipn (S i) ts)%list h ->
      Merge ts ((o, i) :: h).

  (* what goroutine i issued / observed in an interleaving *)
  Definition issued_by (i : nat) (h : list (op ty * nat)) : list (op ty) :=
    map fst (filter (fun p => Nat.eqb (snd p) i) h).
  Definition observed_by (i : nat) (h : list (op ty * nat)) (rs : list outcome) : list outcome :=
    map snd (filter (fun p => Nat.eqb (snd (fst p)) i) (combine h rs)).

  Lemma nth_update_same : forall (ts : list (list (op ty))) i x rest,
    nth_error ts i = Some x ->
    nth i (firstn i ts ++ rest :: skipn (S i) ts)%list [] = rest.
  Proof.
    induction ts as [|t ts IH]; intros i x rest H; destruct i; cbn in *; try discriminate.
    - reflexivity.
    - eapply IH. eassumption.
  Qed.

  Lemma nth_update_other : forall (ts : list (list (op ty))) i j x rest,
    nth_error ts i = Some x -> i <> j ->
    nth j (firstn i ts ++ rest :: skipn (S i) ts)%list [] = nth j ts [].
  Proof.
    induction ts as [|t ts IH]; intros i j x rest H Hne; destruct i; cbn in *; try discriminate.
    - destruct j; [congruence| reflexivity].
    - destruct j; [reflexivity|]. eapply IH; [eassumption| congruence].
  Qed.

  Lemma nth_all_nil : forall (ts : list (list (op ty))) i,
    Forall (fun t => t = []) ts -> nth i ts [] = [].
  Proof.
    induction ts as [|t ts IH]; intros i H; destruct i; cbn; try reflexivity.
    - inversion H; subst. reflexivity.
    - inversion H; subst. apply IH. assumption.
  Qed.

  (* an interleaving contains, for every goroutine, exactly its requests in its order *)
  Lemma merge_issued : forall ts h, Merge ts h -> forall i, issued_by i h = nth i ts [].
  Proof.
    intros ts h H. induction H as [ts Hall|ts j o rest h Hn HM IH]; intros i.
    - cbn. symmetry. apply nth_all_nil. exact Hall.
    - unfold issued_by in *. cbn [filter snd]. destruct (Nat.eqb j i) eqn:E.
      + apply Nat.eqb_eq in E. subst j. cbn [map fst]. rewrite (IH i).
        rewrite (nth_update_same ts i (o :: rest) rest Hn).
        symmetry. apply nth_error_nth with (d := []) in Hn. exact Hn.
      + apply Nat.eqb_neq in E. rewrite (IH i).
        apply (nth_update_other ts j i (o :: rest) rest Hn E).
  Qed.

  Lemma observed_fresh : forall i h,
    observed_by i h (map (fun p => fresh (fst p)) h) = map fresh (issued_by i h).
  Proof.
    intros i h. unfold observed_by, issued_by. induction h as [|[o j] h IH]; [reflexivity|].
    cbn [map combine filter fst snd]. destruct (Nat.eqb j i); cbn [map fst snd]; rewrite IH; reflexivity.
  Qed.

  (* whatever the schedule, every goroutine observes for its own request list exactly the
     outcomes of a freshly loaded Config *)
  Lemma concurrent_fresh : forall ts h,
    Merge ts h -> forall i,
    observed_by i h (run [] (map fst h)) = map fresh (nth i ts []).
  Proof.
    intros ts h HM i. rewrite (run_all_fresh _ [] inv_nil), map_map.
    rewrite observed_fresh. rewrite (merge_issued ts h HM i). reflexivity.
  Qed.
End CacheProofs.

(* ------------------------------------------------------------------ the pinned code *)
(* result types as in the harness: a few of them with their %T names *)
Inductive gty := Tuint8 | Tint8 | Tany | Tstring.
Definition gty_eqb (a b : gty) : bool :=
  match a, b with
  | Tuint8, Tuint8 | Tint8, Tint8 | Tany, Tany | Tstring, Tstring => true
  | _, _ => false
  end.
Definition gty_name (t : gty) : string :=
  match t with Tuint8 => "uint8" | Tint8 => "int8" | Tany => "<nil>" | Tstring => "string" end.
Definition gty_iface (t : gty) : bool := match t with Tany => true | _ => false end.

(* document {a: 1, au: 2, n: null} *)
Definition wconv (key : string) (T : gty) : res val :=
  match T with
  | Tuint8 | Tint8 => if String.eqb key "a" then Ok (V "1") else if String.eqb key "au" then Ok (V "2")
                      else if String.eqb key "n" then Ok (V "0") else Err
  | Tany => if String.eqb key "a" then Ok (V "1") else if String.eqb key "au" then Ok (V "2")
            else if String.eqb key "n" then Ok VNil else Err
  | Tstring => if String.eqb key "a" then Ok (V "1") else if String.eqb key "au" then Ok (V "2")
               else if String.eqb key "n" then Ok (V "") else Err
  end.

Lemma gty_eqb_eq : forall a b, gty_eqb a b = true <-> a = b.
Proof. intros [] []; cbn; split; congruence. Qed.

(* Get[uint8]("a") then Get[int8]("au"): both use the memo key "auint8"; the second panics *)
Lemma orig_collision :
  run_orig gty gty_eqb gty_iface gty_name wconv [] [Get "a" Tuint8; Get "au" Tint8]
  = [OVal (V "1"); OPanic] /\
  fresh gty gty_eqb wconv (Get "au" Tint8) = OVal (V "2").
Proof. split; vm_compute; reflexivity. Qed.

(* Get[any] of a null value panics on the very first request *)
Lemma orig_nil_interface :
  run_orig gty gty_eqb gty_iface gty_name wconv [] [Get "n" Tany] = [OPanic] /\
  fresh gty gty_eqb wconv (Get "n" Tany) = OVal VNil.
Proof. split; vm_compute; reflexivity. Qed.

(* the two refutations of the pinned code, in the form Props/C10.v states them *)
Lemma orig_refuted_collision :
  exists h o, last (run_orig gty gty_eqb gty_iface gty_name wconv [] (h ++ [o])%list) OErr
              <> fresh gty gty_eqb wconv o.
Proof.
  exists [Get "a" Tuint8], (Get "au" Tint8). destruct orig_collision as [R F].
  cbn [app]. rewrite R, F. cbn. discriminate.
Qed.

Lemma orig_refuted_nil_interface :
  exists h, In OPanic (run_orig gty gty_eqb gty_iface gty_name wconv [] h).
Proof. exists [Get "n" Tany]. destruct orig_nil_interface as [R _]. rewrite R. left. reflexivity. Qed.
