(* GSortProofs.v — lemmas about GSortModel.v (property theorems are restated in Props/C08.v). *)
From Coq Require Import List Bool ZArith String Lia Permutation Sorted.
From GT Require Import GSortModel Base.SortU.
Import ListNotations.
Local Open Scope Z_scope.

(* ------------------------------------------------------------------------------------
   1. The rendered PriorityBlock means lexicographic comparison of its keys.            *)

Lemma cl_cmp_rank : forall c a b,
  cl_cmp c a b = (key_rank (key_of_line c) a <? key_rank (key_of_line c) b).
Proof.
  intros c a b. unfold cl_cmp, key_of_line. destruct (cl_isbool c); cbn [key_rank].
  - destruct (getb a (cl_idx c)), (getb b (cl_idx c)); reflexivity.
  - reflexivity.
Qed.

Lemma cl_eq_rank : forall c a b,
  cl_eq c a b = (key_rank (key_of_line c) a =? key_rank (key_of_line c) b).
Proof.
  intros c a b. unfold cl_eq, key_of_line. destruct (cl_isbool c); cbn [key_rank].
  - destruct (getb a (cl_idx c)), (getb b (cl_idx c)); reflexivity.
  - reflexivity.
Qed.

Theorem less_lex : forall cs a b, less cs a b = lex_lt (keys_of cs) a b.
Proof.
  unfold less. induction cs as [|c rest IH]; intros a b; [reflexivity|].
  cbn [less_with keys_of map lex_lt]. fold (keys_of rest).
  rewrite <- IH. rewrite cl_cmp_rank, cl_eq_rank.
  destruct rest as [|c' rest'].
  - cbn [less_with]. rewrite andb_false_r, orb_false_r. reflexivity.
  - destruct (key_rank (key_of_line c) a =? key_rank (key_of_line c) b) eqn:E.
    + apply Z.eqb_eq in E. rewrite E, Z.ltb_irrefl. reflexivity.
    + rewrite andb_false_l, orb_false_r. reflexivity.
Qed.

(* the pinned rendering: same thing except that a last bool key is read as `s[j].X` *)
Lemma less_orig_single_bool : forall c a b,
  cl_isbool c = true -> less_orig [c] a b = getb b (cl_idx c).
Proof. intros c a b H. unfold less_orig, less_with, cl_cmp_orig. rewrite H. reflexivity. Qed.

(* ------------------------------------------------------------------------------------
   2. lex_lt is a strict weak order, for every key list.                                *)

Lemma lex_irrefl : forall ks a, lex_lt ks a a = false.
Proof.
  induction ks as [|k r IH]; intros a; [reflexivity|].
  cbn [lex_lt]. rewrite Z.ltb_irrefl, IH, andb_false_r. reflexivity.
Qed.

Lemma lex_true_iff : forall k r a b,
  lex_lt (k :: r) a b = true <->
  key_rank k a < key_rank k b \/ (key_rank k a = key_rank k b /\ lex_lt r a b = true).
Proof.
  intros. cbn [lex_lt]. rewrite orb_true_iff, andb_true_iff, Z.ltb_lt, Z.eqb_eq. tauto.
Qed.

Lemma lex_trans : forall ks a b c,
  lex_lt ks a b = true -> lex_lt ks b c = true -> lex_lt ks a c = true.
Proof.
  induction ks as [|k r IH]; intros a b c H1 H2; [discriminate|].
  apply lex_true_iff in H1. apply lex_true_iff in H2. apply lex_true_iff.
  destruct H1 as [H1|[E1 H1]], H2 as [H2|[E2 H2]].
  - left; lia.
  - left; lia.
  - left; lia.
  - right; split; [lia|]. eapply IH; eassumption.
Qed.

Definition ranks (ks : list key) (e : elem) : list Z := map (fun k => key_rank k e) ks.

Lemma lex_eqv_iff : forall ks a b,
  eqv (lex_lt ks) a b = true <-> ranks ks a = ranks ks b.
Proof.
  induction ks as [|k r IH]; intros a b.
  - cbn. split; reflexivity.
  - rewrite eqv_true_iff. cbn [ranks map]. fold (ranks r a) (ranks r b). split.
    + intros [H1 H2].
      assert (N1 : ~ lex_lt (k :: r) a b = true) by (rewrite H1; discriminate).
      assert (N2 : ~ lex_lt (k :: r) b a = true) by (rewrite H2; discriminate).
      rewrite lex_true_iff in N1, N2.
      assert (E : key_rank k a = key_rank k b) by lia.
      f_equal; [exact E|]. apply IH. apply eqv_true_iff. split.
      * destruct (lex_lt r a b) eqn:L; [|reflexivity]. exfalso. apply N1. right. split; [exact E|reflexivity].
      * destruct (lex_lt r b a) eqn:L; [|reflexivity]. exfalso. apply N2. right. split; [symmetry; exact E|reflexivity].
    + intros H. injection H as E Hr. apply IH in Hr. apply eqv_true_iff in Hr. destruct Hr as [H1 H2].
      split; cbn [lex_lt]; rewrite E || rewrite <- E; rewrite Z.ltb_irrefl, ?H1, ?H2, andb_false_r; reflexivity.
Qed.

Theorem lex_swo : forall ks, swo (lex_lt ks).
Proof.
  intros ks. constructor.
  - apply lex_irrefl.
  - apply lex_trans.
  - intros a b c H1 H2. apply lex_eqv_iff in H1. apply lex_eqv_iff in H2. apply lex_eqv_iff. congruence.
Qed.

Lemma swo_ext : forall {A} (lt1 lt2 : A -> A -> bool),
  (forall a b, lt1 a b = lt2 a b) -> swo lt2 -> swo lt1.
Proof.
  intros A lt1 lt2 E [Hi Ht He]. constructor.
  - intros a. rewrite E. apply Hi.
  - intros a b c. rewrite !E. apply Ht.
  - intros a b c. unfold eqv in *. rewrite !E. apply He.
Qed.

Lemma swo_proj : forall {A B} (f : A -> B) (lt : B -> B -> bool),
  swo lt -> swo (fun x y => lt (f x) (f y)).
Proof.
  intros A B f lt [Hi Ht He]. constructor.
  - intros a. apply Hi.
  - intros a b c. apply Ht.
  - intros a b c. unfold eqv in *. apply He.
Qed.

Theorem less_swo : forall cs, swo (less cs).
Proof. intros cs. eapply swo_ext; [apply less_lex|apply lex_swo]. Qed.

(* ------------------------------------------------------------------------------------
   3. Generator layer: the chain of sorter `name` is the tagged fields in ascending priority. *)

Lemma ins_prio_insert : forall x l, ins_prio x l = insert prio_lt x l.
Proof. induction l as [|y r IH]; cbn; [reflexivity|]. rewrite IH. reflexivity. Qed.

Lemma sort_prio_isort : forall l, sort_prio l = isort prio_lt l.
Proof.
  induction l as [|x r IH]; [reflexivity|].
  unfold sort_prio, isort in *. cbn [fold_right]. rewrite IH. apply ins_prio_insert.
Qed.

Lemma prio_swo : swo prio_lt.
Proof.
  constructor; unfold prio_lt.
  - intros a. apply Z.ltb_irrefl.
  - intros a b c H1 H2. apply Z.ltb_lt in H1, H2. apply Z.ltb_lt. lia.
  - intros a b c H1 H2. apply eqv_true_iff in H1, H2. apply eqv_true_iff.
    destruct H1 as [A1 A2], H2 as [B1 B2]. apply Z.ltb_ge in A1, A2, B1, B2.
    split; apply Z.ltb_ge; lia.
Qed.

Lemma filter_eqv_app : forall {A} (lt : A -> A -> bool) x l1 l2,
  filter (eqv lt x) (l1 ++ l2) = filter (eqv lt x) l1 ++ filter (eqv lt x) l2.
Proof. intros. apply filter_app. Qed.

(* re-sorting after every append (createSorterDesc) = sorting once *)
Lemma sort_prio_snoc : forall l x, sort_prio (sort_prio l ++ [x]) = sort_prio (l ++ [x]).
Proof.
  intros l x. rewrite (sort_prio_isort (sort_prio l ++ [x])), (sort_prio_isort (l ++ [x])), (sort_prio_isort l).
  apply (any_stable_sort_eq prio_lt prio_swo).
  - apply isort_sorted, prio_swo.
  - intros y. rewrite (isort_stable prio_lt prio_swo (isort prio_lt l ++ [x]) y).
    rewrite !filter_app. f_equal. apply (isort_stable prio_lt prio_swo).
Qed.

Lemma sort_prio_idem : forall l, sort_prio (sort_prio l) = sort_prio l.
Proof.
  intros l. rewrite !sort_prio_isort. apply isort_idem_sorted; [apply prio_swo|].
  apply isort_sorted, prio_swo.
Qed.

Definition fields_for (name : string) (l : list sfd) : list sfd :=
  filter (fun f => String.eqb (sf_sorter f) name) l.
Definition mk_desc (ty name : string) (fl : list sfd) : sdesc :=
  {| sd_type := ty; sd_sorter := name; sd_fields := sort_prio fl |}.

Lemma find_upsert : forall ty fd name descs,
  find_sorter name (upsert ty fd descs) =
  if String.eqb (sf_sorter fd) name
  then Some match find_sorter name descs with
            | Some d => {| sd_type := sd_type d; sd_sorter := sd_sorter d;
                           sd_fields := sort_prio (sd_fields d ++ [fd]) |}
            | None => {| sd_type := ty; sd_sorter := sf_sorter fd; sd_fields := sort_prio [fd] |}
            end
  else find_sorter name descs.
Proof.
  intros ty fd name. unfold find_sorter.
  induction descs as [|d r IH]; cbn [upsert find].
  - cbn [sd_sorter]. destruct (String.eqb (sf_sorter fd) name); reflexivity.
  - destruct (String.eqb (sd_sorter d) (sf_sorter fd)) eqn:E1.
    + apply String.eqb_eq in E1. cbn [find sd_sorter].
      replace (String.eqb (sf_sorter fd) name) with (String.eqb (sd_sorter d) name)
        by (rewrite E1; reflexivity).
      destruct (String.eqb (sd_sorter d) name) eqn:E2; reflexivity.
    + cbn [find]. destruct (String.eqb (sd_sorter d) name) eqn:E3.
      * apply String.eqb_eq in E3. subst name. rewrite String.eqb_sym, E1. reflexivity.
      * exact IH.
Qed.

Lemma find_collect_gen : forall ty name L,
  find_sorter name (fold_left (fun descs fd => upsert ty fd descs) L []) =
  match fields_for name L with
  | [] => None
  | fl => Some (mk_desc ty name fl)
  end.
Proof.
  intros ty name. induction L as [|x L IH] using rev_ind; [reflexivity|].
  rewrite fold_left_app. cbn [fold_left]. rewrite find_upsert, IH.
  unfold fields_for in *. rewrite filter_app. cbn [filter].
  destruct (String.eqb (sf_sorter x) name) eqn:E.
  - apply String.eqb_eq in E. destruct (filter _ L) as [|f fl] eqn:F.
    + cbn [app]. rewrite E. reflexivity.
    + unfold mk_desc. cbn [sd_type sd_sorter sd_fields]. rewrite sort_prio_snoc.
      destruct ((f :: fl) ++ [x]) eqn:G; [destruct fl; discriminate|]. reflexivity.
  - rewrite app_nil_r. reflexivity.
Qed.

Lemma find_collect : forall ty fs name,
  find_sorter name (collect ty fs) =
  match fields_for name (all_sfds fs) with
  | [] => None
  | fl => Some (mk_desc ty name fl)
  end.
Proof. intros. apply find_collect_gen. Qed.

Definition pk_of (f : sfd) : Z * key := (sf_prio f, key_of_line (line_of f)).

Lemma ins_pk_map : forall x l, map pk_of (ins_prio x l) = ins_pk (pk_of x) (map pk_of l).
Proof.
  induction l as [|y r IH]; [reflexivity|].
  cbn [ins_prio map ins_pk]. unfold prio_lt. cbn [pk_of fst].
  destruct (sf_prio y <? sf_prio x); cbn [map]; [rewrite IH|]; reflexivity.
Qed.

Lemma sort_pk_map : forall l, map pk_of (sort_prio l) = fold_right ins_pk [] (map pk_of l).
Proof.
  induction l as [|x r IH]; [reflexivity|].
  unfold sort_prio in *. cbn [fold_right map]. rewrite ins_pk_map, IH. reflexivity.
Qed.

Lemma tagged_fields_for : forall name fs idx,
  tagged_from idx name fs = map pk_of (fields_for name (all_sfds_from idx fs)).
Proof.
  intros name. induction fs as [|f r IH]; intros idx; [reflexivity|].
  cbn [tagged_from all_sfds_from]. unfold fields_for in *. rewrite filter_app, map_app, IH.
  f_equal. unfold sfds_of_field. induction (fd_tags f) as [|t ts IHt]; [reflexivity|].
  cbn [filter map sf_sorter]. destruct (String.eqb (tg_sorter t) name); cbn [map]; rewrite IHt; reflexivity.
Qed.

(* what `tagged` lists: one (priority, view) pair per tag of the sorter *)
Lemma tagged_from_iff : forall name fs base p k,
  In (p, k) (tagged_from base name fs) <->
  exists i f t, nth_error fs i = Some f /\ In t (fd_tags f) /\ tg_sorter t = name
                /\ p = tg_prio t
                /\ k = (if fd_isbool f then KBool else KOrd) (slot (base + i) (tg_acc t)).
Proof.
  intros name. induction fs as [|f r IH]; intros base p k.
  - cbn [tagged_from]. split; [intros []|].
    intros (i & f & t & H & _). destruct i; discriminate.
  - cbn [tagged_from]. rewrite in_app_iff, in_map_iff. split.
    + intros [(t & E & Ht)|H].
      * apply filter_In in Ht. destruct Ht as [Ht En]. apply String.eqb_eq in En.
        exists 0%nat, f, t. rewrite Nat.add_0_r. injection E as <- <-.
        repeat split; try assumption. destruct (fd_isbool f); reflexivity.
      * apply IH in H. destruct H as (i & f' & t & H1 & H2 & H3 & H4 & H5).
        exists (S i), f', t. rewrite Nat.add_succ_r. repeat split; assumption.
    + intros (i & f' & t & H1 & H2 & H3 & H4 & H5). destruct i as [|i].
      * left. injection H1 as <-. rewrite Nat.add_0_r in H5. exists t. split.
        -- subst p k. destruct (fd_isbool f); reflexivity.
        -- apply filter_In. split; [assumption|]. apply String.eqb_eq. assumption.
      * right. apply IH. exists i, f', t. rewrite Nat.add_succ_r in H5.
        repeat split; assumption.
Qed.

Theorem tagged_iff : forall name fs p k,
  In (p, k) (tagged name fs) <->
  exists idx f t, nth_error fs idx = Some f /\ In t (fd_tags f) /\ tg_sorter t = name
                  /\ p = tg_prio t
                  /\ k = (if fd_isbool f then KBool else KOrd) (slot idx (tg_acc t)).
Proof. intros. unfold tagged. exact (tagged_from_iff name fs 0%nat p k). Qed.

(* the generated chain reads exactly the keys the specification names *)
Theorem chain_keys : forall ty fs name d,
  find_sorter name (collect ty fs) = Some d ->
  keys_of (priority_tree d) = spec_keys name fs.
Proof.
  intros ty fs name d H. rewrite find_collect in H.
  unfold spec_keys, tagged. rewrite tagged_fields_for. fold (all_sfds fs).
  destruct (fields_for name (all_sfds fs)) as [|f fl] eqn:F; [discriminate|].
  injection H as <-. unfold priority_tree, mk_desc. cbn [sd_fields].
  rewrite sort_prio_idem, <- sort_pk_map. unfold keys_of. rewrite !map_map. reflexivity.
Qed.

Theorem gen_less_spec : forall ty fs name f,
  gen_less ty fs name = Some f -> forall a b, f a b = spec_less name fs a b.
Proof.
  intros ty fs name f H a b. unfold gen_less, create in H.
  destruct (forallb _ _); [|discriminate]. destruct (forms_ok _); [|discriminate].
  destruct (find_sorter name (collect ty fs)) as [d|] eqn:F; [|discriminate].
  injection H as <-. rewrite less_lex. unfold spec_less. erewrite chain_keys; eauto.
Qed.

(* spec_keys really is "the tagged fields in ascending priority" *)
Lemma ins_pk_perm : forall x l, Permutation (ins_pk x l) (x :: l).
Proof.
  induction l as [|y r IH]; cbn [ins_pk]; [reflexivity|].
  destruct (fst y <? fst x); [|reflexivity].
  rewrite IH. apply perm_swap.
Qed.

Lemma sort_pk_perm : forall l, Permutation (fold_right ins_pk [] l) l.
Proof.
  induction l as [|x r IH]; cbn [fold_right]; [reflexivity|].
  rewrite ins_pk_perm. constructor. exact IH.
Qed.

Definition pk_le (a b : Z * key) : Prop := fst a <= fst b.

Lemma ins_pk_sorted : forall x l,
  StronglySorted pk_le l -> StronglySorted pk_le (ins_pk x l).
Proof.
  induction l as [|y r IH]; intros S; cbn [ins_pk].
  - repeat constructor.
  - inversion S as [|? ? Sr Fy]; subst. destruct (fst y <? fst x) eqn:E.
    + constructor; [apply IH; exact Sr|].
      apply Z.ltb_lt in E. rewrite Forall_forall in *. intros z Hz.
      apply (Permutation_in _ (ins_pk_perm x r)) in Hz. destruct Hz as [<-|Hz].
      * unfold pk_le; lia.
      * apply Fy, Hz.
    + apply Z.ltb_ge in E. constructor; [exact S|].
      constructor; [exact E|]. rewrite Forall_forall in *. intros z Hz.
      specialize (Fy z Hz). unfold pk_le in *. lia.
Qed.

Lemma sort_pk_sorted : forall l, StronglySorted pk_le (fold_right ins_pk [] l).
Proof.
  induction l as [|x r IH]; cbn [fold_right]; [constructor|]. apply ins_pk_sorted, IH.
Qed.

(* ------------------------------------------------------------------------------------
   4. Validate: generation succeeds exactly on definitions with distinct priorities.     *)

Lemma distinct_prios_iff : forall l seen,
  distinct_prios seen l = true <->
  NoDup (map sf_prio l) /\ (forall z, In z (map sf_prio l) -> ~ In z seen).
Proof.
  induction l as [|f r IH]; intros seen; cbn [distinct_prios map].
  - split; [intros _; split; [constructor|intros z []]|reflexivity].
  - destruct (existsb (Z.eqb (sf_prio f)) seen) eqn:E.
    + split; [discriminate|]. intros [_ H]. exfalso.
      apply existsb_exists in E. destruct E as [z [Hz Ez]]. apply Z.eqb_eq in Ez. subst z.
      apply (H (sf_prio f)); [left; reflexivity|exact Hz].
    + rewrite IH. split.
      * intros [ND H]. split.
        -- constructor; [|exact ND]. intros Hin. apply (H _ Hin). left; reflexivity.
        -- intros z [<-|Hz] Hs.
           ++ assert (existsb (Z.eqb (sf_prio f)) seen = true); [|congruence].
              apply existsb_exists. exists (sf_prio f). split; [exact Hs|apply Z.eqb_refl].
           ++ apply (H z Hz). right; exact Hs.
      * intros [ND H]. inversion ND as [|? ? Hnin ND']; subst. split; [exact ND'|].
        intros z Hz [<-|Hs]; [apply Hnin, Hz|]. apply (H z); [right; exact Hz|exact Hs].
Qed.

Lemma validate_iff : forall l,
  validate l = true <-> l <> [] /\ NoDup (map sf_prio l).
Proof.
  intros l. unfold validate. destruct l as [|f r].
  - split; [discriminate|intros [H _]; congruence].
  - rewrite distinct_prios_iff. split.
    + intros [H _]. split; [discriminate|exact H].
    + intros [_ H]. split; [exact H|intros z _ []].
Qed.

Lemma zs_distinct_iff : forall l, zs_distinct l = true <-> NoDup l.
Proof.
  induction l as [|z r IH]; cbn [zs_distinct].
  - split; [constructor|reflexivity].
  - rewrite andb_true_iff, negb_true_iff, IH. split.
    + intros [E ND]. constructor; [|exact ND]. intros Hin.
      assert (existsb (Z.eqb z) r = true); [|congruence].
      apply existsb_exists. exists z. split; [exact Hin|apply Z.eqb_refl].
    + intros ND. inversion ND as [|? ? Hnin ND']; subst. split; [|exact ND'].
      destruct (existsb (Z.eqb z) r) eqn:E; [|reflexivity]. exfalso.
      apply existsb_exists in E. destruct E as [y [Hy Ey]]. apply Z.eqb_eq in Ey. subst y. auto.
Qed.

Lemma sort_prio_perm : forall l, Permutation (sort_prio l) l.
Proof. intros l. rewrite sort_prio_isort. apply isort_perm. Qed.

Lemma prios_distinct_iff : forall name fs,
  prios_distinct name fs = true <-> NoDup (map sf_prio (fields_for name (all_sfds fs))).
Proof.
  intros. unfold prios_distinct, tagged. rewrite zs_distinct_iff, tagged_fields_for.
  fold (all_sfds fs). rewrite map_map. cbn [pk_of fst]. reflexivity.
Qed.

(* every desc the generator builds is the one find_sorter returns for its name *)
Lemma upsert_names : forall ty fd descs,
  map sd_sorter (upsert ty fd descs) =
  if existsb (fun d => String.eqb (sd_sorter d) (sf_sorter fd)) descs
  then map sd_sorter descs else map sd_sorter descs ++ [sf_sorter fd].
Proof.
  intros ty fd. induction descs as [|d r IH]; [reflexivity|].
  cbn [upsert existsb]. destruct (String.eqb (sd_sorter d) (sf_sorter fd)); [reflexivity|].
  cbn [map orb]. rewrite IH. destruct (existsb _ r); reflexivity.
Qed.

Lemma collect_names_nodup : forall ty L,
  NoDup (map sd_sorter (fold_left (fun descs fd => upsert ty fd descs) L [])).
Proof.
  intros ty. induction L as [|x L IH] using rev_ind; [constructor|].
  rewrite fold_left_app. cbn [fold_left]. rewrite upsert_names.
  set (ds := fold_left _ L []) in *.
  destruct (existsb _ ds) eqn:E; [exact IH|].
  rewrite <- rev_involutive with (l := map sd_sorter ds ++ [sf_sorter x]).
  apply NoDup_rev. rewrite rev_app_distr. cbn [rev app]. constructor.
  - intros Hin. apply in_rev in Hin. apply in_map_iff in Hin. destruct Hin as [d [Ed Hd]].
    assert (existsb (fun d => String.eqb (sd_sorter d) (sf_sorter x)) ds = true); [|congruence].
    apply existsb_exists. exists d. split; [exact Hd|]. apply String.eqb_eq. exact Ed.
  - apply NoDup_rev. exact IH.
Qed.

Lemma find_nodup_in : forall ds d,
  NoDup (map sd_sorter ds) -> In d ds -> find_sorter (sd_sorter d) ds = Some d.
Proof.
  unfold find_sorter. induction ds as [|e r IH]; intros d ND Hin; [destruct Hin|].
  cbn [find]. inversion ND as [|? ? Hnin ND']; subst. destruct Hin as [->|Hin].
  - rewrite String.eqb_refl. reflexivity.
  - destruct (String.eqb (sd_sorter e) (sd_sorter d)) eqn:E; [|apply IH; assumption].
    apply String.eqb_eq in E. exfalso. apply Hnin. rewrite E. apply in_map, Hin.
Qed.

Theorem create_orig2_some_iff : forall ty fs,
  create_orig2 ty fs <> None <-> (forall name, prios_distinct name fs = true).
Proof.
  intros ty fs. unfold create_orig2.
  assert (ND := collect_names_nodup ty (all_sfds fs)). fold (collect ty fs) in ND.
  split.
  - intros H name. destruct (forallb _ (collect ty fs)) eqn:F; [|congruence].
    rewrite forallb_forall in F. apply prios_distinct_iff.
    destruct (find_sorter name (collect ty fs)) as [d|] eqn:Fd.
    + assert (Hin : In d (collect ty fs)) by (eapply find_some; exact Fd).
      specialize (F d Hin). apply validate_iff in F. destruct F as [_ F].
      rewrite find_collect in Fd.
      destruct (fields_for name (all_sfds fs)) as [|f fl] eqn:G; [discriminate|].
      injection Fd as <-. cbn [mk_desc sd_fields] in F.
      eapply Permutation_NoDup; [|exact F]. apply Permutation_map, sort_prio_perm.
    + rewrite find_collect in Fd.
      destruct (fields_for name (all_sfds fs)); [constructor|discriminate].
  - intros H. assert (F : forallb (fun d => validate (sd_fields d)) (collect ty fs) = true).
    { apply forallb_forall. intros d Hin. apply validate_iff.
      pose proof (find_nodup_in _ _ ND Hin) as Fd. rewrite find_collect in Fd.
      destruct (fields_for (sd_sorter d) (all_sfds fs)) as [|f fl] eqn:G; [discriminate|].
      injection Fd as Ed. rewrite <- Ed at 1 2. cbn [mk_desc sd_fields]. split.
      - intros E. apply (f_equal (@List.length sfd)) in E.
        rewrite (Permutation_length (sort_prio_perm (f :: fl))) in E. discriminate.
      - specialize (H (sd_sorter d)). apply prios_distinct_iff in H. rewrite G in H.
        eapply Permutation_NoDup; [|exact H]. apply Permutation_map, Permutation_sym, sort_prio_perm. }
    rewrite F. discriminate.
Qed.

Lemma create_unfold : forall ty fs,
  create ty fs = match create_orig2 ty fs with
                 | Some ds => if forms_ok ds then Some ds else None
                 | None => None
                 end.
Proof.
  intros. unfold create, create_orig2. destruct (forallb _ (collect ty fs)); reflexivity.
Qed.

Theorem create_some_iff : forall ty fs,
  create ty fs <> None <->
  ((forall name, prios_distinct name fs = true) /\ forms_ok (collect ty fs) = true).
Proof.
  intros ty fs. rewrite create_unfold. split.
  - intros H. destruct (create_orig2 ty fs) as [ds|] eqn:C; [|congruence].
    assert (Hc : create_orig2 ty fs <> None) by congruence.
    split; [exact (proj1 (create_orig2_some_iff ty fs) Hc)|].
    unfold create_orig2 in C. destruct (forallb _ (collect ty fs)); [|discriminate].
    injection C as <-. destruct (forms_ok (collect ty fs)); [reflexivity|congruence].
  - intros [HD HF]. pose proof (proj2 (create_orig2_some_iff ty fs) HD) as Hc.
    unfold create_orig2 in *. destruct (forallb _ (collect ty fs)); [|congruence].
    rewrite HF. discriminate.
Qed.

(* a sorter exists for exactly the names some tag mentions *)
Lemma fields_for_nonempty : forall name l,
  fields_for name l <> [] <-> In name (map sf_sorter l).
Proof.
  intros name. induction l as [|f r IH]; cbn [fields_for filter map In].
  - split; [congruence|intros []].
  - destruct (String.eqb (sf_sorter f) name) eqn:E.
    + apply String.eqb_eq in E. split; [intros _; left; exact E|discriminate].
    + fold (fields_for name r). rewrite IH. split; [intros H; right; exact H|].
      intros [H|H]; [|exact H]. apply String.eqb_neq in E. contradiction.
Qed.

Theorem gen_less_defined : forall ty fs name,
  (forall n, prios_distinct n fs = true) -> forms_ok (collect ty fs) = true ->
  In name (sorter_names fs) ->
  exists f, gen_less ty fs name = Some f.
Proof.
  intros ty fs name HD HF Hin. unfold gen_less.
  destruct (create ty fs) as [ds|] eqn:C.
  - unfold create in C. destruct (forallb _ _); [|discriminate]. rewrite HF in C.
    injection C as <-. rewrite find_collect. apply fields_for_nonempty in Hin.
    destruct (fields_for name (all_sfds fs)); [congruence|]. eexists; reflexivity.
  - exfalso. apply (proj2 (create_some_iff ty fs) (conj HD HF)). exact C.
Qed.

(* ------------------------------------------------------------------------------------
   5. The pinned rendering is not irreflexive when a bool is the last key.              *)

Definition witness_fields : list fieldT :=
  [ {| fd_name := "Flag"; fd_isbool := true;
       fd_tags := [ {| tg_sorter := "ByFlag"; tg_prio := 1; tg_acc := "" |} ] |} ].

Lemma orig_witness :
  exists f, gen_less_orig "OnlyFlag" witness_fields "ByFlag" = Some f /\ f [VB true] [VB true] = true.
Proof. eexists. split; [vm_compute; reflexivity|reflexivity]. Qed.
