(* WGInv2.v — the C02 trace monitor never fails on the pair-CAS machine:
   c02_ok (tr (wg_exec progs sched)) = true for all programs and schedules.
   Built on the invariant of WGInv.v plus one more fact about the monitor's own bookkeeping:
   every (thread, counter) entry of q_waits belongs to a thread that is at the single load of
   Wait, and its counter is 0 (the next step of that thread is the return).                 *)
From Coq Require Import List Arith ZArith Bool Lia.
From GT Require Import Base.Conc.
From GT Require Import Base.ConcFacts.
From GT Require Import WGModel WGSpec WGInv WGProofs.
Import ListNotations.
Local Open Scope Z_scope.

Definition ev_is_wait_call (e : ev) : Prop := match e with ECall CWait => True | _ => False end.
Definition ev_is_wait_ret (e : ev) : Prop := match e with ERet CWait _ => True | _ => False end.

(* everything later proofs need to know about one step, established once by case analysis *)
Lemma step_facts : forall cf tid, Inv cf ->
  exists e st,
    tr (wg_step cf tid) = Item tid e (wg_observe (sh (wg_step cf tid))) st :: tr cf /\
    (forall j, j <> tid -> nth_error (thr (wg_step cf tid)) j = nth_error (thr cf) j) /\
    ev_no_panic e /\
    (ev_is_wait_call e -> exists todo, nth_error (thr (wg_step cf tid)) tid = Some (Run CWait W0 todo)) /\
    ((exists todo, nth_error (thr cf) tid = Some (Run CWait W0 todo)) -> ev_is_wait_ret e) /\
    (forall x, e = ERet CWait (RChan x) -> x = chn (sh (wg_step cf tid))).
Proof.
  intros cf tid HI. unfold wg_step, step.
  destruct (nth_error (thr cf) tid) as [t|] eqn:Hnth.
  2:{ cbn. do 2 eexists. split; [reflexivity|]. repeat split; auto.
      - intros [].
      - intros (todo & H). discriminate H.
      - intros x H. discriminate H. }
  pose proof (i_wf _ HI _ _ Hnth) as Hwf.
  assert (Hother : forall t' j, j <> tid ->
            nth_error (upd (thr cf) tid t') j = nth_error (thr cf) j).
  { intros t' j Hj. apply nth_error_upd_other. auto. }
  destruct t as [[|c todo]|c l todo].
  - cbn. do 2 eexists. split; [reflexivity|]. repeat split; auto.
    + intros [].
    + intros (td & H). discriminate H.
    + intros x H. discriminate H.
  - cbn. do 2 eexists. split; [reflexivity|]. repeat split; auto.
    + intros Hc. destruct c; try destruct Hc. exists todo. eapply nth_error_upd_same; eauto.
    + intros (td & H). discriminate H.
    + intros x H. discriminate H.
  - destruct c as [d| |]; destruct l as [|ov oc och|x n| |]; try destruct Hwf; cbn [tstep wg_mstep].
    + cbn. do 2 eexists. split; [reflexivity|]. repeat split; auto.
      * intros [].
      * intros (td & H). discriminate H.
      * intros x H. discriminate H.
    + destruct (Nat.eqb (ver (sh cf)) ov);
        [destruct (Z.eqb (oc + d) 0); destruct (Nat.eqb och 0)|];
        cbn; do 2 eexists; (split; [reflexivity|]); repeat split; auto;
        try (intros []; fail); try (intros (td & H); discriminate H);
        try (intros y H; discriminate H).
    + pose proof (i_pend _ HI _ _ Hnth) as P. cbn in P. destruct P as (_ & _ & Pc & _).
      destruct (memb x (closed (sh cf))) eqn:M.
      * apply memb_In in M. contradiction.
      * cbn. do 2 eexists. split; [reflexivity|]. repeat split; auto.
        -- intros [].
        -- intros (td & H). discriminate H.
        -- intros y H. discriminate H.
    + cbn. do 2 eexists. split; [reflexivity|]. repeat split; auto.
      * intros [].
      * intros y H. inversion H. reflexivity.
    + cbn. do 2 eexists. split; [reflexivity|]. repeat split; auto.
      * intros [].
      * intros (td & H). discriminate H.
      * intros y H. discriminate H.
Qed.

(* ---------------------------------------------------------------- the monitor, unfolded *)
Definition waits_next (tid : nat) (e : ev) (rest_before : bool) (ws : list (nat * nat))
  : list (nat * nat) :=
  let waits0 := map (wait_tick tid rest_before) ws in
  match e with
  | ECall CWait => (tid, O) :: waits0
  | ERet CWait _ => filter (fun p => negb (Nat.eqb (fst p) tid)) waits0
  | _ => waits0
  end.

Lemma q_waits_cons : forall (it : witem) t,
  q_waits (mon2_of (it :: t))
  = waits_next (it_tid it) (it_ev it) (is_nil (adds_in_flight t)) (q_waits (mon2_of t)).
Proof. intros. reflexivity. Qed.

Lemma q_ok_cons : forall (it : witem) t,
  q_ok (mon2_of (it :: t)) =
  (q_ok (mon2_of t)
   && match it_ev it with ERet _ RPanic => false | _ => true end
   && implb (is_nil (adds_in_flight (it :: t))) (Z.eqb (fst (it_obs it)) (sum_deltas (it :: t)))
   && implb (is_nil (adds_in_flight (it :: t)) && Z.eqb (sum_deltas (it :: t)) 0)
            (forallb (fun x => memb x (snd (it_obs it))) (handed_out (it :: t)))
   && match it_ev it with
      | ERet CWait (RChan x) =>
          implb (is_nil (adds_in_flight (it :: t)) && (0 <? sum_deltas (it :: t)))
                (negb (memb x (snd (it_obs it))))
      | _ => true
      end
   && forallb (fun p => Nat.ltb (snd p) K_WAIT) (q_waits (mon2_of (it :: t))))%bool.
Proof. intros. reflexivity. Qed.

Lemma q_ok_step : forall (t' : trace) (it : witem) t, t' = it :: t ->
  q_ok (mon2_of t') =
  (q_ok (mon2_of t)
   && match it_ev it with ERet _ RPanic => false | _ => true end
   && implb (is_nil (adds_in_flight t')) (Z.eqb (fst (it_obs it)) (sum_deltas t'))
   && implb (is_nil (adds_in_flight t') && Z.eqb (sum_deltas t') 0)
            (forallb (fun x => memb x (snd (it_obs it))) (handed_out t'))
   && match it_ev it with
      | ERet CWait (RChan x) =>
          implb (is_nil (adds_in_flight t') && (0 <? sum_deltas t'))
                (negb (memb x (snd (it_obs it))))
      | _ => true
      end
   && forallb (fun p => Nat.ltb (snd p) K_WAIT) (q_waits (mon2_of t')))%bool.
Proof. intros t' it t ->. apply q_ok_cons. Qed.

Lemma q_waits_step : forall (t' : trace) (it : witem) t, t' = it :: t ->
  q_waits (mon2_of t')
  = waits_next (it_tid it) (it_ev it) (is_nil (adds_in_flight t)) (q_waits (mon2_of t)).
Proof. intros t' it t ->. apply q_waits_cons. Qed.

(* ---------------------------------------------------------------- the extra invariant *)
Record Inv2 (cf : wg_config) : Prop := {
  j_ok : q_ok (mon2_of (tr cf)) = true;
  j_waits : forall p, In p (q_waits (mon2_of (tr cf))) ->
              snd p = O /\ exists todo, nth_error (thr cf) (fst p) = Some (Run CWait W0 todo)
}.

Lemma Inv2_init : forall progs, Inv2 (init wg_init progs).
Proof. intro progs. constructor; cbn; [reflexivity|]. intros p []. Qed.

Lemma is_nil_true : forall A (l : list A), is_nil l = true -> l = [].
Proof. intros A [|a l] H; [reflexivity|discriminate H]. Qed.

Lemma Inv2_step : forall cf tid, Inv cf -> Inv2 cf -> Inv2 (wg_step cf tid).
Proof.
  intros cf tid HI HJ. pose proof (Inv_step cf tid HI) as HI'.
  destruct (step_facts cf tid HI) as (e & st & Htr & Hother & Hnp & Hcall & Hret & Hchan).
  set (cf' := wg_step cf tid) in *.
  (* the wait entries after the step *)
  assert (Hw' : forall p, In p (q_waits (mon2_of (tr cf'))) ->
            snd p = O /\ exists todo, nth_error (thr cf') (fst p) = Some (Run CWait W0 todo)).
  { intros p Hp. rewrite (q_waits_step _ _ _ Htr) in Hp. cbn [it_tid it_ev] in Hp.
    unfold waits_next in Hp.
    set (f := wait_tick tid (is_nil (adds_in_flight (tr cf)))) in *.
    assert (Hmapped : forall q, In q (map f (q_waits (mon2_of (tr cf)))) ->
              (fst q <> tid -> snd q = O /\
                 exists todo, nth_error (thr cf') (fst q) = Some (Run CWait W0 todo)) /\
              (fst q = tid -> ev_is_wait_ret e)).
    { intros q Hq. apply in_map_iff in Hq. destruct Hq as (q0 & <- & Hq0).
      destruct (j_waits _ HJ _ Hq0) as (Hz & td & Hth).
      assert (Ef : fst (f q0) = fst q0).
      { unfold f, wait_tick. destruct (is_nil (adds_in_flight (tr cf))); [|reflexivity].
        destruct (Nat.eqb (fst q0) tid); reflexivity. }
      rewrite Ef. destruct (Nat.eq_dec (fst q0) tid) as [E|N].
      - split; [intro C; contradiction|].
        intros _. apply Hret. exists td. rewrite <- E. exact Hth.
      - split; [|intro C; contradiction]. intros _. split.
        + unfold f, wait_tick. destruct (is_nil (adds_in_flight (tr cf))); [|reflexivity].
          destruct (Nat.eqb_spec (fst q0) tid); [contradiction|exact Hz].
        + exists td. rewrite Hother; auto. }
    destruct e as [c|c r| |].
    - destruct c.
      + destruct (Hmapped _ Hp) as [H1 H2];
          destruct (Nat.eq_dec (fst p) tid) as [E|N]; [exfalso; exact (H2 E)|exact (H1 N)].
      + destruct Hp as [<-|Hp].
        * cbn. split; [reflexivity|apply Hcall; exact I].
        * destruct (Hmapped _ Hp) as [H1 H2];
          destruct (Nat.eq_dec (fst p) tid) as [E|N]; [exfalso; exact (H2 E)|exact (H1 N)].
      + destruct (Hmapped _ Hp) as [H1 H2];
          destruct (Nat.eq_dec (fst p) tid) as [E|N]; [exfalso; exact (H2 E)|exact (H1 N)].
    - destruct c.
      + destruct (Hmapped _ Hp) as [H1 H2];
          destruct (Nat.eq_dec (fst p) tid) as [E|N]; [exfalso; exact (H2 E)|exact (H1 N)].
      + apply filter_In in Hp. destruct Hp as [Hp Hf].
        destruct (Hmapped _ Hp) as [H1 H2]. apply H1.
        destruct (Nat.eqb_spec (fst p) tid); [discriminate Hf|auto].
      + destruct (Hmapped _ Hp) as [H1 H2];
          destruct (Nat.eq_dec (fst p) tid) as [E|N]; [exfalso; exact (H2 E)|exact (H1 N)].
    - destruct (Hmapped _ Hp) as [H1 H2];
          destruct (Nat.eq_dec (fst p) tid) as [E|N]; [exfalso; exact (H2 E)|exact (H1 N)].
    - destruct (Hmapped _ Hp) as [H1 H2];
          destruct (Nat.eq_dec (fst p) tid) as [E|N]; [exfalso; exact (H2 E)|exact (H1 N)]. }
  constructor; [|exact Hw'].
  rewrite (q_ok_step _ _ _ Htr). cbn [it_ev it_obs it_tid]. rewrite (j_ok _ HJ). cbn [andb].
  (* no panic *)
  replace (match e with ERet _ RPanic => false | _ => true end) with true
    by (destruct e as [c|c r| |]; auto; destruct r; auto; destruct Hnp).
  cbn [andb].
  (* q1 *)
  assert (Q1 : implb (is_nil (adds_in_flight (tr cf')))
                     (fst (wg_observe (sh cf')) =? sum_deltas (tr cf')) = true).
  { destruct (is_nil (adds_in_flight (tr cf'))) eqn:R; auto. apply is_nil_true in R. cbn.
    apply Z.eqb_eq. apply rest_count; auto. }
  rewrite Q1. cbn [andb].
  (* q2 *)
  assert (Q2 : implb (is_nil (adds_in_flight (tr cf')) && (sum_deltas (tr cf') =? 0))
                     (forallb (fun x => memb x (snd (wg_observe (sh cf')))) (handed_out (tr cf')))
               = true).
  { destruct (is_nil (adds_in_flight (tr cf'))) eqn:R; auto. apply is_nil_true in R.
    destruct (Z.eqb_spec (sum_deltas (tr cf')) 0) as [Z0|Z0]; auto. cbn.
    apply forallb_forall. intros x Hx. apply memb_In. cbn. apply rest_zero_closed; auto. }
  rewrite Q2. cbn [andb].
  (* q3 *)
  assert (Q3 : match e with
               | ERet CWait (RChan x) =>
                   implb (is_nil (adds_in_flight (tr cf')) && (0 <? sum_deltas (tr cf')))
                         (negb (memb x (snd (wg_observe (sh cf')))))
               | _ => true
               end = true).
  { destruct e as [c|c r| |]; auto. destruct c; auto. destruct r as [n|x|]; auto.
    destruct (is_nil (adds_in_flight (tr cf'))) eqn:R; auto. apply is_nil_true in R.
    destruct (Z.ltb_spec 0 (sum_deltas (tr cf'))) as [Z0|Z0]; auto. cbn [andb implb].
    rewrite (Hchan x eq_refl). fold cf'. cbn [wg_observe snd].
    destruct (memb (chn (sh cf')) (closed (sh cf'))) eqn:M; [|reflexivity].
    apply memb_In in M. exfalso.
    apply (proj2 (sentinel_iff_zero _ HI')); auto. rewrite (rest_count _ HI' R). lia. }
  rewrite Q3. cbn [andb].
  (* q4 *)
  apply forallb_forall. intros p Hp. destruct (Hw' p Hp) as [-> _]. reflexivity.
Qed.

Theorem c02_all : forall progs sched, c02_ok (tr (wg_exec progs sched)) = true.
Proof.
  intros progs sched. unfold c02_ok.
  cut (Inv (wg_exec progs sched) /\ Inv2 (wg_exec progs sched)); [intros [_ H]; apply (j_ok _ H)|].
  unfold wg_exec.
  apply (exec_invariant _ _ _ _ _ wg_begin wg_mstep wg_fatal wg_observe wg_site
           (fun cf => Inv cf /\ Inv2 cf)).
  - split; [apply Inv_init|apply Inv2_init].
  - intros cf t [HI HJ]. split; [apply Inv_step; auto|apply Inv2_step; auto].
Qed.
