(* TmplJudge.v — judgement of observed loads of templated documents (C16).  No proofs.
   The case type is GConfJudge.c03_case; cc_env is the process environment restricted to the
   names the document can refer to (it serves both the dimension selection and the templates).
   codes as in GConfJudge: 0 ok | 1 violates the specification | 2 differs from the model only
   | 3 out-of-domain difference (informational) | 4 generator expectation <> specification  *)
From Coq Require Import List String Ascii Bool Arith.
From GT Require Import Base.Verdict GConfModel GConfJudge TmplModel.
Import ListNotations.
Local Open Scope string_scope.

Definition c16_oracle_ok (c : c03_case) : bool :=
  match cc_oracle c, build_dims (cc_env c) (cc_dims c) with
  | Some o, Ok dims => res_kv_eqb o (load_full_spec dims (cc_env c) (cc_doc c))
  | _, _ => true
  end.

Definition c16_judge (c : c03_case) : nat :=
  if in_domain c then
    if negb (c16_oracle_ok c) then 4
    else verdict (agrees (fun dims t => load_full_spec dims (cc_env c) t) get_spec c)
                 (agrees (fun dims t => load_full dims (cc_env c) t) get_model c)
  else if agrees (fun dims t => load_full dims (cc_env c) t) get_model c then 0 else 3.

(* coverage: the document holds a string the matcher accepts, or one starting like a template *)
Definition starts_like_template (s : string) : bool :=
  match s with
  | String a (String b _) => Ascii.eqb a "$"%char && Ascii.eqb b "{"%char
  | _ => false
  end.
Definition c16_nontrivial (c : c03_case) : bool :=
  existsb (fun s => match match_env s with Some _ => true | None => starts_like_template s end)
          (strings_of (cc_doc c)).
