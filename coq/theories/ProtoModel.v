(* ProtoModel.v — executable model of gogenproto's argument assembly (no proofs).

   Go source (gogenproto/gen/generate.go, cmd/gogenproto/main.go)  →  model
   -----------------------------------------------------------------------------------------
   directory tree on disk as os.ReadDir / Lstat report it         →  [node] (children in ReadDir
                                                                      order; File carries "declares
                                                                      option go_package" and
                                                                      "d.Type().IsRegular()")
   path strings                                                    →  [pspec] = relative / absolute
                                                                      list of segments
   filepath.Join(dir, name) inside WalkDir                         →  [pjoin]
   filepath.Abs (Clean + Join with the working directory)          →  [to_abs] ([norm] = Clean)
   filepath.Rel(includePath, path)                                 →  [rel]   (prefix stripping)
   filepath.Dir                                                    →  [dir_of]
   filepath.Join(pkgPrefix, filepath.Dir(relPath))                 →  [render_rel (pre ++ dir_of r)]
   filepath.Ext(d.Name()) == ".proto"                              →  [is_proto_name]
   the WalkDir callback of findProtos (lines 126-138)              →  [callback]
   filepath.WalkDir (root first, entries in ReadDir order,
     SkipDir on a directory prunes it, SkipDir on a file skips
     the remaining siblings)                                       →  [walk_node] / [walk_children]
   Generate.findProtos                                             →  [find_protos]
   protoFileHasGoPackage                                           →  [file_has_go_package]
   gencommon.PackageNameFromPath (packages.Load)                   →  Section variable [pkg_of]
   Generate.Run (lines 34-121)                                     →  [run]: [plugin_flags], then per
                                                                      include [include_args] (-I, then
                                                                      the M mappings of every proto
                                                                      below it, once per requested
                                                                      plugin), the files last
   exec.Command(path, args...).Run()                               →  [invocations] (one argv, or none
                                                                      when Run returned an error first)

   The input directory and the include directories are modelled after strings.Cut(…, "="):
   an include is (directory, optional package prefix); the input directory has no prefix (a
   directory name containing '=' is outside the model).  Spellings are the Clean()ed ones.

   Second part of the file: the specification objects of property C20 ([spec_files],
   [spec_includes], [scan_mappings], [spec_requested]) — defined on the tree alone, without
   the walk — so that observations of the real program can be judged by the very definitions
   the theorems of Props/C20.v are about.                                                     *)
From Coq Require Import String List Bool Arith Ascii.
From GT Require Export ProtoPrims.
Import ListNotations.
Local Open Scope string_scope.
Local Open Scope list_scope.

(* ------------------------------------------------------------------ file system *)
(* [node], [node_name], [is_dir], [is_regular], [find_child], [lookup]: ProtoPrims.v (shared with
   the string-level model).  A file carries its content; what protoFileHasGoPackage decides of
   it is the line scan [scan_go_package] of ProtoLex.v, what the property asks is
   [declares_go_package]. *)
Definition has_go_package (n : node) : bool :=
  match n with File _ c _ => scan_go_package c | Dir _ _ => false end.
Definition node_declares (n : node) : bool :=
  match n with File _ c _ => declares_go_package c | Dir _ _ => false end.

Inductive pspec : Type := PRel (segs : path) | PAbs (segs : path).

(* filepath.Ext(d.Name()) == ".proto"  (literally; = "the name ends in .proto",
   ProtoTieLib.has_suffix_proto_ext) *)
Definition is_proto_name (s : string) : bool := String.eqb (fp_ext s) ".proto".

Fixpoint path_eqb (a b : path) : bool :=
  match a, b with
  | [], [] => true
  | x :: a', y :: b' => String.eqb x y && path_eqb a' b'
  | _, _ => false
  end.

Definition pspec_eqb (p q : pspec) : bool :=
  match p, q with
  | PRel a, PRel b => path_eqb a b
  | PAbs a, PAbs b => path_eqb a b
  | _, _ => false
  end.

(* filepath.Clean on a rooted segment list: [norm] of ProtoPath.v (drop "" and ".", ".." pops) *)

(* filepath.Abs with working directory cwd *)
Definition to_abs (cwd : path) (p : pspec) : path :=
  match p with
  | PAbs s => norm s
  | PRel s => norm (cwd ++ s)
  end.

(* filepath.Join(dir, name) as WalkDir does for every directory entry *)
Definition pjoin (p : pspec) (name : string) : pspec :=
  match p with
  | PRel s => PRel (s ++ [name])
  | PAbs s => PAbs (s ++ [name])
  end.
Definition pjoins (p : pspec) (r : path) : pspec :=
  match p with
  | PRel s => PRel (s ++ r)
  | PAbs s => PAbs (s ++ r)
  end.

(* filepath.Rel(base, p) for p below base *)
Fixpoint rel (base p : path) : option path :=
  match base, p with
  | [], _ => Some p
  | b :: base', x :: p' => if String.eqb b x then rel base' p' else None
  | _ :: _, [] => None
  end.

Definition dir_of (p : path) : path := removelast p.

(* filepath.Join(pkgPrefix, filepath.Dir(relPath)): the prefix is taken as typed (it need not be
   Clean: "example.com/x/", "a//b", "./p", "" are all joined and cleaned by Join) *)
Definition join_pkg (pre : string) (reldir : path) : string := fp_join pre (render_rel reldir).

Definition render_pspec (p : pspec) : string :=
  match p with PRel s => render_rel s | PAbs s => render_abs s end.

(* a file system: sibling names distinct, none of them "", "." or "..", hereditarily
   (executable form of the well-formedness hypothesis of the theorems) *)
Definition name_okb (s : string) : bool :=
  negb (String.eqb s "") && negb (String.eqb s ".") && negb (String.eqb s "..").
Fixpoint nodupb (l : list string) : bool :=
  match l with
  | [] => true
  | x :: r => negb (existsb (String.eqb x) r) && nodupb r
  end.
Fixpoint wf_nodeb (n : node) : bool :=
  match n with
  | File _ _ _ => true
  | Dir _ ch =>
      nodupb (map node_name ch) && forallb (fun c => name_okb (node_name c)) ch
      && forallb wf_nodeb ch
  end.

(* ------------------------------------------------------------------ configuration *)
Record config : Type := {
  c_root : node;                               (* the node of "/" *)
  c_cwd : path;                                (* working directory of the process *)
  c_input : pspec;                             (* -input-dir *)
  c_recurse : bool;
  c_vt : bool;
  c_grpc : bool;
  c_includes : list (pspec * option string)    (* -include dir[=prefix], prefix as typed *)
}.

Inductive plugin : Type := PGo | PVt | PGrpc.

Inductive arg : Type :=
| AFlag (s : string)
| AInc (p : path)                                   (* -I=<abs> *)
| AMap (pl : plugin) (relp : path) (pkg : string)   (* --<pl>_opt=M<rel>=<pkg> *)
| AFile (p : pspec).

Definition out_prefix (pl : plugin) : string :=
  match pl with
  | PGo => "--go_out="
  | PVt => "--go-vtproto_out="
  | PGrpc => "--go-grpc_out="
  end.
Definition opt_prefix (pl : plugin) : string :=
  match pl with
  | PGo => "--go_opt="
  | PVt => "--go-vtproto_opt="
  | PGrpc => "--go-grpc_opt="
  end.

Definition render_arg (a : arg) : string :=
  match a with
  | AFlag s => s
  | AInc p => "-I=" ++ render_abs p
  | AMap pl r pkg => opt_prefix pl ++ "M" ++ render_rel r ++ "=" ++ pkg
  | AFile p => render_pspec p
  end.

(* ------------------------------------------------------------------ the walk *)
Inductive action : Type := Continue | SkipDir.

(* generate.go:126-138.  [input] is g.InputDir, the comparison is on the path spelling. *)
Definition callback (input : pspec) (recurse : bool) (pathname : pspec) (d : node)
  : action * list pspec :=
  if pspec_eqb pathname (PRel []) || pspec_eqb pathname input then (Continue, [])
  else if is_dir d && negb recurse then (SkipDir, [])
  else if is_regular d && is_proto_name (node_name d) then (Continue, [pathname])
  else (Continue, []).

Section Walk.
  Variable cb : pspec -> node -> action * list pspec.

  (* returns the paths appended by the callback and "skip the remaining siblings" *)
  Fixpoint walk_node (p : pspec) (n : node) {struct n} : list pspec * bool :=
    match n with
    | File _ _ _ =>
        let '(act, out) := cb p n in
        (out, match act with SkipDir => true | Continue => false end)
    | Dir _ ch =>
        let '(act, out) := cb p n in
        match act with
        | SkipDir => (out, false)
        | Continue =>
            (out ++ (fix walk_list (l : list node) : list pspec :=
                       match l with
                       | [] => []
                       | c :: r =>
                           let '(o, stop) := walk_node (pjoin p (node_name c)) c in
                           if stop then o else o ++ walk_list r
                       end) ch, false)
        end
    end.

  Fixpoint walk_children (p : pspec) (l : list node) : list pspec :=
    match l with
    | [] => []
    | c :: r =>
        let '(o, stop) := walk_node (pjoin p (node_name c)) c in
        if stop then o else o ++ walk_children p r
    end.
End Walk.

Section Model.
  (* gencommon.PackageNameFromPath of an absolute directory *)
  Variable pkg_of : path -> result string.

  Definition find_protos (cfg : config) (dir : pspec) (recurse : bool) : result (list pspec) :=
    match lookup (c_root cfg) (to_abs (c_cwd cfg) dir) with
    | Some n => Ok (fst (walk_node (callback (c_input cfg) recurse) dir n))
    | None => Err                                  (* Lstat error, returned by the callback *)
    end.

  Definition file_has_go_package (cfg : config) (p : pspec) : result bool :=
    match lookup (c_root cfg) (to_abs (c_cwd cfg) p) with
    | Some n => Ok (has_go_package n)
    | None => Err
    end.

  Definition plugin_flags (cfg : config) : list arg :=
    [AFlag "--go_out=."; AFlag "--go_opt=paths=source_relative"; AFlag "--fatal_warnings"]
    ++ (if c_vt cfg
        then [AFlag "--go-vtproto_out=.";
              AFlag "--go-vtproto_opt=paths=source_relative,features=marshal+unmarshal+size+equal+clone+pool"]
        else [])
    ++ (if c_grpc cfg
        then [AFlag "--go-grpc_out=."; AFlag "--go-grpc_opt=paths=source_relative"]
        else []).

  Definition mapping_args (cfg : config) (relp : path) (pkg : string) : list arg :=
    [AMap PGo relp pkg]
    ++ (if c_vt cfg then [AMap PVt relp pkg] else [])
    ++ (if c_grpc cfg then [AMap PGrpc relp pkg] else []).

  (* the package of one mapping: explicit prefix joined with the relative directory, else
     the Go package of the file's directory *)
  Definition mapping_pkg (prefix : option string) (relp absp : path) : result string :=
    match prefix with
    | Some pre => Ok (join_pkg pre (dir_of relp))
    | None => pkg_of (dir_of absp)
    end.

  (* generate.go:68-110 — the loop over the protos found below one include path [a] *)
  Fixpoint include_files (cfg : config) (a : path) (prefix : option string) (ps : list pspec)
    : result (list arg) :=
    match ps with
    | [] => Ok []
    | p :: rest =>
        match file_has_go_package cfg p with
        | Err => Err
        | Ok true => include_files cfg a prefix rest
        | Ok false =>
            let absp := to_abs (c_cwd cfg) p in
            match rel a absp with
            | None => Err
            | Some relp =>
                match mapping_pkg prefix relp absp with
                | Err => Err
                | Ok pkg =>
                    match include_files cfg a prefix rest with
                    | Err => Err
                    | Ok more => Ok (mapping_args cfg relp pkg ++ more)
                    end
                end
            end
        end
    end.

  (* generate.go:57-111 — one iteration of the loop over includePaths *)
  Definition include_args (cfg : config) (inc : pspec * option string) : result (list arg) :=
    let a := to_abs (c_cwd cfg) (fst inc) in
    match find_protos cfg (PAbs a) true with
    | Err => Err
    | Ok ps =>
        match include_files cfg a (snd inc) ps with
        | Err => Err
        | Ok l => Ok (AInc a :: l)
        end
    end.

  Fixpoint includes_args (cfg : config) (incs : list (pspec * option string)) : result (list arg) :=
    match incs with
    | [] => Ok []
    | i :: r =>
        match include_args cfg i with
        | Err => Err
        | Ok x =>
            match includes_args cfg r with
            | Err => Err
            | Ok y => Ok (x ++ y)
            end
        end
    end.

  Definition include_paths (cfg : config) : list (pspec * option string) :=
    (c_input cfg, None) :: c_includes cfg.

  (* Generate.Run: the argument vector handed to exec.Command, or an error before it *)
  Definition run (cfg : config) : result (list arg) :=
    match find_protos cfg (c_input cfg) (c_recurse cfg) with
    | Err => Err
    | Ok paths =>
        match includes_args cfg (include_paths cfg) with
        | Err => Err
        | Ok incs => Ok (plugin_flags cfg ++ incs ++ map AFile paths)
        end
    end.

  (* the protoc invocations of one run of the tool *)
  Definition invocations (cfg : config) : list (list arg) :=
    match run cfg with Ok argv => [argv] | Err => [] end.

  (* ---------------------------------------------------------------- specification *)

  (* everything strictly below a node, with its path relative to the node *)
  Fixpoint below (n : node) : list (path * node) :=
    match n with
    | File _ _ _ => []
    | Dir _ ch =>
        flat_map (fun c => ([node_name c], c)
                           :: map (fun rx => (node_name c :: fst rx, snd rx)) (below c)) ch
    end.

  Definition children_of (n : node) : list (path * node) :=
    match n with
    | File _ _ _ => []
    | Dir _ ch => map (fun c => ([node_name c], c)) ch
    end.

  (* "a .proto file": a regular file whose name ends in .proto *)
  Definition is_proto_file (n : node) : bool :=
    match n with
    | File s _ true => is_proto_name s
    | _ => false
    end.

  Definition input_abs (cfg : config) : path := to_abs (c_cwd cfg) (c_input cfg).

  (* the files protoc must be given: absolute paths of the .proto files directly inside the
     input directory, or anywhere below it with -recurse *)
  Definition spec_files (cfg : config) : list path :=
    match lookup (c_root cfg) (input_abs cfg) with
    | Some n =>
        map (fun rx => input_abs cfg ++ fst rx)
            (filter (fun rx => is_proto_file (snd rx))
                    (if c_recurse cfg then below n else children_of n))
    | None => []
    end.

  (* the input directory and every include directory exist and are directories *)
  Definition dirs_okb (cfg : config) : bool :=
    forallb (fun i => match lookup (c_root cfg) (to_abs (c_cwd cfg) (fst i)) with
                      | Some (Dir _ _) => true
                      | _ => false
                      end) (include_paths cfg).

  Definition spec_includes (cfg : config) : list path :=
    map (fun i => to_abs (c_cwd cfg) (fst i)) (include_paths cfg).

  Definition requested (cfg : config) (pl : plugin) : bool :=
    match pl with PGo => true | PVt => c_vt cfg | PGrpc => c_grpc cfg end.

  Definition pkg_or_unknown (d : path) : string :=
    match pkg_of d with Ok s => s | Err => "<no package>" end.

  (* the mappings one include path calls for, given a decider [gp] of "declares go_package" *)
  Definition mappings_by (gp : node -> bool) (cfg : config) (inc : pspec * option string)
    : list (path * string) :=
    let a := to_abs (c_cwd cfg) (fst inc) in
    match lookup (c_root cfg) a with
    | Some n =>
        map (fun rx =>
               (fst rx,
                match snd inc with
                | Some pre => join_pkg pre (dir_of (fst rx))
                | None => pkg_or_unknown (dir_of (a ++ fst rx))
                end))
            (filter (fun rx => is_proto_file (snd rx) && negb (gp (snd rx))) (below n))
    | None => []
    end.

  (* the specification: protos that do not *declare* the option ([declares_go_package] of
     ProtoLex.v, on the file's content) *)
  Definition spec_mappings_of := mappings_by node_declares.
  Definition spec_mappings (cfg : config) (pl : plugin) : list (path * string) :=
    if requested cfg pl then flat_map (spec_mappings_of cfg) (include_paths cfg) else [].

  (* the same with the code's own decider, the line scan: what the code is proved to produce.
     The two coincide on trees whose proto files the scan classifies correctly
     ([tree_agreesb]; ProtoProofs.spec_scan_mappings). *)
  Definition scan_mappings_of := mappings_by has_go_package.
  Definition scan_mappings (cfg : config) (pl : plugin) : list (path * string) :=
    if requested cfg pl then flat_map (scan_mappings_of cfg) (include_paths cfg) else [].

  (* input domain of the mapping clause: the line scan is right about every *.proto file *)
  Fixpoint tree_agreesb (n : node) : bool :=
    match n with
    | File s c r => negb (is_proto_file n) || scan_agrees c
    | Dir _ ch => forallb tree_agreesb ch
    end.

  (* ---------------------------------------------------------------- projections of an argv *)
  Definition files_of (argv : list arg) : list pspec :=
    flat_map (fun a => match a with AFile p => [p] | _ => [] end) argv.
  Definition includes_of (argv : list arg) : list path :=
    flat_map (fun a => match a with AInc p => [p] | _ => [] end) argv.
  Definition plugin_eqb (a b : plugin) : bool :=
    match a, b with PGo, PGo | PVt, PVt | PGrpc, PGrpc => true | _, _ => false end.
  Definition mappings_of (pl : plugin) (argv : list arg) : list (path * string) :=
    flat_map (fun a => match a with
                       | AMap q r k => if plugin_eqb q pl then [(r, k)] else []
                       | _ => []
                       end) argv.
  (* "the plugin is requested": an output flag of the plugin is present *)
  Definition requests (pl : plugin) (argv : list arg) : bool :=
    existsb (fun a => match a with AFlag s => prefix (out_prefix pl) s | _ => false end) argv.
End Model.
