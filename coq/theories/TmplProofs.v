(* TmplProofs.v — the language of the env-template matcher and the template pass.

   shaped l  :=  l = "${{" w1 "env:" w2 NAME w3 [|] w4 DEFAULT w5 "}}"   (w_i whitespace, NAME
                 non-empty word characters, DEFAULT empty or newline-free ending in non-space)
   is the language of ^\$\{\{\s*env:\s*(\w+)\s*\|?\s*(.*\S)?\s*\}\}$ written out as a
   decomposition.  match_env_l accepts exactly the shaped strings (match_sound,
   match_complete); on the documented grammar (default only after `|`, starting with a
   non-space) it returns exactly (NAME, DEFAULT) (match_grammar).                          *)
From Coq Require Import List String Ascii Bool Arith Lia.
From GT Require Import GConfModel GConfProofs TmplModel.
Import ListNotations.

Definition sp (c : ascii) : Prop := is_space c = true.
Definition wd (c : ascii) : Prop := is_word c = true.

Definition ends_nonspace (d : bytes) : Prop := exists x c, d = x ++ [c] /\ is_space c = false.
Definition starts_nonword (r : bytes) : Prop :=
  match r with [] => True | c :: _ => is_word c = false end.
Definition starts_nonspace (r : bytes) : Prop :=
  match r with [] => True | c :: _ => is_space c = false end.
Definition no_nl (d : bytes) : Prop := existsb is_nl d = false.

(* ------------------------------------------------------------------ character facts *)
Lemma word_not_space : forall c, is_word c = true -> is_space c = false.
Proof.
  intros c. unfold is_word, is_space. generalize (nat_of_ascii c). intros n H.
  repeat rewrite orb_true_iff in H. repeat rewrite andb_true_iff in H.
  repeat rewrite Nat.leb_le in H. rewrite Nat.eqb_eq in H.
  repeat rewrite orb_false_iff. repeat rewrite Nat.eqb_neq. lia.
Qed.

Lemma nl_is_space : forall c, is_nl c = true -> is_space c = true.
Proof.
  intros c. unfold is_nl, is_space. intros H. apply Nat.eqb_eq in H. rewrite H. reflexivity.
Qed.

Lemma pipe_facts : is_space pipe_c = false /\ is_word pipe_c = false.
Proof. split; reflexivity. Qed.

(* ------------------------------------------------------------------ skip_ws *)
Lemma skip_ws_app : forall w r, Forall sp w -> skip_ws (w ++ r) = skip_ws r.
Proof.
  induction w as [|c w IH]; intros r H; [reflexivity|].
  inversion H as [|? ? Hc Hw]; subst. cbn. unfold sp in Hc. rewrite Hc. apply IH. exact Hw.
Qed.

Lemma skip_ws_id : forall r, starts_nonspace r -> skip_ws r = r.
Proof. intros [|c r] H; [reflexivity|]. cbn in *. rewrite H. reflexivity. Qed.

Lemma skip_ws_all : forall w, Forall sp w -> skip_ws w = [].
Proof. intros w H. rewrite <- (app_nil_r w). rewrite skip_ws_app; [reflexivity| exact H]. Qed.

Lemma skip_ws_inv : forall l,
  exists w, l = w ++ skip_ws l /\ Forall sp w /\ starts_nonspace (skip_ws l).
Proof.
  induction l as [|c l IH]; [exists []; repeat split; constructor|].
  cbn. destruct (is_space c) eqn:E.
  - destruct IH as [w [H1 [H2 H3]]]. exists (c :: w). repeat split.
    + cbn. f_equal. exact H1.
    + constructor; [exact E| exact H2].
    + exact H3.
  - exists []. repeat split; [constructor| cbn; exact E].
Qed.

(* ------------------------------------------------------------------ strip_prefix *)
Lemma strip_prefix_app : forall p r, strip_prefix p (p ++ r) = Some r.
Proof.
  induction p as [|a p IH]; intros r; [destruct r; reflexivity|].
  cbn. rewrite Ascii.eqb_refl. apply IH.
Qed.

Lemma strip_prefix_inv : forall p l r, strip_prefix p l = Some r -> l = p ++ r.
Proof.
  induction p as [|a p IH]; intros l r H.
  - destruct l; cbn in H; inversion H; reflexivity.
  - destruct l as [|b l]; [discriminate|]. cbn in H.
    destruct (Ascii.eqb a b) eqn:E; [|discriminate]. apply Ascii.eqb_eq in E. subst b.
    cbn. f_equal. apply IH. exact H.
Qed.

(* ------------------------------------------------------------------ take_word *)
Lemma take_word_app : forall n r,
  Forall wd n -> starts_nonword r -> take_word (n ++ r) = (n, r).
Proof.
  induction n as [|c n IH]; intros r Hn Hr.
  - cbn. destruct r as [|c r]; [reflexivity|]. cbn in *. rewrite Hr. reflexivity.
  - inversion Hn as [|? ? Hc Hn']; subst. cbn. unfold wd in Hc. rewrite Hc.
    rewrite (IH r Hn' Hr). reflexivity.
Qed.

Lemma take_word_inv : forall l n r,
  take_word l = (n, r) -> l = n ++ r /\ Forall wd n /\ starts_nonword r.
Proof.
  induction l as [|c l IH]; intros n r H.
  - cbn in H. inversion H; subst. repeat split; constructor.
  - cbn in H. destruct (is_word c) eqn:E.
    + destruct (take_word l) as [w rest] eqn:Et. inversion H; subst.
      destruct (IH w r eq_refl) as [H1 [H2 H3]]. repeat split.
      * cbn. f_equal. exact H1.
      * constructor; [exact E| exact H2].
      * exact H3.
    + inversion H; subst. repeat split; [constructor| cbn; exact E].
Qed.

(* ------------------------------------------------------------------ suffixes *)
Lemma strip_suffix_app : forall suf body, strip_suffix suf (body ++ suf) = Some body.
Proof.
  intros. unfold strip_suffix. rewrite rev_app_distr, strip_prefix_app. cbn.
  rewrite rev_involutive. reflexivity.
Qed.

Lemma strip_suffix_inv : forall suf l body, strip_suffix suf l = Some body -> l = body ++ suf.
Proof.
  intros suf l body H. unfold strip_suffix in H.
  destruct (strip_prefix (rev suf) (rev l)) as [r|] eqn:E; [|discriminate].
  cbn in H. inversion H; subst. apply strip_prefix_inv in E.
  rewrite <- (rev_involutive l), E, rev_app_distr, rev_involutive. reflexivity.
Qed.

Lemma Forall_rev' : forall A (P : A -> Prop) l, Forall P l -> Forall P (rev l).
Proof. intros. apply Forall_rev. assumption. Qed.

Lemma rtrim_app : forall d w,
  Forall sp w -> (d = [] \/ ends_nonspace d) -> rtrim_ws (d ++ w) = d.
Proof.
  intros d w Hw Hd. unfold rtrim_ws. rewrite rev_app_distr.
  rewrite skip_ws_app; [|apply Forall_rev'; exact Hw].
  destruct Hd as [->|[x [c [-> Hc]]]]; [reflexivity|].
  rewrite rev_app_distr. cbn [rev app]. cbn [skip_ws]. rewrite Hc.
  cbn [rev]. rewrite rev_involutive. reflexivity.
Qed.

Lemma rtrim_inv : forall body,
  exists w, body = rtrim_ws body ++ w /\ Forall sp w /\
            (rtrim_ws body = [] \/ ends_nonspace (rtrim_ws body)).
Proof.
  intros body. unfold rtrim_ws. destruct (skip_ws_inv (rev body)) as [w [H1 [H2 H3]]].
  exists (rev w). repeat split.
  - rewrite <- rev_app_distr, <- H1, rev_involutive. reflexivity.
  - apply Forall_rev'. exact H2.
  - destruct (skip_ws (rev body)) as [|c r]; [left; reflexivity|].
    right. exists (rev r), c. split; [reflexivity| exact H3].
Qed.

(* ------------------------------------------------------------------ shapes *)
Record shape := {
  w1 : bytes; w2 : bytes; nm : bytes; w3 : bytes; has_pipe : bool;
  w4 : bytes; df : bytes; w5 : bytes }.

Definition pipe_s (b : bool) : bytes := if b then [pipe_c] else [].

Definition render (s : shape) : bytes :=
  open_s ++ w1 s ++ env_s ++ w2 s ++ nm s ++ w3 s ++ pipe_s (has_pipe s) ++ w4 s ++ df s ++ w5 s
  ++ close_s.

Definition shape_ok (s : shape) : Prop :=
  Forall sp (w1 s) /\ Forall sp (w2 s) /\ Forall sp (w3 s) /\ Forall sp (w4 s) /\ Forall sp (w5 s) /\
  Forall wd (nm s) /\ nm s <> [] /\
  (df s = [] \/ (no_nl (df s) /\ ends_nonspace (df s))).

(* the strings the pattern accepts *)
Definition shaped (l : bytes) : Prop := exists s, shape_ok s /\ l = render s.

(* the documented grammar: a default only after `|`, written without leading blanks *)
Definition doc_ok (s : shape) : Prop :=
  shape_ok s /\ (df s <> [] -> has_pipe s = true /\ starts_nonspace (df s)).

(* ------------------------------------------------------------------ tails
   Good x: x = d' w "}}" with d' newline-free and empty or ending in a non-space *)
Definition Good (x : bytes) : Prop :=
  exists d w, x = d ++ w ++ close_s /\ Forall sp w /\ no_nl d /\ (d = [] \/ ends_nonspace d).

Lemma no_nl_cons : forall c d, no_nl (c :: d) -> is_nl c = false /\ no_nl d.
Proof. intros c d H. unfold no_nl in *. cbn in H. apply orb_false_iff in H. exact H. Qed.

Lemma ends_nonspace_cons : forall c d, d <> [] -> ends_nonspace (c :: d) -> ends_nonspace d.
Proof.
  intros c d Hne [x [e [H He]]]. destruct x as [|x0 x].
  - cbn in H. inversion H; subst. congruence.
  - cbn in H. inversion H; subst. exists x, e. split; [reflexivity| exact He].
Qed.

Lemma ends_nonspace_single : forall c, ends_nonspace [c] -> is_space c = false.
Proof.
  intros c [x [e [H He]]]. destruct x as [|x0 x]; cbn in H.
  - inversion H; subst. exact He.
  - inversion H as [[H0 H1]]. destruct x; discriminate.
Qed.

Lemma close_not_space : starts_nonspace close_s.
Proof. reflexivity. Qed.

Lemma Good_intro : forall d w,
  Forall sp w -> no_nl d -> (d = [] \/ ends_nonspace d) -> Good (d ++ w ++ close_s).
Proof. intros d w H1 H2 H3. exists d, w. split; [reflexivity|]. split; [exact H1|]. split; assumption. Qed.

Lemma no_nl_nil : no_nl [].
Proof. reflexivity. Qed.

Lemma Good_skip : forall x, Good x -> Good (skip_ws x).
Proof.
  intros x [d [w [-> [Hw [Hn Hd]]]]]. induction d as [|c d IH].
  - cbn [app]. rewrite skip_ws_app; [|exact Hw]. rewrite skip_ws_id; [|exact close_not_space].
    apply (Good_intro [] []); [constructor| exact no_nl_nil| left; reflexivity].
  - cbn [app skip_ws]. destruct (is_space c) eqn:E.
    + destruct d as [|c2 d].
      * exfalso. destruct Hd as [Hd|Hd]; [discriminate|].
        apply ends_nonspace_single in Hd. congruence.
      * apply IH.
        -- apply no_nl_cons in Hn. apply Hn.
        -- right. destruct Hd as [Hd|Hd]; [discriminate|].
           apply (ends_nonspace_cons c); [discriminate| exact Hd].
    + apply (Good_intro (c :: d) w); assumption.
Qed.

Lemma Good_drop_pipe : forall x, Good x -> Good (drop_pipe x).
Proof.
  intros x [d [w [-> [Hw [Hn Hd]]]]]. destruct d as [|c d].
  - cbn [app]. assert (H : drop_pipe (w ++ close_s) = w ++ close_s).
    { destruct w as [|c w]; [reflexivity|]. cbn. inversion Hw as [|? ? Hc _]; subst.
      destruct (Ascii.eqb c pipe_c) eqn:E; [|reflexivity].
      apply Ascii.eqb_eq in E. subst c. unfold sp in Hc. cbn in Hc. discriminate. }
    rewrite H. apply (Good_intro [] w); [exact Hw| exact no_nl_nil| left; reflexivity].
  - cbn [app drop_pipe]. destruct (Ascii.eqb c pipe_c) eqn:E.
    + apply (Good_intro d w); [exact Hw| apply no_nl_cons in Hn; apply Hn|].
      destruct d as [|c2 d]; [left; reflexivity|]. right.
      destruct Hd as [Hd|Hd]; [discriminate|].
      apply (ends_nonspace_cons c); [discriminate| exact Hd].
    + apply (Good_intro (c :: d) w); assumption.
Qed.

Lemma Good_finish : forall x, Good x ->
  exists body, strip_suffix close_s x = Some body /\ existsb is_nl (rtrim_ws body) = false.
Proof.
  intros x [d [w [-> [Hw [Hn Hd]]]]]. exists (d ++ w). split.
  - rewrite app_assoc. apply strip_suffix_app.
  - rewrite (rtrim_app d w Hw Hd). exact Hn.
Qed.

(* ------------------------------------------------------------------ the part after NAME *)
Definition tail_fn (s3 : bytes) : option bytes :=
  match strip_suffix close_s (skip_ws (drop_pipe (skip_ws s3))) with
  | None => None
  | Some body => let d := rtrim_ws body in if existsb is_nl d then None else Some d
  end.

Lemma match_env_l_unfold : forall l,
  match_env_l l =
  match strip_prefix open_s l with
  | None => None
  | Some s1 =>
      match strip_prefix env_s (skip_ws s1) with
      | None => None
      | Some s2 =>
          match fst (take_word (skip_ws s2)) with
          | [] => None
          | _ => option_map (fun d => (fst (take_word (skip_ws s2)), d))
                            (tail_fn (snd (take_word (skip_ws s2))))
          end
      end
  end.
Proof.
  intros l. unfold match_env_l, tail_fn.
  destruct (strip_prefix open_s l) as [s1|]; [|reflexivity].
  destruct (strip_prefix env_s (skip_ws s1)) as [s2|]; [|reflexivity].
  destruct (take_word (skip_ws s2)) as [n s3]. cbn [fst snd].
  destruct n as [|c n]; [reflexivity|].
  destruct (strip_suffix close_s _) as [body|]; [|reflexivity].
  cbn zeta. destruct (existsb is_nl (rtrim_ws body)); reflexivity.
Qed.

Definition tail_shaped (t : bytes) : Prop :=
  exists a p b d e,
    t = a ++ pipe_s p ++ b ++ d ++ e ++ close_s /\
    Forall sp a /\ Forall sp b /\ Forall sp e /\ (d = [] \/ (no_nl d /\ ends_nonspace d)).

Lemma tail_good : forall t, tail_shaped t -> Good (skip_ws (drop_pipe (skip_ws t))).
Proof.
  intros t [a [p [b [d [e [-> [Ha [Hb [He Hd]]]]]]]]].
  assert (G : Good (d ++ e ++ close_s)).
  { apply Good_intro; [exact He| |].
    - destruct Hd as [->|[Hn _]]; [exact no_nl_nil| exact Hn].
    - destruct Hd as [->|[_ Hd]]; [left; reflexivity| right; exact Hd]. }
  rewrite skip_ws_app; [|exact Ha]. destruct p; cbn [pipe_s app].
  - cbn [skip_ws]. destruct pipe_facts as [Hps _]. rewrite Hps. cbn [drop_pipe].
    rewrite Ascii.eqb_refl. rewrite skip_ws_app; [|exact Hb]. apply Good_skip. exact G.
  - rewrite skip_ws_app; [|exact Hb]. apply Good_skip. apply Good_drop_pipe. apply Good_skip. exact G.
Qed.

Lemma tail_accept : forall t, tail_shaped t -> tail_fn t <> None.
Proof.
  intros t H. apply tail_good in H. apply Good_finish in H. destruct H as [body [H1 H2]].
  unfold tail_fn. rewrite H1. cbn zeta. rewrite H2. discriminate.
Qed.

Lemma close_not_word : starts_nonword close_s.
Proof. reflexivity. Qed.

Lemma space_not_word : forall c, is_space c = true -> is_word c = false.
Proof.
  intros c H. destruct (is_word c) eqn:E; [|reflexivity].
  apply word_not_space in E. congruence.
Qed.

Lemma tail_drop_word : forall c t, is_word c = true -> tail_shaped (c :: t) -> tail_shaped t.
Proof.
  intros c t Hc [a [p [b [d [e [Heq [Ha [Hb [He Hd]]]]]]]]].
  assert (Hns : is_space c = false) by (apply word_not_space; exact Hc).
  destruct a as [|a0 a].
  2:{ cbn in Heq. inversion Heq; subst. inversion Ha as [|? ? H0 _]; subst. unfold sp in H0. congruence. }
  destruct p.
  { cbn in Heq. inversion Heq; subst. cbn in Hc. discriminate. }
  destruct b as [|b0 b].
  2:{ cbn in Heq. inversion Heq; subst. inversion Hb as [|? ? H0 _]; subst. unfold sp in H0. congruence. }
  cbn [pipe_s app] in Heq. destruct d as [|d0 d].
  - exfalso. cbn [app] in Heq. destruct e as [|e0 e].
    + cbn in Heq. inversion Heq; subst. cbn in Hc. discriminate.
    + cbn in Heq. inversion Heq; subst. inversion He as [|? ? H0 _]; subst. unfold sp in H0. congruence.
  - cbn [app] in Heq. inversion Heq; subst.
    exists [], false, [], d, e. split; [reflexivity|].
    split; [constructor|]. split; [constructor|]. split; [exact He|].
    destruct d as [|d1 d]; [left; reflexivity|]. right.
    destruct Hd as [Hd|[Hn Hd]]; [discriminate|]. split.
    + apply no_nl_cons in Hn. apply Hn.
    + apply (ends_nonspace_cons d0); [discriminate| exact Hd].
Qed.

Lemma tail_shaped_nonempty : ~ tail_shaped [].
Proof.
  intros [a [p [b [d [e [Heq _]]]]]].
  apply (f_equal (@List.length ascii)) in Heq. repeat rewrite app_length in Heq. cbn in Heq. lia.
Qed.

Lemma take_word_tail : forall r, tail_shaped r -> tail_shaped (snd (take_word r)).
Proof.
  induction r as [|c r IH]; intros H; [exact H|].
  cbn [take_word]. destruct (is_word c) eqn:E.
  - destruct (take_word r) as [u r'] eqn:Et. cbn [snd] in *. apply IH.
    apply (tail_drop_word c); assumption.
  - exact H.
Qed.

Lemma take_word_app_gen : forall n r,
  Forall wd n -> take_word (n ++ r) = (n ++ fst (take_word r), snd (take_word r)).
Proof.
  induction n as [|c n IH]; intros r Hn.
  - cbn [app]. destruct (take_word r); reflexivity.
  - inversion Hn as [|? ? Hc Hn']; subst. cbn [app take_word]. unfold wd in Hc. rewrite Hc.
    rewrite (IH r Hn'). reflexivity.
Qed.

Lemma render_tail : forall s, shape_ok s ->
  tail_shaped (w3 s ++ pipe_s (has_pipe s) ++ w4 s ++ df s ++ w5 s ++ close_s).
Proof.
  intros s [H1 [H2 [H3 [H4 [H5 [Hn [Hne Hd]]]]]]].
  exists (w3 s), (has_pipe s), (w4 s), (df s), (w5 s). repeat split; assumption.
Qed.

Lemma env_not_space : starts_nonspace (env_s ++ []) /\ forall r, starts_nonspace (env_s ++ r).
Proof. split; [reflexivity| intros; reflexivity]. Qed.

(* every shaped string is accepted *)
Lemma match_complete : forall s, shape_ok s -> match_env_l (render s) <> None.
Proof.
  intros s Hok. pose proof (render_tail s Hok) as HT.
  destruct Hok as [H1 [H2 [H3 [H4 [H5 [Hn [Hne Hd]]]]]]].
  rewrite match_env_l_unfold. unfold render. rewrite strip_prefix_app.
  rewrite skip_ws_app; [|exact H1]. rewrite skip_ws_id; [|reflexivity].
  rewrite strip_prefix_app. rewrite skip_ws_app; [|exact H2].
  set (T := w3 s ++ pipe_s (has_pipe s) ++ w4 s ++ df s ++ w5 s ++ close_s) in *.
  assert (Hsk : skip_ws (nm s ++ T) = nm s ++ T).
  { apply skip_ws_id. destruct (nm s) as [|c n]; [congruence|]. cbn.
    inversion Hn as [|? ? Hc _]; subst. apply word_not_space. exact Hc. }
  rewrite Hsk. rewrite (take_word_app_gen (nm s) T Hn). cbn [fst snd].
  destruct (nm s ++ fst (take_word T)) as [|c n] eqn:E.
  - destruct (nm s); [congruence| discriminate].
  - pose proof (tail_accept _ (take_word_tail T HT)) as Hacc.
    destruct (tail_fn (snd (take_word T))); [discriminate| congruence].
Qed.

(* on the documented grammar the captures are exactly NAME and DEFAULT *)
Lemma match_grammar : forall s, doc_ok s -> match_env_l (render s) = Some (nm s, df s).
Proof.
  intros s [[H1 [H2 [H3 [H4 [H5 [Hn [Hne Hd]]]]]]] Hdoc].
  rewrite match_env_l_unfold. unfold render. rewrite strip_prefix_app.
  rewrite skip_ws_app; [|exact H1]. rewrite skip_ws_id; [|reflexivity].
  rewrite strip_prefix_app. rewrite skip_ws_app; [|exact H2].
  set (T := w3 s ++ pipe_s (has_pipe s) ++ w4 s ++ df s ++ w5 s ++ close_s) in *.
  assert (Hsk : skip_ws (nm s ++ T) = nm s ++ T).
  { apply skip_ws_id. destruct (nm s) as [|c n]; [congruence|]. cbn.
    inversion Hn as [|? ? Hc _]; subst. apply word_not_space. exact Hc. }
  rewrite Hsk.
  assert (HTnw : starts_nonword T).
  { unfold T. destruct (w3 s) as [|c a].
    - cbn [app]. destruct (has_pipe s) eqn:Ep; cbn [pipe_s app].
      + reflexivity.
      + destruct (df s) as [|d0 d] eqn:Edf.
        * cbn [app]. destruct (w4 s) as [|c b]; cbn [app].
          -- destruct (w5 s) as [|c e]; [reflexivity|]. cbn.
             inversion H5 as [|? ? Hc _]; subst. apply space_not_word. exact Hc.
          -- cbn. inversion H4 as [|? ? Hc _]; subst. apply space_not_word. exact Hc.
        * exfalso. destruct Hdoc as [Hp _]; [discriminate|]. congruence.
    - cbn. inversion H3 as [|? ? Hc _]; subst. apply space_not_word. exact Hc. }
  rewrite (take_word_app (nm s) T Hn HTnw). cbn [fst snd].
  destruct (nm s) as [|c n] eqn:En; [congruence|]. rewrite <- En.
  assert (Htail : tail_fn T = Some (df s)).
  { unfold tail_fn, T. rewrite skip_ws_app; [|exact H3].
    assert (Hrest : skip_ws (drop_pipe (skip_ws (pipe_s (has_pipe s) ++ w4 s ++ df s ++ w5 s ++ close_s)))
                    = df s ++ w5 s ++ close_s \/
                    (df s = [] /\ skip_ws (drop_pipe (skip_ws (pipe_s (has_pipe s) ++ w4 s ++ df s ++ w5 s ++ close_s))) = close_s)).
    { destruct (df s) as [|d0 d] eqn:Edf.
      - right. split; [reflexivity|]. cbn [app]. destruct (has_pipe s); cbn [pipe_s app].
        + cbn [skip_ws]. destruct pipe_facts as [Hps _]. rewrite Hps. cbn [drop_pipe].
          rewrite Ascii.eqb_refl. rewrite skip_ws_app; [|exact H4].
          rewrite skip_ws_app; [|exact H5]. reflexivity.
        + rewrite skip_ws_app; [|exact H4]. rewrite skip_ws_app; [|exact H5]. reflexivity.
      - left. destruct Hdoc as [Hp Hs]; [discriminate|]. rewrite Hp. cbn [pipe_s app].
        cbn [skip_ws]. destruct pipe_facts as [Hps _]. rewrite Hps. cbn [drop_pipe].
        rewrite Ascii.eqb_refl. rewrite skip_ws_app; [|exact H4].
        apply skip_ws_id. exact Hs. }
    destruct Hrest as [Hr|[Hdf Hr]]; rewrite Hr.
    - rewrite app_assoc, strip_suffix_app. cbn zeta.
      assert (Hrt : rtrim_ws (df s ++ w5 s) = df s).
      { apply rtrim_app; [exact H5|]. destruct Hd as [Hd|[_ Hd]]; [left; exact Hd| right; exact Hd]. }
      rewrite Hrt. destruct Hd as [Hd|[Hnl _]].
      + rewrite Hd. reflexivity.
      + unfold no_nl in Hnl. rewrite Hnl. reflexivity.
    - rewrite Hdf. change close_s with ([] ++ close_s) at 2. rewrite strip_suffix_app. reflexivity. }
  rewrite Htail. rewrite En. reflexivity.
Qed.

(* whatever is accepted is shaped, with the returned NAME and DEFAULT as components, NAME
   maximal *)
Lemma drop_pipe_inv : forall x, exists p, x = pipe_s p ++ drop_pipe x.
Proof.
  intros [|c x]; [exists false; reflexivity|]. cbn. destruct (Ascii.eqb c pipe_c) eqn:E.
  - apply Ascii.eqb_eq in E. subst. exists true. reflexivity.
  - exists false. reflexivity.
Qed.

Lemma match_sound : forall l n d,
  match_env_l l = Some (n, d) ->
  exists s, shape_ok s /\ l = render s /\ nm s = n /\ df s = d /\
            starts_nonword (w3 s ++ pipe_s (has_pipe s) ++ w4 s ++ df s ++ w5 s ++ close_s).
Proof.
  intros l n d H. rewrite match_env_l_unfold in H.
  destruct (strip_prefix open_s l) as [s1|] eqn:E1; [|discriminate].
  apply strip_prefix_inv in E1.
  destruct (skip_ws_inv s1) as [a1 [Ea1 [Ha1 _]]].
  destruct (strip_prefix env_s (skip_ws s1)) as [s2|] eqn:E2; [|discriminate].
  apply strip_prefix_inv in E2.
  destruct (skip_ws_inv s2) as [a2 [Ea2 [Ha2 _]]].
  destruct (take_word (skip_ws s2)) as [n' s3] eqn:E3. cbn [fst snd] in H.
  apply take_word_inv in E3. destruct E3 as [En [Hn Hnw]].
  destruct n' as [|c0 n0] eqn:En'; [discriminate|]. rewrite <- En' in *.
  unfold tail_fn in H.
  destruct (skip_ws_inv s3) as [a3 [Ea3 [Ha3 _]]].
  destruct (drop_pipe_inv (skip_ws s3)) as [p Ep].
  destruct (skip_ws_inv (drop_pipe (skip_ws s3))) as [a4 [Ea4 [Ha4 _]]].
  destruct (strip_suffix close_s (skip_ws (drop_pipe (skip_ws s3)))) as [body|] eqn:E5; [|discriminate].
  apply strip_suffix_inv in E5.
  destruct (rtrim_inv body) as [a5 [Ea5 [Ha5 Hd]]].
  cbn zeta in H. destruct (existsb is_nl (rtrim_ws body)) eqn:Enl; [discriminate|].
  cbn [option_map] in H. inversion H; subst n d. clear H.
  exists {| w1 := a1; w2 := a2; nm := n'; w3 := a3; has_pipe := p; w4 := a4;
            df := rtrim_ws body; w5 := a5 |}.
  assert (Hs3 : s3 = a3 ++ pipe_s p ++ a4 ++ rtrim_ws body ++ a5 ++ close_s).
  { rewrite Ea3 at 1. f_equal. rewrite Ep at 1. f_equal. rewrite Ea4 at 1. f_equal.
    rewrite E5. rewrite Ea5 at 1. rewrite <- app_assoc. reflexivity. }
  split; [|split; [|split; [reflexivity| split; [reflexivity|]]]].
  - unfold shape_ok. cbn. repeat split; try assumption.
    + rewrite En'. discriminate.
    + destruct Hd as [Hd|Hd]; [left; exact Hd| right; split; [exact Enl| exact Hd]].
  - unfold render. cbn [w1 w2 nm w3 has_pipe w4 df w5]. rewrite E1. f_equal. rewrite Ea1 at 1. f_equal. rewrite E2. f_equal.
    rewrite Ea2 at 1. f_equal. rewrite En. f_equal. exact Hs3.
  - cbn [w1 w2 nm w3 has_pipe w4 df w5]. rewrite <- Hs3. exact Hnw.
Qed.

Lemma match_none_iff : forall l, match_env_l l <> None <-> shaped l.
Proof.
  intros l. split.
  - intros H. destruct (match_env_l l) as [[n d]|] eqn:E; [|congruence].
    apply match_sound in E. destruct E as [s [Hok [Hl _]]]. exists s. split; assumption.
  - intros [s [Hok ->]]. apply match_complete. exact Hok.
Qed.

(* ------------------------------------------------------------------ near-misses *)
Lemma render_open : forall s, exists r, render s = open_s ++ r.
Proof. intros s. eexists. reflexivity. Qed.

Lemma render_close : forall s, exists b, render s = b ++ close_s.
Proof.
  intros s. unfold render.
  exists (open_s ++ w1 s ++ env_s ++ w2 s ++ nm s ++ w3 s ++ pipe_s (has_pipe s) ++ w4 s ++ df s ++ w5 s).
  repeat rewrite <- app_assoc. reflexivity.
Qed.

(* leading text: the string does not begin with "${{" *)
Lemma reject_no_open : forall l, (forall r, l <> open_s ++ r) -> match_env_l l = None.
Proof.
  intros l H. destruct (match_env_l l) as [[n d]|] eqn:E; [|reflexivity].
  apply match_sound in E. destruct E as [s [_ [Hl _]]]. destruct (render_open s) as [r Hr].
  exfalso. apply (H r). congruence.
Qed.

(* trailing text: the string does not end with "}}" *)
Lemma reject_no_close : forall l, (forall b, l <> b ++ close_s) -> match_env_l l = None.
Proof.
  intros l H. destruct (match_env_l l) as [[n d]|] eqn:E; [|reflexivity].
  apply match_sound in E. destruct E as [s [_ [Hl _]]]. destruct (render_close s) as [b Hb].
  exfalso. apply (H b). congruence.
Qed.

Lemma ws_split_unique : forall a b r r',
  Forall sp a -> Forall sp b -> starts_nonspace r -> starts_nonspace r' ->
  a ++ r = b ++ r' -> r = r'.
Proof.
  induction a as [|c a IH]; intros b r r' Ha Hb Hr Hr' H.
  - destruct b as [|c b]; [exact H|]. cbn in H. subst r. cbn in Hr.
    inversion Hb as [|? ? Hc _]; subst. unfold sp in Hc. congruence.
  - destruct b as [|c' b].
    + cbn in H. subst r'. cbn in Hr'. inversion Ha as [|? ? Hc _]; subst. unfold sp in Hc. congruence.
    + cbn in H. inversion H; subst. inversion Ha; inversion Hb; subst. eapply IH; eassumption.
Qed.

(* missing `env:` after the opening braces and blanks *)
Lemma reject_no_env : forall w r,
  Forall sp w -> starts_nonspace r -> (forall r', r <> env_s ++ r') ->
  match_env_l (open_s ++ w ++ r) = None.
Proof.
  intros w r Hw Hr H. destruct (match_env_l (open_s ++ w ++ r)) as [[n d]|] eqn:E; [|reflexivity].
  apply match_sound in E. destruct E as [s [[H1 _] [Hl _]]]. unfold render in Hl.
  apply app_inv_head in Hl. exfalso.
  apply (H (w2 s ++ nm s ++ w3 s ++ pipe_s (has_pipe s) ++ w4 s ++ df s ++ w5 s ++ close_s)).
  eapply ws_split_unique; [exact Hw| exact H1| exact Hr| reflexivity| exact Hl].
Qed.

(* concrete forms: other first character, single opening brace, other last character *)
Lemma reject_first_char : forall c l, c <> "$"%char -> match_env_l (c :: l) = None.
Proof. intros c l H. apply reject_no_open. intros r E. cbn in E. inversion E. congruence. Qed.

Lemma reject_single_open : forall c l, c <> "{"%char -> match_env_l ("$" :: "{" :: c :: l)%char = None.
Proof. intros c l H. apply reject_no_open. intros r E. cbn in E. inversion E. congruence. Qed.

Lemma reject_last_char : forall l c, c <> "}"%char -> match_env_l (l ++ [c]) = None.
Proof.
  intros l c H. apply reject_no_close. intros b E.
  assert (E' : l ++ [c] = (b ++ ["}"%char]) ++ ["}"%char]) by (rewrite <- app_assoc; exact E).
  apply app_inj_tail in E'. destruct E' as [_ E']. congruence.
Qed.

Lemma reject_single_close : forall l c, c <> "}"%char -> match_env_l (l ++ [c; "}"%char]) = None.
Proof.
  intros l c H. apply reject_no_close. intros b E.
  assert (E' : (l ++ [c]) ++ ["}"%char] = (b ++ ["}"%char]) ++ ["}"%char]).
  { repeat rewrite <- app_assoc. exact E. }
  apply app_inj_tail in E'. destruct E' as [E' _]. apply app_inj_tail in E'. destruct E' as [_ E']. congruence.
Qed.

(* ------------------------------------------------------------------ strings.Trim(d, dquote) *)
Definition isq (c : ascii) : Prop := c = quote_c.
Definition starts_nonquote (m : bytes) : Prop :=
  match m with [] => True | c :: _ => c <> quote_c end.

Lemma ltrim_q_app : forall q m, Forall isq q -> starts_nonquote m -> ltrim_q (q ++ m) = m.
Proof.
  induction q as [|c q IH]; intros m Hq Hm.
  - cbn. destruct m as [|c m]; [reflexivity|]. cbn in *.
    destruct (Ascii.eqb c quote_c) eqn:E; [|reflexivity]. apply Ascii.eqb_eq in E. congruence.
  - inversion Hq as [|? ? Hc Hq']; subst. unfold isq in Hc. subst c. cbn [app ltrim_q].
    rewrite Ascii.eqb_refl. apply IH; assumption.
Qed.

Lemma ltrim_q_all : forall q, Forall isq q -> ltrim_q q = [].
Proof. intros q H. rewrite <- (app_nil_r q). apply ltrim_q_app; [exact H| exact I]. Qed.

Lemma trim_quotes_spec : forall q1 m q2,
  Forall isq q1 -> Forall isq q2 -> starts_nonquote m -> starts_nonquote (rev m) ->
  trim_quotes_l (q1 ++ m ++ q2) = m.
Proof.
  intros q1 m q2 H1 H2 Hm Hr. unfold trim_quotes_l.
  destruct m as [|c m].
  - cbn [app]. rewrite (ltrim_q_all (q1 ++ q2)); [reflexivity|]. apply Forall_app. split; assumption.
  - rewrite (ltrim_q_app q1 ((c :: m) ++ q2) H1); [|exact Hm].
    rewrite rev_app_distr. rewrite ltrim_q_app; [apply rev_involutive| apply Forall_rev'; exact H2| exact Hr].
Qed.

(* ------------------------------------------------------------------ resolution *)
Lemma resolve_three_way : forall env s n d,
  match_env s = Some (n, d) ->
  resolve_str env s =
  match assoc n env with
  | Some v => Ok v
  | None => match d with EmptyString => Err | _ => Ok (trim_quotes d) end
  end.
Proof. intros env s n d H. unfold resolve_str. rewrite H. reflexivity. Qed.

Lemma resolve_untouched : forall env s, match_env s = None -> resolve_str env s = Ok s.
Proof. intros env s H. unfold resolve_str. rewrite H. reflexivity. Qed.

Lemma match_env_none : forall s, match_env s = None <-> match_env_l (list_ascii_of_string s) = None.
Proof.
  intros s. unfold match_env. destruct (match_env_l (list_ascii_of_string s)) as [[n d]|]; split; congruence.
Qed.

Lemma untouched_unless_shaped : forall env s,
  ~ shaped (list_ascii_of_string s) -> resolve_str env s = Ok s.
Proof.
  intros env s H. apply resolve_untouched. apply match_env_none.
  destruct (match_env_l (list_ascii_of_string s)) eqn:E; [|reflexivity].
  exfalso. apply H. apply match_none_iff. congruence.
Qed.

Lemma accepted_iff_shaped : forall s, match_env s <> None <-> shaped (list_ascii_of_string s).
Proof.
  intros s. rewrite <- match_none_iff. split; intros H E; apply H; apply match_env_none; exact E.
Qed.

Lemma grammar_string : forall sh, doc_ok sh ->
  match_env (string_of_list_ascii (render sh))
  = Some (string_of_list_ascii (nm sh), string_of_list_ascii (df sh)).
Proof.
  intros sh H. unfold match_env. rewrite list_ascii_of_string_of_list_ascii.
  rewrite (match_grammar sh H). reflexivity.
Qed.

Lemma captures_string : forall s n d,
  match_env s = Some (n, d) ->
  exists sh, shape_ok sh /\ list_ascii_of_string s = render sh /\
             n = string_of_list_ascii (nm sh) /\ d = string_of_list_ascii (df sh) /\
             starts_nonword (w3 sh ++ pipe_s (has_pipe sh) ++ w4 sh ++ df sh ++ w5 sh ++ close_s).
Proof.
  intros s n d H. unfold match_env in H.
  destruct (match_env_l (list_ascii_of_string s)) as [[n' d']|] eqn:E; [|discriminate].
  inversion H; subst. apply match_sound in E. destruct E as [sh [H1 [H2 [H3 [H4 H5]]]]].
  exists sh. rewrite <- H3, <- H4. split; [exact H1|]. split; [exact H2|]. split; [reflexivity|].
  split; [reflexivity| exact H5].
Qed.

(* ------------------------------------------------------------------ the template pass *)
Lemma subst_Lst : forall env l, subst env (Lst l) = lift Lst (seq_list (map (subst env) l)).
Proof. reflexivity. Qed.
Lemma subst_Mp : forall env kv, subst env (Mp kv) = lift Mp (seq_kv (rmap (subst env) kv)).
Proof. reflexivity. Qed.

Lemma subst_err_iff : forall env t,
  subst env t = Err <-> exists s, In s (strings_of t) /\ resolve_str env s = Err.
Proof.
  intros env t. induction t as [s|s| |l IH|kv IH] using tree_ind'.
  - cbn [subst strings_of]. rewrite lift_err. split.
    + intros H. exists s. split; [left; reflexivity| exact H].
    + intros [s' [[->|[]] H]]. exact H.
  - cbn. split; [discriminate| intros [s' [[] _]]].
  - cbn. split; [discriminate| intros [s' [[] _]]].
  - rewrite subst_Lst, lift_err, seq_list_err, in_map_iff. cbn [strings_of].
    rewrite Forall_forall in IH. split.
    + intros [c [Hc Hin]]. apply (IH c Hin) in Hc. destruct Hc as [s [Hs He]].
      exists s. split; [|exact He]. apply in_flat_map. exists c. split; assumption.
    + intros [s [Hs He]]. apply in_flat_map in Hs. destruct Hs as [c [Hin Hs]].
      exists c. split; [|exact Hin]. apply (IH c Hin). exists s. split; assumption.
  - rewrite subst_Mp, lift_err, seq_kv_err. cbn [strings_of]. rewrite Forall_forall in IH. split.
    + intros [k Hin]. unfold rmap in Hin. apply in_map_iff in Hin.
      destruct Hin as [[k' c] [Heq Hin]]. cbn in Heq. inversion Heq; subst.
      destruct (proj1 (IH (k, c) Hin)) as [s [Hs He]]; [assumption|].
      exists s. split; [|exact He]. apply in_flat_map. exists (k, c). split; assumption.
    + intros [s [Hs He]]. apply in_flat_map in Hs. destruct Hs as [[k c] [Hin Hs]].
      exists k. unfold rmap. apply in_map_iff. exists (k, c). split; [|exact Hin].
      cbn. f_equal. apply (IH (k, c) Hin). exists s. split; assumption.
Qed.

(* loading = template pass over the RESOLVED document *)
Lemma load_full_is_spec : forall dims env t p,
  WF dims p t -> load_full dims env t = load_full_spec dims env t.
Proof. intros dims env t p H. unfold load_full, load_full_spec. rewrite (load_resolves dims t p H). reflexivity. Qed.

Lemma load_full_ok_iff : forall dims env t,
  load_full_spec dims env t <> Err <->
  exists kv, load_spec dims t = Ok kv /\
             forall s, In s (strings_of (Mp kv)) -> resolve_str env s <> Err.
Proof.
  intros dims env t. unfold load_full_spec. destruct (load_spec dims t) as [kv|].
  - split.
    + intros H. exists kv. split; [reflexivity|]. intros s Hs He. apply H.
      assert (E : subst env (Mp kv) = Err) by (apply subst_err_iff; exists s; split; assumption).
      rewrite E. reflexivity.
    + intros [kv' [Hkv H]]. inversion Hkv; subst kv'. rewrite subst_Mp.
      destruct (seq_kv (rmap (subst env) kv)) as [r|] eqn:E; cbn; [discriminate|].
      exfalso. assert (E' : subst env (Mp kv) = Err) by (rewrite subst_Mp, E; reflexivity).
      apply subst_err_iff in E'. destruct E' as [s [Hs He]]. exact (H s Hs He).
  - split; [congruence| intros [kv [H _]]; discriminate].
Qed.

Lemma agree_same_kind : forall dims t t', Agree dims t t' ->
  match t, t' with Mp _, Mp _ => True | Mp _, _ => False | _, Mp _ => False | _, _ => True end.
Proof. intros dims t t' H. destruct H; try exact I. destruct t; exact I. Qed.

(* entries of switches that are not active — templates in them included — never matter *)
Lemma agree_load_full : forall dims env t t',
  Agree dims t t' -> load_full_spec dims env t = load_full_spec dims env t'.
Proof.
  intros dims env t t' H. unfold load_full_spec, load_spec.
  pose proof (agree_resolve dims t t' H) as E. pose proof (agree_same_kind dims t t' H) as K.
  destruct t, t'; try reflexivity; try contradiction. rewrite E. reflexivity.
Qed.
