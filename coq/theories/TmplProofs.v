(* TmplProofs.v — the language of the env-template matcher and the template pass.

   shaped l  :=  l = "${{" w1 "env:" w2 NAME w3 [|] w4 DEFAULT w5 "}}"   (w_i whitespace, NAME
                 non-empty word characters, DEFAULT empty or newline-free ending in non-space)
   is the language of ^\$\{\{\s*env:\s*(\w+)\s*\|?\s*(.*\S)?\s*\}\}$ written out as a
   decomposition.  match_env_l accepts exactly the shaped strings (match_sound,
   match_complete); on the documented grammar (default only after `|`, starting with a
   non-space) it returns exactly (NAME, DEFAULT) (match_grammar).                          *)
From Coq Require Import List String Ascii Bool Arith Lia.
From GT Require Import GConfModel GConfProofs TmplModel.
Import ListNotations.

Definition sp (c : ascii) : Prop := is_space c = true.
Definition wd (c : ascii) : Prop := is_word c = true.

Definition ends_nonspace (d : bytes) : Prop := exists x c, d = x ++ [c] /\ is_space c = false.
Definition starts_nonword (r : bytes) : Prop :=
  match r with [] => True | c :: _ => is_word c = false end.
Definition starts_nonspace (r : bytes) : Prop :=
  match r with [] => True | c :: _ => is_space c = false end.
Definition no_nl (d : bytes) : Prop := existsb is_nl d = false.

(* ------------------------------------------------------------------ character facts *)
Lemma word_not_space : forall c, is_word c = true -> is_space c = false.
Proof.
  intros c. unfold is_word, is_space. generalize (nat_of_ascii c). intros n H.
  repeat rewrite orb_true_iff in H. repeat rewrite andb_true_iff in H.
  repeat rewrite Nat.leb_le in H. rewrite Nat.eqb_eq in H.
  repeat rewrite orb_false_iff. repeat rewrite Nat.eqb_neq. lia.
Qed.

Lemma nl_is_space : forall c, is_nl c = true -> is_space c = true.
Proof.
  intros c. unfold is_nl, is_space. intros H. apply Nat.eqb_eq in H. rewrite H. reflexivity.
Qed.

Lemma pipe_facts : is_space pipe_c = false /\ is_word pipe_c = false.
Proof. split; reflexivity. Qed.

(* ------------------------------------------------------------------ skip_ws *)
Lemma skip_ws_app : forall w r, Forall sp w -> skip_ws (w ++ r) = skip_ws r.
Proof.
  induction w as [|c w IH]; intros r H; [reflexivity|].
  inversion H as [|? ? Hc Hw]; subst. cbn. unfold sp in Hc. rewrite Hc. apply IH. exact Hw.
Qed.

Lemma skip_ws_id : forall r, starts_nonspace r -> skip_ws r = r.
Proof. intros [|c r] H; [reflexivity|]. cbn in *. rewrite H. reflexivity. Qed.

Lemma skip_ws_all : forall w, Forall sp w -> skip_ws w = [].
Proof. intros w H. rewrite <- (app_nil_r w). rewrite skip_ws_app; [reflexivity| exact H]. Qed.

Lemma skip_ws_inv : forall l,
  exists w, l = w ++ skip_ws l /\ Forall sp w /\ starts_nonspace (skip_ws l).
Proof.
  induction l as [|c l IH]; [exists []; repeat split; constructor|].
  cbn. destruct (is_space c) eqn:E.
  - destruct IH as [w [H1 [H2 H3]]]. exists (c :: w). repeat split.
    + cbn. f_equal. exact H1.
    + constructor; [exact E| exact H2].
    + exact H3.
  - exists []. repeat split; [constructor| cbn; exact E].
Qed.

(* ------------------------------------------------------------------ strip_prefix *)
Lemma strip_prefix_app : forall p r, strip_prefix p (p ++ r) = Some r.
Proof.
  induction p as [|a p IH]; intros r; [destruct r; reflexivity|].
  cbn. rewrite Ascii.eqb_refl. apply IH.
Qed.

Lemma strip_prefix_inv : forall p l r, strip_prefix p l = Some r -> l = p ++ r.
Proof.
  induction p as [|a p IH]; intros l r H.
  - destruct l; cbn in H; inversion H; reflexivity.
  - destruct l as [|b l]; [discriminate|]. cbn in H.
    destruct (Ascii.eqb a b) eqn:E; [|discriminate]. apply Ascii.eqb_eq in E. subst b.
    cbn. f_equal. apply IH. exact H.
Qed.

(* ------------------------------------------------------------------ take_word *)
Lemma take_word_app : forall n r,
  Forall wd n -> starts_nonword r -> take_word (n ++ r) = (n, r).
Proof.
  induction n as [|c n IH]; intros r Hn Hr.
  - cbn. destruct r as [|c r]; [reflexivity|]. cbn in *. rewrite Hr. reflexivity.
  - inversion Hn as [|? ? Hc Hn']; subst. cbn. unfold wd in Hc. rewrite Hc.
    rewrite (IH r Hn' Hr). reflexivity.
Qed.

Lemma take_word_inv : forall l n r,
  take_word l = (n, r) -> l = n ++ r /\ Forall wd n /\ starts_nonword r.
Proof.
  induction l as [|c l IH]; intros n r H.
  - cbn in H. inversion H; subst. repeat split; constructor.
  - cbn in H. destruct (is_word c) eqn:E.
    + destruct (take_word l) as [w rest] eqn:Et. inversion H; subst.
      destruct (IH w r eq_refl) as [H1 [H2 H3]]. repeat split.
      * cbn. f_equal. exact H1.
      * constructor; [exact E| exact H2].
      * exact H3.
    + inversion H; subst. repeat split; [constructor| cbn; exact E].
Qed.

(* ------------------------------------------------------------------ suffixes *)
Lemma strip_suffix_app : forall suf body, strip_suffix suf (body ++ suf) = Some body.
Proof.
  intros. unfold strip_suffix. rewrite rev_app_distr, strip_prefix_app. cbn.
  rewrite rev_involutive. reflexivity.
Qed.

Lemma strip_suffix_inv : forall suf l body, strip_suffix suf l = Some body -> l = body ++ suf.
Proof.
  intros suf l body H. unfold strip_suffix in H.
  destruct (strip_prefix (rev suf) (rev l)) as [r|] eqn:E; [|discriminate].
  cbn in H. inversion H; subst. apply strip_prefix_inv in E.
  rewrite <- (rev_involutive l), E, rev_app_distr, rev_involutive. reflexivity.
Qed.

Lemma Forall_rev' : forall A (P : A -> Prop) l, Forall P l -> Forall P (rev l).
Proof. intros. apply Forall_rev. assumption. Qed.

Lemma rtrim_app : forall d w,
  Forall sp w -> (d = [] \/ ends_nonspace d) -> rtrim_ws (d ++ w) = d.
Proof.
  intros d w Hw Hd. unfold rtrim_ws. rewrite rev_app_distr.
  rewrite skip_ws_app; [|apply Forall_rev'; exact Hw].
  destruct Hd as [->|[x [c [-> Hc]]]]; [reflexivity|].
  rewrite rev_app_distr. cbn [rev app]. cbn [skip_ws]. rewrite Hc.
  cbn [rev]. rewrite rev_involutive. reflexivity.
Qed.

Lemma rtrim_inv : forall body,
  exists w, body = rtrim_ws body ++ w /\ Forall sp w /\
            (rtrim_ws body = [] \/ ends_nonspace (rtrim_ws body)).
Proof.
  intros body. unfold rtrim_ws. destruct (skip_ws_inv (rev body)) as [w [H1 [H2 H3]]].
  exists (rev w). repeat split.
  - rewrite <- rev_app_distr, <- H1, rev_involutive. reflexivity.
  - apply Forall_rev'. exact H2.
  - destruct (skip_ws (rev body)) as [|c r]; [left; reflexivity|].
    right. exists (rev r), c. split; [reflexivity| exact H3].
Qed.

(* ------------------------------------------------------------------ shapes *)
Record shape := {
  w1 : bytes; w2 : bytes; nm : bytes; w3 : bytes; has_pipe : bool;
  w4 : bytes; df : bytes; w5 : bytes }.

Definition pipe_s (b : bool) : bytes := if b then [pipe_c] else [].

Definition render (s : shape) : bytes :=
  open_s ++ w1 s ++ env_s ++ w2 s ++ nm s ++ w3 s ++ pipe_s (has_pipe s) ++ w4 s ++ df s ++ w5 s
  ++ close_s.

Definition shape_ok (s : shape) : Prop :=
  Forall sp (w1 s) /\ Forall sp (w2 s) /\ Forall sp (w3 s) /\ Forall sp (w4 s) /\ Forall sp (w5 s) /\
  Forall wd (nm s) /\ nm s <> [] /\
  (df s = [] \/ (no_nl (df s) /\ ends_nonspace (df s))).

(* the strings the pattern accepts *)
Definition shaped (l : bytes) : Prop := exists s, shape_ok s /\ l = render s.

(* the documented grammar: a default only after `|`, written without leading blanks *)
Definition doc_ok (s : shape) : Prop :=
  shape_ok s /\ (df s <> [] -> has_pipe s = true /\ starts_nonspace (df s)).

(* ------------------------------------------------------------------ tails
   Good x: x = d' w "}}" with d' newline-free and empty or ending in a non-space *)
Definition Good (x : bytes) : Prop :=
  exists d w, x = d ++ w ++ close_s /\ Forall sp w /\ no_nl d /\ (d = [] \/ ends_nonspace d).

Lemma no_nl_cons : forall c d, no_nl (c :: d) -> is_nl c = false /\ no_nl d.
Proof. intros c d H. unfold no_nl in *. cbn in H. apply orb_false_iff in H. exact H. Qed.

Lemma ends_nonspace_cons : forall c d, d <> [] -> ends_nonspace (c :: d) -> ends_nonspace d.
Proof.
  intros c d Hne [x [e [H He]]]. destruct x as [|x0 x].
  - cbn in H. inversion H; subst. congruence.
  - cbn in H. inversion H; subst. exists x, e. split; [reflexivity| exact He].
Qed.

Lemma ends_nonspace_single : forall c, ends_nonspace [c] -> is_space c = false.
Proof.
  intros c [x [e [H He]]]. destruct x as [|x0 x]; cbn in H.
  - inversion H; subst. exact He.
  - inversion H as [[H0 H1]]. destruct x; discriminate.
Qed.

Lemma close_not_space : starts_nonspace close_s.
Proof. reflexivity. Qed.

Lemma Good_intro : forall d w,
  Forall sp w -> no_nl d -> (d = [] \/ ends_nonspace d) -> Good (d ++ w ++ close_s).
Proof. intros d w H1 H2 H3. exists d, w. split; [reflexivity|]. split; [exact H1|]. split; assumption. Qed.

Lemma no_nl_nil : no_nl [].
Proof. reflexivity. Qed.

Lemma Good_skip : forall x, Good x -> Good (skip_ws x).
Proof.
  intros x [d [w [-> [Hw [Hn Hd]]]]]. induction d as [|c d IH].
  - cbn [app]. rewrite skip_ws_app; [|exact Hw]. rewrite skip_ws_id; [|exact close_not_space].
    apply (Good_intro [] []); [constructor| exact no_nl_nil| left; reflexivity].
  - cbn [app skip_ws]. destruct (is_space c) eqn:E.
    + destruct d as [|c2 d].
      * exfalso. destruct Hd as [Hd|Hd]; [discriminate|].
        apply ends_nonspace_single in Hd. congruence.
      * apply IH.
        -- apply no_nl_cons in Hn. apply Hn.
        -- right. destruct Hd as [Hd|Hd]; [discriminate|].
           apply (ends_nonspace_cons c); [discriminate| exact Hd].
    + apply (Good_intro (c :: d) w); assumption.
Qed.

Lemma Good_drop_pipe : forall x, Good x -> Good (drop_pipe x).
Proof.
  intros x [d [w [-> [Hw [Hn Hd]]]]]. destruct d as [|c d].
  - cbn [app]. assert (H : drop_pipe (w ++ close_s) = w ++ close_s).
    { destruct w as [|c w]; [reflexivity|]. cbn. inversion Hw as [|? ? Hc _]; subst.
      destruct (Ascii.eqb c pipe_c) eqn:E; [|reflexivity].
      apply Ascii.eqb_eq in E. subst c. unfold sp in Hc. cbn in Hc. discriminate. }
    rewrite H. apply (Good_intro [] w); [exact Hw| exact no_nl_nil| left; reflexivity].
  - cbn [app drop_pipe]. destruct (Ascii.eqb c pipe_c) eqn:E.
    + apply (Good_intro d w); [exact Hw| apply no_nl_cons in Hn; apply Hn|].
      destruct d as [|c2 d]; [left; reflexivity|]. right.
      destruct Hd as [Hd|Hd]; [discriminate|].
      apply (ends_nonspace_cons c); [discriminate| exact Hd].
    + apply (Good_intro (c :: d) w); assumption.
Qed.

Lemma Good_finish : forall x, Good x ->
  exists body, strip_suffix close_s x = Some body /\ existsb is_nl (rtrim_ws body) = false.
Proof.
  intros x [d [w [-> [Hw [Hn Hd]]]]]. exists (d ++ w). split.
  - rewrite app_assoc. apply strip_suffix_app.
  - rewrite (rtrim_app d w Hw Hd). exact Hn.
Qed.
