(* GenBuildProofs.v — lemmas about GenBuildModel: the boolean sweeps over the finite option
   spaces are lifted to quantified statements (forallb_forall + completeness of the
   enumerations), for ANY table (so that the per-run tie can instantiate them with the table
   regenerated from the current tree) and for the hand copies.                               *)
From Coq Require Import String List Bool Arith.
From GT Require Import GenBuildModel.
Import ListNotations.
Local Open Scope string_scope.

(* ---------------------------------------------------------------- generic helpers *)
Lemma mem_In : forall s l, mem s l = true <-> In s l.
Proof.
  intros s l. unfold mem. rewrite existsb_exists. split.
  - intros [x [Hin Heq]]. apply String.eqb_eq in Heq. subst. exact Hin.
  - intros Hin. exists s. split; [exact Hin | apply String.eqb_refl].
Qed.

Lemma mem_false_not_In : forall s l, mem s l = false -> ~ In s l.
Proof.
  intros s l H Hin. apply mem_In in Hin. rewrite Hin in H. discriminate.
Qed.

Lemma nodupb_NoDup : forall l, nodupb l = true -> NoDup l.
Proof.
  induction l as [|x r IH]; intros H.
  - constructor.
  - cbn [nodupb] in H. apply andb_true_iff in H. destruct H as [Hx Hr].
    constructor.
    + apply negb_true_iff in Hx. apply mem_false_not_In. exact Hx.
    + apply IH. exact Hr.
Qed.

(* Prop-level reading of sat_req *)
Definition provides (em : list (string * recv)) (r : req) : Prop :=
  exists rc, In (rq_name r, rc) em /\ rc <> RNone /\ (rq_value r = true -> rc = RValue).

Lemma sat_req_provides : forall em r, sat_req em r = true -> provides em r.
Proof.
  intros em r H. unfold sat_req in H. apply existsb_exists in H.
  destruct H as [[n rc] [Hin Hc]]. cbn [fst snd] in Hc.
  apply andb_true_iff in Hc. destruct Hc as [Hn Hr].
  apply String.eqb_eq in Hn. subst n. exists rc. split; [exact Hin|].
  destruct rc; cbn in Hr.
  - split; [discriminate | reflexivity].
  - split; [discriminate|]. intros Hv. rewrite Hv in Hr. discriminate.
  - discriminate.
Qed.

Lemma provides_sat_req : forall em r, provides em r -> sat_req em r = true.
Proof.
  intros em r [rc [Hin [Hne Hv]]]. unfold sat_req. apply existsb_exists.
  exists (rq_name r, rc). split; [exact Hin|]. cbn [fst snd]. rewrite String.eqb_refl. cbn.
  destruct rc.
  - reflexivity.
  - destruct (rq_value r); [specialize (Hv eq_refl); discriminate | reflexivity].
  - contradiction.
Qed.

Lemma missing_nil : forall em rs, missing em rs = [] -> forall r, In r rs -> sat_req em r = true.
Proof.
  intros em rs. unfold missing. induction rs as [|a rs IH]; intros H r Hin.
  - contradiction.
  - cbn [filter] in H. destruct (sat_req em a) eqn:Ea; cbn [negb] in H.
    + destruct Hin as [->|Hin]; [exact Ea | apply IH; assumption].
    + cbn [map] in H. discriminate.
Qed.

Lemma missing_In : forall em rs r, In r rs -> sat_req em r = false -> In (rq_name r) (missing em rs).
Proof.
  intros em rs r Hin Hs. unfold missing. apply in_map. apply filter_In. split; [exact Hin|].
  rewrite Hs. reflexivity.
Qed.

Lemma nil_match_true : forall (A : Type) (l : list A),
  (match l with [] => true | _ => false end) = true -> l = [].
Proof. intros A [|a l] H; [reflexivity | discriminate]. Qed.

Lemma strs_eqb_eq : forall a b, strs_eqb a b = true -> a = b.
Proof.
  induction a as [|x a IH]; intros [|y b] H; cbn in H; try discriminate; [reflexivity|].
  apply andb_true_iff in H. destruct H as [Hx Hr]. apply String.eqb_eq in Hx. subst y.
  f_equal. apply IH. exact Hr.
Qed.

(* Prop-level reading of sig_sat: a method with exactly the demanded signature is emitted *)
Definition emits_sig (tbl : list tfunc) (e : env) (s : sigreq) : Prop :=
  exists f, In f tbl /\ tf_emitted e f = true /\ tf_recv f <> RNone
            /\ tf_name f = sg_name s /\ tf_params f = sg_params s /\ tf_results f = sg_results s.

Lemma sig_sat_emits : forall tbl e s, sig_sat tbl e s = true -> emits_sig tbl e s.
Proof.
  intros tbl e s H. unfold sig_sat in H. apply existsb_exists in H. destruct H as [f [Hin H]].
  apply andb_true_iff in H. destruct H as [H Hr].
  apply andb_true_iff in H. destruct H as [H Hp].
  apply andb_true_iff in H. destruct H as [H Hn].
  apply andb_true_iff in H. destruct H as [He Hrc].
  exists f. split; [exact Hin|]. split; [exact He|]. split.
  - intros E. rewrite E in Hrc. discriminate.
  - split; [apply String.eqb_eq; exact Hn|]. split; apply strs_eqb_eq; assumption.
Qed.

Lemma forallb_sig_sat : forall tbl e ss, forallb (sig_sat tbl e) ss = true ->
  forall s, In s ss -> emits_sig tbl e s.
Proof.
  intros tbl e ss H s Hin. rewrite forallb_forall in H. apply sig_sat_emits. apply H. exact Hin.
Qed.

(* ---------------------------------------------------------------- enumerations are complete *)
Lemma bools_complete : forall b, In b bools.
Proof. intros []; cbn; auto. Qed.

Lemma all_genum_opts_complete : forall o, In o all_genum_opts.
Proof.
  intros [j y t c d p]. unfold all_genum_opts.
  apply in_flat_map. exists j. split; [apply bools_complete|].
  apply in_flat_map. exists y. split; [apply bools_complete|].
  apply in_flat_map. exists t. split; [apply bools_complete|].
  apply in_flat_map. exists c. split; [apply bools_complete|].
  apply in_flat_map. exists d. split; [apply bools_complete|].
  apply in_map_iff. exists p. split; [reflexivity | apply bools_complete].
Qed.

(* ---------------------------------------------------------------- genum, any table *)
Lemma genum_sweep_ok : forall T, genum_sweep T = true -> forall o, genum_ok T o = true.
Proof.
  intros T H o. unfold genum_sweep in H. rewrite forallb_forall in H.
  apply H. apply all_genum_opts_complete.
Qed.

Lemma genum_ok_parts : forall T o, genum_ok T o = true ->
  genum_missing T o = [] /\ nodupb (method_names (tt_genum T) (genum_env o)) = true
  /\ forallb (sig_sat (tt_genum T) (genum_env o)) (genum_sigs T o) = true.
Proof.
  intros T o H. unfold genum_ok in H.
  apply andb_true_iff in H. destruct H as [H Hs].
  apply andb_true_iff in H. destruct H as [H _].
  apply andb_true_iff in H. destruct H as [Hm Hn].
  apply nil_match_true in Hm. auto.
Qed.

Lemma genum_ok_methods : forall T o, genum_ok T o = true ->
  forall r, In r (genum_required (tt_enum T) (tt_typed T) o) ->
            provides (emitted (tt_genum T) (genum_env o)) r.
Proof.
  intros T o H r Hin. destruct (genum_ok_parts T o H) as [Hm _].
  apply sat_req_provides. exact (missing_nil _ _ Hm r Hin).
Qed.

Lemma genum_ok_nodup : forall T o, genum_ok T o = true ->
  NoDup (method_names (tt_genum T) (genum_env o)).
Proof.
  intros T o H. destruct (genum_ok_parts T o H) as [_ [Hn _]]. apply nodupb_NoDup. exact Hn.
Qed.

Lemma genum_ok_sigs : forall T o, genum_ok T o = true ->
  forall s, In s (genum_sigs T o) -> emits_sig (tt_genum T) (genum_env o) s.
Proof.
  intros T o H. destruct (genum_ok_parts T o H) as [_ [_ Hs]]. apply forallb_sig_sat. exact Hs.
Qed.

Definition genum_statement (T : tmpl_tables) (o : genum_opts) : Prop :=
  (forall r, In r (genum_required (tt_enum T) (tt_typed T) o) ->
             provides (emitted (tt_genum T) (genum_env o)) r)
  /\ NoDup (method_names (tt_genum T) (genum_env o))
  /\ (forall s, In s (genum_sigs T o) -> emits_sig (tt_genum T) (genum_env o) s).

Lemma genum_any_table : forall T, genum_sweep T = true -> forall o, genum_statement T o.
Proof.
  intros T H o. pose proof (genum_sweep_ok T H o) as Hok. split; [|split].
  - apply genum_ok_methods. exact Hok.
  - apply genum_ok_nodup. exact Hok.
  - apply genum_ok_sigs. exact Hok.
Qed.

(* ---------------------------------------------------------------- gerror, any table *)
Definition gerror_statement (T : tmpl_tables) (skip : bool) : Prop :=
  (forall r, In r (gerror_required T skip) -> provides (emitted (tt_gerror T) (gerror_env skip)) r)
  /\ (forall m, In m (tt_error T ++ tt_factory T) ->
        In m (map fst (emitted (tt_gerror T) (gerror_env skip))) \/ In m (tt_promoted T))
  /\ NoDup (method_names (tt_gerror T) (gerror_env skip))
  /\ (skip = true -> forall m, In m convert_methods ->
        ~ In m (may_emit (tt_gerror T) (gerror_env skip)))
  /\ (forall s, In s (gerror_sigs T skip) -> emits_sig (tt_gerror T) (gerror_env skip) s).

Lemma gerror_ok_statement : forall T skip, gerror_ok T skip = true -> gerror_statement T skip.
Proof.
  intros T skip H. unfold gerror_ok in H.
  apply andb_true_iff in H. destruct H as [H Hskip].
  apply andb_true_iff in H. destruct H as [H Hnd].
  apply andb_true_iff in H. destruct H as [H Himpl].
  apply andb_true_iff in H. destruct H as [H Hsig].
  apply andb_true_iff in H. destruct H as [Hm _].
  apply nil_match_true in Hm.
  split; [|split; [|split; [|split]]].
  - intros r Hin. apply sat_req_provides. exact (missing_nil _ _ Hm r Hin).
  - intros m Hin. unfold gerror_implements in Himpl. rewrite forallb_forall in Himpl.
    specialize (Himpl m Hin). apply orb_true_iff in Himpl.
    destruct Himpl as [Hi|Hi]; apply mem_In in Hi; [left | right]; exact Hi.
  - apply nodupb_NoDup. exact Hnd.
  - intros Hs m Hin. subst skip. rewrite forallb_forall in Hskip.
    specialize (Hskip m Hin). apply negb_true_iff in Hskip.
    apply mem_false_not_In. exact Hskip.
  - apply forallb_sig_sat. exact Hsig.
Qed.

Lemma gerror_any_table : forall T, gerror_sweep T = true -> forall skip, gerror_statement T skip.
Proof.
  intros T H skip. apply gerror_ok_statement. unfold gerror_sweep in H.
  rewrite forallb_forall in H. apply H. apply bools_complete.
Qed.

(* ---------------------------------------------------------------- gsort, any table *)
Definition gsort_statement (T : tmpl_tables) (p : bool) : Prop :=
  (forall r, In r sort_methods -> provides (emitted (tt_gsort T) (gsort_env p)) r)
  /\ NoDup (method_names (tt_gsort T) (gsort_env p))
  /\ (forall s, In s (gsort_sigs T) -> emits_sig (tt_gsort T) (gsort_env p) s).

Lemma gsort_any_table : forall T, gsort_sweep T = true -> forall p, gsort_statement T p.
Proof.
  intros T H p. unfold gsort_sweep in H. rewrite forallb_forall in H.
  specialize (H p (bools_complete p)). unfold gsort_ok in H.
  apply andb_true_iff in H. destruct H as [H Hs].
  apply andb_true_iff in H. destruct H as [H _].
  apply andb_true_iff in H. destruct H as [Hm Hn]. apply nil_match_true in Hm.
  split; [|split].
  - intros r Hin. apply sat_req_provides. exact (missing_nil _ _ Hm r Hin).
  - apply nodupb_NoDup. exact Hn.
  - apply forallb_sig_sat. exact Hs.
Qed.

(* ---------------------------------------------------------------- basic kinds, any table *)
Lemma kinds_any_table : forall e ks, kinds_sweep e ks = true ->
  forall k, In k ks -> bk_const k = true -> In (render e k) predeclared_go_types.
Proof.
  intros e ks H k Hin Hc. unfold kinds_sweep in H. rewrite forallb_forall in H.
  specialize (H k Hin). unfold kind_ok in H. rewrite Hc in H. cbn [negb orb] in H.
  apply mem_In. exact H.
Qed.

(* ---------------------------------------------------------------- the hand copies *)
Lemma hand_genum_sweep : genum_sweep hand_tables = true.
Proof. vm_compute. reflexivity. Qed.
Lemma hand_gerror_sweep : gerror_sweep hand_tables = true.
Proof. vm_compute. reflexivity. Qed.
Lemma hand_gsort_sweep : gsort_sweep hand_tables = true.
Proof. vm_compute. reflexivity. Qed.
Lemma hand_kinds_sweep : kinds_sweep hand_render hand_kinds = true.
Proof. vm_compute. reflexivity. Qed.

Lemma hand_genum : forall o, genum_statement hand_tables o.
Proof. exact (genum_any_table hand_tables hand_genum_sweep). Qed.

Lemma hand_genum_methods : forall o r,
  In r (genum_required iface_genum_Enum iface_genum_TypedEnum o) ->
  provides (emitted genum_funcs (genum_env o)) r.
Proof. intros o. exact (proj1 (hand_genum o)). Qed.

Lemma hand_genum_nodup : forall o, NoDup (method_names genum_funcs (genum_env o)).
Proof. intros o. exact (proj1 (proj2 (hand_genum o))). Qed.

Lemma hand_genum_sigs : forall o s, In s (genum_sigs hand_tables o) ->
  emits_sig genum_funcs (genum_env o) s.
Proof. intros o. exact (proj2 (proj2 (hand_genum o))). Qed.

Lemma hand_gerror : forall skip, gerror_statement hand_tables skip.
Proof. exact (gerror_any_table hand_tables hand_gerror_sweep). Qed.

Lemma hand_gsort : forall p, gsort_statement hand_tables p.
Proof. exact (gsort_any_table hand_tables hand_gsort_sweep). Qed.

Lemma hand_kinds_ok : forall k, In k hand_kinds -> bk_const k = true ->
  In (render hand_render k) predeclared_go_types.
Proof. exact (kinds_any_table hand_render hand_kinds hand_kinds_sweep). Qed.

Lemma any_tables : forall T,
  genum_sweep T = true -> gerror_sweep T = true -> gsort_sweep T = true ->
  (forall o, genum_statement T o) /\ (forall skip, gerror_statement T skip)
  /\ (forall p, gsort_statement T p).
Proof.
  intros T H1 H2 H3. split; [|split].
  - apply genum_any_table. exact H1.
  - apply gerror_any_table. exact H2.
  - apply gsort_any_table. exact H3.
Qed.

(* ---------------------------------------------------------------- the pinned tree: refuted *)
Definition yaml_off : genum_opts :=
  {| go_json := true; go_yaml := false; go_text := true; go_ci := false;
     go_disable_traits := false; go_parsable_some := false |}.

Lemma orig_genum_refuted :
  exists o, ~ (forall r, In r (genum_required iface_genum_Enum iface_genum_TypedEnum o) ->
                         provides (emitted genum_funcs_orig (genum_env o)) r).
Proof.
  exists yaml_off. intros H.
  assert (Hin : In (mk_req "IsEnum" true)
                   (genum_required iface_genum_Enum iface_genum_TypedEnum yaml_off)).
  { vm_compute. tauto. }
  apply H in Hin. apply provides_sat_req in Hin. vm_compute in Hin. discriminate.
Qed.

(* with -yaml on (the only setting the repository's tests generate with) nothing is missing *)
Lemma orig_genum_yaml_on : forall o, go_yaml o = true -> genum_ok orig_tables o = true.
Proof. intros [j y t c d p] H. cbn in H. subst y. destruct j, t, c, d, p; vm_compute; reflexivity. Qed.

Lemma orig_kinds_refuted :
  exists k, In k hand_kinds /\ bk_const k = true
            /\ ~ In (render orig_render k) predeclared_go_types.
Proof.
  exists (mk_bkind "UntypedFloat" "untyped float" "float64" true true).
  split; [vm_compute; tauto|]. split; [reflexivity|].
  apply mem_false_not_In. vm_compute. reflexivity.
Qed.

(* ---------------------------------------------------------------- prediction *)
Lemma predict_built_genum : forall T ks r c,
  gc_tool c = TGenum -> predict T ks r c = PBuilt ->
  genum_ok T (genum_opts_of c) = true
  /\ (go_disable_traits (genum_opts_of c) = false ->
      forall n, In n (gc_kinds c) -> exists k, find_kind ks n = Some k /\ kind_ok r k = true).
Proof.
  intros T ks r c Ht Hp. unfold predict in Hp.
  destruct (gc_fallback c); [discriminate|]. rewrite Ht in Hp.
  set (o := genum_opts_of c) in *.
  destruct (negb (go_disable_traits o) && has_any (eff_shapes c) err_shapes); [discriminate|].
  destruct (go_ci o && mem "ci_collision" (eff_shapes c)); [discriminate|].
  destruct (negb (go_disable_traits o) && has_any (gc_shapes c) c12_shapes); [discriminate|].
  destruct (has_any (gc_shapes c) scoped_shapes); [discriminate|].
  destruct (genum_ok T o) eqn:Eok; cbn [negb] in Hp; [|discriminate].
  split; [reflexivity|]. intros Hd n Hin. rewrite Hd in Hp. cbn [negb andb] in Hp.
  destruct (forallb _ (gc_kinds c)) eqn:Ek; cbn [negb] in Hp; [|discriminate].
  rewrite forallb_forall in Ek. specialize (Ek n Hin).
  destruct (find_kind ks n) as [k|]; [|discriminate]. exists k. split; [reflexivity | exact Ek].
Qed.

(* ---------------------------------------------------------------- import activation *)
Local Open Scope list_scope.
(* induction principle for the nested type of Go types *)
Fixpoint gty_ind2 (P : gty -> Prop)
  (Hb : forall k, P (TyBasic k)) (Hp : forall t, P t -> P (TyPtr t))
  (Hs : forall t, P t -> P (TySlice t)) (Ha : forall n t, P t -> P (TyArray n t))
  (Hm : forall k v, P k -> P v -> P (TyMap k v))
  (Hn : forall pkg name args, Forall P args -> P (TyNamed pkg name args))
  (Ho : forall s, P (TyOther s)) (t : gty) {struct t} : P t :=
  let rec := gty_ind2 P Hb Hp Hs Ha Hm Hn Ho in
  match t with
  | TyBasic k => Hb k
  | TyPtr t1 => Hp t1 (rec t1)
  | TySlice t1 => Hs t1 (rec t1)
  | TyArray n t1 => Ha n t1 (rec t1)
  | TyMap k v => Hm k v (rec k) (rec v)
  | TyNamed pkg name args =>
      Hn pkg name args
         ((fix go (ts : list gty) : Forall P ts :=
             match ts with
             | [] => Forall_nil P
             | a :: rest => Forall_cons a (rec a) (go rest)
             end) args)
  | TyOther s => Ho s
  end.

Lemma mark_in_use_some : forall path l a l', mark_in_use path l = Some (a, l') ->
  In path (active_paths l') /\ (forall q, In q (active_paths l) -> In q (active_paths l')).
Proof.
  intros path l. induction l as [|d rest IH]; intros a l' H; cbn [mark_in_use] in H.
  - discriminate.
  - destruct (String.eqb (id_path d) path) eqn:E.
    + inversion H; subst; clear H. apply String.eqb_eq in E. split.
      * unfold active_paths, get_active. cbn. left. exact E.
      * intros q Hq. unfold active_paths, get_active in *. cbn [filter id_in_use].
        destruct (id_in_use d) eqn:Eu; cbn [filter] in Hq; rewrite ?Eu in Hq.
        -- cbn in Hq. cbn. exact Hq.
        -- cbn. right. exact Hq.
    + destruct (mark_in_use path rest) as [[a0 rest']|] eqn:Em; [|discriminate].
      inversion H; subst; clear H. destruct (IH a rest' eq_refl) as [Hin Hmono]. split.
      * unfold active_paths, get_active in *. cbn [filter].
        destruct (id_in_use d); cbn; [right|]; exact Hin.
      * intros q Hq. unfold active_paths, get_active in *. cbn [filter] in *.
        destruct (id_in_use d); cbn in *.
        -- destruct Hq as [Hq|Hq]; [left; exact Hq | right; apply Hmono; exact Hq].
        -- apply Hmono; exact Hq.
Qed.

Lemma active_paths_app : forall l d, id_in_use d = true ->
  active_paths (l ++ [d]) = active_paths l ++ [id_path d].
Proof.
  intros l d H. unfold active_paths, get_active. rewrite filter_app, map_app. cbn. rewrite H.
  reflexivity.
Qed.

Lemma add_named_mono : forall own pkg l q,
  In q (active_paths l) -> In q (active_paths (snd (add_named own pkg l))).
Proof.
  intros own pkg l q H. unfold add_named. destruct pkg as [[path pname]|]; [|exact H].
  destruct (String.eqb path own); [exact H|].
  destruct (mark_in_use path l) as [[a l']|] eqn:Em; cbn [snd].
  - apply (proj2 (mark_in_use_some _ _ _ _ Em)). exact H.
  - rewrite active_paths_app by reflexivity. apply in_or_app. left. exact H.
Qed.

Lemma add_named_active : forall own pkg l p,
  In p (foreign own pkg) -> In p (active_paths (snd (add_named own pkg l))).
Proof.
  intros own pkg l p H. unfold foreign in H. unfold add_named.
  destruct pkg as [[path pname]|]; [|contradiction].
  destruct (String.eqb path own); [contradiction|].
  destruct H as [H|[]]. subst p.
  destruct (mark_in_use path l) as [[a l']|] eqn:Em; cbn [snd].
  - exact (proj1 (mark_in_use_some _ _ _ _ Em)).
  - rewrite active_paths_app by reflexivity. apply in_or_app. right. cbn. left. reflexivity.
Qed.

Definition mono_on (f : gty -> ihandler -> string * ihandler) (t : gty) : Prop :=
  forall l q, In q (active_paths l) -> In q (active_paths (snd (f t l))).

Lemma thread_mono : forall f ts, Forall (mono_on f) ts ->
  forall l q, In q (active_paths l) -> In q (active_paths (snd (thread f ts l))).
Proof.
  intros f ts H. induction H as [|a rest Ha Hrest IH]; intros l q Hq; cbn [thread].
  - exact Hq.
  - destruct (f a l) as [s l1] eqn:E1. destruct (thread f rest l1) as [ss l2] eqn:E2. cbn [snd].
    change l2 with (snd (ss, l2)). rewrite <- E2. apply IH.
    change l1 with (snd (s, l1)). rewrite <- E1. apply Ha. exact Hq.
Qed.

Lemma extract_ref_mono : forall own r t, mono_on (extract_ref own r) t.
Proof.
  intros own r t. induction t using gty_ind2; unfold mono_on in *; intros l q Hq;
    cbn [extract_ref].
  - exact Hq.
  - destruct (extract_ref own r t l) as [s l1] eqn:E. cbn [snd].
    change l1 with (snd (s, l1)). rewrite <- E. apply IHt. exact Hq.
  - destruct (extract_ref own r t l) as [s l1] eqn:E. cbn [snd].
    change l1 with (snd (s, l1)). rewrite <- E. apply IHt. exact Hq.
  - destruct (extract_ref own r t l) as [s l1] eqn:E. cbn [snd].
    change l1 with (snd (s, l1)). rewrite <- E. apply IHt. exact Hq.
  - destruct (extract_ref own r t1 l) as [sk l1] eqn:E1.
    destruct (extract_ref own r t2 l1) as [sv l2] eqn:E2. cbn [snd].
    change l2 with (snd (sv, l2)). rewrite <- E2. apply IHt2.
    change l1 with (snd (sk, l1)). rewrite <- E1. apply IHt1. exact Hq.
  - destruct (add_named own pkg l) as [qq l1] eqn:E1.
    destruct (thread (extract_ref own r) args l1) as [ss l2] eqn:E2. cbn [snd].
    change l2 with (snd (ss, l2)). rewrite <- E2. apply thread_mono; [exact H|].
    change l1 with (snd (qq, l1)). rewrite <- E1. apply add_named_mono. exact Hq.
  - exact Hq.
Qed.

Definition covers_on (own : string) (f : gty -> ihandler -> string * ihandler) (t : gty) : Prop :=
  forall l p, In p (mentions own t) -> In p (active_paths (snd (f t l))).

Lemma thread_covers : forall own f ts,
  Forall (mono_on f) ts -> Forall (covers_on own f) ts ->
  forall l p, In p (flat_map (mentions own) ts) -> In p (active_paths (snd (thread f ts l))).
Proof.
  intros own f ts Hm Hc. induction Hc as [|a rest Ha Hrest IH]; intros l p Hp; cbn [flat_map] in Hp.
  - contradiction.
  - inversion Hm as [|a' rest' Hma Hmrest]; subst. cbn [thread].
    destruct (f a l) as [s l1] eqn:E1. destruct (thread f rest l1) as [ss l2] eqn:E2. cbn [snd].
    change l2 with (snd (ss, l2)). rewrite <- E2.
    apply in_app_or in Hp. destruct Hp as [Hp|Hp].
    + apply thread_mono; [exact Hmrest|]. change l1 with (snd (s, l1)). rewrite <- E1.
      apply Ha. exact Hp.
    + apply IH; assumption.
Qed.

Lemma Forall_all : forall (A : Type) (P : A -> Prop) (l : list A), (forall x, P x) -> Forall P l.
Proof. intros A P l H. induction l; constructor; auto. Qed.

(* after rendering a type, the import of every foreign package it mentions is active *)
Lemma extract_ref_covers : forall own r t l p,
  In p (mentions own t) -> In p (active_paths (snd (extract_ref own r t l))).
Proof.
  intros own r t. induction t using gty_ind2; intros l p Hp; cbn [mentions] in Hp;
    cbn [extract_ref]; try contradiction.
  - destruct (extract_ref own r t l) as [s l1] eqn:E. cbn [snd].
    change l1 with (snd (s, l1)). rewrite <- E. apply IHt. exact Hp.
  - destruct (extract_ref own r t l) as [s l1] eqn:E. cbn [snd].
    change l1 with (snd (s, l1)). rewrite <- E. apply IHt. exact Hp.
  - destruct (extract_ref own r t l) as [s l1] eqn:E. cbn [snd].
    change l1 with (snd (s, l1)). rewrite <- E. apply IHt. exact Hp.
  - destruct (extract_ref own r t1 l) as [sk l1] eqn:E1.
    destruct (extract_ref own r t2 l1) as [sv l2] eqn:E2. cbn [snd].
    change l2 with (snd (sv, l2)). rewrite <- E2.
    apply in_app_or in Hp. destruct Hp as [Hp|Hp].
    + apply extract_ref_mono. change l1 with (snd (sk, l1)). rewrite <- E1. apply IHt1. exact Hp.
    + apply IHt2. exact Hp.
  - destruct (add_named own pkg l) as [qq l1] eqn:E1.
    destruct (thread (extract_ref own r) args l1) as [ss l2] eqn:E2. cbn [snd].
    change l2 with (snd (ss, l2)). rewrite <- E2.
    apply in_app_or in Hp. destruct Hp as [Hp|Hp].
    + apply thread_mono; [apply Forall_all; intros x; apply extract_ref_mono|].
      change l1 with (snd (qq, l1)). rewrite <- E1. apply add_named_active. exact Hp.
    + apply (thread_covers own); [apply Forall_all; intros x; apply extract_ref_mono | | exact Hp].
      exact H.
Qed.

(* rendering further types never deactivates an import: all references of one generated file *)
Lemma extract_all_covers : forall own r ts l p,
  In p (flat_map (mentions own) ts) ->
  In p (active_paths (snd (thread (extract_ref own r) ts l))).
Proof.
  intros own r ts l p H. apply (thread_covers own); [| | exact H]; apply Forall_all; intros x.
  - apply extract_ref_mono.
  - unfold covers_on. intros l0 p0. apply extract_ref_covers.
Qed.

(* ---------------------------------------------------------------- the formatting fallback *)
From GT Require Import Base.Verdict GenBuildJudge.

(* a run in which gencommon.Write took its formatting fallback is never judged clean: either the
   observation is ObsBad (a failing input) or it differs from the model (which predicts ObsBad) *)
Lemma fallback_flagged : forall T ks r c, gc_fallback c = true -> gb_judge T ks r c <> 0.
Proof.
  intros T ks r c Hf. unfold gb_judge, verdict, spec_ok, model_eq, predict. rewrite Hf.
  destruct (gc_obs c); cbn; discriminate.
Qed.

(* ... and is a violation of the property exactly when the farm saw no error report and no
   gofmt-clean building package *)
Lemma fallback_violation : forall T ks r c, gc_fallback c = true ->
  (gb_judge T ks r c = 1 <-> gc_obs c = ObsBad).
Proof.
  intros T ks r c Hf. unfold gb_judge, verdict, spec_ok, model_eq, predict. rewrite Hf.
  destruct (gc_obs c); cbn; split; intros H; try discriminate; try reflexivity.
Qed.

(* ---------------------------------------------------------------- scope check of the bodies *)
Lemma uses_ok_spec : forall tbl promoted uses e,
  uses_ok tbl promoted uses e = true ->
  forall u, In u uses -> use_possible e u = true -> use_declared tbl promoted e u = true.
Proof.
  intros tbl promoted uses e H u Hu Hp. unfold uses_ok in H.
  rewrite forallb_forall in H. specialize (H u Hu). rewrite Hp in H. exact H.
Qed.

Theorem uses_declared_any_table : forall T ug ue us,
  uses_sweep T ug ue us = true ->
  (forall o u, In u ug -> use_possible (genum_env o) u = true ->
               use_declared (tt_genum T) [] (genum_env o) u = true)
  /\ (forall skip u, In u ue -> use_possible (gerror_env skip) u = true ->
                     use_declared (tt_gerror T) (tt_promoted T) (gerror_env skip) u = true)
  /\ (forall u, In u us -> use_possible (fun _ => false) u = true ->
                use_declared (tt_gsort T) [] (fun _ => false) u = true).
Proof.
  intros T ug ue us H. unfold uses_sweep in H.
  apply andb_prop in H. destruct H as [H Hs]. apply andb_prop in H. destruct H as [Hg He].
  rewrite forallb_forall in Hg, He. repeat split.
  - intros o u Hu Hp. apply (uses_ok_spec _ _ ug); [|exact Hu|exact Hp].
    apply Hg. apply all_genum_opts_complete.
  - intros skip u Hu Hp. apply (uses_ok_spec _ _ ue); [|exact Hu|exact Hp].
    apply He. apply bools_complete.
  - intros u Hu Hp. exact (uses_ok_spec _ _ us _ Hs u Hu Hp).
Qed.
