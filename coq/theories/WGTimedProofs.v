(* WGTimedProofs.v — WaitTimeout / WaitCTX (WGTimed.v) on the memories the wait group can reach *)
From Coq Require Import List Arith ZArith Bool Lia.
From GT Require Import Base.Conc.
From GT Require Import WGModel WGSpec WGInv WGProofs WGTimed.
Import ListNotations.
Local Open Scope Z_scope.

(* in every reachable configuration with a non-zero count, a WaitTimeout / WaitCTX whose deadline
   is k attempts away and that runs while the other goroutines stand still returns the deadline's
   error, at the deadline: k + 2 schedulings (one load, k + 1 attempts of the select) *)
Lemma timed_positive_count : forall progs sched k bits,
  let cf := wg_exec progs sched in
  cnt (sh cf) <> 0 -> length bits = (k + 2)%nat ->
  tw_run (TW0 k) (map (fun b => (sh cf, b)) bits) = Some (TDeadline, (k + 2)%nat).
Proof.
  intros progs sched k bits cf Hc Hl. apply tw_open_times_out; [|exact Hl].
  apply (proj2 (sentinel_iff_zero _ (Inv_exec progs sched))). exact Hc.
Qed.

(* and with count zero it returns nil at its first attempt *)
Lemma timed_zero_count : forall progs sched k b0 b1 rest,
  let cf := wg_exec progs sched in
  cnt (sh cf) = 0 ->
  tw_run (TW0 (S k)) ((sh cf, b0) :: (sh cf, b1) :: rest) = Some (TNil, 2%nat).
Proof.
  intros progs sched k b0 b1 rest cf Hc. apply tw_closed_returns_nil.
  pose proof (Inv_exec progs sched) as HI. fold cf in HI.
  assert (E : chn (sh cf) = 0%nat) by (apply (i_sent _ HI); exact Hc).
  rewrite E. exact (i_cl0 _ HI).
Qed.
