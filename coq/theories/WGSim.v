(* WGSim.v — the SEMANTIC translator tie of gsync (replaces `gen_prog = hand_prog := eq_refl`).

   harness/cmd/xlate_conc -ir2 re-states Add / Wait / Count of gsync/selectable_wait_group.go
   and every helper they call as a term [p : prog2] of Base/ConcIR2.v, together with the
   canonical site table [sm].  [dwg2_exec p sm] is the machine that term denotes over the
   memory interface [wg_mem] of WGDenote.v.

   [wg_sim_ok p sm] is a finite CHECK-LIST about single micro-steps of that denotation, stated
   with universally quantified symbolic inputs:

       (entry)   calling Add(d) parks in front of a state.Load              -> pc A0
       (o1)      from an A0 location, on any memory, the step leaves the memory alone and parks
                 at the A1 location of the triple (ver, cnt, chn) it loaded
       (o2)      from an A1 location the step does, on any memory, exactly what the machine's
                 compare-and-swap step does: fails -> an A0 location; installs the pair, and
                 returns the new count / goes on to the A2 location (close pending)
       (o3)      from an A2 location: close, or panic on a closed channel, return the count
       (w), (c)  Wait / Count: one load, return the channel / the count
       (sites)   the canonical sites of these locations are 100, 101, 102, 200, 300

   Locations of the denotation (environment + continuation) are not described syntactically:
   they are COMPUTED from p by running the denotation itself on symbolic memories ([a0], [a1],
   [b0], [b1] below), so renamed locals, helpers, other loop forms, extra temporaries only
   change terms that nobody looks at.  Code in which a failed compare-and-swap leaves stale
   locals behind (do-while forms) has a second family of A0/A1 locations, indexed by the triple
   of the failed round ("junk"); the check-list is stated for the family and both the junk-free
   ([chk0]) and the one-level family ([chk1]) imply the theorem.

   [wg_sim]: wg_sim_ok p sm -> for every client program and schedule, dwg2_exec p sm and the
   machine wg_exec of the theorems have the same memory and the same trace.  The check proves
   wg_sim_ok for the regenerated term on every run (tactic [wg_sim_tac]: symbolic evaluation
   innermost first, case split on every undecided condition, lia for the leaves), so C01 / C02
   are theorems about what the source says today.  A source whose shared-memory behaviour
   differs cannot pass: the statement is a proof obligation, not a heuristic.               *)
From Coq Require Import List String ZArith Bool Arith Lia.
From GT Require Import Base.Conc.
From GT Require Import Base.ConcFacts.
From GT Require Import Base.ConcIR.
From GT Require Import Base.ConcIR2.
From GT Require Import WGModel WGSpec WGDenote.
Import ListNotations.
Local Open Scope string_scope.
Local Open Scope list_scope.
Local Open Scope Z_scope.

(* the receiver is passed as the first argument of a method; it has no value of its own *)
Definition call_entry2 (c : call) : string * list value :=
  match c with
  | CAdd d => ("Add", [VUnit; VInt d])
  | CWait => ("Wait", [VUnit])
  | CCount => ("Count", [VUnit])
  end.

Definition stuck2 : dloc2 := DLoc2 [] [KStmt (TOther None "stuck")].

Definition lo (o : shared * outcome2) : dloc2 :=
  match snd o with OPark2 l => l | _ => stuck2 end.

Section Sim2.
  Variable p : prog2.
  Variable sm : sitemap.

  Definition d2_begin (c : call) : dloc2 :=
    match find_func2 (fst (call_entry2 c)) p with
    | Some f => match dbegin2 shared wg_mem p f (snd (call_entry2 c)) wg_init with
                | OPark2 l => l | _ => stuck2 end
    | None => stuck2
    end.

  Definition DS2 (l : dloc2) (s : shared) : shared * outcome2 := dstep2 shared wg_mem p l s.

  Definition d2_mstep (c : call) (l : dloc2) (s : shared) : shared * (dloc2 + ret) :=
    match DS2 l s with
    | (s', OPark2 l') => (s', inl l')
    | (s', ORet2 [v]) => (s', inr (ret_of v))
    | (s', _) => (s', inr RPanic)
    end.

  Definition d2_site (c : call) (l : dloc2) : nat :=
    canon_site sm (fst (call_entry2 c)) (dsite2 l).

  Definition dwg2_exec (progs : list (list call)) (sched : list nat)
    : config shared dloc2 call ret obs :=
    exec d2_begin d2_mstep wg_fatal wg_observe d2_site wg_init progs sched.

  (* ------------------------------------------------------------ computed locations *)
  Definition mk (ov : nat) (oc : Z) (och : nat) : shared := Shared ov oc och [] 0.

  Definition a0 (d : Z) : dloc2 := d2_begin (CAdd d).
  Definition a1 (d : Z) (ov : nat) (oc : Z) (och : nat) : dloc2 := lo (DS2 (a0 d) (mk ov oc och)).
  (* after a failed compare-and-swap of the round that had loaded (jv, jc, jh) *)
  Definition b0 (d : Z) (jv : nat) (jc : Z) (jh : nat) : dloc2 :=
    lo (DS2 (a1 d jv jc jh) (mk (S jv) 0 0%nat)).
  Definition b1 (d : Z) (jv : nat) (jc : Z) (jh : nat) (ov : nat) (oc : Z) (och : nat) : dloc2 :=
    lo (DS2 (b0 d jv jc jh) (mk ov oc och)).

  Inductive junk := J0 | J1 (jv : nat) (jc : Z) (jh : nat).

  Definition fA0 (d : Z) (j : junk) : dloc2 :=
    match j with J0 => a0 d | J1 jv jc jh => b0 d jv jc jh end.
  Definition fA1 (d : Z) (j : junk) (ov : nat) (oc : Z) (och : nat) : dloc2 :=
    match j with J0 => a1 d ov oc och | J1 jv jc jh => b1 d jv jc jh ov oc och end.

  (* ------------------------------------------------------------ the check-list *)
  Section Check.
    Variable J : Type.
    Variable j0 : J.                          (* index of the entry location *)
    Variable jf : nat -> Z -> nat -> J.       (* index after a failed round *)
    Variable F0 : Z -> J -> dloc2.
    Variable F1 : Z -> J -> nat -> Z -> nat -> dloc2.

    Definition F2 (d : Z) (j : J) (ov : nat) (oc : Z) (x : nat) : dloc2 :=
      lo (DS2 (F1 d j ov oc x) (mk ov oc x)).

    (* the machine's step result, as an outcome of the denotation *)
    Definition emb (d : Z) (j : J) (ov : nat) (oc : Z) (och : nat) (o : shared * (loc + ret))
      : shared * outcome2 :=
      (fst o,
       match snd o with
       | inl A0 => OPark2 (F0 d (jf ov oc och))
       | inl (A2 _ _) => OPark2 (F2 d j ov oc och)
       | inl _ => OStuck2
       | inr (RInt n) => ORet2 [VInt n]
       | inr (RChan x) => ORet2 [VChan (Some x)]
       | inr RPanic => OPanic2
       end).

    Record checklist : Prop := {
      ck_b : forall d, F0 d j0 = d2_begin (CAdd d);
      ck_s0 : forall d j, d2_site (CAdd d) (F0 d j) = 100%nat;
      ck_s1 : forall d j ov oc och, d2_site (CAdd d) (F1 d j ov oc och) = 101%nat;
      ck_s2 : forall d j ov oc x, oc + d = 0 -> x <> 0%nat ->
                d2_site (CAdd d) (F2 d j ov oc x) = 102%nat;
      ck_o1 : forall d j v n ch cl nx,
                DS2 (F0 d j) (Shared v n ch cl nx) =
                (Shared v n ch cl nx, OPark2 (F1 d j v n ch));
      ck_o2 : forall d j ov oc och v n ch cl nx,
                DS2 (F1 d j ov oc och) (Shared v n ch cl nx) =
                emb d j ov oc och (wg_mstep (CAdd d) (A1 ov oc och) (Shared v n ch cl nx));
      ck_o3 : forall d j ov oc x v n ch cl nx, oc + d = 0 -> x <> 0%nat ->
                DS2 (F2 d j ov oc x) (Shared v n ch cl nx) =
                emb d j ov oc x (wg_mstep (CAdd d) (A2 x (oc + d)) (Shared v n ch cl nx));
      ck_sw : d2_site CWait (d2_begin CWait) = 200%nat;
      ck_w : forall v n ch cl nx,
                DS2 (d2_begin CWait) (Shared v n ch cl nx) =
                (Shared v n ch cl nx, ORet2 [VChan (Some ch)]);
      ck_sc : d2_site CCount (d2_begin CCount) = 300%nat;
      ck_c : forall v n ch cl nx,
                DS2 (d2_begin CCount) (Shared v n ch cl nx) =
                (Shared v n ch cl nx, ORet2 [VInt n])
    }.

    Hypothesis CK : checklist.

    Definition R2 (c : call) (l : loc) (dl : dloc2) : Prop :=
      match c, l with
      | CAdd d, A0 => exists j, dl = F0 d j
      | CAdd d, A1 ov oc och => exists j, dl = F1 d j ov oc och
      | CAdd d, A2 x n => exists j ov oc, n = oc + d /\ oc + d = 0 /\ x <> 0%nat /\ dl = F2 d j ov oc x
      | CWait, W0 => dl = d2_begin CWait
      | CCount, C0 => dl = d2_begin CCount
      | _, _ => False
      end.

    Lemma R2_begin : forall c, R2 c (wg_begin c) (d2_begin c).
    Proof.
      intros [d| |]; simpl; try reflexivity. exists j0. symmetry. apply (ck_b CK).
    Qed.

    Lemma R2_site : forall c l dl, R2 c l dl -> wg_site c l = d2_site c dl.
    Proof.
      intros c l dl H. destruct c as [d| |]; destruct l as [|ov oc och|x n| |]; simpl in H;
        try contradiction.
      - destruct H as (j & ->). symmetry. apply (ck_s0 CK).
      - destruct H as (j & ->). symmetry. apply (ck_s1 CK).
      - destruct H as (j & ov & oc & _ & Hz & Hx & ->). symmetry. apply (ck_s2 CK); assumption.
      - subst dl. symmetry. apply (ck_sw CK).
      - subst dl. symmetry. apply (ck_sc CK).
    Qed.

    Lemma R2_step : forall c l dl s, R2 c l dl ->
      step_rel shared loc dloc2 call ret R2 c (wg_mstep c l s) (d2_mstep c dl s).
    Proof.
      intros c l dl [v n ch cl nx] H.
      destruct c as [d| |]; destruct l as [|ov oc och|x n0| |]; simpl in H; try contradiction.
      - (* load *)
        destruct H as (j & ->). unfold d2_mstep. rewrite (ck_o1 CK). unfold step_rel. simpl.
        split; [reflexivity|]. exists j. reflexivity.
      - (* compare-and-swap *)
        destruct H as (j & ->). unfold d2_mstep. rewrite (ck_o2 CK). unfold emb, step_rel.
        unfold wg_mstep. cbn [ver cnt chn closed nextc].
        destruct (Nat.eqb v ov) eqn:Ev; cbn [fst snd].
        + destruct (Z.eqb (oc + d) 0) eqn:Ez; cbn [fst snd].
          * destruct (Nat.eqb och 0) eqn:Eh; cbn [fst snd].
            -- split; reflexivity.
            -- split; [reflexivity|]. exists j, ov, oc.
               apply Z.eqb_eq in Ez. apply Nat.eqb_neq in Eh. repeat split; auto.
          * destruct (Nat.eqb och 0); cbn [fst snd]; split; reflexivity.
        + split; [reflexivity|]. eexists. reflexivity.
      - (* close *)
        destruct H as (j & ov & oc & -> & Hz & Hx & ->). unfold d2_mstep.
        rewrite (ck_o3 CK) by assumption. unfold emb, step_rel, wg_mstep.
        cbn [ver cnt chn closed nextc].
        destruct (memb x cl); cbn [fst snd]; split; reflexivity.
      - subst dl. unfold d2_mstep. rewrite (ck_w CK). unfold step_rel. simpl. split; reflexivity.
      - subst dl. unfold d2_mstep. rewrite (ck_c CK). unfold step_rel. simpl. split; reflexivity.
    Qed.

    Theorem sim_of_checklist : forall progs sched,
      sh (dwg2_exec progs sched) = sh (wg_exec progs sched) /\
      tr (dwg2_exec progs sched) = tr (wg_exec progs sched).
    Proof.
      intros progs sched.
      destruct (sim_exec shared loc dloc2 call ret obs wg_begin d2_begin wg_mstep d2_mstep wg_fatal
                  wg_observe wg_site d2_site R2 R2_begin R2_site R2_step wg_init progs sched)
        as (H1 & H2 & _).
      split; symmetry; assumption.
    Qed.
  End Check.

  (* junk-free: a failed round leaves nothing behind *)
  Definition chk0 : Prop :=
    checklist unit tt (fun _ _ _ => tt) (fun d _ => a0 d) (fun d _ ov oc och => a1 d ov oc och).
  (* one level: the locals of the failed round are still around *)
  Definition chk1 : Prop := checklist junk J0 J1 fA0 fA1.

  Definition wg_sim_ok : Prop := chk0 \/ chk1.

  Theorem wg_sim : wg_sim_ok -> forall progs sched,
    sh (dwg2_exec progs sched) = sh (wg_exec progs sched) /\
    tr (dwg2_exec progs sched) = tr (wg_exec progs sched).
  Proof.
    intros [H|H]; eapply sim_of_checklist; exact H.
  Qed.
End Sim2.

(* ---------------------------------------------------------------- the tactic *)
Ltac wg_arith_red t :=
  eval lazy -[Z.add Z.sub Z.eqb Z.ltb Z.leb Z.opp Z.mul Nat.eqb memb] in t.

Ltac ev_begin :=
  repeat match goal with
  | |- context [d2_begin ?p ?c] =>
      let t := constr:(d2_begin p c) in
      let t' := wg_arith_red t in
      change t with t'
  end.
Ltac ev_step :=
  match goal with
  | |- context [DS2 ?p (DLoc2 ?en ?k) (Shared ?a ?b ?c ?e ?f)] =>
      let t := constr:(DS2 p (DLoc2 en k) (Shared a b c e f)) in
      let t' := wg_arith_red t in
      change t with t'
  end.
Ltac ev_wrap :=
  cbv beta iota zeta delta [lo snd fst mk ver cnt chn closed nextc fA0 fA1 F2 a0 a1 b0 b1].
Ltac mach_wrap := cbv beta iota zeta delta [wg_mstep ver cnt chn closed nextc].
Ltac b2p :=
  repeat match goal with
  | H : (_ =? _)%Z = true |- _ => apply Z.eqb_eq in H
  | H : (_ =? _)%Z = false |- _ => apply Z.eqb_neq in H
  | H : (_ =? _)%nat = true |- _ => apply Nat.eqb_eq in H
  | H : (_ =? _)%nat = false |- _ => apply Nat.eqb_neq in H
  | H : (_ <? _)%Z = true |- _ => apply Z.ltb_lt in H
  | H : (_ <? _)%Z = false |- _ => apply Z.ltb_ge in H
  | H : (_ <=? _)%Z = true |- _ => apply Z.leb_le in H
  | H : (_ <=? _)%Z = false |- _ => apply Z.leb_gt in H
  | H : memb _ [] = true |- _ => discriminate H
  end.
Ltac absurd_tac := exfalso; b2p; first [lia | congruence].
Ltac if_tac :=
  match goal with
  | |- context [if ?b then _ else _] =>
      lazymatch b with
      | context [if _ then _ else _] => fail
      | _ => idtac
      end;
      let E := fresh "E" in destruct b eqn:E; try solve [absurd_tac]
  end.
Ltac ev := ev_wrap; ev_begin; repeat first [ progress ev_step; ev_wrap | if_tac; ev_wrap; ev_begin ].
Ltac mach := mach_wrap; repeat (if_tac; mach_wrap); cbv beta iota zeta delta [emb fst snd].
Ltac fin := first [ reflexivity | solve [absurd_tac] | solve [repeat f_equal; b2p; lia] ].
Ltac site_red := cbv beta iota zeta delta [d2_site call_entry2 fst snd]; ev;
                 try (let t := lazymatch goal with |- ?l = _ => l end in
                      let t' := eval vm_compute in t in change t with t').

(* Wait and Count first: they are cheap, and a source that fails there fails fast *)
Ltac wg_checklist_tac dj :=
  constructor;
  [ idtac | idtac | idtac | idtac | idtac | idtac | idtac
  | (* ck_sw *) site_red; fin
  | (* ck_w *) intros; ev; fin
  | (* ck_sc *) site_red; fin
  | (* ck_c *) intros; ev; fin ];
  [ (* ck_b *) intros; reflexivity
  | (* ck_s0 *) intros d j; dj j; site_red; fin
  | (* ck_s1 *) intros d j ov oc och; dj j; site_red; fin
  | (* ck_s2 *) intros d j ov oc x H1 H2; apply Z.eqb_eq in H1; apply Nat.eqb_neq in H2;
                dj j; site_red; fin
  | (* ck_o1 *) intros d j v n ch cl nx; dj j; ev; fin
  | (* ck_o2 *) intros d j ov oc och v n ch cl nx; dj j; mach; ev; fin
  | (* ck_o3 *) intros d j ov oc x v n ch cl nx H1 H2; apply Z.eqb_eq in H1;
                apply Nat.eqb_neq in H2; dj j; mach; ev; fin ].

Ltac dj_unit j := destruct j.
Ltac dj_junk j := destruct j as [|? ? ?].

Ltac wg_sim_tac :=
  first [ left; unfold chk0; wg_checklist_tac dj_unit
        | right; unfold chk1; wg_checklist_tac dj_junk ].
