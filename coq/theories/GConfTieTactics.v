(* GConfTieTactics.v — definitions and tactics shared by the translator ties coq/ties/Tie_C03.v and
   Tie_C16_resolve.v (which are compiled against the regenerated Gallina files at every check).

   simp / cases          computation and case analysis on every scrutinee in sight (innermost first)
   keys_loop, keys_cases the loop over the candidate keys of a map (does every key parse under d?)
   scan_loop             the search for the entry of a switch whose key parses to the selected value
   plain_loop, list_loop the in-place loops of reduceAny / parseTemplatedElements over the entries of
                         a map and the items of a list (range form and index form), for a recursive
                         call g known to agree with the model function f on the children
   children, nodup_all   the children of a value; "every map at every depth has distinct keys"    *)
From Coq Require Import List String Bool Arith Lia.
Import ListNotations.
From GT Require Import GConfModel GConfProofs GConfLoop GConfGenPrims GConfGenProofs GConfLoopProofs.

Ltac simp :=
  cbv beta iota;
  cbn [fst snd negb andb orb is_exit enc lift app keys_empty keys_add Nat.eqb Nat.ltb Nat.leb option_map dim_parses_all dim_get as_map].

(* case analysis on every scrutinee in sight, innermost first *)
Ltac no_match x := lazymatch x with context [match _ with _ => _ end] => fail | _ => idtac end.
Ltac cases :=
  repeat (first [ progress simp
                | match goal with
                  | |- context [match ?x with _ => _ end] => no_match x; destruct x eqn:?
                  end ]);
  try discriminate; try congruence; try reflexivity.

Lemma parse_generic_some : forall d k,
  parse_generic (Some d) k = match d_parse d k with Some v => (v, false) | None => (0, true) end.
Proof. reflexivity. Qed.

(* the loop over the candidate keys: does every key parse under d? *)
Ltac keys_loop d keys :=
  match goal with
  | |- context [loop ?F keys ?u] =>
      let HK := fresh "HK" in
      pose proof (unit_loop_plain F (fun k => negb (parses d k)) keys u) as HK;
      match type of HK with ?P -> _ =>
        let HP := fresh "HP" in
        assert (HP : P) by (intros ? _; unfold parses; rewrite ?parse_generic_some; cases);
        specialize (HK HP); clear HP
      end
  end.

(* evaluates the body of the loop over the candidate keys at the key the search stopped at *)
Ltac keys_cases d keys :=
  keys_loop d keys;
  let EK := fresh "EK" in
  destruct (find (fun k => negb (parses d k)) keys) eqn:EK;
  [ match goal with HK : _ /\ _ /\ _ |- _ =>
      let Hq := fresh "Hq" in
      destruct HK as (_ & Hq & HK); rewrite HK, (find_some_forallb _ _ _ EK); revert Hq;
      unfold parses; rewrite ?parse_generic_some; cases
    end
  | match goal with HK : _ = _ |- _ => rewrite HK, (find_none_forallb _ _ EK); cases end ].

(* the search for the entry of a switch whose key parses to the selected value *)
Ltac scan_loop d kv Hg :=
  match goal with
  | |- context [loop ?F kv ?u] =>
      let HS := fresh "HS" in let ES := fresh "ES" in let L := fresh "L" in
      pose proof (unit_loop_plain F (fun p : string * tree => negb (is_default (fst p)) && is_sel d (fst p)) kv u) as HS;
      match type of HS with ?P -> _ =>
        let HP := fresh "HP" in
        assert (HP : P) by (intros [? ?] _; unfold is_default, is_sel; rewrite ?parse_generic_some; cbn [fst]; cases);
        specialize (HS HP); clear HP
      end;
      set (L := loop F kv u) in *;
      destruct (find (fun p : string * tree => negb (is_default (fst p)) && is_sel d (fst p)) kv) as [[? ?]|] eqn:ES;
      [ let Hq := fresh "Hq" in let Hin := fresh "Hin" in
        destruct HS as (Hin & Hq & HS); rewrite HS; clear HS L; revert Hq;
        unfold is_default, is_sel; rewrite ?parse_generic_some; cbn [fst]; cases;
        try (intros; apply Hg; exact (in_map snd _ _ Hin))
      | rewrite HS; clear HS L; cases ]
  end.

(* the in-place loop over the entries of a plain map *)
Ltac plain_loop f kv Hnd Hg :=
  match goal with
  | |- context [loop ?F kv kv] =>
      let Hpw := fresh "Hpw" in let HL := fresh "HL" in let L := fresh "L" in let x := fresh "xf" in
      match type of F with _ -> _ -> step _ ?X => evar (x : list (string * tree) -> X) end;
      assert (Hpw : forall m k c, In (k, c) kv ->
                                  F m (k, c) = match f c with Ok r => Next (map_set m k r) | Err => Exit (x m) end)
        by (intros m k c Hin; simp; rewrite (Hg c (in_map snd _ _ Hin)); destruct (f c); simp; unfold x; reflexivity);
      pose proof (inplace_map_loop (f) F x kv [] Hpw Hnd) as HL;
      unfold gomap in HL; change (@app (string * tree) [] kv) with kv in HL; change (@app (string * tree) [] ?r) with r in HL; set (L := loop F kv kv) in *;
      destruct (seq_kv (rmap (f) kv)) as [?|];
      [ rewrite HL | destruct HL as [? HL]; rewrite HL ]; unfold x; cases
  end.

(* the in-place loop over the items of a list: range form or index form *)
Ltac list_loop f l Hg :=
  match goal with
  | |- context [loop ?F (indexed l) l] =>
      let Hpw := fresh "Hpw" in let HL := fresh "HL" in let L := fresh "L" in let x := fresh "xf" in
      match type of F with _ -> _ -> step _ ?X => evar (x : list tree -> X) end;
      assert (Hpw : forall m i c, In c l ->
                                  F m (i, c) = match f c with Ok r => Next (slice_set m i r) | Err => Exit (x m) end)
        by (intros m i c Hin; simp; rewrite (Hg c Hin); destruct (f c); simp; unfold x; reflexivity);
      pose proof (inplace_list_loop (f) F x l [] Hpw) as HL;
      change (@app tree [] l) with l in HL; change (@app tree [] ?r) with r in HL;
      change (combine (seq (List.length (@nil tree)) (List.length l)) l) with (indexed l) in HL;
      set (L := loop F (indexed l) l) in *;
      destruct (seq_list (map (f) l)) as [?|];
      [ rewrite HL | destruct HL as [? HL]; rewrite HL ]; unfold x; cases
  | |- context [loop ?F (seq 0 (List.length l - 0)) l] =>
      let Hpw := fresh "Hpw" in let HL := fresh "HL" in let L := fresh "L" in let x := fresh "xf" in
      match type of F with _ -> _ -> step _ ?X => evar (x : list tree -> X) end;
      assert (Hpw : forall m i c, In c l -> nth i m Null = c ->
                                  F m i = match f c with Ok r => Next (slice_set m i r) | Err => Exit (x m) end)
        by (intros m i c Hin Hn; simp; rewrite ?Hn; rewrite (Hg c Hin); destruct (f c); simp; unfold x; reflexivity);
      pose proof (inplace_list_seq (f) F x l [] Hpw) as HL;
      change (@app tree [] l) with l in HL; change (@app tree [] ?r) with r in HL;
      change (List.length (@nil tree)) with 0 in HL; rewrite <- (Nat.sub_0_r (List.length l)) in HL;
      set (L := loop F (seq 0 (List.length l - 0)) l) in *;
      destruct (seq_list (map (f) l)) as [?|];
      [ rewrite HL | destruct HL as [? HL]; rewrite HL ]; unfold x; cases
  end.

Definition children (t : tree) : list tree :=
  match t with Lst l => l | Mp kv => map snd kv | _ => [] end.

(* every map, at every depth, has distinct keys (what a decoded Go value looks like) *)
Fixpoint nodup_all (t : tree) : Prop :=
  match t with
  | Lst l => (fix go (l : list tree) : Prop :=
                match l with [] => True | c :: r => nodup_all c /\ go r end) l
  | Mp kv => NoDup (map fst kv) /\
             (fix go (l : gomap) : Prop :=
                match l with [] => True | p :: r => nodup_all (snd p) /\ go r end) kv
  | _ => True
  end.

Lemma nodup_all_children : forall t c, nodup_all t -> In c (children t) -> nodup_all c.
Proof.
  intros t c Hn Hin. destruct t as [s|s| |l|kv]; try contradiction.
  - cbn [nodup_all children] in *. induction l as [|x l IH]; [contradiction|].
    destruct Hn as [H1 H2]. destruct Hin as [->|Hin]; [exact H1| apply IH; assumption].
  - cbn [nodup_all children] in *. destruct Hn as [_ Hn]. induction kv as [|p kv IH]; [contradiction|].
    destruct Hn as [H1 H2]. destruct Hin as [<-|Hin]; [exact H1| apply IH; assumption].
Qed.

Lemma nodup_all_top : forall t, nodup_all t -> match t with Mp kv => NoDup (map fst kv) | _ => True end.
Proof. intros [s|s| |l|kv] H; try exact I. apply H. Qed.


(* the path walk of extract, after unfolding the regenerated function:
   goal  BODY m keys = match extract m keys with Some t => (t, true) | None => (Null, false) end
   range form: one loop over the path with an "is this the last element" test;
   prefix form: an index loop over all but the last element, then a lookup of the last one *)
Ltac solve_tie_extract m keys0 :=
  let k0 := fresh "k0" in let ks0 := fresh "ks0" in let Hne := fresh "Hne" in
  let keys := fresh "keys" in let Ekeys := fresh "Ekeys" in let Hlen := fresh "Hlen" in let n0 := fresh "n0" in
  destruct keys0 as [|k0 ks0]; [reflexivity|];
  assert (Hne : k0 :: ks0 <> []) by discriminate; remember (k0 :: ks0) as keys eqn:Ekeys;
  assert (Hlen : exists n0, List.length keys = S n0) by (subst keys; eexists; reflexivity);
  clear Ekeys k0 ks0;
  let exv := fresh "exv" in let Hpw := fresh "Hpw" in let HL := fresh "HL" in let L := fresh "L" in
  first
  [ match goal with
    | |- context [loop ?F (indexed keys) (?l0, ?m0, ?ok0)] =>
      match type of F with _ -> _ -> step _ ?X => evar (exv : X) end;
      assert (Hpw : forall last m1 ok i k,
                 F (last, m1, ok) (i, k) =
                 match assoc k m1 with
                 | None => Exit exv
                 | Some v => if negb (snd (as_map v)) && Nat.ltb i (List.length keys - 1) then Exit exv
                             else Next (v, fst (as_map v), true)
                 end)
        by (intros last m1 ok i k; simp; unfold map_get; destruct (assoc k m1) as [v|]; simp;
            [destruct v; simp; cases|]; unfold exv; reflexivity);
      pose proof (extract_loop_range F exv (List.length keys) Hpw keys 0 l0 m0 ok0 eq_refl Hne) as HL;
      unfold gomap in HL; change (combine (seq 0 (List.length keys)) keys) with (indexed keys) in HL;
      set (L := loop F (indexed keys) (l0, m0, ok0)) in *
    end;
    destruct (extract m keys) as [?|]; [destruct HL as [? HL]|]; rewrite HL; unfold exv; reflexivity
  | let Hex := fresh "Hex" in let Hfn := fresh "Hfn" in let Hnl := fresh "Hnl" in
    assert (Hex : extract m keys = match descend m (removelast keys) with
                                   | Some m' => assoc (last keys EmptyString) m' | None => None end)
      by (rewrite (app_removelast_last EmptyString Hne) at 1; apply extract_snoc);
    assert (Hfn : firstn (List.length keys - 1 - 0) (skipn 0 keys) = removelast keys)
      by (rewrite removelast_firstn_len; cbn [skipn]; f_equal; lia);
    pose proof (nth_last_elt keys EmptyString Hne) as Hnl;
    match goal with
    | |- context [loop ?F (seq 0 (List.length keys - 1 - 0)) ?m0] =>
      match type of F with _ -> _ -> step _ ?X => evar (exv : X) end;
      assert (Hpw : forall m1 i,
                 F m1 i = match assoc (nth i keys EmptyString) m1 with Some (Mp m') => Next m' | _ => Exit exv end)
        by (intros m1 i; simp; unfold map_get, str_nth;
            destruct (assoc (nth i keys EmptyString) m1) as [[| | | |]|]; simp; unfold exv; reflexivity);
      destruct (prefix_loop F exv keys Hpw (List.length keys - 1 - 0) 0 m0) as [HL|HL]; [|exfalso; lia];
      unfold gomap in HL;
      set (L := loop F (seq 0 (List.length keys - 1 - 0)) m0) in *
    end;
    destruct Hlen as [n0 Hlen]; rewrite Hex, HL, Hfn; rewrite Hlen at 1; simp;
    destruct (descend m (removelast keys)) as [?|]; simp; [|unfold exv; reflexivity];
    unfold map_get, str_nth; rewrite Hnl;
    match goal with |- context [assoc ?k ?mm] => destruct (assoc k mm) end; cases ].
