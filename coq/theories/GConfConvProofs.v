(* GConfConvProofs.v — facts about the conversion step of Get (GConfConvModel): a panic of the yaml
   decoder is an error of the request, never a panic; paths descend through maps only.         *)
From Coq Require Import List String Bool Arith.
Import ListNotations.
From GT Require Import GConfModel GConfCacheModel GConfCacheProofs GConfConvModel.
Local Open Scope string_scope.

Section ConvFacts.
  Variable ybytes : Type.
  Variable ty : Type.
  Variable ty_eqb : ty -> ty -> bool.
  Hypothesis ty_eqb_eq : forall a b, ty_eqb a b = true <-> a = b.
  Variable marshal : tree -> ybytes * bool.
  Variable unmarshal : ty -> ybytes -> val -> option (val * bool).
  Variable data : list (string * tree).
  Variable zero_of : ty -> val.

  (* the conversion function of the repaired code, for every result type *)
  Definition conv_of_decoder (key : string) (T : ty) : res val :=
    conv_model ybytes ty marshal unmarshal data (zero_of T) key T.
  Definition conv3_of_decoder (key : string) (T : ty) : cres :=
    conv3_model ybytes ty marshal unmarshal data (zero_of T) key T.

  Lemma decoder_panic_is_error : forall key T,
    conv3_of_decoder key T = CPanic ->
    fresh ty ty_eqb conv_of_decoder (Get key T) = OErr /\
    fresh ty ty_eqb conv_of_decoder (MustGet key T) = OMustPanic /\
    forall d, fresh ty ty_eqb conv_of_decoder (GetOrDefault key T d) = OVal d.
  Proof.
    intros key T H. unfold fresh, run_op, get_cached, conv_of_decoder, conv_model. cbn [lookup op_key op_ty].
    unfold conv3_of_decoder in H. rewrite H. repeat split.
  Qed.

  (* whatever the encoder and the decoder do — value, error or panic — no request panics *)
  Lemma no_panic_any_decoder : forall h, ~ In OPanic (run ty ty_eqb conv_of_decoder [] h).
  Proof. exact (run_no_panic ty ty_eqb ty_eqb_eq conv_of_decoder). Qed.

  (* the first request of HEAD before the fix panics when the decoder does *)
  Lemma head_panics : forall key T,
    conv3_of_decoder key T = CPanic -> fresh_head ty ty_eqb conv3_of_decoder (Get key T) = OPanic.
  Proof.
    intros key T H. unfold fresh_head, run_op_head, get_cached_head. cbn [lookup op_key op_ty]. rewrite H. reflexivity.
  Qed.
End ConvFacts.

(* ------------------------------------------------------------------ paths *)
Lemma extract_through_non_map : forall m k rest v,
  assoc k m = Some v -> rest <> [] -> (forall m', v <> Mp m') -> extract m (k :: rest) = None.
Proof.
  intros m k rest v Ha Hne Hv. cbn [extract]. rewrite Ha. destruct rest as [|k2 rest]; [congruence|].
  destruct v; try reflexivity. exfalso. eapply Hv. reflexivity.
Qed.

Lemma extract_through_list : forall m k rest l,
  assoc k m = Some (Lst l) -> rest <> [] -> extract m (k :: rest) = None.
Proof. intros m k rest l Ha Hne. eapply extract_through_non_map; [exact Ha| exact Hne| intros m' H; discriminate]. Qed.

Lemma extract_missing : forall m k rest, assoc k m = None -> extract m (k :: rest) = None.
Proof. intros m k rest H. cbn [extract]. rewrite H. reflexivity. Qed.

(* a decoder that panics on one type, as Go's yaml does for a struct field of interface type *)
Definition demo_unmarshal (T : nat) (b : tree) (zero : val) : option (val * bool) :=
  match T with 0 => None | _ => Some (V "x", false) end.
Definition demo_data : list (string * tree) := [("st", Mp [("s", Str "hello")])].

Lemma head_refuted_conversion_panic :
  fresh_head nat Nat.eqb (conv3_of_decoder tree nat (fun t => (t, false)) demo_unmarshal demo_data (fun _ => VNil)) (Get "st" 0) = OPanic
  /\ fresh nat Nat.eqb (conv_of_decoder tree nat (fun t => (t, false)) demo_unmarshal demo_data (fun _ => VNil)) (Get "st" 0) = OErr.
Proof. split; vm_compute; reflexivity. Qed.
