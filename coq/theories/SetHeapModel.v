(* SetHeapModel.v — the operations of set.go over a heap of maps with identities, in canonical
   form (no proofs).  The store rendering of set.go regenerated every run (SetStoreGen.v) is
   proved equal to these functions by coq/ties/Tie_C07_store.v; SetHeapProofs.v proves that they
   compute what the value model (SetModel.v) computes on the map the receiver denotes, leave
   every other map alone, and give the receiver either its old or a FRESH location — never the
   argument's.

   st_make      Make(items...)         new location, items inserted
   st_add       s.Add(items...)        allocate when s is nil; insert into s's location
   st_addset    s.AddSet(a)            the same, ranging over a's keys
   st_remove    s.Remove(items...)     delete from s's location
   st_removeset s.RemoveSet(a)
   st_has / st_hasany / st_slice       read s's location

   Programs over several variables ([st_step] on the operations of SetMultiModel): the state is
   a heap and one reference per variable.                                                    *)
From Coq Require Import List Bool Arith.
From GT Require Import SetModel SetMultiModel SetHeapPrims.
Import ListNotations.

Section HeapModel.
  Variable T : Type.
  Variable eqb : T -> T -> bool.

  Definition st_alloc_if_nil (h : heap T) (r : ref) : heap T * ref :=
    if h_is_nil r then h_alloc h else (h, r).
  Definition st_put_step (r : ref) (h : heap T) (x : T) : heap T := h_put eqb h r x.
  Definition st_add_step (r : ref) (st : heap T * bool) (x : T) : heap T * bool :=
    (h_put eqb (fst st) r x, snd st || negb (h_has eqb (fst st) r x)).
  Definition st_rem_step (r : ref) (st : heap T * bool) (x : T) : heap T * bool :=
    (h_del eqb (fst st) r x, snd st || h_has eqb (fst st) r x).

  Definition st_make (h : heap T) (items : list T) : heap T * ref :=
    let '(h1, r) := h_alloc h in (fold_left (st_put_step r) items h1, r).
  Definition st_add (h : heap T) (r : ref) (items : list T) : heap T * ref * bool :=
    let '(h1, r1) := st_alloc_if_nil h r in
    let '(h2, b) := fold_left (st_add_step r1) items (h1, false) in (h2, r1, b).
  Definition st_addset (h : heap T) (r a : ref) : heap T * ref * bool :=
    let '(h1, r1) := st_alloc_if_nil h r in
    let '(h2, b) := fold_left (st_add_step r1) (h_keys h1 a) (h1, false) in (h2, r1, b).
  Definition st_remove (h : heap T) (r : ref) (items : list T) : heap T * bool :=
    if Nat.eqb (h_len h r) 0 then (h, false) else fold_left (st_rem_step r) items (h, false).
  Definition st_removeset (h : heap T) (r a : ref) : heap T * bool :=
    if Nat.eqb (h_len h r) 0 then (h, false) else fold_left (st_rem_step r) (h_keys h a) (h, false).
  Definition st_has (h : heap T) (r : ref) (items : list T) : bool := s_has eqb (h_deref h r) items.
  Definition st_hasany (h : heap T) (r : ref) (items : list T) : bool := s_hasany eqb (h_deref h r) items.
  Definition st_slice (h : heap T) (r : ref) : option (list T) := s_slice (h_deref h r).

  (* ---- programs over several set variables ---- *)
  Definition sstate := (heap T * list ref)%type.
  Definition sget (rs : list ref) (i : nat) : ref := nth i rs 0.

  Definition st_step (st : sstate) (o : mop T) : sstate * bool :=
    let '(h, rs) := st in
    match o with
    | MNil i => ((h, mset rs i 0), false)
    | MMake i items => let '(h', r) := st_make h items in ((h', mset rs i r), false)
    | MAdd i items => let '(h', r', b) := st_add h (sget rs i) items in ((h', mset rs i r'), b)
    | MAddSet i j => let '(h', r', b) := st_addset h (sget rs i) (sget rs j) in ((h', mset rs i r'), b)
    | MRemove i items => let '(h', b) := st_remove h (sget rs i) items in ((h', rs), b)
    | MRemoveSet i j => let '(h', b) := st_removeset h (sget rs i) (sget rs j) in ((h', rs), b)
    | MHas i items => (st, st_has h (sget rs i) items)
    | MHasAny i items => (st, st_hasany h (sget rs i) items)
    end.

  Fixpoint st_run (st : sstate) (ops : list (mop T)) : list (sstate * bool) :=
    match ops with
    | [] => []
    | o :: rest => let r := st_step st o in r :: st_run (fst r) rest
    end.

  (* what the variables denote: the value-level program state of SetMultiModel *)
  Definition view (st : sstate) : mstate T := map (h_deref (fst st)) (snd st).
End HeapModel.
Arguments st_alloc_if_nil {T}. Arguments st_put_step {T}. Arguments st_add_step {T}.
Arguments st_rem_step {T}. Arguments st_make {T}. Arguments st_add {T}. Arguments st_addset {T}.
Arguments st_remove {T}. Arguments st_removeset {T}. Arguments st_has {T}. Arguments st_hasany {T}.
Arguments st_slice {T}. Arguments st_step {T}. Arguments st_run {T}. Arguments view {T}.
Arguments sget rs i : simpl never.
