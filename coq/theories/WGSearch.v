(* WGSearch.v — model-side search for failing schedules (definitions only, run by vm_compute).

   Depth-first enumeration of the schedules of a client program on a machine of Base/Conc.v:
   at every node each unfinished thread may move; branches whose trace leaves the property's
   domain (lb < 0) are cut; the first node whose trace satisfies [bad] is returned as the
   schedule leading to it.  [fuel] bounds the depth (the pinned Wait loop can spin), [pre] the
   number of preemptions.          *)
From Coq Require Import List Arith ZArith Bool.
From GT Require Import Base.Conc.
From GT Require Import WGModel WGSpec.
Import ListNotations.

Section Search.
  Variables Sh Loc : Type.
  Variable stepf : config Sh Loc call ret obs -> nat -> config Sh Loc call ret obs.
  Variable bad : trace -> bool.

  Fixpoint first_some {A} (f : nat -> option A) (tids : list nat) : option A :=
    match tids with
    | [] => None
    | t :: r => match f t with Some x => Some x | None => first_some f r end
    end.

  (* [pre] = preemption budget: switching away from a thread that could still move costs 1 *)
  Definition switch_cost (cf : config Sh Loc call ret obs) (last : option nat) (t : nat) : nat :=
    match last with
    | None => 0
    | Some l => if Nat.eqb l t then 0
                else match nth_error (thr cf) l with
                     | Some th => if finished th then 0 else 1
                     | None => 0
                     end
    end.

  Fixpoint dfs (fuel pre : nat) (cf : config Sh Loc call ret obs) (last : option nat)
           (rsched : list nat) : option (list nat) :=
    if bad (tr cf) then Some (rev rsched)
    else match fuel with
         | O => None
         | S f =>
             first_some
               (fun t =>
                  match nth_error (thr cf) t with
                  | Some th =>
                      if finished th then None
                      else if Nat.ltb pre (switch_cost cf last t) then None
                      else let cf' := stepf cf t in
                           if well_behaved (tr cf')
                           then dfs f (pre - switch_cost cf last t) cf' (Some t) (t :: rsched)
                           else None
                  | None => None
                  end)
               (seq 0 (length (thr cf)))
         end.

  (* number of maximal (or fuel-cut) schedules explored and of bad ones: exhaustive sweeps *)
  Fixpoint count_bad (fuel : nat) (cf : config Sh Loc call ret obs) : nat * nat :=
    match fuel with
    | O => (1, if bad (tr cf) then 1 else 0)
    | S f =>
        let en := filter (fun t => match nth_error (thr cf) t with
                                   | Some th => negb (finished th) && well_behaved (tr (stepf cf t))
                                   | None => false end)
                         (seq 0 (length (thr cf))) in
        match en with
        | [] => (1, if bad (tr cf) then 1 else 0)
        | _ => fold_left (fun acc t => let '(a, b) := count_bad f (stepf cf t) in
                                       (fst acc + a, snd acc + b)) en (0, 0)
        end
    end.
End Search.

Arguments dfs {Sh Loc}.
Arguments count_bad {Sh Loc}.

Definition c01_bad (t : trace) : bool := negb (c01_ok t).
Definition c02_bad (t : trace) : bool := negb (c02_ok t).

Definition wg_cfg0 (progs : list (list call)) : wg_config :=
  init (Obs := obs) (Ret := ret) wg_init progs.
Definition wgo_cfg0 (progs : list (list call)) : wgo_config :=
  init (Obs := obs) (Ret := ret) wgo_init progs.
Definition wgo_step : wgo_config -> nat -> wgo_config :=
  step wgo_begin wgo_mstep wg_fatal wgo_observe wgo_site.

Definition search_c01 (fuel pre : nat) progs :=
  dfs wg_step c01_bad fuel pre (wg_cfg0 progs) None [].
Definition search_c02 (fuel pre : nat) progs :=
  dfs wg_step c02_bad fuel pre (wg_cfg0 progs) None [].
Definition search_c01_orig (fuel pre : nat) progs :=
  dfs wgo_step c01_bad fuel pre (wgo_cfg0 progs) None [].
Definition search_c02_orig (fuel pre : nat) progs :=
  dfs wgo_step c02_bad fuel pre (wgo_cfg0 progs) None [].
