(* ProtoProofs.v — lemmas about the model of gogenproto (ProtoModel.v).
   Main results (used by Props/C20.v):
     run_files, spec_files_char          the file arguments
     run_includes                        the -I arguments
     run_mappings, scan_mappings_of_char the M mappings per plugin
     run_requests                        plugin output flags
     run_succeeds, invocations_le_one    exactly one invocation                                *)
From Coq Require Import String List Bool Arith Ascii Lia Permutation.
From GT Require Import ProtoModel.
Import ListNotations.
Local Open Scope string_scope.
Local Open Scope list_scope.

(* ------------------------------------------------------------------ induction on trees *)
Section NodeInd.
  Variable P : node -> Prop.
  Hypothesis HF : forall s g r, P (File s g r).
  Hypothesis HD : forall s ch, Forall P ch -> P (Dir s ch).
  Fixpoint node_ind' (n : node) : P n :=
    match n with
    | File s g r => HF s g r
    | Dir s ch =>
        HD s ch ((fix go (l : list node) : Forall P l :=
                    match l with
                    | [] => Forall_nil P
                    | c :: r => Forall_cons c (node_ind' c) (go r)
                    end) ch)
    end.
End NodeInd.

(* ------------------------------------------------------------------ well-formed trees *)
Definition name_ok (s : string) : Prop := s <> "" /\ s <> "." /\ s <> "..".

(* a file system: sibling names are distinct and are proper names, hereditarily *)
Fixpoint wf_node (n : node) : Prop :=
  match n with
  | File _ _ _ => True
  | Dir _ ch =>
      NoDup (map node_name ch)
      /\ Forall (fun c => name_ok (node_name c)) ch
      /\ fold_right (fun c acc => wf_node c /\ acc) True ch
  end.

Lemma fold_right_and_Forall : forall (Q : node -> Prop) l,
  fold_right (fun c acc => Q c /\ acc) True l <-> Forall Q l.
Proof.
  induction l as [|c r IH]; simpl; split; intros H; auto.
  - destruct H as [H1 H2]. constructor; auto. apply IH; auto.
  - inversion H; subst. split; auto. apply IH; auto.
Qed.

Lemma wf_dir : forall s ch,
  wf_node (Dir s ch) <->
  NoDup (map node_name ch) /\ Forall (fun c => name_ok (node_name c)) ch /\ Forall wf_node ch.
Proof.
  intros s ch. simpl. rewrite fold_right_and_Forall. tauto.
Qed.

(* ------------------------------------------------------------------ paths *)
Lemma path_eqb_eq : forall a b, path_eqb a b = true <-> a = b.
Proof.
  induction a as [|x a IH]; destruct b as [|y b]; simpl; split; intros H; try discriminate; auto.
  - apply andb_true_iff in H. destruct H as [H1 H2].
    apply String.eqb_eq in H1. apply IH in H2. subst. reflexivity.
  - inversion H; subst. rewrite String.eqb_refl. simpl. apply IH. reflexivity.
Qed.

Lemma path_eqb_refl : forall a, path_eqb a a = true.
Proof. intros a. apply path_eqb_eq. reflexivity. Qed.

Lemma pspec_eqb_eq : forall p q, pspec_eqb p q = true <-> p = q.
Proof.
  intros [a|a] [b|b]; simpl; split; intros H; try discriminate;
    try (apply path_eqb_eq in H; subst; reflexivity);
    try (inversion H; subst; apply path_eqb_refl).
Qed.

Lemma pspec_eqb_false : forall p q, p <> q -> pspec_eqb p q = false.
Proof.
  intros p q H. destruct (pspec_eqb p q) eqn:E; auto.
  apply pspec_eqb_eq in E. contradiction.
Qed.

Lemma pjoins_nil : forall p, pjoins p [] = p.
Proof. intros [s|s]; simpl; rewrite app_nil_r; reflexivity. Qed.

Lemma pjoins_pjoin : forall p s r, pjoins (pjoin p s) r = pjoins p (s :: r).
Proof. intros [a|a] s r; simpl; rewrite <- app_assoc; reflexivity. Qed.

Lemma pjoin_pjoins : forall p s, pjoin p s = pjoins p [s].
Proof. intros [a|a] s; reflexivity. Qed.

Lemma app_eq_self : forall (A : Type) (a r : list A), a ++ r = a -> r = [].
Proof.
  intros A a r H. rewrite <- (app_nil_r a) in H at 2. apply app_inv_head in H. exact H.
Qed.

Lemma pjoins_neq_self : forall p r, r <> [] -> pjoins p r <> p.
Proof.
  intros [a|a] r Hr H; simpl in H; inversion H as [H1]; apply app_eq_self in H1; contradiction.
Qed.

Lemma pjoins_neq_dot : forall p r, r <> [] -> pjoins p r <> PRel [].
Proof.
  intros [a|a] r Hr H; simpl in H; try discriminate.
  inversion H as [H1]. apply app_eq_nil in H1. destruct H1; contradiction.
Qed.

(* normalisation *)
Lemma norm_step_ok : forall acc s, name_ok s -> norm_step acc s = acc ++ [s].
Proof.
  intros acc s (H1 & H2 & H3). unfold norm_step.
  apply String.eqb_neq in H1, H2, H3. rewrite H1, H2, H3. reflexivity.
Qed.

Lemma fold_norm_ok : forall r acc, Forall name_ok r -> fold_left norm_step r acc = acc ++ r.
Proof.
  induction r as [|s r IH]; intros acc H; simpl.
  - rewrite app_nil_r. reflexivity.
  - inversion H; subst. rewrite norm_step_ok by assumption. rewrite IH by assumption.
    rewrite <- app_assoc. reflexivity.
Qed.

Lemma norm_app_ok : forall a r, Forall name_ok r -> norm (a ++ r) = norm a ++ r.
Proof.
  intros a r H. unfold norm. rewrite fold_left_app. apply fold_norm_ok. exact H.
Qed.

Lemma Forall_removelast : forall (A : Type) (Q : A -> Prop) l, Forall Q l -> Forall Q (removelast l).
Proof.
  induction l as [|x l IH]; intros H; simpl; auto.
  destruct l as [|y l]; [constructor|].
  inversion H; subst. constructor; auto.
Qed.

Lemma fold_norm_names : forall p acc, Forall name_ok acc -> Forall name_ok (fold_left norm_step p acc).
Proof.
  induction p as [|s p IH]; intros acc H; simpl; auto.
  apply IH. unfold norm_step.
  destruct (String.eqb s "" || String.eqb s ".") eqn:E1; auto.
  destruct (String.eqb s "..") eqn:E2.
  - apply Forall_removelast. exact H.
  - apply Forall_app. split; auto. constructor; [|constructor].
    apply orb_false_iff in E1. destruct E1 as [Ea Eb].
    apply String.eqb_neq in Ea, Eb, E2. repeat split; assumption.
Qed.

Lemma norm_names : forall p, Forall name_ok (norm p).
Proof. intros p. apply fold_norm_names. constructor. Qed.

Lemma norm_ok_id : forall p, Forall name_ok p -> norm p = p.
Proof. intros p H. unfold norm. rewrite fold_norm_ok by assumption. reflexivity. Qed.

Lemma norm_idem : forall p, norm (norm p) = norm p.
Proof. intros p. apply norm_ok_id. apply norm_names. Qed.

Lemma to_abs_names : forall cwd p, Forall name_ok (to_abs cwd p).
Proof. intros cwd [s|s]; simpl; apply norm_names. Qed.

Lemma to_abs_pjoins : forall cwd p r,
  Forall name_ok r -> to_abs cwd (pjoins p r) = to_abs cwd p ++ r.
Proof.
  intros cwd [s|s] r H; simpl.
  - rewrite app_assoc. apply norm_app_ok. exact H.
  - apply norm_app_ok. exact H.
Qed.

Lemma to_abs_PAbs_app : forall cwd p r,
  Forall name_ok r -> to_abs cwd (PAbs (to_abs cwd p ++ r)) = to_abs cwd p ++ r.
Proof.
  intros cwd p r H. simpl. apply norm_ok_id. apply Forall_app. split; auto. apply to_abs_names.
Qed.

Lemma rel_app : forall a r, rel a (a ++ r) = Some r.
Proof.
  induction a as [|x a IH]; intros r; simpl; auto.
  rewrite String.eqb_refl. apply IH.
Qed.

(* ------------------------------------------------------------------ lookup *)
Lemma lookup_app : forall a n r,
  lookup n (a ++ r) = match lookup n a with Some m => lookup m r | None => None end.
Proof.
  induction a as [|s a IH]; intros n r; simpl; auto.
  destruct n as [x g rg|x ch]; auto.
  destruct (find_child s ch); auto.
Qed.

Lemma find_child_In : forall s l c, find_child s l = Some c -> In c l /\ node_name c = s.
Proof.
  induction l as [|d l IH]; intros c H; simpl in H; try discriminate.
  destruct (String.eqb (node_name d) s) eqn:E.
  - inversion H; subst. apply String.eqb_eq in E. split; auto. left; reflexivity.
  - apply IH in H. destruct H; split; auto. right; assumption.
Qed.

Lemma find_child_nodup : forall l c,
  NoDup (map node_name l) -> In c l -> find_child (node_name c) l = Some c.
Proof.
  induction l as [|d l IH]; intros c Hnd Hin; simpl in *; [contradiction|].
  inversion Hnd as [|x xs Hnotin Hnd']; subst.
  destruct Hin as [->|Hin].
  - rewrite String.eqb_refl. reflexivity.
  - destruct (String.eqb (node_name d) (node_name c)) eqn:E.
    + apply String.eqb_eq in E. exfalso. apply Hnotin. rewrite E. apply in_map. exact Hin.
    + apply IH; assumption.
Qed.

Lemma wf_child : forall s ch c, wf_node (Dir s ch) -> In c ch -> wf_node c.
Proof.
  intros s ch c H Hin. apply wf_dir in H. destruct H as (_ & _ & H).
  rewrite Forall_forall in H. apply H. exact Hin.
Qed.

Lemma wf_lookup : forall p n m, wf_node n -> lookup n p = Some m -> wf_node m.
Proof.
  induction p as [|s p IH]; intros n m Hwf H; simpl in H.
  - inversion H; subst. exact Hwf.
  - destruct n as [x g rg|x ch]; try discriminate.
    destruct (find_child s ch) as [c|] eqn:E; try discriminate.
    apply find_child_In in E. destruct E as [Hin _].
    eapply IH; [|exact H]. eapply wf_child; eauto.
Qed.

(* ------------------------------------------------------------------ below *)
Lemma below_dir : forall s ch,
  below (Dir s ch) =
  flat_map (fun c => ([node_name c], c)
                     :: map (fun rx => (node_name c :: fst rx, snd rx)) (below c)) ch.
Proof. reflexivity. Qed.

Lemma below_nonempty : forall n r x, In (r, x) (below n) -> r <> [].
Proof.
  intros n r x H. destruct n as [s g rg|s ch]; simpl in H; [contradiction|].
  apply in_flat_map in H. destruct H as (c & _ & [H|H]).
  - inversion H; subst. discriminate.
  - apply in_map_iff in H. destruct H as (rx & H & _). inversion H; subst. discriminate.
Qed.

Lemma below_lookup : forall n, wf_node n ->
  forall r x, In (r, x) (below n) <-> (r <> [] /\ lookup n r = Some x).
Proof.
  induction n as [s g rg|s ch IH] using node_ind'; intros Hwf r x.
  - simpl. split; [contradiction|]. intros [Hr H]. destruct r; [contradiction|discriminate].
  - pose proof Hwf as Hwf'. apply wf_dir in Hwf'. destruct Hwf' as (Hnd & Hnames & Hwfs).
    rewrite below_dir. rewrite in_flat_map. split.
    + intros (c & Hc & [H|H]).
      * inversion H; subst. split; [discriminate|]. simpl.
        rewrite find_child_nodup by assumption. reflexivity.
      * apply in_map_iff in H. destruct H as ([r' x'] & H & Hin). simpl in H. inversion H; subst.
        split; [discriminate|]. simpl. rewrite find_child_nodup by assumption.
        rewrite Forall_forall in IH, Hwfs. apply (IH c Hc (Hwfs c Hc)) in Hin. apply Hin.
    + intros [Hr H]. destruct r as [|a r]; [contradiction|]. simpl in H.
      destruct (find_child a ch) as [c|] eqn:E; try discriminate.
      apply find_child_In in E. destruct E as [Hc Hname]. exists c. split; auto.
      destruct r as [|b r].
      * simpl in H. inversion H; subst. left. reflexivity.
      * right. apply in_map_iff. exists (b :: r, x). simpl. rewrite Hname. split; auto.
        rewrite Forall_forall in IH, Hwfs. apply (IH c Hc (Hwfs c Hc)). split; [discriminate|exact H].
Qed.

Lemma below_names : forall n, wf_node n -> forall r x, In (r, x) (below n) -> Forall name_ok r.
Proof.
  induction n as [s g rg|s ch IH] using node_ind'; intros Hwf r x H.
  - simpl in H. contradiction.
  - pose proof Hwf as Hwf'. apply wf_dir in Hwf'. destruct Hwf' as (Hnd & Hnames & Hwfs).
    rewrite below_dir in H. apply in_flat_map in H. destruct H as (c & Hc & H).
    rewrite Forall_forall in IH, Hwfs, Hnames.
    destruct H as [H|H].
    + inversion H; subst. constructor; [apply Hnames; assumption|constructor].
    + apply in_map_iff in H. destruct H as ([r' x'] & H & Hin). simpl in H. inversion H; subst.
      constructor; [apply Hnames; assumption|]. eapply IH; eauto.
Qed.

Lemma NoDup_map_cons_inj : forall (A : Type) (s : A) (l : list (list A)),
  NoDup l -> NoDup (map (cons s) l).
Proof.
  intros A s l H. induction H as [|x l Hx Hnd IH]; simpl; constructor; auto.
  intros Hin. apply in_map_iff in Hin. destruct Hin as (y & Hy & Hin). inversion Hy; subst. contradiction.
Qed.

Lemma nodup_app_intro : forall (A : Type) (a b : list A),
  NoDup a -> NoDup b -> (forall x, In x a -> ~ In x b) -> NoDup (a ++ b).
Proof.
  intros A a b Ha Hb Hd. induction Ha as [|x a Hx Ha IH]; simpl; auto.
  constructor.
  - intros Hin. apply in_app_or in Hin. destruct Hin as [Hin|Hin]; [contradiction|].
    apply (Hd x); [left; reflexivity|exact Hin].
  - apply IH. intros y Hy. apply Hd. right. exact Hy.
Qed.

Lemma map_flat_map : forall (A B C : Type) (f : B -> C) (g : A -> list B) l,
  map f (flat_map g l) = flat_map (fun x => map f (g x)) l.
Proof.
  induction l as [|x l IH]; simpl; auto. rewrite map_app, IH. reflexivity.
Qed.

Lemma nodup_flat_map_heads : forall (l : list node) (f : node -> list path),
  NoDup (map node_name l) ->
  (forall c, In c l -> NoDup (f c)) ->
  (forall c p, In c l -> In p (f c) -> exists t, p = node_name c :: t) ->
  NoDup (flat_map f l).
Proof.
  induction l as [|c l IH]; intros f Hnd Hf Hh; simpl; [constructor|].
  simpl in Hnd. inversion Hnd as [|? ? Hnotin Hnd']; subst.
  apply nodup_app_intro.
  - apply Hf. left; reflexivity.
  - apply IH; auto.
    + intros d Hd. apply Hf. right; exact Hd.
    + intros d p Hd Hp. apply Hh; [right; exact Hd|exact Hp].
  - intros p Hp Hin. apply in_flat_map in Hin. destruct Hin as (d & Hd & Hpd).
    destruct (Hh c p (or_introl eq_refl) Hp) as (t1 & E1).
    destruct (Hh d p (or_intror Hd) Hpd) as (t2 & E2).
    rewrite E1 in E2. inversion E2 as [[Hname Ht]]. apply Hnotin. rewrite Hname. apply in_map. exact Hd.
Qed.

Lemma below_nodup : forall n, wf_node n -> NoDup (map fst (below n)).
Proof.
  induction n as [s g rg|s ch IH] using node_ind'; intros Hwf.
  - simpl. constructor.
  - apply wf_dir in Hwf. destruct Hwf as (Hnd & _ & Hwfs).
    rewrite below_dir, map_flat_map. rewrite Forall_forall in IH, Hwfs.
    apply nodup_flat_map_heads; auto.
    + intros c Hc. simpl. rewrite map_map. simpl. constructor.
      * intros Hin. apply in_map_iff in Hin. destruct Hin as ([r x] & E & Hin). simpl in E.
        inversion E; subst. apply below_nonempty in Hin. contradiction.
      * rewrite <- (map_map fst (cons (node_name c))). apply NoDup_map_cons_inj. apply IH; auto.
    + intros c p Hc Hp. simpl in Hp. destruct Hp as [Hp|Hp].
      * exists []. symmetry. exact Hp.
      * rewrite map_map in Hp. apply in_map_iff in Hp. destruct Hp as (rx & E & _). simpl in E.
        exists (fst rx). symmetry. exact E.
Qed.

(* ------------------------------------------------------------------ list helpers *)
Lemma flat_map_map : forall (A B C : Type) (f : B -> list C) (g : A -> B) l,
  flat_map f (map g l) = flat_map (fun x => f (g x)) l.
Proof. induction l as [|x l IH]; simpl; auto. rewrite IH. reflexivity. Qed.

Lemma flat_map_ext_in : forall (A B : Type) (f g : A -> list B) l,
  (forall x, In x l -> f x = g x) -> flat_map f l = flat_map g l.
Proof.
  induction l as [|x l IH]; intros H; simpl; auto.
  rewrite H by (left; reflexivity). rewrite IH; auto. intros y Hy. apply H. right; exact Hy.
Qed.

Lemma flat_map_if : forall (A B : Type) (q : A -> bool) (g : A -> B) l,
  flat_map (fun x => if q x then [g x] else []) l = map g (filter q l).
Proof.
  induction l as [|x l IH]; simpl; auto. destruct (q x); simpl; rewrite IH; reflexivity.
Qed.

Lemma flat_map_nil : forall (A B : Type) (f : A -> list B) l,
  (forall x, In x l -> f x = []) -> flat_map f l = [].
Proof.
  induction l as [|x l IH]; intros H; simpl; auto.
  rewrite H by (left; reflexivity). simpl. apply IH. intros y Hy. apply H. right; exact Hy.
Qed.

(* ------------------------------------------------------------------ the walk *)
Definition emit (p : pspec) (x : node) : list pspec := if is_proto_file x then [p] else [].

Section WalkLemmas.
  Variable cb : pspec -> node -> action * list pspec.

  Lemma walk_node_dir : forall p s ch,
    walk_node cb p (Dir s ch) =
    match cb p (Dir s ch) with
    | (SkipDir, out) => (out, false)
    | (Continue, out) => (out ++ walk_children cb p ch, false)
    end.
  Proof.
    intros p s ch. simpl. destruct (cb p (Dir s ch)) as [act out]. destruct act; auto.
    f_equal. f_equal. induction ch as [|c r IH]; [reflexivity|].
    cbn [walk_children]. destruct (walk_node cb (pjoin p (node_name c)) c) as [o stop].
    destruct stop; [reflexivity|]. rewrite IH. reflexivity.
  Qed.

  (* a callback that never prunes visits the root and then everything below it, in order *)
  Lemma walk_all : (forall p n, fst (cb p n) = Continue) ->
    forall n p,
      walk_node cb p n =
      (snd (cb p n) ++ flat_map (fun rx => snd (cb (pjoins p (fst rx)) (snd rx))) (below n), false).
  Proof.
    intros Hc. induction n as [s g rg|s ch IH] using node_ind'; intros p.
    - simpl. specialize (Hc p (File s g rg)). destruct (cb p (File s g rg)) as [act out].
      simpl in Hc. subst act. simpl. rewrite app_nil_r. reflexivity.
    - rewrite walk_node_dir. specialize (Hc p (Dir s ch)).
      destruct (cb p (Dir s ch)) as [act out]. simpl in Hc. subst act. simpl snd.
      f_equal. f_equal. rewrite below_dir.
      induction ch as [|c r IHr]; [reflexivity|].
      inversion IH as [|? ? IHc IHrest]; subst.
      cbn [walk_children flat_map]. rewrite (IHc (pjoin p (node_name c))).
      rewrite flat_map_app. rewrite IHr by assumption.
      f_equal.
      cbn [flat_map fst snd]. rewrite pjoin_pjoins. f_equal.
      rewrite flat_map_map. apply flat_map_ext_in. intros [r' x'] _. cbn [fst snd].
      rewrite <- pjoin_pjoins, pjoins_pjoin. reflexivity.
  Qed.
End WalkLemmas.

Lemma callback_true_continue : forall input p n, fst (callback input true p n) = Continue.
Proof.
  intros input p n. unfold callback.
  destruct (pspec_eqb p (PRel []) || pspec_eqb p input); [reflexivity|].
  rewrite andb_false_r. destruct (is_regular n && is_proto_name (node_name n)); reflexivity.
Qed.

Lemma callback_normal : forall input recurse p x,
  p <> PRel [] -> p <> input -> (recurse = true \/ is_dir x = false) ->
  callback input recurse p x = (Continue, emit p x).
Proof.
  intros input recurse p x H1 H2 H3. unfold callback, emit.
  rewrite (pspec_eqb_false _ _ H1), (pspec_eqb_false _ _ H2). simpl.
  destruct x as [s g r|s ch]; simpl.
  - destruct r; simpl; [destruct (is_proto_name s)|]; reflexivity.
  - destruct H3 as [->|H3]; [reflexivity|discriminate].
Qed.

Lemma callback_input : forall input recurse x, callback input recurse input x = (Continue, []).
Proof.
  intros input recurse x. unfold callback.
  rewrite (proj2 (pspec_eqb_eq input input) eq_refl). rewrite orb_true_r. reflexivity.
Qed.

Lemma callback_skip : forall input p s ch,
  p <> PRel [] -> p <> input -> callback input false p (Dir s ch) = (SkipDir, []).
Proof.
  intros input p s ch H1 H2. unfold callback.
  rewrite (pspec_eqb_false _ _ H1), (pspec_eqb_false _ _ H2). reflexivity.
Qed.

(* without -recurse: exactly the entries of the input directory itself *)
Lemma walk_input_norecurse : forall input n,
  fst (walk_node (callback input false) input n) =
  map (fun rx => pjoins input (fst rx)) (filter (fun rx => is_proto_file (snd rx)) (children_of n)).
Proof.
  intros input [s g rg|s ch].
  - simpl. rewrite callback_input. reflexivity.
  - rewrite walk_node_dir, callback_input. cbn [fst app children_of].
    induction ch as [|c r IH]; [reflexivity|].
    cbn [walk_children map filter snd].
    assert (Hn1 : pjoin input (node_name c) <> PRel []).
    { rewrite pjoin_pjoins. apply pjoins_neq_dot. discriminate. }
    assert (Hn2 : pjoin input (node_name c) <> input).
    { rewrite pjoin_pjoins. apply pjoins_neq_self. discriminate. }
    destruct c as [cs cg cr|cs cch].
    + cbn [walk_node]. rewrite callback_normal by (auto; right; reflexivity).
      rewrite IH. unfold emit. cbn [node_name] in *.
      destruct (is_proto_file (File cs cg cr)); cbn [map fst app]; try rewrite pjoin_pjoins; reflexivity.
    + rewrite walk_node_dir. rewrite callback_skip by assumption.
      cbn [is_proto_file app]. exact IH.
Qed.

(* with recursion, from a root that is not itself emitted: every .proto below it *)
Lemma walk_recurse : forall input p n,
  snd (callback input true p n) = [] ->
  (forall r x, In (r, x) (below n) ->
     snd (callback input true (pjoins p r) x) = emit (pjoins p r) x) ->
  fst (walk_node (callback input true) p n) =
  map (fun rx => pjoins p (fst rx)) (filter (fun rx => is_proto_file (snd rx)) (below n)).
Proof.
  intros input p n Hroot Hb.
  rewrite (walk_all _ (callback_true_continue input)). cbn [fst]. rewrite Hroot. cbn [app].
  rewrite <- flat_map_if. apply flat_map_ext_in. intros [r x] Hin. cbn [fst snd].
  rewrite (Hb r x Hin). reflexivity.
Qed.

(* ------------------------------------------------------------------ projections of argv *)
Lemma files_of_app : forall a b, files_of (a ++ b) = files_of a ++ files_of b.
Proof. intros. unfold files_of. apply flat_map_app. Qed.
Lemma includes_of_app : forall a b, includes_of (a ++ b) = includes_of a ++ includes_of b.
Proof. intros. unfold includes_of. apply flat_map_app. Qed.
Lemma mappings_of_app : forall pl a b, mappings_of pl (a ++ b) = mappings_of pl a ++ mappings_of pl b.
Proof. intros. unfold mappings_of. apply flat_map_app. Qed.
Lemma requests_app : forall pl a b, requests pl (a ++ b) = requests pl a || requests pl b.
Proof. intros. unfold requests. apply existsb_app. Qed.

Lemma files_of_files : forall l, files_of (map AFile l) = l.
Proof. induction l as [|x l IH]; simpl; auto. f_equal. exact IH. Qed.
Lemma includes_of_files : forall l, includes_of (map AFile l) = [].
Proof. induction l as [|x l IH]; simpl; auto. Qed.
Lemma mappings_of_files : forall pl l, mappings_of pl (map AFile l) = [].
Proof. induction l as [|x l IH]; simpl; auto. Qed.
Lemma requests_files : forall pl l, requests pl (map AFile l) = false.
Proof. induction l as [|x l IH]; simpl; auto. Qed.

Definition is_map (a : arg) : Prop := match a with AMap _ _ _ => True | _ => False end.

Lemma is_map_proj : forall pl l, Forall is_map l ->
  files_of l = [] /\ includes_of l = [] /\ requests pl l = false.
Proof.
  intros pl l H. induction H as [|a l Ha Hl IH]; simpl; auto.
  destruct a; simpl in Ha; try contradiction. simpl. exact IH.
Qed.

Lemma plugin_flags_proj : forall cfg pl,
  files_of (plugin_flags cfg) = [] /\ includes_of (plugin_flags cfg) = []
  /\ mappings_of pl (plugin_flags cfg) = [] /\ requests pl (plugin_flags cfg) = requested cfg pl.
Proof.
  intros cfg pl. unfold plugin_flags, requested.
  destruct (c_vt cfg), (c_grpc cfg), pl; repeat split; reflexivity.
Qed.

Lemma mapping_args_proj : forall cfg pl r k,
  Forall is_map (mapping_args cfg r k)
  /\ mappings_of pl (mapping_args cfg r k) = if requested cfg pl then [(r, k)] else [].
Proof.
  intros cfg pl r k. unfold mapping_args, requested.
  destruct (c_vt cfg), (c_grpc cfg), pl; split; simpl; repeat constructor.
Qed.

Lemma filter_filter : forall (A : Type) (p q : A -> bool) l,
  filter q (filter p l) = filter (fun x => p x && q x) l.
Proof.
  induction l as [|x l IH]; simpl; auto.
  destruct (p x); simpl; [destruct (q x); simpl; rewrite IH|]; auto.
Qed.

(* ------------------------------------------------------------------ Run *)
Definition dirs_ok (cfg : config) : Prop :=
  forall i, In i (include_paths cfg) ->
    exists s ch, lookup (c_root cfg) (to_abs (c_cwd cfg) (fst i)) = Some (Dir s ch).

Section Run.
  Variable pkg_of : path -> result string.

  Definition map_pkg (a : path) (prefix : option string) (r : path) : string :=
    match prefix with
    | Some pre => join_pkg pre (dir_of r)
    | None => pkg_or_unknown pkg_of (dir_of (a ++ r))
    end.

  Definition mapping_items (cfg : config) (a : path) (prefix : option string)
             (L : list (path * node)) : list arg :=
    flat_map (fun rx => if has_go_package (snd rx) then []
                        else mapping_args cfg (fst rx) (map_pkg a prefix (fst rx))) L.

  Lemma include_files_spec : forall cfg a prefix n L,
    Forall name_ok a ->
    lookup (c_root cfg) a = Some n ->
    (forall r x, In (r, x) L -> Forall name_ok r /\ lookup n r = Some x) ->
    match include_files pkg_of cfg a prefix (map (fun rx => PAbs (a ++ fst rx)) L) with
    | Ok args => args = mapping_items cfg a prefix L
    | Err => exists r x, In (r, x) L /\ has_go_package x = false /\ prefix = None
                         /\ pkg_of (dir_of (a ++ r)) = Err
    end.
  Proof.
    intros cfg a prefix n L Ha Hn. induction L as [|[r x] L IH]; intros HL.
    - reflexivity.
    - assert (HLr : forall r0 x0, In (r0, x0) L -> Forall name_ok r0 /\ lookup n r0 = Some x0).
      { intros r0 x0 Hin. apply HL. right; exact Hin. }
      specialize (IH HLr).
      destruct (HL r x (or_introl eq_refl)) as [Hr Hx].
      assert (Habs : to_abs (c_cwd cfg) (PAbs (a ++ r)) = a ++ r).
      { simpl. apply norm_ok_id. apply Forall_app. split; assumption. }
      cbn [map fst include_files]. unfold file_has_go_package. rewrite Habs.
      rewrite lookup_app, Hn, Hx. unfold mapping_items. cbn [flat_map snd fst].
      destruct (has_go_package x) eqn:Hgp.
      + destruct (include_files pkg_of cfg a prefix (map (fun rx => PAbs (a ++ fst rx)) L)).
        * exact IH.
        * destruct IH as (r0 & x0 & Hin & H). exists r0, x0. split; [right; exact Hin|exact H].
      + rewrite rel_app. unfold mapping_pkg, map_pkg.
        destruct prefix as [pre|].
        * destruct (include_files pkg_of cfg a (Some pre) (map (fun rx => PAbs (a ++ fst rx)) L)).
          -- rewrite IH. reflexivity.
          -- destruct IH as (r0 & x0 & _ & _ & Hf & _). discriminate.
        * unfold pkg_or_unknown. destruct (pkg_of (dir_of (a ++ r))) as [k|] eqn:Hk.
          -- destruct (include_files pkg_of cfg a None (map (fun rx => PAbs (a ++ fst rx)) L)).
             ++ rewrite IH. reflexivity.
             ++ destruct IH as (r0 & x0 & Hin & H). exists r0, x0. split; [right; exact Hin|exact H].
          -- exists r, x. repeat split; auto. left; reflexivity.
  Qed.

  Lemma callback_dir_true : forall input p s ch, snd (callback input true p (Dir s ch)) = [].
  Proof.
    intros input p s ch. unfold callback.
    destruct (pspec_eqb p (PRel []) || pspec_eqb p input); reflexivity.
  Qed.

  (* the protos found below an include directory *)
  Lemma find_protos_include : forall cfg a s ch,
    wf_node (c_root cfg) -> dirs_ok cfg -> Forall name_ok a ->
    lookup (c_root cfg) a = Some (Dir s ch) ->
    find_protos cfg (PAbs a) true =
    Ok (map (fun rx => PAbs (a ++ fst rx))
            (filter (fun rx => is_proto_file (snd rx)) (below (Dir s ch)))).
  Proof.
    intros cfg a s ch Hwf Hdirs Ha Hn. unfold find_protos.
    assert (Habs : to_abs (c_cwd cfg) (PAbs a) = a) by (simpl; apply norm_ok_id; exact Ha).
    rewrite Habs, Hn. f_equal.
    assert (Hwfn : wf_node (Dir s ch)) by (eapply wf_lookup; eauto).
    rewrite walk_recurse.
    - reflexivity.
    - apply callback_dir_true.
    - intros r x Hin. cbn [pjoins].
      destruct (pspec_eqb (PAbs (a ++ r)) (c_input cfg)) eqn:E.
      + apply pspec_eqb_eq in E.
        destruct (Hdirs (c_input cfg, None) (or_introl eq_refl)) as (s' & ch' & Hl).
        cbn [fst] in Hl. rewrite <- E in Hl.
        assert (Hr : Forall name_ok r) by (eapply below_names; eauto).
        assert (Hq : to_abs (c_cwd cfg) (PAbs (a ++ r)) = a ++ r).
        { simpl. apply norm_ok_id. apply Forall_app. split; assumption. }
        rewrite Hq, lookup_app, Hn in Hl.
        apply (below_lookup _ Hwfn) in Hin. destruct Hin as [_ Hin]. rewrite Hin in Hl.
        inversion Hl; subst. rewrite callback_dir_true. reflexivity.
      + rewrite callback_normal; auto.
        * discriminate.
        * intros Heq. rewrite Heq in E. rewrite (proj2 (pspec_eqb_eq _ _) eq_refl) in E. discriminate.
  Qed.

  Definition proto_nogp (rx : path * node) : bool :=
    is_proto_file (snd rx) && negb (has_go_package (snd rx)).

  Lemma scan_mappings_of_eq : forall cfg inc n,
    lookup (c_root cfg) (to_abs (c_cwd cfg) (fst inc)) = Some n ->
    scan_mappings_of pkg_of cfg inc =
    map (fun rx => (fst rx, map_pkg (to_abs (c_cwd cfg) (fst inc)) (snd inc) (fst rx)))
        (filter proto_nogp (below n)).
  Proof. intros cfg inc n H. unfold scan_mappings_of, mappings_by. rewrite H. reflexivity. Qed.

  Lemma mapping_items_proj : forall cfg a prefix L pl,
    Forall is_map (mapping_items cfg a prefix L)
    /\ mappings_of pl (mapping_items cfg a prefix L) =
       if requested cfg pl
       then map (fun rx => (fst rx, map_pkg a prefix (fst rx)))
                (filter (fun rx => negb (has_go_package (snd rx))) L)
       else [].
  Proof.
    intros cfg a prefix L pl. unfold mapping_items. induction L as [|[r x] L [IH1 IH2]].
    - simpl. split; [constructor|]. destruct (requested cfg pl); reflexivity.
    - cbn [flat_map fst snd filter]. destruct (has_go_package x); cbn [negb app].
      + split; assumption.
      + destruct (mapping_args_proj cfg pl r (map_pkg a prefix r)) as [M1 M2]. split.
        * apply Forall_app. split; assumption.
        * rewrite mappings_of_app, M2, IH2. destruct (requested cfg pl); reflexivity.
  Qed.

  (* one iteration of the include loop *)
  Lemma include_args_spec : forall cfg inc,
    wf_node (c_root cfg) -> dirs_ok cfg -> In inc (include_paths cfg) ->
    match include_args pkg_of cfg inc with
    | Ok l =>
        files_of l = [] /\ includes_of l = [to_abs (c_cwd cfg) (fst inc)]
        /\ (forall pl, requests pl l = false)
        /\ (forall pl, mappings_of pl l =
                       if requested cfg pl then scan_mappings_of pkg_of cfg inc else [])
    | Err => exists d, pkg_of d = Err
    end.
  Proof.
    intros cfg inc Hwf Hdirs Hin. unfold include_args.
    set (a := to_abs (c_cwd cfg) (fst inc)).
    destruct (Hdirs inc Hin) as (s & ch & Hn). fold a in Hn.
    assert (Ha : Forall name_ok a) by apply to_abs_names.
    assert (Hwfn : wf_node (Dir s ch)) by (eapply wf_lookup; eauto).
    rewrite (find_protos_include cfg a s ch Hwf Hdirs Ha Hn).
    set (L := filter (fun rx => is_proto_file (snd rx)) (below (Dir s ch))).
    assert (HL : forall r x, In (r, x) L -> Forall name_ok r /\ lookup (Dir s ch) r = Some x).
    { intros r x H. apply filter_In in H. destruct H as [H _]. split.
      - eapply below_names; eauto.
      - apply (below_lookup _ Hwfn) in H. apply H. }
    pose proof (include_files_spec cfg a (snd inc) (Dir s ch) L Ha Hn HL) as HS.
    destruct (include_files pkg_of cfg a (snd inc) (map (fun rx => PAbs (a ++ fst rx)) L)) as [l|].
    - subst l.
      destruct (mapping_items_proj cfg a (snd inc) L PGo) as [HM _].
      repeat split.
      + simpl. apply (is_map_proj PGo _ HM).
      + simpl. f_equal. apply (is_map_proj PGo _ HM).
      + intros pl. simpl. apply (is_map_proj pl _ HM).
      + intros pl. cbn [mappings_of flat_map app]. fold (mappings_of pl (mapping_items cfg a (snd inc) L)).
        destruct (mapping_items_proj cfg a (snd inc) L pl) as [_ HM2]. rewrite HM2.
        destruct (requested cfg pl); [|reflexivity].
        rewrite (scan_mappings_of_eq cfg inc (Dir s ch) Hn). fold a.
        unfold L. rewrite filter_filter. reflexivity.
    - destruct HS as (r & x & _ & _ & _ & HE). eexists. exact HE.
  Qed.

  Lemma includes_args_spec : forall cfg incs,
    wf_node (c_root cfg) -> dirs_ok cfg ->
    (forall i, In i incs -> In i (include_paths cfg)) ->
    match includes_args pkg_of cfg incs with
    | Ok l =>
        files_of l = [] /\ includes_of l = map (fun i => to_abs (c_cwd cfg) (fst i)) incs
        /\ (forall pl, requests pl l = false)
        /\ (forall pl, mappings_of pl l =
                       if requested cfg pl then flat_map (scan_mappings_of pkg_of cfg) incs else [])
    | Err => exists d, pkg_of d = Err
    end.
  Proof.
    intros cfg incs Hwf Hdirs. induction incs as [|i incs IH]; intros Hsub.
    - simpl. repeat split; auto. intros pl. destruct (requested cfg pl); reflexivity.
    - cbn [includes_args].
      pose proof (include_args_spec cfg i Hwf Hdirs (Hsub i (or_introl eq_refl))) as H1.
      destruct (include_args pkg_of cfg i) as [x|]; [|exact H1].
      assert (Hsub' : forall j, In j incs -> In j (include_paths cfg)).
      { intros j Hj. apply Hsub. right; exact Hj. }
      specialize (IH Hsub').
      destruct (includes_args pkg_of cfg incs) as [y|]; [|exact IH].
      destruct H1 as (F1 & I1 & R1 & M1). destruct IH as (F2 & I2 & R2 & M2).
      repeat split.
      + rewrite files_of_app, F1, F2. reflexivity.
      + rewrite includes_of_app, I1, I2. reflexivity.
      + intros pl. rewrite requests_app, R1, R2. reflexivity.
      + intros pl. rewrite mappings_of_app, M1, M2. destruct (requested cfg pl); reflexivity.
  Qed.

  (* everything about a successful run except the files *)
  Lemma run_includes_part : forall cfg argv,
    wf_node (c_root cfg) -> dirs_ok cfg -> run pkg_of cfg = Ok argv ->
    includes_of argv = spec_includes cfg
    /\ (forall pl, requests pl argv = requested cfg pl)
    /\ (forall pl, mappings_of pl argv = scan_mappings pkg_of cfg pl).
  Proof.
    intros cfg argv Hwf Hdirs Hrun. unfold run in Hrun.
    destruct (find_protos cfg (c_input cfg) (c_recurse cfg)) as [paths|]; [|discriminate].
    pose proof (includes_args_spec cfg (include_paths cfg) Hwf Hdirs (fun i H => H)) as HS.
    destruct (includes_args pkg_of cfg (include_paths cfg)) as [incs|]; [|discriminate].
    assert (Hargv : argv = plugin_flags cfg ++ incs ++ map AFile paths) by congruence.
    clear Hrun. subst argv. destruct HS as (F & I & R & M).
    repeat split.
    - rewrite !includes_of_app, I, includes_of_files, app_nil_r.
      destruct (plugin_flags_proj cfg PGo) as (_ & E & _). rewrite E. reflexivity.
    - intros pl. rewrite !requests_app, R, requests_files.
      destruct (plugin_flags_proj cfg pl) as (_ & _ & _ & E). rewrite E.
      rewrite !orb_false_r. reflexivity.
    - intros pl. rewrite !mappings_of_app, M, mappings_of_files, app_nil_r.
      destruct (plugin_flags_proj cfg pl) as (_ & _ & E & _). rewrite E.
      unfold scan_mappings. reflexivity.
  Qed.
End Run.

(* ------------------------------------------------------------------ the file arguments *)
Lemma children_names : forall n, wf_node n ->
  forall r x, In (r, x) (children_of n) -> Forall name_ok r.
Proof.
  intros [s g rg|s ch] Hwf r x H; simpl in H; [contradiction|].
  apply wf_dir in Hwf. destruct Hwf as (_ & Hnames & _). rewrite Forall_forall in Hnames.
  apply in_map_iff in H. destruct H as (c & E & Hc). inversion E; subst.
  constructor; [apply Hnames; exact Hc|constructor].
Qed.

Lemma find_protos_input : forall cfg paths,
  wf_node (c_root cfg) ->
  find_protos cfg (c_input cfg) (c_recurse cfg) = Ok paths ->
  map (to_abs (c_cwd cfg)) paths = spec_files cfg.
Proof.
  intros cfg paths Hwf H. unfold find_protos in H. unfold spec_files, input_abs.
  destruct (lookup (c_root cfg) (to_abs (c_cwd cfg) (c_input cfg))) as [n|] eqn:El; [|discriminate].
  assert (Hwfn : wf_node n) by (eapply wf_lookup; eauto).
  assert (Hp : paths = fst (walk_node (callback (c_input cfg) (c_recurse cfg)) (c_input cfg) n))
    by congruence.
  clear H. subst paths. destruct (c_recurse cfg).
  - rewrite walk_recurse.
    + rewrite map_map. apply map_ext_in. intros [r x] Hin. cbn [fst].
      apply filter_In in Hin. destruct Hin as [Hin _].
      apply to_abs_pjoins. eapply below_names; eauto.
    + rewrite callback_input. reflexivity.
    + intros r x Hin. apply below_nonempty in Hin.
      rewrite callback_normal; auto.
      * apply pjoins_neq_dot; exact Hin.
      * apply pjoins_neq_self; exact Hin.
  - rewrite walk_input_norecurse. rewrite map_map. apply map_ext_in. intros [r x] Hin. cbn [fst].
    apply filter_In in Hin. destruct Hin as [Hin _].
    apply to_abs_pjoins. eapply children_names; eauto.
Qed.

Section Run2.
  Variable pkg_of : path -> result string.

  Lemma include_files_shape : forall cfg a prefix ps l,
    include_files pkg_of cfg a prefix ps = Ok l -> Forall is_map l.
  Proof.
    intros cfg a prefix. induction ps as [|p ps IH]; intros l H; cbn [include_files] in H.
    - assert (l = []) by congruence. subst. constructor.
    - destruct (file_has_go_package cfg p) as [[|]|]; try discriminate.
      + apply IH. exact H.
      + destruct (rel a (to_abs (c_cwd cfg) p)) as [relp|]; try discriminate.
        destruct (mapping_pkg pkg_of prefix relp (to_abs (c_cwd cfg) p)) as [k|]; try discriminate.
        destruct (include_files pkg_of cfg a prefix ps) as [more|]; try discriminate.
        assert (l = mapping_args cfg relp k ++ more) by congruence. subst l.
        apply Forall_app. split; [apply (mapping_args_proj cfg PGo)|apply IH; reflexivity].
  Qed.

  Lemma includes_args_no_files : forall cfg incs l,
    includes_args pkg_of cfg incs = Ok l -> files_of l = [].
  Proof.
    intros cfg. induction incs as [|i incs IH]; intros l H; cbn [includes_args] in H.
    - assert (l = []) by congruence. subst. reflexivity.
    - destruct (include_args pkg_of cfg i) as [x|] eqn:Ex; try discriminate.
      destruct (includes_args pkg_of cfg incs) as [y|]; try discriminate.
      assert (l = x ++ y) by congruence. subst l.
      rewrite files_of_app, (IH y eq_refl), app_nil_r.
      unfold include_args in Ex.
      destruct (find_protos cfg (PAbs (to_abs (c_cwd cfg) (fst i))) true) as [ps|]; try discriminate.
      destruct (include_files pkg_of cfg (to_abs (c_cwd cfg) (fst i)) (snd i) ps) as [m|] eqn:Em;
        try discriminate.
      assert (x = AInc (to_abs (c_cwd cfg) (fst i)) :: m) by congruence. subst x.
      simpl. apply (is_map_proj PGo). eapply include_files_shape; eauto.
  Qed.

  (* C20, files: the file arguments, resolved, are exactly the in-scope .proto files *)
  Lemma run_files : forall cfg argv,
    wf_node (c_root cfg) -> run pkg_of cfg = Ok argv ->
    map (to_abs (c_cwd cfg)) (files_of argv) = spec_files cfg.
  Proof.
    intros cfg argv Hwf Hrun. unfold run in Hrun.
    destruct (find_protos cfg (c_input cfg) (c_recurse cfg)) as [paths|] eqn:Ef; [|discriminate].
    destruct (includes_args pkg_of cfg (include_paths cfg)) as [incs|] eqn:Ei; [|discriminate].
    assert (Hargv : argv = plugin_flags cfg ++ incs ++ map AFile paths) by congruence.
    clear Hrun. subst argv.
    rewrite !files_of_app, files_of_files, (includes_args_no_files _ _ _ Ei).
    destruct (plugin_flags_proj cfg PGo) as (E & _). rewrite E. cbn [app].
    apply find_protos_input; assumption.
  Qed.

  (* the tool reaches exec.Command: Run does not fail before it *)
  Lemma run_succeeds : forall cfg,
    wf_node (c_root cfg) -> dirs_ok cfg -> (forall d, pkg_of d <> Err) ->
    exists argv, run pkg_of cfg = Ok argv.
  Proof.
    intros cfg Hwf Hdirs Hor. unfold run.
    destruct (Hdirs (c_input cfg, None) (or_introl eq_refl)) as (s & ch & Hl). cbn [fst] in Hl.
    unfold find_protos at 1. rewrite Hl.
    pose proof (includes_args_spec pkg_of cfg (include_paths cfg) Hwf Hdirs (fun i H => H)) as HS.
    destruct (includes_args pkg_of cfg (include_paths cfg)) as [incs|].
    - eexists. reflexivity.
    - destruct HS as (d & Hd). exfalso. apply (Hor d). exact Hd.
  Qed.

  Lemma invocations_le_one : forall cfg, length (invocations pkg_of cfg) <= 1.
  Proof. intros cfg. unfold invocations. destruct (run pkg_of cfg); simpl; lia. Qed.

  Lemma invocations_exactly_one : forall cfg,
    wf_node (c_root cfg) -> dirs_ok cfg -> (forall d, pkg_of d <> Err) ->
    exists argv, invocations pkg_of cfg = [argv] /\ run pkg_of cfg = Ok argv.
  Proof.
    intros cfg Hwf Hdirs Hor. destruct (run_succeeds cfg Hwf Hdirs Hor) as (argv & H).
    exists argv. unfold invocations. rewrite H. split; reflexivity.
  Qed.
End Run2.

(* ------------------------------------------------------------------ the specification, declaratively *)
Lemma NoDup_map_fst_filter : forall (A B : Type) (q : A * B -> bool) l,
  NoDup (map fst l) -> NoDup (map fst (filter q l)).
Proof.
  intros A B q l. induction l as [|x l IH]; intros H; simpl; [constructor|].
  simpl in H. inversion H as [|? ? Hx Hnd]; subst.
  destruct (q x); simpl; auto. constructor; auto.
  intros Hin. apply Hx. apply in_map_iff in Hin. destruct Hin as (y & E & Hy).
  apply filter_In in Hy. destruct Hy as [Hy _]. rewrite <- E. apply in_map. exact Hy.
Qed.

Lemma NoDup_map_app_l : forall (A : Type) (a : list A) l, NoDup l -> NoDup (map (app a) l).
Proof.
  intros A a l H. induction H as [|x l Hx Hnd IH]; simpl; constructor; auto.
  intros Hin. apply in_map_iff in Hin. destruct Hin as (y & E & Hy).
  apply app_inv_head in E. subst. contradiction.
Qed.

Lemma children_lookup : forall n, wf_node n ->
  forall r x, In (r, x) (children_of n) <-> (length r = 1 /\ lookup n r = Some x).
Proof.
  intros [s g rg|s ch] Hwf r x.
  - simpl. split; [contradiction|]. intros [Hl H]. destruct r; simpl in *; discriminate.
  - apply wf_dir in Hwf. destruct Hwf as (Hnd & _ & _). cbn [children_of]. split.
    + intros H. apply in_map_iff in H. destruct H as (c & E & Hc). inversion E; subst.
      split; [reflexivity|]. simpl. rewrite find_child_nodup by assumption. reflexivity.
    + intros [Hl H]. destruct r as [|a [|b r]]; simpl in Hl; try discriminate.
      simpl in H. destruct (find_child a ch) as [c|] eqn:E; try discriminate.
      inversion H; subst. apply find_child_In in E. destruct E as [Hc Hname].
      apply in_map_iff. exists x. rewrite Hname. split; auto.
Qed.

Lemma children_nodup : forall n, wf_node n -> NoDup (map fst (children_of n)).
Proof.
  intros [s g rg|s ch] Hwf; simpl; [constructor|].
  apply wf_dir in Hwf. destruct Hwf as (Hnd & _ & _).
  rewrite map_map. simpl. induction ch as [|c ch IH]; simpl; [constructor|].
  simpl in Hnd. inversion Hnd as [|? ? Hx Hnd']; subst. constructor; auto.
  intros Hin. apply Hx. apply in_map_iff in Hin. destruct Hin as (d & E & Hd).
  inversion E as [E']. apply in_map. exact Hd.
Qed.

(* "q is a .proto file directly inside the input directory, or anywhere below it with -recurse" *)
Definition in_scope (cfg : config) (q : path) : Prop :=
  exists r x, q = input_abs cfg ++ r /\ r <> []
              /\ (c_recurse cfg = true \/ length r = 1)
              /\ lookup (c_root cfg) q = Some x /\ is_proto_file x = true.

Lemma spec_files_char : forall cfg, wf_node (c_root cfg) ->
  NoDup (spec_files cfg) /\ (forall q, In q (spec_files cfg) <-> in_scope cfg q).
Proof.
  intros cfg Hwf. unfold spec_files, in_scope.
  destruct (lookup (c_root cfg) (input_abs cfg)) as [n|] eqn:El.
  - assert (Hwfn : wf_node n) by (eapply wf_lookup; eauto).
    set (L := if c_recurse cfg then below n else children_of n).
    assert (HLnd : NoDup (map fst L)).
    { unfold L. destruct (c_recurse cfg); [apply below_nodup|apply children_nodup]; exact Hwfn. }
    assert (HL : forall r x, In (r, x) L <->
                   (r <> [] /\ (c_recurse cfg = true \/ length r = 1) /\ lookup n r = Some x)).
    { intros r x. unfold L. destruct (c_recurse cfg).
      - rewrite (below_lookup n Hwfn). intuition.
      - rewrite (children_lookup n Hwfn). split.
        + intros [H1 H2]. repeat split; auto. intros ->. discriminate.
        + intros (_ & [H|H] & H2); [discriminate|]. split; assumption. }
    split.
    + rewrite <- (map_map fst (app (input_abs cfg))). apply NoDup_map_app_l.
      apply NoDup_map_fst_filter. exact HLnd.
    + intros q. rewrite in_map_iff. split.
      * intros ([r x] & E & Hin). cbn [fst] in E. apply filter_In in Hin. destruct Hin as [Hin Hp].
        cbn [snd] in Hp. apply HL in Hin. destruct Hin as (Hr & Hrec & Hlk).
        exists r, x. repeat split; auto. rewrite <- E, lookup_app, El. exact Hlk.
      * intros (r & x & E & Hr & Hrec & Hlk & Hp). exists (r, x). split; [symmetry; exact E|].
        apply filter_In. split; [|exact Hp]. apply HL. repeat split; auto.
        rewrite E, lookup_app, El in Hlk. exact Hlk.
  - split; [constructor|]. intros q. split; [intros []|].
    intros (r & x & E & _ & _ & Hlk & _). rewrite E, lookup_app, El in Hlk. discriminate.
Qed.

Section SpecMappings.
  Variable pkg_of : path -> result string.

  (* "(r, k) is the mapping of a proto r below include directory a that lacks go_package" *)
  Definition scan_mapping_wanted (cfg : config) (inc : pspec * option string) (r : path) (k : string) : Prop :=
    let a := to_abs (c_cwd cfg) (fst inc) in
    exists x, r <> [] /\ lookup (c_root cfg) (a ++ r) = Some x
              /\ is_proto_file x = true /\ has_go_package x = false
              /\ k = map_pkg pkg_of a (snd inc) r.

  Lemma scan_mappings_of_char : forall cfg inc, wf_node (c_root cfg) ->
    NoDup (map fst (scan_mappings_of pkg_of cfg inc))
    /\ (forall r k, In (r, k) (scan_mappings_of pkg_of cfg inc) <-> scan_mapping_wanted cfg inc r k).
  Proof.
    intros cfg inc Hwf. unfold scan_mapping_wanted.
    destruct (lookup (c_root cfg) (to_abs (c_cwd cfg) (fst inc))) as [n|] eqn:El.
    - assert (Hwfn : wf_node n) by (eapply wf_lookup; eauto).
      rewrite (scan_mappings_of_eq pkg_of cfg inc n El). split.
      + rewrite map_map. cbn [fst]. apply NoDup_map_fst_filter. apply below_nodup. exact Hwfn.
      + intros r k. rewrite in_map_iff. split.
        * intros ([r' x] & E & Hin). cbn [fst] in E. inversion E; subst r' k.
          apply filter_In in Hin. destruct Hin as [Hin Hp]. unfold proto_nogp in Hp. cbn [snd] in Hp.
          apply andb_true_iff in Hp. destruct Hp as [Hp Hg]. apply negb_true_iff in Hg.
          apply (below_lookup n Hwfn) in Hin. destruct Hin as [Hr Hlk].
          exists x. repeat split; auto. rewrite lookup_app, El. exact Hlk.
        * intros (x & Hr & Hlk & Hp & Hg & Hk). exists (r, x). cbn [fst]. split; [rewrite Hk; reflexivity|].
          apply filter_In. split.
          -- apply (below_lookup n Hwfn). split; auto. rewrite lookup_app, El in Hlk. exact Hlk.
          -- unfold proto_nogp. cbn [snd]. rewrite Hp, Hg. reflexivity.
    - unfold scan_mappings_of, mappings_by. rewrite El. split; [constructor|].
      intros r k. split; [intros []|]. intros (x & _ & Hlk & _). rewrite lookup_app, El in Hlk. discriminate.
  Qed.
End SpecMappings.

(* ------------------------------------------------------------------ executable hypotheses *)
Lemma name_okb_sound : forall s, name_okb s = true -> name_ok s.
Proof.
  intros s H. unfold name_okb in H. apply andb_true_iff in H. destruct H as [H H3].
  apply andb_true_iff in H. destruct H as [H1 H2].
  apply negb_true_iff in H1, H2, H3. apply String.eqb_neq in H1, H2, H3. repeat split; assumption.
Qed.

Lemma nodupb_sound : forall l, nodupb l = true -> NoDup l.
Proof.
  induction l as [|x l IH]; intros H; [constructor|]. simpl in H.
  apply andb_true_iff in H. destruct H as [H1 H2]. constructor; auto.
  intros Hin. apply negb_true_iff in H1.
  assert (existsb (String.eqb x) l = true).
  { apply existsb_exists. exists x. split; auto. apply String.eqb_refl. }
  congruence.
Qed.

Lemma wf_nodeb_sound : forall n, wf_nodeb n = true -> wf_node n.
Proof.
  induction n as [s g rg|s ch IH] using node_ind'; intros H; [exact I|].
  apply wf_dir. cbn [wf_nodeb] in H.
  apply andb_true_iff in H. destruct H as [H H3]. apply andb_true_iff in H. destruct H as [H1 H2].
  repeat split.
  - apply nodupb_sound. exact H1.
  - rewrite forallb_forall in H2. apply Forall_forall. intros c Hc. apply name_okb_sound. auto.
  - rewrite forallb_forall in H3. rewrite Forall_forall in IH. apply Forall_forall.
    intros c Hc. apply IH; auto.
Qed.

Lemma dirs_okb_sound : forall cfg, dirs_okb cfg = true -> dirs_ok cfg.
Proof.
  intros cfg H i Hi. unfold dirs_okb in H. rewrite forallb_forall in H. specialize (H i Hi).
  destruct (lookup (c_root cfg) (to_abs (c_cwd cfg) (fst i))) as [[|s ch]|]; try discriminate.
  exists s, ch. reflexivity.
Qed.

(* ------------------------------------------------------------------ "each exactly once, nothing else" *)
Definition path_eq_dec : forall a b : path, {a = b} + {a <> b} := list_eq_dec string_dec.

Lemma run_files_count : forall pkg_of cfg argv,
  wf_node (c_root cfg) -> run pkg_of cfg = Ok argv ->
  forall q,
    (in_scope cfg q -> count_occ path_eq_dec (map (to_abs (c_cwd cfg)) (files_of argv)) q = 1)
    /\ (~ in_scope cfg q -> count_occ path_eq_dec (map (to_abs (c_cwd cfg)) (files_of argv)) q = 0).
Proof.
  intros pkg_of cfg argv Hwf Hrun q. rewrite (run_files pkg_of cfg argv Hwf Hrun).
  destruct (spec_files_char cfg Hwf) as [Hnd Hin]. split; intros H.
  - apply (proj1 (NoDup_count_occ' path_eq_dec (spec_files cfg)) Hnd). apply Hin. exact H.
  - apply count_occ_not_In. intros Hq. apply H. apply Hin. exact Hq.
Qed.

(* all conclusions at once, from the executable hypotheses *)
Lemma run_checked : forall pkg_of cfg argv,
  wf_nodeb (c_root cfg) = true -> dirs_okb cfg = true -> run pkg_of cfg = Ok argv ->
  map (to_abs (c_cwd cfg)) (files_of argv) = spec_files cfg
  /\ includes_of argv = spec_includes cfg
  /\ (forall pl, requests pl argv = requested cfg pl)
  /\ (forall pl, mappings_of pl argv = scan_mappings pkg_of cfg pl).
Proof.
  intros pkg_of cfg argv Hwf Hdirs Hrun.
  apply wf_nodeb_sound in Hwf. apply dirs_okb_sound in Hdirs.
  split; [apply (run_files pkg_of); assumption|].
  apply run_includes_part; assumption.
Qed.

(* the parts of [run_includes_part], one by one *)
Lemma run_includes : forall pkg_of cfg argv,
  wf_node (c_root cfg) -> dirs_ok cfg -> run pkg_of cfg = Ok argv ->
  includes_of argv = spec_includes cfg.
Proof. intros pkg_of cfg argv H1 H2 H3. apply (run_includes_part pkg_of cfg argv H1 H2 H3). Qed.

Lemma run_plugins : forall pkg_of cfg argv,
  wf_node (c_root cfg) -> dirs_ok cfg -> run pkg_of cfg = Ok argv ->
  requests PGo argv = true /\ requests PVt argv = c_vt cfg /\ requests PGrpc argv = c_grpc cfg.
Proof.
  intros pkg_of cfg argv H1 H2 H3.
  destruct (run_includes_part pkg_of cfg argv H1 H2 H3) as (_ & R & _).
  repeat split; apply R.
Qed.

Lemma run_mappings : forall pkg_of cfg argv,
  wf_node (c_root cfg) -> dirs_ok cfg -> run pkg_of cfg = Ok argv ->
  forall pl, mappings_of pl argv =
             if requested cfg pl then flat_map (scan_mappings_of pkg_of cfg) (include_paths cfg) else [].
Proof. intros pkg_of cfg argv H1 H2 H3. apply (run_includes_part pkg_of cfg argv H1 H2 H3). Qed.

(* ------------------------------------------------------------------ the scan as decider of
   "declares go_package": on trees whose *.proto files the line scan classifies correctly
   ([tree_agreesb], a condition on the input tree alone) the mappings the code produces
   ([scan_mappings]) are the ones the property asks for ([spec_mappings]) *)
Lemma tree_agrees_dir : forall s ch, tree_agreesb (Dir s ch) = true -> Forall (fun c => tree_agreesb c = true) ch.
Proof. intros s ch H. cbn [tree_agreesb] in H. rewrite forallb_forall in H. apply Forall_forall. exact H. Qed.

Lemma tree_agrees_lookup : forall p n x,
  tree_agreesb n = true -> lookup n p = Some x -> tree_agreesb x = true.
Proof.
  induction p as [|s p IH]; intros n x Hn H; simpl in H.
  - inversion H; subst. exact Hn.
  - destruct n as [a c r|a ch]; try discriminate.
    destruct (find_child s ch) as [c|] eqn:E; try discriminate.
    apply find_child_In in E. destruct E as [Hin _].
    apply tree_agrees_dir in Hn. rewrite Forall_forall in Hn. eapply IH; [|exact H]. apply Hn. exact Hin.
Qed.

Lemma agrees_proto : forall x, tree_agreesb x = true -> is_proto_file x = true ->
  has_go_package x = node_declares x.
Proof.
  intros [s c r|s ch] Ha Hp; [|discriminate].
  cbn [tree_agreesb] in Ha. rewrite Hp in Ha. cbn [negb orb] in Ha.
  unfold scan_agrees in Ha. apply Bool.eqb_prop in Ha. exact Ha.
Qed.

Lemma spec_scan_mappings_of : forall pkg_of cfg inc,
  wf_node (c_root cfg) -> tree_agreesb (c_root cfg) = true ->
  spec_mappings_of pkg_of cfg inc = scan_mappings_of pkg_of cfg inc.
Proof.
  intros pkg_of cfg inc Hwf Ha. unfold spec_mappings_of, scan_mappings_of, mappings_by.
  destruct (lookup (c_root cfg) (to_abs (c_cwd cfg) (fst inc))) as [n|] eqn:El; [|reflexivity].
  f_equal. apply filter_ext_in. intros [r x] Hin. cbn [snd].
  destruct (is_proto_file x) eqn:Hp; [|reflexivity]. cbn [andb]. f_equal.
  symmetry. apply agrees_proto; [|exact Hp].
  assert (Hwfn : wf_node n) by (eapply wf_lookup; eauto).
  apply (below_lookup n Hwfn) in Hin. destruct Hin as [_ Hl].
  eapply tree_agrees_lookup; [|exact Hl]. eapply tree_agrees_lookup; eauto.
Qed.

Lemma spec_scan_mappings : forall pkg_of cfg pl,
  wf_node (c_root cfg) -> tree_agreesb (c_root cfg) = true ->
  spec_mappings pkg_of cfg pl = scan_mappings pkg_of cfg pl.
Proof.
  intros pkg_of cfg pl Hwf Ha. unfold spec_mappings, scan_mappings.
  destruct (requested cfg pl); [|reflexivity].
  apply flat_map_ext. intros inc. apply spec_scan_mappings_of; assumption.
Qed.

(* the property's mapping clause, on the input domain where the scan is right *)
Lemma run_mappings_spec : forall pkg_of cfg argv,
  wf_node (c_root cfg) -> dirs_ok cfg -> tree_agreesb (c_root cfg) = true ->
  run pkg_of cfg = Ok argv ->
  forall pl, mappings_of pl argv = spec_mappings pkg_of cfg pl.
Proof.
  intros pkg_of cfg argv H1 H2 Ha H3 pl. rewrite spec_scan_mappings by assumption.
  apply (run_includes_part pkg_of cfg argv H1 H2 H3).
Qed.

Section SpecWanted.
  Variable pkg_of : path -> result string.
  (* declarative reading of [spec_mappings_of]: with "does not declare go_package" *)
  Definition mapping_wanted (cfg : config) (inc : pspec * option string) (r : path) (k : string) : Prop :=
    let a := to_abs (c_cwd cfg) (fst inc) in
    exists x, r <> [] /\ lookup (c_root cfg) (a ++ r) = Some x
              /\ is_proto_file x = true /\ node_declares x = false
              /\ k = map_pkg pkg_of a (snd inc) r.

  Lemma spec_mappings_of_char : forall cfg inc,
    wf_node (c_root cfg) -> tree_agreesb (c_root cfg) = true ->
    NoDup (map fst (spec_mappings_of pkg_of cfg inc))
    /\ (forall r k, In (r, k) (spec_mappings_of pkg_of cfg inc) <-> mapping_wanted cfg inc r k).
  Proof.
    intros cfg inc Hwf Ha. rewrite spec_scan_mappings_of by assumption.
    destruct (scan_mappings_of_char pkg_of cfg inc Hwf) as [Hnd Hin]. split; [exact Hnd|].
    intros r k. rewrite Hin. unfold scan_mapping_wanted, mapping_wanted. cbv zeta.
    split; intros (x & H1 & H2 & H3 & H4 & H5); exists x; repeat split; auto.
    - rewrite <- (agrees_proto x); auto. eapply tree_agrees_lookup; eauto.
    - rewrite (agrees_proto x); auto. eapply tree_agrees_lookup; eauto.
  Qed.
End SpecWanted.
