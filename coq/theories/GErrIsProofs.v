(* GErrIsProofs.v — errors.Is / ExtractFactoryReference / Convert on the store model
   (lemmas behind Props/C06.v). *)
From Coq Require Import NArith List Bool Lia PeanoNat.
From GT Require Import Base.GErrStr.
From GT Require Import GErrModel GErrHist.
Import ListNotations.

Lemma gv_cell st v i : gv st v = Some i -> exists c, nth_error st i = Some c /\ as_gerror v = Some i.
Proof.
  destruct v as [|k|k|]; simpl; try discriminate.
  - destruct (nth_error st k) eqn:E; [|discriminate]. intros H; injection H as <-. eauto.
  - destruct (nth_error st k) as [c|] eqn:E; [|discriminate].
    destruct (c_x c); [|discriminate]. intros H; injection H as <-. eauto.
Qed.

Lemma gv_val_of st i c : nth_error st i = Some c -> gv st (val_of st i) = Some i.
Proof.
  intros E. unfold val_of. rewrite E. destruct (c_x c) eqn:X; simpl; rewrite E; [rewrite X|]; reflexivity.
Qed.

(* ---------------------------------------------------------------- small evaluation facts *)
Lemma serr_vs_gerr guard s v :
  is_gerr_val s = false -> is_gerr_val v = true -> converted_from guard s v = Ok false.
Proof.
  intros P G. unfold converted_from. destruct s; simpl in *; try discriminate; try reflexivity.
  destruct (guard && negb cmp); [reflexivity|]. destruct v; simpl in *; try discriminate; reflexivity.
Qed.

Lemma later_vs_gerr guard l v :
  forallb fgn l = true -> is_gerr_val v = true -> later_match guard l v = Ok false.
Proof.
  induction l as [|s r IH]; intros P G; simpl; [reflexivity|].
  simpl in P. apply andb_true_iff in P as [P1 P2]. apply negb_true_iff in P1.
  rewrite (serr_vs_gerr guard s v P1 G). cbn [bind_true]. apply IH; assumption.
Qed.

Lemma converted_nil guard v : converted_from guard VNil v = Ok false.
Proof. reflexivity. Qed.

Lemma origin_root st i c : nth_error st i = Some c -> g_fref (c_g c) = VNil -> origin st i = i.
Proof. intros E F. unfold origin. rewrite E, F. reflexivity. Qed.

Lemma origin_der st i c o : nth_error st i = Some c -> g_fref (c_g c) = VG o -> origin st i = o.
Proof. intros E F. unfold origin. rewrite E, F. reflexivity. Qed.

Lemma eqb_refl_nat n : Nat.eqb n n = true.
Proof. apply Nat.eqb_refl. Qed.

Lemma ieq_GG a b : iface_eq (VG a) (VG b) = Ok (Nat.eqb a b).
Proof. reflexivity. Qed.

Lemma gis_S guard f st i err :
  gerr_is_gen guard (S f) st i err =
  match nth_error st i with
  | None => Panic
  | Some c =>
      let g := c_g c in
      bind_true (if g_isfac g then iface_eq (VG i) (extract_fref st err) else Ok false) (fun _ =>
      bind_true (iface_eq (VG i) err) (fun _ =>
      bind_true (if is_nil (g_fref g) then Ok false else iface_eq (g_fref g) err) (fun _ =>
      bind_true (converted_from guard (g_serr g) err) (fun _ =>
      bind_true (later_match guard (g_later g) err) (fun _ =>
      match as_gerror err with
      | None => Ok false
      | Some _ =>
          match unwrap_val st err with
          | VNil => Ok false
          | u => gerr_is_gen guard f st i u
          end
      end)))))
  end.
Proof. reflexivity. Qed.

(* ---------------------------------------------------------------- GError.Is on gerror targets *)
Section IsGerr.
  Variables (guard : bool) (st : store).
  Hypothesis W : wf st.

  (* target: the pointer to a root's GError record *)
  Lemma gis_root_VG i ci j cj f :
    nth_error st i = Some ci -> nth_error st j = Some cj -> g_fref (c_g cj) = VNil ->
    gerr_is_gen guard (S f) st i (VG j) = Ok (Nat.eqb (origin st i) j).
  Proof.
    intros Ei Ej Fj. cbn [gerr_is_gen]. rewrite Ei.
    assert (Xj : extract_fref st (VG j) = if g_isfac (c_g cj) then VG j else VNil).
    { unfold extract_fref; simpl. rewrite Ej, Fj. reflexivity. }
    assert (Uj : unwrap_val st (VG j) = VNil) by (simpl; rewrite Ej; exact Fj).
    rewrite Xj. cbn [as_gerror]. rewrite Uj.
    destruct (W i ci Ei) as [Fi Si Li _ | o co Fi Eo _ _ _ _ Pi PLi].
    - rewrite (origin_root st i ci Ei Fi), Fi, Si, Li. simpl.
      destruct (g_isfac (c_g ci)), (g_isfac (c_g cj)); simpl; destruct (Nat.eqb i j); reflexivity.
    - rewrite (origin_der st i ci o Ei Fi), Fi.
      destruct (Nat.eqb_spec i j) as [->|Hij].
      + rewrite Ei in Ej. injection Ej as <-. congruence.
      + assert (Hfirst : (if g_isfac (c_g ci)
                          then iface_eq (VG i) (if g_isfac (c_g cj) then VG j else VNil)
                          else Ok false) = Ok false).
        { destruct (g_isfac (c_g ci)); [|reflexivity]. destruct (g_isfac (c_g cj)); [|reflexivity].
          rewrite ieq_GG. apply Nat.eqb_neq in Hij. rewrite Hij. reflexivity. }
        rewrite Hfirst, ieq_GG. apply Nat.eqb_neq in Hij. rewrite Hij.
        cbn [is_nil iface_eq bind_true]. destruct (Nat.eqb o j); cbn [bind_true]; [reflexivity|].
        rewrite (serr_vs_gerr guard _ (VG j) Pi eq_refl), (later_vs_gerr guard _ (VG j) PLi eq_refl). reflexivity.
  Qed.

  (* target: an extension factory (root, made with FactoryOf) as handed out *)
  Lemma gis_root_VX i ci j cj x f :
    nth_error st i = Some ci -> nth_error st j = Some cj -> g_fref (c_g cj) = VNil ->
    c_x cj = Some x -> g_isfac (c_g cj) = true ->
    gerr_is_gen guard (S f) st i (VX j) = Ok (Nat.eqb i j).
  Proof.
    intros Ei Ej Fj Xj Ij. cbn [gerr_is_gen]. rewrite Ei.
    assert (Ex : extract_fref st (VX j) = VG j).
    { unfold extract_fref; simpl. rewrite Ej, Ij. reflexivity. }
    assert (Uj : unwrap_val st (VX j) = VNil) by (simpl; rewrite Ej; exact Fj).
    rewrite Ex. cbn [as_gerror]. rewrite Uj.
    destruct (W i ci Ei) as [Fi Si Li _ | o co Fi Eo _ _ _ _ Pi PLi].
    - rewrite Fi, Si, Li. simpl.
      destruct (Nat.eqb_spec i j) as [->|Hij].
      + rewrite Ei in Ej. injection Ej as ->. rewrite Ij. reflexivity.
      + destruct (g_isfac (c_g ci)); reflexivity.
    - rewrite Fi.
      destruct (Nat.eqb_spec i j) as [->|Hij]; [rewrite Ei in Ej; injection Ej as <-; congruence|].
      assert (Hfirst : (if g_isfac (c_g ci) then iface_eq (VG i) (VG j) else Ok false) = Ok false).
      { destruct (g_isfac (c_g ci)); [|reflexivity]. rewrite ieq_GG.
        apply Nat.eqb_neq in Hij. rewrite Hij. reflexivity. }
      rewrite Hfirst. cbn [is_nil iface_eq bind_true].
      rewrite (serr_vs_gerr guard _ (VX j) Pi eq_refl), (later_vs_gerr guard _ (VX j) PLi eq_refl). cbn [bind_true].
      reflexivity.
  Qed.

  (* target: any derived error (possibly turned into a factory itself) *)
  Lemma gis_derived i ci vb j cj oj coj f :
    nth_error st i = Some ci -> gv st vb = Some j -> nth_error st j = Some cj ->
    g_fref (c_g cj) = VG oj -> nth_error st oj = Some coj -> g_fref (c_g coj) = VNil ->
    gerr_is_gen guard (S (S f)) st i vb = Ok (Nat.eqb (origin st i) oj).
  Proof.
    intros Ei Gv Ej Fj Eoj Foj.
    destruct (gv_cell _ _ _ Gv) as [cj' [Ej' Ag]]. rewrite Ej in Ej'. injection Ej' as <-.
    assert (Gb : is_gerr_val vb = true) by (destruct vb; simpl in *; try discriminate; reflexivity).
    assert (Ex : extract_fref st vb = if g_isfac (c_g cj) then VG j else VG oj).
    { unfold extract_fref. rewrite Ag, Ej, Fj. reflexivity. }
    assert (Ub : unwrap_val st vb = VG oj).
    { destruct vb; simpl in Ag; try discriminate; injection Ag as ->; simpl; rewrite Ej; exact Fj. }
    pose proof (gis_root_VG i ci oj coj f Ei Eoj Foj) as Rec.
    rewrite gis_S, Ei. cbv zeta. rewrite Ex, Ag, Ub.
    (* e.isFactory && e == ExtractFactoryReference(err): true only within the same family *)
    assert (Hfirst : exists b1,
               (if g_isfac (c_g ci)
                then iface_eq (VG i) (if g_isfac (c_g cj) then VG j else VG oj) else Ok false) = Ok b1
               /\ (b1 = true -> origin st i = oj)).
    { destruct (g_isfac (c_g ci)); [|exists false; split; [reflexivity|discriminate]].
      destruct (g_isfac (c_g cj)); rewrite ieq_GG; eexists; (split; [reflexivity|]); intros H;
        apply Nat.eqb_eq in H; subst i.
      - rewrite Ei in Ej. injection Ej as <-. exact (origin_der st j ci oj Ei Fj).
      - rewrite Ei in Eoj. injection Eoj as <-. exact (origin_root st oj ci Ei Foj). }
    destruct Hfirst as [b1 [E1 T1]]. rewrite E1. destruct b1; cbn [bind_true].
    { rewrite (T1 eq_refl), Nat.eqb_refl. reflexivity. }
    (* e == err can only hold for the same derived error *)
    assert (Hself : iface_eq (VG i) vb = Ok false \/ (vb = VG i /\ i = j)).
    { destruct vb as [|k|k|]; simpl in Ag; try discriminate; injection Ag as ->; simpl; [|left; reflexivity].
      destruct (Nat.eqb_spec i j) as [->|]; [right; split; reflexivity|left; reflexivity]. }
    destruct (W i ci Ei) as [Fi Si Li _ | o co Fi Eo Fo _ _ _ Pi PLi].
    - rewrite (origin_root st i ci Ei Fi) in *. rewrite Fi, Si, Li, converted_nil.
      cbn [is_nil bind_true later_match].
      destruct Hself as [Hne|[-> <-]]; [|rewrite Ei in Ej; injection Ej as ->; congruence].
      rewrite Hne. cbn [bind_true]. exact Rec.
    - rewrite (origin_der st i ci o Ei Fi) in *. rewrite Fi. cbn [is_nil bind_true].
      destruct Hself as [Hne|[-> <-]].
      + rewrite Hne. cbn [bind_true].
        (* e.factoryRef == err: err is derived, the back-reference points at a root *)
        assert (Hfr : iface_eq (VG o) vb = Ok false).
        { destruct vb as [|k|k|]; simpl in Ag; try discriminate; injection Ag as ->; simpl; [|reflexivity].
          destruct (Nat.eqb_spec o j) as [->|]; [|reflexivity].
          rewrite Eo in Ej. injection Ej as ->. congruence. }
        rewrite Hfr. cbn [bind_true].
        rewrite (serr_vs_gerr guard _ vb Pi Gb), (later_vs_gerr guard _ vb PLi Gb). cbn [bind_true]. exact Rec.
      + rewrite ieq_GG, Nat.eqb_refl. cbn [bind_true].
        rewrite Ei in Ej. injection Ej as <-. rewrite Fi in Fj. injection Fj as ->.
        rewrite Nat.eqb_refl. reflexivity.
  Qed.
End IsGerr.

(* ---------------------------------------------------------------- errors.Is between gerror values *)
Lemma loop_S guard f st err target tc :
  errors_is_loop guard (S f) st err target tc =
  bind_true (if tc then iface_eq err target else Ok false) (fun _ =>
  bind_true (match as_gerror err with
             | Some i => gerr_is_gen guard (S f) st i target
             | None => Ok false
             end) (fun _ =>
  match unwrap_val st err with
  | VNil => Ok false
  | u => errors_is_loop guard f st u target tc
  end)).
Proof. reflexivity. Qed.

Section IsGG.
  Variables (guard : bool) (st : store).
  Hypothesis W : wf st.

  Lemma root_not_derived i c o : nth_error st i = Some c -> g_fref (c_g c) = VNil ->
    forall j cj, nth_error st j = Some cj -> g_fref (c_g cj) = VG o -> i <> j.
  Proof. intros E F j cj Ej Fj ->. rewrite E in Ej. injection Ej as ->. congruence. Qed.

  (* GError.Is of cell i against a valid gerror value *)
  Lemma gis_gerr i ci vb j f :
    nth_error st i = Some ci -> gv st vb = Some j ->
    exists b, gerr_is_gen guard (S (S f)) st i vb = Ok b /\
      (b = true -> origin st i = origin st j) /\
      (b = false -> origin st i <> origin st j \/
                    (exists cj, nth_error st j = Some cj /\ g_fref (c_g cj) = VNil /\ vb = VX j /\ i <> j)).
  Proof.
    intros Ei Gv. destruct (gv_cell _ _ _ Gv) as [cj [Ej Ag]].
    destruct (W j cj Ej) as [Fj Sj _ Xj | oj coj Fj Eoj Foj _ _ _ _ _].
    - rewrite (origin_root st j cj Ej Fj).
      destruct vb as [|k|k|]; simpl in Ag; try discriminate; injection Ag as ->.
      + rewrite (gis_root_VG guard st W i ci j cj (S f) Ei Ej Fj). eexists. split; [reflexivity|].
        split; intros H.
        * apply Nat.eqb_eq in H. exact H.
        * apply Nat.eqb_neq in H. left. exact H.
      + simpl in Gv. rewrite Ej in Gv. destruct (c_x cj) as [x|] eqn:X; [|discriminate].
        rewrite (gis_root_VX guard st W i ci j cj x (S f) Ei Ej Fj X (Xj x eq_refl)).
        eexists. split; [reflexivity|]. split; intros H.
        * apply Nat.eqb_eq in H. subst j. exact (origin_root st i cj Ej Fj).
        * apply Nat.eqb_neq in H. right. exists cj. auto.
    - rewrite (origin_der st j cj oj Ej Fj).
      rewrite (gis_derived guard st W i ci vb j cj oj coj f Ei Gv Ej Fj Eoj Foj).
      eexists. split; [reflexivity|]. split; intros H.
      + apply Nat.eqb_eq in H. exact H.
      + apply Nat.eqb_neq in H. left. exact H.
  Qed.

  (* errors.Is between two valid gerror values decides "same originating factory" *)
  (* the loop of errors.Is on two gerror values, for any fuel of at least 4 *)
  Lemma loop_gg va vb i j n :
    gv st va = Some i -> gv st vb = Some j ->
    errors_is_loop guard (S (S (S (S n)))) st va vb true = Ok (Nat.eqb (origin st i) (origin st j)).
  Proof.
    intros Ga Gb.
    destruct (gv_cell _ _ _ Ga) as [ci [Ei Aa]]. destruct (gv_cell _ _ _ Gb) as [cj [Ej Ab]].
    rewrite loop_S, Aa.
    (* err == target *)
    assert (Heq : iface_eq va vb = Ok false \/ (iface_eq va vb = Ok true /\ i = j)).
    { destruct va as [|a|a|]; simpl in Aa; try discriminate; injection Aa as ->;
        destruct vb as [|b|b|]; simpl in Ab; try discriminate; injection Ab as ->; simpl;
          try (left; reflexivity);
          destruct (Nat.eqb_spec i j) as [->|]; [right; auto|left; reflexivity|right; auto|left; reflexivity]. }
    destruct Heq as [Hne|[Heq <-]].
    2:{ rewrite Heq. cbn [bind_true]. rewrite Nat.eqb_refl. reflexivity. }
    rewrite Hne. cbn [bind_true].
    destruct (gis_gerr i ci vb j (S (S n)) Ei Gb) as [b1 [R1 [T1 F1]]].
    rewrite R1. destruct b1; cbn [bind_true].
    { rewrite (T1 eq_refl), Nat.eqb_refl. reflexivity. }
    specialize (F1 eq_refl).
    assert (Ua : unwrap_val st va = g_fref (c_g ci)).
    { destruct va; simpl in Aa; try discriminate; injection Aa as ->; simpl; rewrite Ei; reflexivity. }
    rewrite Ua.
    destruct (W i ci Ei) as [Fi Si Li Xi | o co Fi Eo Fo So Lo Xo Pi PLi].
    - (* a root that did not match *)
      rewrite Fi. rewrite (origin_root st i ci Ei Fi) in *.
      destruct F1 as [Hne'|[cj' [Ej' [Fj' [-> Hij]]]]].
      + apply Nat.eqb_neq in Hne'. rewrite Hne'. reflexivity.
      + rewrite (origin_root st j cj' Ej' Fj'). apply Nat.eqb_neq in Hij. rewrite Hij. reflexivity.
    - (* a derived error: continue with its factory's record *)
      rewrite Fi. rewrite (origin_der st i ci o Ei Fi) in *.
      rewrite loop_S. cbn [as_gerror].
      assert (Uo : unwrap_val st (VG o) = VNil) by (simpl; rewrite Eo; exact Fo).
      rewrite Uo.
      assert (Go : gv st (VG o) = Some o) by (simpl; rewrite Eo; reflexivity).
      destruct (gis_gerr o co vb j (S n) Eo Gb) as [b2 [R2 [T2 F2]]].
      rewrite (origin_root st o co Eo Fo) in *.
      (* VG o == target *)
      assert (Hoeq : iface_eq (VG o) vb = Ok (match vb with VG k => Nat.eqb o k | _ => false end)).
      { destruct vb; reflexivity. }
      rewrite Hoeq.
      destruct vb as [|k|k|]; simpl in Ab; try discriminate; injection Ab as ->.
      + destruct (Nat.eqb_spec o j) as [->|Hoj]; cbn [bind_true].
        * rewrite (origin_root st j co Eo Fo), Nat.eqb_refl. reflexivity.
        * rewrite R2. destruct b2; cbn [bind_true].
          -- rewrite <- (T2 eq_refl), Nat.eqb_refl. reflexivity.
          -- destruct (F2 eq_refl) as [Hne'|[cj' [_ [_ [Hx _]]]]]; [|discriminate].
             apply Nat.eqb_neq in Hne'. rewrite Hne'. reflexivity.
      + cbn [bind_true]. rewrite R2. destruct b2; cbn [bind_true].
        * rewrite <- (T2 eq_refl), Nat.eqb_refl. reflexivity.
        * destruct (F2 eq_refl) as [Hne'|[cj' [Ej' [Fj' [_ Hoj]]]]].
          -- apply Nat.eqb_neq in Hne'. rewrite Hne'. reflexivity.
          -- rewrite (origin_root st j cj' Ej' Fj'). apply Nat.eqb_neq in Hoj. rewrite Hoj. reflexivity.
  Qed.

  Lemma errors_is_gg va vb i j :
    gv st va = Some i -> gv st vb = Some j ->
    errors_is_gen guard st va vb = Ok (Nat.eqb (origin st i) (origin st j)).
  Proof.
    intros Ga Gb.
    destruct (gv_cell _ _ _ Ga) as [ci [Ei Aa]]. destruct (gv_cell _ _ _ Gb) as [cj [Ej Ab]].
    unfold errors_is_gen.
    assert (Na : is_nil va = false) by (destruct va; simpl in Aa; try discriminate; reflexivity).
    assert (Nb : is_nil vb = false) by (destruct vb; simpl in Ab; try discriminate; reflexivity).
    assert (Cb : type_comparable vb = true) by (destruct vb; simpl in Ab; try discriminate; reflexivity).
    rewrite Na, Nb, Cb. simpl orb. cbv iota.
    unfold is_fuel.
    replace (4 + length st + val_depth va + val_depth vb)
      with (S (S (S (S (length st + val_depth va + val_depth vb))))) by lia.
    apply loop_gg; assumption.
  Qed.

  (* the gerror value a foreign error wraps, through any number of %w wrappers *)
  Fixpoint inner_gv (v : val) : option nat :=
    match v with
    | VF _ _ _ u => inner_gv u
    | VNil => None
    | _ => gv st v
    end.

  Lemma loop_wrapped vb j : gv st vb = Some j ->
    forall va i n, inner_gv va = Some i -> val_depth va <= n ->
    errors_is_loop guard (S (S (S (S n)))) st va vb true = Ok (Nat.eqb (origin st i) (origin st j)).
  Proof.
    intros Gb. induction va as [|k|k|t c p u IH]; intros i n Hi Hd; simpl in Hi; try discriminate.
    - apply loop_gg; assumption.
    - apply loop_gg; assumption.
    - rewrite loop_S. cbn [as_gerror unwrap_val].
      assert (Hne : iface_eq (VF t c p u) vb = Ok false).
      { destruct vb; simpl in Gb; try discriminate; reflexivity. }
      rewrite Hne. cbn [bind_true].
      simpl in Hd. destruct n as [|n]; [lia|].
      destruct u; simpl in Hi; try discriminate; apply IH; (exact Hi || simpl in *; lia).
  Qed.

  (* errors.Is(wrapper of a gerror value, gerror value) = errors.Is(the wrapped value, ...) *)
  Lemma errors_is_wrapped va vb i j :
    inner_gv va = Some i -> gv st vb = Some j ->
    errors_is_gen guard st va vb = Ok (Nat.eqb (origin st i) (origin st j)).
  Proof.
    intros Hi Gb. destruct (gv_cell _ _ _ Gb) as [cj [Ej Ab]].
    unfold errors_is_gen.
    assert (Na : is_nil va = false) by (destruct va; simpl in Hi; try discriminate; reflexivity).
    assert (Nb : is_nil vb = false) by (destruct vb; simpl in Ab; try discriminate; reflexivity).
    assert (Cb : type_comparable vb = true) by (destruct vb; simpl in Ab; try discriminate; reflexivity).
    rewrite Na, Nb, Cb. simpl orb. cbv iota. unfold is_fuel.
    replace (4 + length st + val_depth va + val_depth vb)
      with (S (S (S (S (length st + val_depth va + val_depth vb))))) by lia.
    apply (loop_wrapped vb j Gb); [exact Hi|lia].
  Qed.
End IsGG.

(* ---------------------------------------------------------------- foreign targets *)
(* e.srcError == err decided without panic: same dynamic type, comparable, equal payload *)
Definition serr_match (s vb : val) : bool :=
  match s, vb with
  | VF t c p _, VF t' c' p' _ => N.eqb t t' && Bool.eqb c c' && c && N.eqb p p'
  | _, _ => false
  end.

(* does any error recorded by Convert match the target *)
Definition conv_match (g : gerr) (vb : val) : bool :=
  serr_match (g_serr g) vb || existsb (fun s => serr_match s vb) (g_later g).

Lemma converted_from_foreign s t c p u :
  converted_from true s (VF t c p u) = Ok (serr_match s (VF t c p u)).
Proof.
  unfold converted_from. destruct s as [|k|k|t0 c0 p0 u0]; try reflexivity.
  simpl. destruct c0; simpl.
  - destruct (N.eqb t0 t); simpl; [|reflexivity]. destruct c; simpl; reflexivity.
  - rewrite !andb_false_r. reflexivity.
Qed.

Lemma later_match_foreign l t c p u :
  later_match true l (VF t c p u) = Ok (existsb (fun s => serr_match s (VF t c p u)) l).
Proof.
  induction l as [|s r IH]; [reflexivity|].
  cbn [later_match existsb]. rewrite converted_from_foreign.
  destruct (serr_match s (VF t c p u)); cbn [bind_true orb]; [reflexivity|exact IH].
Qed.

Section IsForeign.
  Variable st : store.
  Hypothesis W : wf st.

  Lemma gis_foreign i ci t c p u f :
    nth_error st i = Some ci ->
    gerr_is_gen true (S f) st i (VF t c p u) = Ok (conv_match (c_g ci) (VF t c p u)).
  Proof.
    intros Ei. rewrite gis_S, Ei. cbv zeta.
    assert (Ex : extract_fref st (VF t c p u) = VNil) by reflexivity. rewrite Ex.
    rewrite converted_from_foreign, later_match_foreign. unfold conv_match.
    set (A := serr_match (g_serr (c_g ci)) (VF t c p u)).
    set (B := existsb (fun s => serr_match s (VF t c p u)) (g_later (c_g ci))).
    clearbody A B.
    destruct (W i ci Ei) as [Fi Si Li _ | o co Fi Eo _ _ _ _ Pi PLi].
    - rewrite Fi. simpl. destruct (g_isfac (c_g ci)), A, B; reflexivity.
    - rewrite Fi. simpl. destruct (g_isfac (c_g ci)), A, B; reflexivity.
  Qed.

  (* errors.Is(gerror value, foreign value): true exactly when a recorded converted error
     equals the target; never a panic (repaired code) *)
  Lemma errors_is_gf va i ci t c p u :
    gv st va = Some i -> nth_error st i = Some ci ->
    errors_is st va (VF t c p u) = Ok (conv_match (c_g ci) (VF t c p u)).
  Proof.
    intros Ga Ei. destruct (gv_cell _ _ _ Ga) as [ci' [Ei' Aa]]. rewrite Ei in Ei'. injection Ei' as <-.
    unfold errors_is, errors_is_gen.
    assert (Na : is_nil va = false) by (destruct va; simpl in Aa; try discriminate; reflexivity).
    rewrite Na. simpl orb. cbv iota. unfold is_fuel.
    replace (4 + length st + val_depth va + val_depth (VF t c p u))
      with (S (S (S (S (length st + val_depth va + val_depth (VF t c p u)))))) by lia.
    generalize (length st + val_depth va + val_depth (VF t c p u)). intros n.
    rewrite loop_S, Aa.
    assert (Hne : (if type_comparable (VF t c p u) then iface_eq va (VF t c p u) else Ok false) = Ok false).
    { destruct va; simpl in Aa; try discriminate; simpl; destruct (c || deep_tid t); reflexivity. }
    rewrite Hne. cbn [bind_true]. rewrite (gis_foreign i ci t c p u _ Ei).
    destruct (conv_match (c_g ci) (VF t c p u)) eqn:M; cbn [bind_true]; [reflexivity|].
    assert (Ua : unwrap_val st va = g_fref (c_g ci)).
    { destruct va; simpl in Aa; try discriminate; injection Aa as ->; simpl; rewrite Ei; reflexivity. }
    rewrite Ua.
    destruct (W i ci Ei) as [Fi Si Li _ | o co Fi Eo Fo So Lo _ Pi PLi]; rewrite Fi; [reflexivity|].
    rewrite loop_S. cbn [as_gerror].
    assert (Hne2 : (if type_comparable (VF t c p u) then iface_eq (VG o) (VF t c p u) else Ok false) = Ok false).
    { simpl; destruct (c || deep_tid t); reflexivity. }
    rewrite Hne2. cbn [bind_true]. rewrite (gis_foreign o co t c p u _ Eo). unfold conv_match.
    rewrite So, Lo. simpl. rewrite Eo, Fo. reflexivity.
  Qed.
End IsForeign.

(* ---------------------------------------------------------------- foreign sources *)
(* the stdlib's own `err == target`: a foreign source against a target that is not deeply
   non-comparable (for two foreign errors of one deeply non-comparable dynamic type the stdlib
   itself panics; no gerror code is involved there) *)
Lemma foreign_eq_test t c p u vb :
  deep vb = false ->
  exists b0, (if type_comparable vb then iface_eq (VF t c p u) vb else Ok false) = Ok b0
             /\ (is_gerr_val vb = true -> b0 = false).
Proof.
  intros Dp.
  destruct vb as [|k|k|t' c' p' u']; simpl; try (exists false; split; [reflexivity|auto]).
  simpl in Dp. destruct c'; simpl in *.
  - destruct (N.eqb t t'); simpl; [|exists false; split; [reflexivity|auto]].
    destruct c; simpl; eexists; (split; [reflexivity|intros H; discriminate]).
  - rewrite Dp. exists false. split; [reflexivity|auto].
Qed.

(* a foreign error without gerror values in its Unwrap chain, as the source of errors.Is:
   never a panic, and never a match with a gerror target *)
Lemma loop_foreign_src guard st vb tc :
  tc = type_comparable vb -> deep vb = false ->
  forall u t c p f, pure u = true -> val_depth u <= f ->
  exists b, errors_is_loop guard (S f) st (VF t c p u) vb tc = Ok b
            /\ (is_gerr_val vb = true -> b = false).
Proof.
  intros -> Dp. induction u as [|i|i|t0 c0 p0 u0 IH]; intros t c p f P D; simpl in P; try discriminate.
  - rewrite loop_S. cbn [as_gerror unwrap_val].
    destruct (foreign_eq_test t c p VNil vb Dp) as [b0 [E0 G0]]. rewrite E0.
    destruct b0; cbn [bind_true].
    + exists true. split; [reflexivity|exact G0].
    + exists false. split; [reflexivity|auto].
  - rewrite loop_S. cbn [as_gerror unwrap_val].
    destruct (foreign_eq_test t c p (VF t0 c0 p0 u0) vb Dp) as [b0 [E0 G0]]. rewrite E0.
    destruct b0; cbn [bind_true].
    + exists true. split; [reflexivity|exact G0].
    + simpl in D. destruct f as [|f]; [lia|].
      apply (IH t0 c0 p0 f P). lia.
Qed.

Lemma errors_is_foreign_src guard st t c p u vb :
  pure u = true -> deep vb = false ->
  exists b, errors_is_gen guard st (VF t c p u) vb = Ok b /\ (is_gerr_val vb = true -> b = false).
Proof.
  intros P Dp. unfold errors_is_gen. simpl is_nil. simpl orb.
  destruct (is_nil vb) eqn:Nb.
  - destruct vb; simpl in Nb; try discriminate. exists false. split; [reflexivity|auto].
  - unfold is_fuel.
    replace (4 + length st + val_depth (VF t c p u) + val_depth vb)
      with (S (3 + length st + val_depth (VF t c p u) + val_depth vb)) by lia.
    apply loop_foreign_src; [reflexivity|exact Dp|exact P|simpl; lia].
Qed.

(* ---- a foreign source whose Unwrap chain ends in a valid gerror value (fmt.Errorf("%w", gerr)) ---- *)
(* the loop of errors.Is on a gerror source and a foreign target, any fuel of at least 2, any tc *)
Lemma loop_gf st (W : wf st) va i ci t c p u n tc :
  gv st va = Some i -> nth_error st i = Some ci ->
  errors_is_loop true (S (S n)) st va (VF t c p u) tc = Ok (conv_match (c_g ci) (VF t c p u)).
Proof.
  intros Ga Ei. destruct (gv_cell _ _ _ Ga) as [ci' [Ei' Aa]]. rewrite Ei in Ei'. injection Ei' as <-.
  rewrite loop_S, Aa.
  assert (Hne : (if tc then iface_eq va (VF t c p u) else Ok false) = Ok false).
  { destruct va; simpl in Aa; try discriminate; simpl; destruct tc; reflexivity. }
  rewrite Hne. cbn [bind_true]. rewrite (gis_foreign st W i ci t c p u _ Ei).
  destruct (conv_match (c_g ci) (VF t c p u)) eqn:M; cbn [bind_true]; [reflexivity|].
  assert (Ua : unwrap_val st va = g_fref (c_g ci)).
  { destruct va; simpl in Aa; try discriminate; injection Aa as ->; simpl; rewrite Ei; reflexivity. }
  rewrite Ua.
  destruct (W i ci Ei) as [Fi Si Li _ | o co Fi Eo Fo So Lo _ Pi PLi]; rewrite Fi; [reflexivity|].
  rewrite loop_S. cbn [as_gerror].
  assert (Hne2 : (if tc then iface_eq (VG o) (VF t c p u) else Ok false) = Ok false).
  { simpl; destruct tc; reflexivity. }
  rewrite Hne2. cbn [bind_true]. rewrite (gis_foreign st W o co t c p u _ Eo). unfold conv_match.
  rewrite So, Lo. simpl. rewrite Eo, Fo. reflexivity.
Qed.

Lemma chain_ok_gv st v : is_gerr_val v = true -> chain_ok st v = true -> exists i, gv st v = Some i.
Proof.
  destruct v as [|i|i|]; simpl; try discriminate; intros _.
  - destruct (nth_error st i); [eauto|discriminate].
  - destruct (nth_error st i) as [c|]; [|discriminate]. destruct (c_x c); [eauto|discriminate].
Qed.

(* any admissible foreign source (wrappers ending in nil or in a valid gerror value) against a
   non-nil admissible target that is not deeply non-comparable: no panic, fuel suffices *)
Lemma loop_foreign_any st (W : wf st) vb :
  is_nil vb = false ->
  ((exists j, gv st vb = Some j) \/ (exists t c p u, vb = VF t c p u)) ->
  deep vb = false ->
  forall u t c p f, chain_ok st u = true -> 4 + val_depth u <= f ->
  exists b, errors_is_loop true (S f) st (VF t c p u) vb (type_comparable vb) = Ok b.
Proof.
  intros Nb Hb Dp. induction u as [|i|i|t0 c0 p0 u0 IH]; intros t c p f P D.
  - rewrite loop_S. cbn [as_gerror unwrap_val].
    destruct (foreign_eq_test t c p VNil vb Dp) as [b0 [E0 _]]. rewrite E0.
    destruct b0; cbn [bind_true]; eauto.
  - (* the wrapper holds the *GError of cell i *)
    rewrite loop_S. cbn [as_gerror unwrap_val].
    destruct (foreign_eq_test t c p (VG i) vb Dp) as [b0 [E0 _]]. rewrite E0.
    destruct b0; cbn [bind_true]; [eauto|].
    destruct (chain_ok_gv st (VG i) eq_refl P) as [k Gk].
    destruct f as [|[|[|[|f]]]]; simpl in D; try lia.
    destruct Hb as [[j Gb]|[t' [c' [p' [u' ->]]]]].
    + assert (Cb : type_comparable vb = true) by (destruct vb; simpl in Gb; try discriminate; reflexivity).
      rewrite Cb. rewrite (loop_gg true st W (VG i) vb k j f Gk Gb). eauto.
    + destruct (gv_cell _ _ _ Gk) as [ck [Ek _]].
      rewrite (loop_gf st W (VG i) k ck t' c' p' u' _ _ Gk Ek). eauto.
  - rewrite loop_S. cbn [as_gerror unwrap_val].
    destruct (foreign_eq_test t c p (VX i) vb Dp) as [b0 [E0 _]]. rewrite E0.
    destruct b0; cbn [bind_true]; [eauto|].
    destruct (chain_ok_gv st (VX i) eq_refl P) as [k Gk].
    destruct f as [|[|[|[|f]]]]; simpl in D; try lia.
    destruct Hb as [[j Gb]|[t' [c' [p' [u' ->]]]]].
    + assert (Cb : type_comparable vb = true) by (destruct vb; simpl in Gb; try discriminate; reflexivity).
      rewrite Cb. rewrite (loop_gg true st W (VX i) vb k j f Gk Gb). eauto.
    + destruct (gv_cell _ _ _ Gk) as [ck [Ek _]].
      rewrite (loop_gf st W (VX i) k ck t' c' p' u' _ _ Gk Ek). eauto.
  - rewrite loop_S. cbn [as_gerror unwrap_val].
    destruct (foreign_eq_test t c p (VF t0 c0 p0 u0) vb Dp) as [b0 [E0 _]]. rewrite E0.
    destruct b0; cbn [bind_true]; [eauto|].
    simpl in P, D. destruct f as [|f]; [lia|].
    apply (IH t0 c0 p0 f P). lia.
Qed.

Lemma errors_is_foreign_any st t c p u vb :
  wf st -> chain_ok st u = true ->
  (vb = VNil \/ (exists j, gv st vb = Some j) \/ (exists t' c' p' u', vb = VF t' c' p' u')) ->
  deep vb = false ->
  exists b, errors_is st (VF t c p u) vb = Ok b.
Proof.
  intros W P Hb Dp. unfold errors_is, errors_is_gen. simpl is_nil. simpl orb.
  destruct (is_nil vb) eqn:Nb.
  - destruct vb; simpl in Nb; try discriminate. exists false. reflexivity.
  - assert (Hb' : (exists j, gv st vb = Some j) \/ (exists t' c' p' u', vb = VF t' c' p' u')).
    { destruct Hb as [->|[H|H]]; [discriminate|auto|auto]. }
    unfold is_fuel.
    replace (4 + length st + val_depth (VF t c p u) + val_depth vb)
      with (S (4 + length st + val_depth u + val_depth vb)) by (simpl; lia).
    apply (loop_foreign_any st W vb Nb Hb' Dp u t c p); [exact P|lia].
Qed.

(* ---------------------------------------------------------------- ExtractFactoryReference *)
Lemma extract_gerr st v j cj :
  wf st -> gv st v = Some j -> nth_error st j = Some cj ->
  extract_fref st v =
  if g_isfac (c_g cj) then VG j
  else if is_nil (g_fref (c_g cj)) then VNil else VG (origin st j).
Proof.
  intros W G Ej. destruct (gv_cell _ _ _ G) as [c' [E' A]]. rewrite Ej in E'. injection E' as <-.
  unfold extract_fref. rewrite A, Ej.
  destruct (g_isfac (c_g cj)); [reflexivity|].
  destruct (W j cj Ej) as [Fj _ _ _ | o co Fj _ _ _ _ _ _ _].
  - rewrite Fj. reflexivity.
  - rewrite Fj. simpl. rewrite (origin_der st j cj o Ej Fj). reflexivity.
Qed.

(* ---------------------------------------------------------------- calls preserve well-formedness *)
Lemma shape_extend st ext c : shape st c -> shape (st ++ ext) c.
Proof.
  intros [F S X | o co F Eo Fo So Xo N P]; [apply ShRoot; assumption|].
  eapply ShDer; eauto. rewrite nth_error_app1; [exact Eo|]. apply nth_error_Some. congruence.
Qed.

Lemma pure_chain_ok st v : pure v = true -> chain_ok st v = true.
Proof. induction v; simpl; intros H; try discriminate; auto. Qed.

Lemma chain_ok_extend st ext v : chain_ok st v = true -> chain_ok (st ++ ext) v = true.
Proof.
  induction v as [|i|i|t c p u IH]; simpl; auto.
  - destruct (nth_error st i) eqn:E; [|discriminate]. intros _.
    rewrite nth_error_app1 by (apply nth_error_Some; congruence). rewrite E. reflexivity.
  - destruct (nth_error st i) as [c|] eqn:E; [|discriminate]. intros H.
    rewrite nth_error_app1 by (apply nth_error_Some; congruence). rewrite E. exact H.
Qed.

Lemma nth_error_snoc_inv {A} (l : list A) x i y :
  nth_error (l ++ [x]) i = Some y -> (i < length l /\ nth_error l i = Some y) \/ (i = length l /\ y = x).
Proof.
  intros H. destruct (Nat.lt_ge_cases i (length l)) as [Hl|Hl].
  - left. split; [exact Hl|]. rewrite nth_error_app1 in H; assumption.
  - right. rewrite nth_error_app2 in H by exact Hl.
    destruct (i - length l) as [|k] eqn:E; simpl in H.
    + injection H as <-. split; [lia|reflexivity].
    + destruct k; discriminate.
Qed.

(* the converted errors a clone carries *)
Definition serr_after (old new : val) : val := if is_nil old && negb (is_nil new) then new else old.
Definition later_after (old : val) (l : list val) (new : val) : list val :=
  if is_nil old && negb (is_nil new) then l else if negb (is_nil new) then l ++ [new] else l.

Lemma clone_fields w g bp ep a :
  g_fref (apply_wiring w g bp ep a)
  = (let f := if is_nil (g_fref g) then bp else g_fref g in
     if is_nil f && g_isfac g then ep else f)
  /\ g_serr (apply_wiring w g bp ep a) = serr_after (g_serr g) (eval_e a (w_serr w))
  /\ g_later (apply_wiring w g bp ep a) = later_after (g_serr g) (g_later g) (eval_e a (w_serr w))
  /\ g_isfac (apply_wiring w g bp ep a) = false.
Proof.
  unfold apply_wiring, clone_base, serr_after, later_after.
  repeat match goal with |- context [if ?c then _ else _] => destruct c end; simpl; repeat split; reflexivity.
Qed.

(* the record CloneBase builds from a well-formed cell *)
Lemma clone_shape st i ci w a xo bp ep :
  wf st -> nth_error st i = Some ci -> bp = VG i ->
  admissible st (a_err a) -> is_gerr_val (eval_e a (w_serr w)) = false ->
  shape (st ++ [mkC (apply_wiring w (c_g ci) bp ep a) xo])
        (mkC (apply_wiring w (c_g ci) bp ep a) xo).
Proof.
  intros W Ei -> Adm Ng.
  assert (Pe : is_gerr_val (eval_e a (w_serr w)) = false) by exact Ng.
  destruct (clone_fields w (c_g ci) (VG i) ep a) as [Hr [Hs [Hl Hf]]].
  set (g' := apply_wiring w (c_g ci) (VG i) ep a) in *.
  set (ne := eval_e a (w_serr w)) in *.
  destruct (W i ci Ei) as [Fi Si Li Xi | o co Fi Eo Fo So Lo Xo Pi PLi].
  - (* receiver is a root: the clone points back at it *)
    rewrite Fi in Hr. simpl in Hr. rewrite Si in Hs, Hl. rewrite Li in Hl.
    eapply ShDer with (o := i) (co := ci); simpl; fold g'; auto.
    + rewrite nth_error_app1; [exact Ei|]. apply nth_error_Some. congruence.
    + rewrite Hs. unfold serr_after. simpl. destruct (is_nil ne); simpl; [reflexivity|exact Pe].
    + rewrite Hl. unfold later_after. simpl. destruct (is_nil ne); reflexivity.
  - (* receiver is derived: the clone inherits its back-reference *)
    rewrite Fi in Hr. simpl in Hr.
    eapply ShDer with (o := o) (co := co); simpl; fold g'; auto.
    + rewrite nth_error_app1; [exact Eo|]. apply nth_error_Some. congruence.
    + rewrite Hs. unfold serr_after. destruct (is_nil (g_serr (c_g ci)) && negb (is_nil ne)); assumption.
    + rewrite Hl. unfold later_after.
      destruct (is_nil (g_serr (c_g ci)) && negb (is_nil ne)); [exact PLi|].
      destruct (negb (is_nil ne)); [|exact PLi].
      rewrite forallb_app, PLi. simpl. unfold fgn. rewrite Pe. reflexivity.
Qed.

Lemma base_wiring_guarded : guarded_wiring base_wiring.
Proof. intros m; destruct m; simpl; congruence. Qed.

Lemma ext_wiring_guarded : guarded_wiring ext_wiring.
Proof. intros m; destruct m; simpl; congruence. Qed.

Lemma ng_of_guard w a :
  (w_serr w = EErr -> w_guard w = true) -> w_guard w && is_gerr_val (a_err a) = false ->
  is_gerr_val (eval_e a (w_serr w)) = false.
Proof.
  intros G H. destruct (w_serr w); simpl; [reflexivity|].
  rewrite (G eq_refl) in H. exact H.
Qed.

Lemma call_wf xw st v m a st' r :
  guarded_wiring xw ->
  wf st -> admissible st (a_err a) -> call xw st v m a = Some (st', r) ->
  wf st' /\ (exists k, gv st' r = Some k) /\ (exists ext, st' = st ++ ext).
Proof.
  intros GW W Adm H.
  destruct v as [|i|i|]; simpl in H; try discriminate.
  - destruct (nth_error st i) as [ci|] eqn:Ei; [|discriminate].
    destruct (w_guard (base_wiring m) && is_gerr_val (a_err a)) eqn:Gd.
    + injection H as <- <-. split; [exact W|]. split; [|exists []; rewrite app_nil_r; reflexivity].
      apply andb_true_iff in Gd as [_ Gd].
      destruct Adm as [E|[[k G]|[t [c [p [u [E _]]]]]]]; [rewrite E in Gd; discriminate|eauto|rewrite E in Gd; discriminate].
    + injection H as <- <-.
      pose proof (ng_of_guard _ a (base_wiring_guarded m) Gd) as Ng.
      split; [|split; [|eexists; reflexivity]].
      * intros k c Ek. apply nth_error_snoc_inv in Ek as [[Hk Ek]|[-> ->]].
        -- apply shape_extend. exact (W k c Ek).
        -- apply (clone_shape st i ci _ a None (VG i) (VG i) W Ei eq_refl Adm Ng).
      * exists (length st). simpl. rewrite nth_error_app2, Nat.sub_diag by lia. reflexivity.
  - destruct (nth_error st i) as [ci|] eqn:Ei; [|discriminate].
    destruct (c_x ci) as [x|] eqn:X; [|discriminate].
    destruct (w_guard (xw m) && is_gerr_val (a_err a)) eqn:Gd.
    + injection H as <- <-. split; [exact W|]. split; [|exists []; rewrite app_nil_r; reflexivity].
      apply andb_true_iff in Gd as [_ Gd].
      destruct Adm as [E|[[k G]|[t [c [p [u [E _]]]]]]]; [rewrite E in Gd; discriminate|eauto|rewrite E in Gd; discriminate].
    + injection H as <- <-.
      split; [|split; [|eexists; reflexivity]].
      * intros k c Ek. apply nth_error_snoc_inv in Ek as [[Hk Ek]|[-> ->]].
        -- apply shape_extend. exact (W k c Ek).
        -- pose proof (ng_of_guard _ a (GW m) Gd) as Ng.
           apply (clone_shape st i ci _ a (Some (to_primary x)) (VG i) (VX i) W Ei eq_refl Adm Ng).
      * exists (length st). simpl. rewrite nth_error_app2, Nat.sub_diag by lia. reflexivity.
Qed.
