(* GConfLoadModel.v — model of Builder.FromBytes as a whole (no proofs): decode (oracle), resolve the
   dimensions of the ROOT map like any other map (so a root that is a dimension switch is replaced
   by its active entry), require a map, run the template pass (a parameter here: C16's subject),
   record the value of every registered dimension.

   Go (gconfig/builder.go FromBytes)                          model
   --------------------------------------------------------   --------------------------------
   yaml.Unmarshal(bytes, &data)  (data = empty map before)      yum b map_empty   (oracle)
   reduceAny(data, b.dimensions); d.(map[string]any)            load_model dims (Mp data)
   parseTemplatedElements(result)                               pte (Mp kv)
   dims[reflect.TypeOf(d.defaultVal)] = d.get()                 dimension_values dims
   &Config{dimensions, cached: empty, data}                     mk_config                        *)
From Coq Require Import List String Bool.
Import ListNotations.
From GT Require Import GConfModel GConfGenPrims.

Definition dimension_values (dims : list dim) : dimvals := map (fun d => (Some d, d_sel d)) dims.

Definition from_bytes_model {ybytes : Type} (yum : ybytes -> gomap -> gomap * bool)
           (pte : tree -> tree * bool) (dims : list dim) (b : ybytes) : config * bool :=
  match yum b map_empty with
  | (_, true) => (nil_config, true)
  | (data, false) =>
      match load_model dims (Mp data) with
      | Err => (nil_config, true)
      | Ok kv =>
          match pte (Mp kv) with
          | (_, true) => (nil_config, true)
          | (r, false) => (mk_config (dimension_values dims) (fst (as_map r)), false)
          end
      end
  end.
