(* GErrExtProofs.v — generated extension types behave as the base type on every method; clone
   and print tags (lemmas behind Props/C09.v). *)
From Coq Require Import NArith List Bool Lia PeanoNat Permutation Sorted.
From GT Require Import Base.GErrStr.
From GT Require Import GErrModel GErrSpec GErrProofs.
Import ListNotations.

(* ---------------------------------------------------------------- wiring *)
Lemma ext_wiring_eq : forall m, ext_wiring m = base_wiring m.
Proof. destruct m; reflexivity. Qed.

Lemma ext_wiring_orig_differs : exists m, ext_wiring_orig m <> base_wiring m.
Proof. exists MSrcS. simpl. discriminate. Qed.

Lemma ext_wiring_orig_only_SrcS : forall m, m <> MSrcS -> ext_wiring_orig m = base_wiring m.
Proof. destruct m; intros H; try reflexivity. contradiction. Qed.

(* ---------------------------------------------------------------- same method, same arguments *)
Definition result_view (r : option (store * val)) : option view :=
  match r with
  | Some (st, v) => option_map view_of (lookup st v)
  | None => None
  end.

(* a base factory (cell i) and an extension factory (cell j) with equal base fields: every
   method with every argument list yields results with equal views *)
Lemma same_method_same_view xw st i j ci cj x m a :
  (forall m, xw m = base_wiring m) ->
  nth_error st i = Some ci -> nth_error st j = Some cj -> c_x cj = Some x ->
  view_of (c_g ci) = view_of (c_g cj) ->
  result_view (call xw st (VX j) m a) = result_view (call xw st (VG i) m a).
Proof.
  intros Hw Ei Ej X V. simpl. rewrite Ei, Ej, X, Hw.
  destruct (w_guard (base_wiring m) && is_gerr_val (a_err a)); [reflexivity|].
  simpl. unfold lookup; simpl. rewrite !nth_error_snoc. simpl.
  unfold apply_wiring. rewrite !view_clone_base, V. reflexivity.
Qed.

(* the same along whole chains of derivations of any length *)
Lemma same_chain_same_view xw st i j ci cj x ch st1 r1 st2 r2 g1 g2 :
  (forall m, xw m = base_wiring m) ->
  nth_error st i = Some ci -> nth_error st j = Some cj -> c_x cj = Some x ->
  view_of (c_g ci) = view_of (c_g cj) ->
  forallb no_shortcut ch = true ->
  derive xw st (VG i) ch = Some (st1, r1) -> derive xw st (VX j) ch = Some (st2, r2) ->
  lookup st1 r1 = Some g1 -> lookup st2 r2 = Some g2 ->
  view_of g2 = view_of g1.
Proof.
  intros Hw Ei Ej X V NS D1 D2 L1 L2.
  assert (Li : lookup st (VG i) = Some (c_g ci)) by (unfold lookup; simpl; rewrite Ei; reflexivity).
  assert (Lj : lookup st (VX j) = Some (c_g cj)) by (unfold lookup; simpl; rewrite Ej; reflexivity).
  destruct (derive_view xw ch st (VG i) st1 r1 (c_g ci) D1 Li NS) as [e1 [h1 [_ [_ [M1 V1]]]]].
  destruct (derive_view xw ch st (VX j) st2 r2 (c_g cj) D2 Lj NS) as [e2 [h2 [_ [_ [M2 V2]]]]].
  rewrite L1 in M1. injection M1 as <-. rewrite L2 in M2. injection M2 as <-.
  rewrite V1, V2, V. f_equal. simpl wt_of. apply map_ext. intros [m a].
  unfold eff_of. simpl. rewrite Hw. reflexivity.
Qed.

(* with the pinned template the SrcS stanza drops its argument *)
Definition c09_store : store :=
  [ mkC (factory_of (new_gerr [70%N] [109%N] [] false)) None;
    mkC (factory_of (new_gerr [70%N] [109%N] [] false)) (Some (mkX 1 [])) ].
Definition c09_args : margs := mkA [120%N] [] [] VNil [] 0 [109%N; 58%N; 102%N].

Lemma orig_SrcS_differs :
  result_view (call ext_wiring_orig c09_store (VX 1) MSrcS c09_args)
  <> result_view (call ext_wiring_orig c09_store (VG 0) MSrcS c09_args).
Proof. vm_compute. discriminate. Qed.

(* ---------------------------------------------------------------- clone *)
Definition zeroed (f : xfield) : xfield :=
  mkF (f_name f) (f_tagged f) (f_tagname f) (f_opts f) (f_zero f) (f_zero f).

Lemma to_primary_fields x :
  x_fields (to_primary x) = map (fun f => if f_clone f then f else zeroed f) (x_fields x).
Proof. reflexivity. Qed.

Lemma clone_kept x f : In f (x_fields x) -> f_clone f = true -> In f (x_fields (to_primary x)).
Proof.
  intros H C. rewrite to_primary_fields. apply in_map_iff. exists f. rewrite C. auto.
Qed.

Lemma nonclone_zero x f :
  In f (x_fields x) -> f_clone f = false -> In (zeroed f) (x_fields (to_primary x)).
Proof.
  intros H C. rewrite to_primary_fields. apply in_map_iff. exists f. rewrite C. auto.
Qed.

(* names, tags and order of the fields never change; deriving again changes nothing more *)
Lemma to_primary_names x : map f_name (x_fields (to_primary x)) = map f_name (x_fields x).
Proof.
  rewrite to_primary_fields, map_map. apply map_ext. intros f. destruct (f_clone f); reflexivity.
Qed.

Lemma f_clone_zeroed f : f_clone (zeroed f) = f_clone f.
Proof. reflexivity. Qed.

Definition keep (f : xfield) : xfield := if f_clone f then f else zeroed f.

Lemma keep_idem f : keep (keep f) = keep f.
Proof.
  unfold keep. destruct (f_clone f) eqn:C.
  - rewrite C. reflexivity.
  - rewrite f_clone_zeroed, C. reflexivity.
Qed.

Lemma to_primary_idem x : to_primary (to_primary x) = to_primary x.
Proof.
  unfold to_primary. cbn [x_type x_fields]. f_equal. rewrite map_map. apply map_ext.
  intros f. exact (keep_idem f).
Qed.

(* the call on an extension value allocates the struct toPrimaryType builds *)
Lemma ext_call_fields xw st j cj x m a :
  nth_error st j = Some cj -> c_x cj = Some x ->
  w_guard (xw m) && is_gerr_val (a_err a) = false ->
  exists st' g', call xw st (VX j) m a = Some (st', VX (length st))
                 /\ nth_error st' (length st) = Some (mkC g' (Some (to_primary x))).
Proof.
  intros Ej X G. simpl. rewrite Ej, X, G. eexists. eexists. split; [reflexivity|].
  apply nth_error_snoc.
Qed.

(* ---------------------------------------------------------------- print *)
Lemma str_ltb_irrefl a : str_ltb a a = false.
Proof.
  induction a as [|x a IH]; simpl; [reflexivity|].
  rewrite N.ltb_irrefl, N.eqb_refl. exact IH.
Qed.

Lemma str_ltb_asym a : forall b, str_ltb a b = true -> str_ltb b a = false.
Proof.
  induction a as [|x a IH]; intros [|y b]; simpl; try discriminate; try reflexivity.
  destruct (N.ltb_spec x y) as [Hxy|Hxy].
  - intros _. destruct (N.ltb_spec y x) as [Hyx|Hyx]; [lia|].
    destruct (N.eqb_spec y x); [lia|reflexivity].
  - destruct (N.eqb_spec x y) as [->|Hne]; [|discriminate].
    rewrite N.ltb_irrefl, N.eqb_refl. apply IH.
Qed.

Definition name_le (a b : xfield) : Prop := str_ltb (f_name b) (f_name a) = false.

Lemma insert_perm f l : Permutation (insert_field f l) (f :: l).
Proof.
  induction l as [|h t IH]; simpl; [reflexivity|].
  destruct (str_ltb (f_name h) (f_name f)); [|reflexivity].
  rewrite IH. apply perm_swap.
Qed.

Lemma sort_perm l : Permutation (sort_fields l) l.
Proof.
  induction l as [|f l IH]; simpl; [reflexivity|].
  unfold sort_fields in *. simpl. rewrite insert_perm. constructor. exact IH.
Qed.

Lemma insert_sorted f l : Sorted name_le l -> Sorted name_le (insert_field f l).
Proof.
  induction l as [|h t IH]; intros S; simpl.
  - repeat constructor.
  - destruct (str_ltb (f_name h) (f_name f)) eqn:E.
    + inversion S as [|? ? St Hd]; subst. constructor; [apply IH; exact St|].
      destruct t as [|h2 t2]; simpl.
      * constructor. unfold name_le. apply str_ltb_asym. exact E.
      * destruct (str_ltb (f_name h2) (f_name f)).
        -- inversion Hd; subst. constructor. assumption.
        -- constructor. unfold name_le. apply str_ltb_asym. exact E.
    + constructor; [exact S|]. constructor. unfold name_le. exact E.
Qed.

Lemma sort_sorted l : Sorted name_le (sort_fields l).
Proof.
  induction l as [|f l IH]; simpl; [constructor|].
  unfold sort_fields in *. simpl. apply insert_sorted. exact IH.
Qed.

(* Error() lists exactly the print-tagged fields, each once, ordered by field name *)
Lemma print_exactly l : Permutation (fields_to_print l) (filter f_print l).
Proof. unfold fields_to_print. apply sort_perm. Qed.

Lemma print_sorted l : Sorted name_le (fields_to_print l).
Proof. unfold fields_to_print. apply sort_sorted. Qed.

Lemma print_member l f : In f (fields_to_print l) <-> In f l /\ f_print f = true.
Proof.
  rewrite <- filter_In. split; intros H.
  - eapply Permutation_in; [apply print_exactly|exact H].
  - eapply Permutation_in; [apply Permutation_sym, print_exactly|exact H].
Qed.

(* ... under its print name, between the base prefix and the message *)
Lemma ext_head_shape g x :
  ext_error_head g x
  = error_prefix g
    ++ concat (map (fun f => print_name f ++ lit_colon ++ f_val f ++ lit_sep)
                   (fields_to_print (x_fields x)))
    ++ error_msg_part g.
Proof. reflexivity. Qed.

Lemma print_name_spec f :
  print_name f = if str_eqb (f_tagname f) underscore then f_name f else f_tagname f.
Proof. reflexivity. Qed.

(* the base rendering is the same text without the field segment *)
Lemma base_head_shape g : error_head g = error_prefix g ++ error_msg_part g.
Proof. reflexivity. Qed.

Lemma ext_head_no_print g x :
  filter f_print (x_fields x) = [] -> ext_error_head g x = error_head g.
Proof.
  intros H. unfold ext_error_head, fields_to_print. rewrite H. reflexivity.
Qed.
