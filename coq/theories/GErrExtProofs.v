(* GErrExtProofs.v — generated extension types behave as the base type on every method; clone
   and print tags (lemmas behind Props/C09.v). *)
From Coq Require Import NArith List Bool Lia PeanoNat Permutation Sorted.
From GT Require Import Base.GErrStr.
From GT Require Import GErrExtDesc.
From GT Require Import GErrModel GErrSpec GErrProofs.
Import ListNotations.

(* ---------------------------------------------------------------- wiring *)
Lemma ext_wiring_eq : forall m, ext_wiring m = base_wiring m.
Proof. destruct m; reflexivity. Qed.

Lemma ext_wiring_orig_differs : exists m, ext_wiring_orig m <> base_wiring m.
Proof. exists MSrcS. simpl. discriminate. Qed.

Lemma ext_wiring_orig_only_SrcS : forall m, m <> MSrcS -> ext_wiring_orig m = base_wiring m.
Proof. destruct m; intros H; try reflexivity. contradiction. Qed.

(* ---------------------------------------------------------------- same method, same arguments *)
Definition result_view (r : option (store * val)) : option view :=
  match r with
  | Some (st, v) => option_map view_of (lookup st v)
  | None => None
  end.

(* a base factory (cell i) and an extension factory (cell j) with equal base fields: every
   method with every argument list yields results with equal views *)
Lemma same_method_same_view xw st i j ci cj x m a :
  (forall m, xw m = base_wiring m) ->
  nth_error st i = Some ci -> nth_error st j = Some cj -> c_x cj = Some x ->
  view_of (c_g ci) = view_of (c_g cj) ->
  result_view (call xw st (VX j) m a) = result_view (call xw st (VG i) m a).
Proof.
  intros Hw Ei Ej X V. simpl. rewrite Ei, Ej, X, Hw.
  destruct (w_guard (base_wiring m) && is_gerr_val (a_err a)); [reflexivity|].
  simpl. unfold lookup; simpl. rewrite !nth_error_snoc. simpl.
  unfold apply_wiring. rewrite !view_clone_base, V. reflexivity.
Qed.

(* the same along whole chains of derivations of any length *)
Lemma same_chain_same_view xw st i j ci cj x ch st1 r1 st2 r2 g1 g2 :
  (forall m, xw m = base_wiring m) ->
  nth_error st i = Some ci -> nth_error st j = Some cj -> c_x cj = Some x ->
  view_of (c_g ci) = view_of (c_g cj) ->
  forallb no_shortcut ch = true ->
  derive xw st (VG i) ch = Some (st1, r1) -> derive xw st (VX j) ch = Some (st2, r2) ->
  lookup st1 r1 = Some g1 -> lookup st2 r2 = Some g2 ->
  view_of g2 = view_of g1.
Proof.
  intros Hw Ei Ej X V NS D1 D2 L1 L2.
  assert (Li : lookup st (VG i) = Some (c_g ci)) by (unfold lookup; simpl; rewrite Ei; reflexivity).
  assert (Lj : lookup st (VX j) = Some (c_g cj)) by (unfold lookup; simpl; rewrite Ej; reflexivity).
  destruct (derive_view xw ch st (VG i) st1 r1 (c_g ci) D1 Li NS) as [e1 [h1 [_ [_ [M1 V1]]]]].
  destruct (derive_view xw ch st (VX j) st2 r2 (c_g cj) D2 Lj NS) as [e2 [h2 [_ [_ [M2 V2]]]]].
  rewrite L1 in M1. injection M1 as <-. rewrite L2 in M2. injection M2 as <-.
  rewrite V1, V2, V. f_equal. simpl wt_of. apply map_ext. intros [m a].
  unfold eff_of. simpl. rewrite Hw. reflexivity.
Qed.

(* with the pinned template the SrcS stanza drops its argument *)
Definition c09_store : store :=
  [ mkC (factory_of (new_gerr [70%N] [109%N] [] false)) None;
    mkC (factory_of (new_gerr [70%N] [109%N] [] false)) (Some (mkX 1 [])) ].
Definition c09_args : margs := mkA [120%N] [] [] VNil [] 0 [109%N; 58%N; 102%N].

Lemma orig_SrcS_differs :
  result_view (call ext_wiring_orig c09_store (VX 1) MSrcS c09_args)
  <> result_view (call ext_wiring_orig c09_store (VG 0) MSrcS c09_args).
Proof. vm_compute. discriminate. Qed.

(* ---------------------------------------------------------------- clone *)
Definition zeroed (f : xfield) : xfield :=
  mkF (f_name f) (f_tagged f) (f_tagname f) (f_opts f) (f_zero f) (f_zero f).

Lemma to_primary_fields x :
  x_fields (to_primary x) = map (fun f => if f_clone f then f else zeroed f) (x_fields x).
Proof. reflexivity. Qed.

Lemma clone_kept x f : In f (x_fields x) -> f_clone f = true -> In f (x_fields (to_primary x)).
Proof.
  intros H C. rewrite to_primary_fields. apply in_map_iff. exists f. rewrite C. auto.
Qed.

Lemma nonclone_zero x f :
  In f (x_fields x) -> f_clone f = false -> In (zeroed f) (x_fields (to_primary x)).
Proof.
  intros H C. rewrite to_primary_fields. apply in_map_iff. exists f. rewrite C. auto.
Qed.

(* names, tags and order of the fields never change; deriving again changes nothing more *)
Lemma to_primary_names x : map f_name (x_fields (to_primary x)) = map f_name (x_fields x).
Proof.
  rewrite to_primary_fields, map_map. apply map_ext. intros f. destruct (f_clone f); reflexivity.
Qed.

Lemma f_clone_zeroed f : f_clone (zeroed f) = f_clone f.
Proof. reflexivity. Qed.

Definition keep (f : xfield) : xfield := if f_clone f then f else zeroed f.

Lemma keep_idem f : keep (keep f) = keep f.
Proof.
  unfold keep. destruct (f_clone f) eqn:C.
  - rewrite C. reflexivity.
  - rewrite f_clone_zeroed, C. reflexivity.
Qed.

Lemma to_primary_idem x : to_primary (to_primary x) = to_primary x.
Proof.
  unfold to_primary. cbn [x_type x_fields]. f_equal. rewrite map_map. apply map_ext.
  intros f. exact (keep_idem f).
Qed.

(* the call on an extension value allocates the struct toPrimaryType builds *)
Lemma ext_call_fields xw st j cj x m a :
  nth_error st j = Some cj -> c_x cj = Some x ->
  w_guard (xw m) && is_gerr_val (a_err a) = false ->
  exists st' g', call xw st (VX j) m a = Some (st', VX (length st))
                 /\ nth_error st' (length st) = Some (mkC g' (Some (to_primary x))).
Proof.
  intros Ej X G. simpl. rewrite Ej, X, G. eexists. eexists. split; [reflexivity|].
  apply nth_error_snoc.
Qed.

(* ---------------------------------------------------------------- print *)
Lemma str_ltb_irrefl a : str_ltb a a = false.
Proof.
  induction a as [|x a IH]; simpl; [reflexivity|].
  rewrite N.ltb_irrefl, N.eqb_refl. exact IH.
Qed.

Lemma str_ltb_asym a : forall b, str_ltb a b = true -> str_ltb b a = false.
Proof.
  induction a as [|x a IH]; intros [|y b]; simpl; try discriminate; try reflexivity.
  destruct (N.ltb_spec x y) as [Hxy|Hxy].
  - intros _. destruct (N.ltb_spec y x) as [Hyx|Hyx]; [lia|].
    destruct (N.eqb_spec y x); [lia|reflexivity].
  - destruct (N.eqb_spec x y) as [->|Hne]; [|discriminate].
    rewrite N.ltb_irrefl, N.eqb_refl. apply IH.
Qed.

Definition name_le (a b : xfield) : Prop := str_ltb (f_name b) (f_name a) = false.

Lemma insert_perm f l : Permutation (insert_field f l) (f :: l).
Proof.
  induction l as [|h t IH]; simpl; [reflexivity|].
  destruct (str_ltb (f_name h) (f_name f)); [|reflexivity].
  rewrite IH. apply perm_swap.
Qed.

Lemma sort_perm l : Permutation (sort_fields l) l.
Proof.
  induction l as [|f l IH]; simpl; [reflexivity|].
  unfold sort_fields in *. simpl. rewrite insert_perm. constructor. exact IH.
Qed.

Lemma insert_sorted f l : Sorted name_le l -> Sorted name_le (insert_field f l).
Proof.
  induction l as [|h t IH]; intros S; simpl.
  - repeat constructor.
  - destruct (str_ltb (f_name h) (f_name f)) eqn:E.
    + inversion S as [|? ? St Hd]; subst. constructor; [apply IH; exact St|].
      destruct t as [|h2 t2]; simpl.
      * constructor. unfold name_le. apply str_ltb_asym. exact E.
      * destruct (str_ltb (f_name h2) (f_name f)).
        -- inversion Hd; subst. constructor. assumption.
        -- constructor. unfold name_le. apply str_ltb_asym. exact E.
    + constructor; [exact S|]. constructor. unfold name_le. exact E.
Qed.

Lemma sort_sorted l : Sorted name_le (sort_fields l).
Proof.
  induction l as [|f l IH]; simpl; [constructor|].
  unfold sort_fields in *. simpl. apply insert_sorted. exact IH.
Qed.

(* Error() lists exactly the print-tagged fields, each once, ordered by field name *)
Lemma print_exactly l : Permutation (fields_to_print l) (filter f_print l).
Proof. unfold fields_to_print. apply sort_perm. Qed.

Lemma print_sorted l : Sorted name_le (fields_to_print l).
Proof. unfold fields_to_print. apply sort_sorted. Qed.

Lemma print_member l f : In f (fields_to_print l) <-> In f l /\ f_print f = true.
Proof.
  rewrite <- filter_In. split; intros H.
  - eapply Permutation_in; [apply print_exactly|exact H].
  - eapply Permutation_in; [apply Permutation_sym, print_exactly|exact H].
Qed.

(* ... under its print name, between the base prefix and the message *)
Lemma ext_head_shape g x :
  ext_error_head g x
  = error_prefix g
    ++ concat (map (fun f => print_name f ++ lit_colon ++ f_val f ++ lit_sep)
                   (fields_to_print (x_fields x)))
    ++ error_msg_part g.
Proof. reflexivity. Qed.

Lemma print_name_spec f :
  print_name f = if str_eqb (f_tagname f) underscore then f_name f else f_tagname f.
Proof. reflexivity. Qed.

(* the base rendering is the same text without the field segment *)
Lemma base_head_shape g : error_head g = error_prefix g ++ error_msg_part g.
Proof. reflexivity. Qed.

Lemma ext_head_no_print g x :
  filter f_print (x_fields x) = [] -> ext_error_head g x = error_head g.
Proof.
  intros H. unfold ext_error_head, fields_to_print. rewrite H. reflexivity.
Qed.

(* ---------------------------------------------------------------- regenerated descriptions *)
(* a type whose Error() has the description [expected_desc fields] prints the head the model says,
   and one whose toPrimaryType copies [expected_primary fields] clones as the model says
   (GErrExtDesc.v; the descriptions are regenerated from the generated code on every run) *)
Lemma own_val_in fs f :
  NoDup (map f_name fs) -> In f fs -> own_val fs (f_name f) = f_val f.
Proof.
  induction fs as [|h t IH]; intros N I; [destruct I|].
  simpl in N. inversion N as [|? ? Hn Nt]; subst. simpl.
  destruct I as [->|I].
  - rewrite str_eqb_refl. reflexivity.
  - destruct (str_eqb (f_name h) (f_name f)) eqn:E.
    + apply str_eqb_eq in E. exfalso. apply Hn. rewrite E. apply in_map. exact I.
    + apply IH; assumption.
Qed.

Lemma desc_prefix g x :
  eval_desc g x [PIf lit_name (PBase BName) lit_sep; PIf lit_dtag (PBase BDTag) lit_sep;
                 PIf lit_source (PBase BSource) lit_sep] = error_prefix g.
Proof.
  unfold eval_desc, error_prefix. simpl. rewrite app_nil_r. reflexivity.
Qed.

Lemma eval_desc_app g x a b : eval_desc g x (a ++ b) = eval_desc g x a ++ eval_desc g x b.
Proof. unfold eval_desc. rewrite map_app, concat_app. reflexivity. Qed.

Lemma desc_fields g x l :
  NoDup (map f_name (x_fields x)) -> (forall f, In f l -> In f (x_fields x)) ->
  eval_desc g x (map (fun f => PField (print_name f) (f_name f) lit_sep) l)
  = concat (map field_segment l).
Proof.
  intros N Sub. induction l as [|f l IH]; [reflexivity|].
  unfold eval_desc in *. cbn [map concat eval_item].
  rewrite IH by (intros f0 H; apply Sub; right; exact H).
  rewrite (own_val_in _ f N (Sub f (or_introl eq_refl))). reflexivity.
Qed.

Lemma desc_head g x :
  NoDup (map f_name (x_fields x)) ->
  eval_desc g x (expected_desc (x_fields x)) = ext_error_head g x.
Proof.
  intros N. unfold expected_desc. rewrite !eval_desc_app, desc_prefix.
  rewrite (desc_fields g x _ N).
  - unfold ext_error_head, error_msg_part, eval_desc. simpl. rewrite app_nil_r. reflexivity.
  - intros f H. apply print_member in H. exact (proj1 H).
Qed.

Lemma clone_name_member fs f :
  NoDup (map f_name fs) -> In f fs ->
  existsb (str_eqb (f_name f)) (expected_primary fs) = f_clone f.
Proof.
  intros N I. unfold expected_primary.
  destruct (f_clone f) eqn:C.
  - apply existsb_exists. exists (f_name f). split; [|apply str_eqb_refl].
    apply in_map. eapply Permutation_in; [apply Permutation_sym, sort_perm|].
    apply filter_In. split; assumption.
  - destruct (existsb (str_eqb (f_name f)) (map f_name (sort_fields (filter f_clone fs)))) eqn:E; [|reflexivity].
    apply existsb_exists in E as [n [Hn En]]. apply str_eqb_eq in En. subst n.
    apply in_map_iff in Hn as [f' [Hname Hin]].
    assert (Hin' : In f' (filter f_clone fs)) by (eapply Permutation_in; [apply sort_perm|exact Hin]).
    apply filter_In in Hin' as [If' Cf'].
    (* two fields of one struct with the same name are the same field *)
    assert (f' = f).
    { clear -N I If' Hname. induction fs as [|h t IH]; [destruct I|].
      simpl in N. inversion N as [|? ? Hh Nt]; subst.
      destruct I as [->|I], If' as [->|If']; auto.
      - exfalso. apply Hh. rewrite <- Hname. apply in_map. exact If'.
      - exfalso. apply Hh. rewrite Hname. apply in_map. exact I. }
    subst f'. congruence.
Qed.

Lemma desc_primary x :
  NoDup (map f_name (x_fields x)) ->
  primary_by_names (expected_primary (x_fields x)) x = to_primary x.
Proof.
  intros N. unfold primary_by_names, to_primary. f_equal.
  apply map_ext_in. intros f I. rewrite (clone_name_member _ f N I). reflexivity.
Qed.

(* a field that shadows a member of the embedded GError never reaches the base part: the items
   of the expected description before and after the print list select base members only *)
Lemma expected_desc_base_part fs :
  exists mid, expected_desc fs
    = [PIf lit_name (PBase BName) lit_sep; PIf lit_dtag (PBase BDTag) lit_sep;
       PIf lit_source (PBase BSource) lit_sep] ++ mid
      ++ [PMsg lit_message (PBase BMessage); PStack (PBase BStack)]
    /\ Forall (fun it => match it with PField _ _ _ => True | _ => False end) mid.
Proof.
  eexists. split; [reflexivity|]. apply Forall_forall. intros it H.
  apply in_map_iff in H as [f [<- _]]. exact I.
Qed.

(* ---------------------------------------------------------------- a declarative print specification *)
(* What the property says about Error(), without reference to how the generator computes it: the
   head is the base prefix, then one segment per print-tagged field — SOME arrangement of exactly
   those fields that is ordered by field name —, then the message part.  [print_spec_holds]: the
   model's rendering satisfies it; [print_spec_unique]: for a struct (distinct field names) at most
   one text does, so comparing an observed head with the model's rendering decides the
   declarative specification. *)
Definition print_spec (fs : list xfield) (g : gerr) (h : str) : Prop :=
  exists l, Permutation l (filter f_print fs) /\ Sorted name_le l
            /\ h = error_prefix g ++ concat (map field_segment l) ++ error_msg_part g.

Lemma print_spec_holds g x : print_spec (x_fields x) g (ext_error_head g x).
Proof.
  exists (fields_to_print (x_fields x)). split; [apply print_exactly|]. split; [apply print_sorted|reflexivity].
Qed.

(* the order on names is a total order *)
Lemma str_le_antisym a : forall b, str_ltb a b = false -> str_ltb b a = false -> a = b.
Proof.
  induction a as [|x a IH]; intros [|y b] H1 H2; simpl in *; try discriminate; [reflexivity|].
  destruct (N.ltb_spec x y) as [L|L]; [discriminate|].
  destruct (N.ltb_spec y x) as [L2|L2]; [discriminate|].
  assert (x = y) by (apply N.le_antisymm; assumption). subst y.
  rewrite N.eqb_refl in *. f_equal. apply IH; assumption.
Qed.

Lemma str_le_trans a : forall b c, str_ltb b a = false -> str_ltb c b = false -> str_ltb c a = false.
Proof.
  induction a as [|x a IH]; intros b c H1 H2.
  - destruct c; reflexivity.
  - destruct b as [|y b]; [simpl in H1; discriminate|].
    destruct c as [|z c]; [simpl in H2; discriminate|].
    simpl in *.
    destruct (N.ltb_spec y x) as [Lyx|Lyx]; [discriminate|].
    destruct (N.ltb_spec z y) as [Lzy|Lzy]; [discriminate|].
    destruct (N.ltb_spec z x) as [Lzx|Lzx]; [exfalso; apply (N.lt_irrefl z); eapply N.lt_le_trans; [exact Lzx|];
                                             eapply N.le_trans; eassumption|].
    destruct (N.eqb_spec z x) as [->|Nzx]; [|reflexivity].
    assert (y = x) by (apply N.le_antisymm; assumption). subst y.
    rewrite N.eqb_refl in *. eapply IH; eassumption.
Qed.

Lemma name_le_trans a b c : name_le a b -> name_le b c -> name_le a c.
Proof. unfold name_le. intros H1 H2. eapply str_le_trans; eassumption. Qed.

Lemma sorted_strongly l : Sorted name_le l -> StronglySorted name_le l.
Proof. apply Sorted_StronglySorted. intros a b c. apply name_le_trans. Qed.

(* two name-ordered arrangements of the same fields (distinct names) are the same list *)
Lemma sorted_perm_unique l1 : forall l2,
  NoDup (map f_name l1) -> Permutation l1 l2 -> Sorted name_le l1 -> Sorted name_le l2 -> l1 = l2.
Proof.
  induction l1 as [|h1 t1 IH]; intros l2 N P S1 S2.
  - apply Permutation_nil in P. subst. reflexivity.
  - destruct l2 as [|h2 t2]; [apply Permutation_sym, Permutation_nil in P; discriminate|].
    apply sorted_strongly in S1 as SS1. apply sorted_strongly in S2 as SS2.
    inversion SS1 as [|? ? St1 F1]; subst. inversion SS2 as [|? ? St2 F2]; subst.
    assert (I2 : In h2 (h1 :: t1)) by (eapply Permutation_in; [apply Permutation_sym; exact P|left; reflexivity]).
    assert (I1 : In h1 (h2 :: t2)) by (eapply Permutation_in; [exact P|left; reflexivity]).
    assert (Hn : f_name h1 = f_name h2).
    { destruct I2 as [E|I2]; [rewrite E; reflexivity|].
      destruct I1 as [E|I1]; [rewrite E; reflexivity|].
      rewrite Forall_forall in F1, F2.
      apply str_le_antisym; [exact (F2 h1 I1)|exact (F1 h2 I2)]. }
    assert (h1 = h2).
    { destruct I2 as [E|I2]; [exact E|].
      exfalso. simpl in N. inversion N as [|? ? Hnot _]; subst. apply Hnot. rewrite Hn. apply in_map. exact I2. }
    subst h2. f_equal.
    apply IH.
    + simpl in N. inversion N; assumption.
    + eapply Permutation_cons_inv. exact P.
    + inversion S1; assumption.
    + inversion S2; assumption.
Qed.

Lemma filter_names_nodup (fs : list xfield) p : NoDup (map f_name fs) -> NoDup (map f_name (filter p fs)).
Proof.
  induction fs as [|f fs IH]; intros N; simpl; [constructor|].
  simpl in N. inversion N as [|? ? Hn Nt]; subst.
  destruct (p f); simpl; [constructor|]; auto.
  intros I. apply Hn. apply in_map_iff in I as [f' [E I]]. apply filter_In in I as [I _].
  rewrite <- E. apply in_map. exact I.
Qed.

Lemma print_spec_unique fs g h1 h2 :
  NoDup (map f_name fs) -> print_spec fs g h1 -> print_spec fs g h2 -> h1 = h2.
Proof.
  intros N [l1 [P1 [S1 ->]]] [l2 [P2 [S2 ->]]].
  assert (l1 = l2); [|subst; reflexivity].
  apply sorted_perm_unique; auto.
  - eapply Permutation_NoDup; [apply Permutation_map, Permutation_sym; exact P1|].
    apply filter_names_nodup. exact N.
  - eapply Permutation_trans; [exact P1|apply Permutation_sym; exact P2].
Qed.

(* hence: an observed head satisfies the declarative specification iff it is the model's text *)
Lemma print_spec_decided g x h :
  NoDup (map f_name (x_fields x)) -> (print_spec (x_fields x) g h <-> h = ext_error_head g x).
Proof.
  intros N. split.
  - intros H. apply (print_spec_unique (x_fields x) g); [exact N|exact H|apply print_spec_holds].
  - intros ->. apply print_spec_holds.
Qed.
