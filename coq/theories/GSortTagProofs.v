(* GSortTagProofs.v — the tag parser reads back what is written for an intended triple. *)
From Coq Require Import List Bool ZArith NArith String Ascii Decimal Lia.
From Coq Require Import DecimalZ.
From GT Require Import GSortModel GSortTagModel.
Import ListNotations.
Local Open Scope string_scope.

(* ---- Split after join *)
Lemma split_comma_nonempty : forall s, split_comma s <> [].
Proof.
  induction s as [|c r IH]; cbn [split_comma]; [discriminate|].
  destruct (Ascii.eqb c ","); [discriminate|].
  destruct (split_comma r); discriminate.
Qed.

Lemma split_no_comma : forall s, no_comma s = true -> split_comma s = [s].
Proof.
  induction s as [|c r IH]; intros H; [reflexivity|].
  cbn [no_comma] in H. apply andb_true_iff in H. destruct H as [Hc Hr].
  cbn [split_comma]. apply negb_true_iff in Hc. rewrite Hc, (IH Hr). reflexivity.
Qed.

Lemma split_app_comma : forall s t,
  no_comma s = true -> split_comma (s ++ "," ++ t) = s :: split_comma t.
Proof.
  induction s as [|c r IH]; intros t H.
  - reflexivity.
  - cbn [no_comma] in H. apply andb_true_iff in H. destruct H as [Hc Hr].
    apply negb_true_iff in Hc.
    change ((String c r ++ "," ++ t)) with (String c (r ++ "," ++ t)).
    cbn [split_comma]. rewrite Hc, (IH t Hr). reflexivity.
Qed.

(* ---- Atoi after Itoa *)
Lemma digits_acc : forall l acc,
  digits_val (Npos acc) (uint_str l) = Some (Npos (Pos.of_uint_acc l acc)).
Proof.
  induction l as [|l IH|l IH|l IH|l IH|l IH|l IH|l IH|l IH|l IH|l IH]; intros acc;
    cbn [uint_str digits_val Pos.of_uint_acc]; [reflexivity|..];
    (match goal with |- context [digit_val ?c] => change (digit_val c) with (Some (N_of_ascii c - 48)%N) end);
    cbn [N_of_ascii N_of_digits]; cbv beta;
    rewrite <- IH; f_equal; lia.
Qed.

Lemma digits_zero : forall l, digits_val 0%N (uint_str l) = Some (Pos.of_uint l).
Proof.
  induction l as [|l IH|l IH|l IH|l IH|l IH|l IH|l IH|l IH|l IH|l IH];
    cbn [uint_str digits_val Pos.of_uint]; [reflexivity| exact IH |..];
    (match goal with |- context [digit_val ?c] => change (digit_val c) with (Some (N_of_ascii c - 48)%N) end);
    cbn [N_of_ascii N_of_digits]; cbv beta;
    rewrite <- digits_acc; f_equal.
Qed.

Lemma uint_str_nonempty : forall d, d <> Nil -> uint_str d <> "".
Proof. intros d H. destruct d; cbn; congruence. Qed.

Lemma unsigned_uint : forall d, d <> Nil -> unsigned_val (uint_str d) = Some (Pos.of_uint d).
Proof.
  intros d H. unfold unsigned_val. pose proof (uint_str_nonempty d H) as NE.
  destruct (uint_str d) eqn:E; [congruence|]. rewrite <- E. apply digits_zero.
Qed.

Lemma to_uint_nonnil : forall p, Pos.to_uint p <> Nil.
Proof.
  intros p H. pose proof (DecimalPos.Unsigned.of_to p) as R. rewrite H in R. discriminate.
Qed.

Lemma head_digit : forall d, d <> Nil ->
  exists c r, uint_str d = String c r /\ Ascii.eqb c "-" = false /\ Ascii.eqb c "+" = false.
Proof. intros d H. destruct d; [congruence|..]; cbn [uint_str]; eexists _, _; repeat split. Qed.

Theorem atoi_itoa : forall z, atoi (itoa z) = Some z.
Proof.
  intros z. unfold itoa. pose proof (DecimalZ.of_to z) as R.
  destruct z as [|p|p]; cbn [Z.to_int] in *.
  - reflexivity.
  - pose proof (to_uint_nonnil p) as NN.
    destruct (head_digit _ NN) as [c [r [E [M P]]]].
    unfold atoi. rewrite E, M, P, <- E, (unsigned_uint _ NN). cbn [option_map].
    f_equal. exact R.
  - pose proof (to_uint_nonnil p) as NN.
    unfold atoi. cbn [Ascii.eqb Bool.eqb]. change (Ascii.eqb "-" "-") with true. cbv iota.
    rewrite (unsigned_uint _ NN). cbn [option_map].
    f_equal. exact R.
Qed.

Lemma uint_no_comma : forall d, no_comma (uint_str d) = true.
Proof. induction d; cbn [uint_str no_comma]; [reflexivity|..]; rewrite IHd; reflexivity. Qed.

Lemma itoa_no_comma : forall z, no_comma (itoa z) = true.
Proof.
  intros z. unfold itoa. destruct (Z.to_int z); [apply uint_no_comma|].
  cbn [no_comma]. rewrite uint_no_comma. reflexivity.
Qed.

(* ---- sfdFromLine after rendering *)
Theorem parse_render : forall t,
  tag_ok t = true -> parse_options (render_options false t) = Some t.
Proof.
  intros [s p a] H. unfold tag_ok in H. cbn [tg_sorter tg_acc] in H.
  apply andb_true_iff in H. destruct H as [Hs Ha].
  unfold render_options, parse_options. cbn [tg_sorter tg_prio tg_acc].
  rewrite (split_app_comma s _ Hs).
  destruct (String.eqb a "") eqn:E.
  - apply String.eqb_eq in E. subst a.
    replace (itoa p ++ "") with (itoa p) by (induction (itoa p); cbn; congruence).
    rewrite (split_no_comma _ (itoa_no_comma p)), atoi_itoa. reflexivity.
  - rewrite (split_app_comma (itoa p) a (itoa_no_comma p)), (split_no_comma a Ha), atoi_itoa.
    reflexivity.
Qed.

Theorem parse_render_bare : forall s,
  no_comma s = true ->
  parse_options (render_options true {| tg_sorter := s; tg_prio := 0; tg_acc := "" |})
  = Some {| tg_sorter := s; tg_prio := 0; tg_acc := "" |}.
Proof.
  intros s H. unfold render_options, parse_options. cbn [tg_sorter].
  rewrite (split_no_comma s H). reflexivity.
Qed.

(* ---- the Lookup/Replace loop enumerates the gsort values in order *)
Definition only_gsort_keys (tl : struct_tag) : Prop :=
  forall k v, In (k, v) tl -> has_suffix "gsort" k = true -> k = "gsort".

Definition gsort_values (tl : struct_tag) : list string :=
  map snd (filter (fun p => String.eqb (fst p) "gsort") tl).

Lemma tag_loop_skip : forall fuel k v tl,
  has_suffix "gsort" k = false -> tag_loop fuel ((k, v) :: tl) = tag_loop fuel tl.
Proof.
  induction fuel as [|f IH]; intros k v tl HS; [reflexivity|].
  cbn [tag_loop lookup_key].
  assert (E : String.eqb k "gsort" = false).
  { destruct (String.eqb k "gsort") eqn:E; [|reflexivity].
    apply String.eqb_eq in E. subst k. discriminate HS. }
  rewrite E. destruct (lookup_key "gsort" tl) as [w|]; [|reflexivity].
  cbn [remove_first_text]. rewrite HS. cbn [andb]. rewrite (IH k v _ HS). reflexivity.
Qed.

Theorem tag_loop_values : forall tl fuel,
  only_gsort_keys tl -> (List.length tl <= fuel)%nat -> tag_loop fuel tl = gsort_values tl.
Proof.
  induction tl as [|[k v] r IH]; intros fuel OK LE.
  - destruct fuel; reflexivity.
  - assert (OKr : only_gsort_keys r) by (intros k' v' Hin; apply (OK k' v'); right; exact Hin).
    unfold gsort_values. cbn [filter fst]. fold (gsort_values r).
    destruct (String.eqb k "gsort") eqn:E.
    + apply String.eqb_eq in E. subst k.
      destruct fuel as [|f]; [cbn in LE; lia|].
      cbn [tag_loop lookup_key map snd remove_first_text].
      rewrite String.eqb_refl.
      change (has_suffix "gsort" "gsort") with true. rewrite String.eqb_refl. cbn [andb].
      f_equal. apply IH; [exact OKr|cbn in LE; lia].
    + assert (HS : has_suffix "gsort" k = false).
      { destruct (has_suffix "gsort" k) eqn:S; [|reflexivity].
        rewrite (OK k v (or_introl eq_refl) S) in E. discriminate. }
      rewrite (tag_loop_skip fuel k v r HS). apply IH; [exact OKr|cbn in LE; lia].
Qed.

Theorem gsort_options_values : forall tl,
  only_gsort_keys tl -> gsort_options tl = gsort_values tl.
Proof. intros tl OK. apply tag_loop_values; [exact OK|apply le_n]. Qed.

(* ---- a whole field, a whole definition *)
Lemma parse_all_app : forall o1 o2,
  parse_all (o1 ++ o2) = match parse_all o1, parse_all o2 with
                         | Some a, Some b => Some (a ++ b)%list
                         | _, _ => None
                         end.
Proof.
  induction o1 as [|o r IH]; intros o2.
  - cbn [parse_all]. rewrite app_nil_l. destruct (parse_all o2); reflexivity.
  - rewrite <- app_comm_cons. cbn [parse_all]. rewrite IH.
    destruct (parse_options o), (parse_all r), (parse_all o2); reflexivity.
Qed.

Lemma parse_all_render : forall ts,
  forallb tag_ok ts = true ->
  parse_all (map (render_options false) ts) = Some ts.
Proof.
  induction ts as [|t r IH]; intros H; [reflexivity|].
  cbn [forallb] in H. apply andb_true_iff in H. destruct H as [Ht Hr].
  cbn [map parse_all]. rewrite (parse_render t Ht), (IH Hr). reflexivity.
Qed.

Lemma render_only_gsort : forall ts,
  only_gsort_keys (map (fun t => ("gsort", render_options false t)) ts).
Proof.
  intros ts k v Hin _. apply in_map_iff in Hin. destruct Hin as [t [E _]]. congruence.
Qed.

Lemma render_values : forall ts,
  gsort_values (map (fun t => ("gsort", render_options false t)) ts) = map (render_options false) ts.
Proof.
  induction ts as [|t r IH]; [reflexivity|].
  unfold gsort_values in *. cbn [map filter fst snd]. rewrite String.eqb_refl. cbn [map snd].
  rewrite IH. reflexivity.
Qed.

Theorem parse_render_field : forall f,
  forallb tag_ok (fd_tags f) = true -> parse_field (render_field f) = Some f.
Proof.
  intros [n b ts] H. cbn [fd_tags] in H. unfold parse_field, render_field.
  cbn [rf_tag rf_name rf_isbool fd_name fd_isbool fd_tags].
  rewrite (gsort_options_values _ (render_only_gsort ts)), render_values, (parse_all_render ts H).
  reflexivity.
Qed.

Theorem parse_render_fields : forall fs,
  forallb (fun f => forallb tag_ok (fd_tags f)) fs = true ->
  parse_fields (map render_field fs) = Some fs.
Proof.
  induction fs as [|f r IH]; intros H; [reflexivity|].
  cbn [forallb] in H. apply andb_true_iff in H. destruct H as [Hf Hr].
  cbn [map parse_fields]. rewrite (parse_render_field f Hf), (IH Hr). reflexivity.
Qed.

(* hence: writing the tags for an intended definition and running the generator on the text is
   running it on the intended definition *)
Theorem gen_less_raw_render : forall ty fs name,
  forallb (fun f => forallb tag_ok (fd_tags f)) fs = true ->
  gen_less_raw ty (map render_field fs) name = gen_less ty fs name.
Proof. intros ty fs name H. unfold gen_less_raw. rewrite (parse_render_fields fs H). reflexivity. Qed.

(* malformed option strings are refused *)
Example parse_refuses :
  parse_options "S,1,String(),x" = None /\ parse_options "S,one" = None /\ parse_options "S," = None
  /\ parse_options "S,-" = None /\ parse_options "S,1 " = None
  /\ parse_options "S,+7" = Some {| tg_sorter := "S"; tg_prio := 7; tg_acc := "" |}
  /\ parse_options "*S,-12,String()" = Some {| tg_sorter := "*S"; tg_prio := -12; tg_acc := "String()" |}.
Proof. vm_compute. repeat split. Qed.
