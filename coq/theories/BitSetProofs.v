(* BitSetProofs.v — the model of bit_set.go is exact bit-set algebra (for every N). *)
From Coq Require Import NArith List Bool Lia.
From GT Require Import BitSetModel.
Import ListNotations.
Local Open Scope N_scope.

(* ---------- bit-level toolkit ---------- *)
Ltac bits i :=
  apply N.bits_inj; intro i;
  repeat (rewrite N.lor_spec || rewrite N.land_spec || rewrite N.ldiff_spec || rewrite N.bits_0).

Ltac bit_of H i :=
  let H' := fresh H "b" in
  pose proof (f_equal (fun x => N.testbit x i) H) as H'; cbn beta in H';
  repeat (rewrite N.lor_spec in H' || rewrite N.land_spec in H' || rewrite N.ldiff_spec in H' || rewrite N.bits_0 in H').

Definition sub (x s : N) : Prop := N.ldiff x s = 0.

Lemma sub_testbit x s : sub x s <-> forall i, N.testbit x i = true -> N.testbit s i = true.
Proof.
  unfold sub; split.
  - intros H i Hx. bit_of H i. rewrite Hx in Hb. destruct (N.testbit s i); [reflexivity|discriminate].
  - intros H. bits i. specialize (H i). destruct (N.testbit x i); [rewrite H by reflexivity|]; reflexivity.
Qed.

Lemma land_eq_sub s f : N.land s f = f <-> sub f s.
Proof.
  unfold sub; split; intros H.
  - bits i. bit_of H i. destruct (N.testbit s i), (N.testbit f i); simpl in *; congruence.
  - bits i. bit_of H i. destruct (N.testbit s i), (N.testbit f i); simpl in *; congruence.
Qed.

Lemma lor_eq_sub s x : N.lor s x = s <-> sub x s.
Proof.
  unfold sub; split; intros H.
  - bits i. bit_of H i. destruct (N.testbit s i), (N.testbit x i); simpl in *; congruence.
  - bits i. bit_of H i. destruct (N.testbit s i), (N.testbit x i); simpl in *; congruence.
Qed.

Lemma sub_lor a b s : sub (N.lor a b) s <-> sub a s /\ sub b s.
Proof.
  unfold sub. rewrite <- N.lor_eq_0_iff.
  replace (N.ldiff (N.lor a b) s) with (N.lor (N.ldiff a s) (N.ldiff b s)); [tauto|].
  bits i. destruct (N.testbit a i), (N.testbit b i), (N.testbit s i); reflexivity.
Qed.

Lemma ldiff_eq_disj s x : N.ldiff s x = s <-> N.land s x = 0.
Proof.
  split; intros H.
  - bits i. bit_of H i. destruct (N.testbit s i), (N.testbit x i); simpl in *; congruence.
  - bits i. bit_of H i. destruct (N.testbit s i), (N.testbit x i); simpl in *; congruence.
Qed.

Lemma disj_lor s a b : N.land s (N.lor a b) = 0 <-> N.land s a = 0 /\ N.land s b = 0.
Proof.
  rewrite <- N.lor_eq_0_iff.
  replace (N.land s (N.lor a b)) with (N.lor (N.land s a) (N.land s b)); [tauto|].
  bits i. destruct (N.testbit a i), (N.testbit b i), (N.testbit s i); reflexivity.
Qed.

Lemma eqb_iff_bool (a b c d : N) : (a = b <-> c = d) -> N.eqb a b = N.eqb c d.
Proof.
  intros H. destruct (N.eqb_spec a b) as [E|E], (N.eqb_spec c d) as [F|F]; try reflexivity; tauto.
Qed.

(* ---------- folds = closed forms ---------- *)
Lemma make_fold items acc : fold_left N.lor items acc = N.lor acc (union_all items).
Proof.
  revert acc; induction items as [|f fs IH]; intros acc; simpl.
  - now rewrite N.lor_0_r.
  - rewrite IH. now rewrite N.lor_assoc.
Qed.

Lemma bs_make_union items : bs_make items = union_all items.
Proof. unfold bs_make. rewrite make_fold. apply N.lor_0_l. Qed.

Lemma add_fold items : forall s b,
  fold_left bs_add_step items (s, b)
  = (N.lor s (union_all items), b || negb (N.eqb (N.lor s (union_all items)) s)).
Proof.
  induction items as [|f fs IH]; intros s b; simpl.
  - rewrite N.lor_0_r, N.eqb_refl. now rewrite orb_false_r.
  - rewrite IH. rewrite <- N.lor_assoc. f_equal.
    rewrite <- orb_assoc. f_equal. rewrite <- negb_andb. f_equal.
    (* (s&f = f) && (s|f|U = s|f)  =  (s|(f|U) = s) *)
    destruct (N.eqb_spec (N.land s f) f) as [E|E]; simpl.
    + apply land_eq_sub in E. apply lor_eq_sub in E. rewrite E. reflexivity.
    + symmetry. apply N.eqb_neq. intros H. apply E.
      apply land_eq_sub. apply lor_eq_sub in H. apply sub_lor in H. tauto.
Qed.

Lemma remove_fold items : forall s b,
  fold_left bs_remove_step items (s, b)
  = (N.ldiff s (union_all items), b || negb (N.eqb (N.ldiff s (union_all items)) s)).
Proof.
  induction items as [|f fs IH]; intros s b; simpl.
  - rewrite N.ldiff_0_r, N.eqb_refl. now rewrite orb_false_r.
  - rewrite IH.
    assert (Hd : N.ldiff (N.ldiff s f) (union_all fs) = N.ldiff s (N.lor f (union_all fs))).
    { bits i. destruct (N.testbit s i), (N.testbit f i), (N.testbit (union_all fs) i); reflexivity. }
    rewrite Hd. f_equal.
    rewrite <- orb_assoc. f_equal. rewrite <- negb_andb. f_equal.
    destruct (N.eqb_spec (N.land s f) 0) as [E|E]; simpl.
    + apply ldiff_eq_disj in E. rewrite E. reflexivity.
    + symmetry. apply N.eqb_neq. intros H. apply E.
      apply ldiff_eq_disj in H. apply disj_lor in H. tauto.
Qed.

Lemma has_sub s f : bs_has s f = N.eqb (N.ldiff f s) 0.
Proof. unfold bs_has. apply eqb_iff_bool. apply land_eq_sub. Qed.

Lemma hasany_existsb s fs : bs_hasany s fs = existsb (fun f => N.eqb (N.ldiff f s) 0) fs.
Proof.
  induction fs as [|f fs IH]; simpl; [reflexivity|].
  rewrite has_sub, IH. destruct (N.eqb (N.ldiff f s) 0); reflexivity.
Qed.

(* ---------- model = spec, step by step and over every op sequence ---------- *)
Lemma bs_step_spec s o : bs_step s o = spec_step s o.
Proof.
  destruct o as [items|items|items|f|f|fs]; simpl.
  - now rewrite bs_make_union.
  - unfold bs_add. rewrite add_fold. reflexivity.
  - unfold bs_remove. rewrite remove_fold. reflexivity.
  - reflexivity.
  - now rewrite has_sub.
  - now rewrite hasany_existsb.
Qed.

Lemma bs_run_spec ops : forall s, bs_run s ops = spec_run s ops.
Proof.
  induction ops as [|o rest IH]; intros s; simpl; [reflexivity|].
  rewrite bs_step_spec. f_equal. apply IH.
Qed.

(* ---------- bitwise characterisations (the property's own words) ---------- *)
Lemma union_all_testbit items i :
  N.testbit (union_all items) i = existsb (fun f => N.testbit f i) items.
Proof.
  induction items as [|f fs IH]; cbn [union_all fold_right existsb]; [apply N.bits_0|].
  rewrite N.lor_spec. fold (union_all fs). now rewrite IH.
Qed.

Lemma make_bits items i : N.testbit (bs_make items) i = existsb (fun f => N.testbit f i) items.
Proof. rewrite bs_make_union. apply union_all_testbit. Qed.

Lemma add_bits s items i :
  N.testbit (fst (bs_add s items)) i = N.testbit s i || existsb (fun f => N.testbit f i) items.
Proof. unfold bs_add. rewrite add_fold. simpl. now rewrite N.lor_spec, union_all_testbit. Qed.

Lemma remove_bits s items i :
  N.testbit (fst (bs_remove s items)) i = N.testbit s i && negb (existsb (fun f => N.testbit f i) items).
Proof. unfold bs_remove. rewrite remove_fold. simpl. now rewrite N.ldiff_spec, union_all_testbit. Qed.

Lemma maskof_bits s f i : N.testbit (bs_maskof s f) i = N.testbit s i && N.testbit f i.
Proof. apply N.land_spec. Qed.

Lemma has_iff s f :
  bs_has s f = true <-> (forall i, N.testbit f i = true -> N.testbit s i = true).
Proof. rewrite has_sub, N.eqb_eq. apply sub_testbit. Qed.

Lemma hasany_iff s fs :
  bs_hasany s fs = true <->
  exists f, In f fs /\ (forall i, N.testbit f i = true -> N.testbit s i = true).
Proof.
  rewrite hasany_existsb, existsb_exists. split; intros [f [Hin H]]; exists f; split; auto.
  - apply sub_testbit. now apply N.eqb_eq.
  - apply N.eqb_eq. now apply sub_testbit.
Qed.

Lemma add_changed s items : snd (bs_add s items) = true <-> fst (bs_add s items) <> s.
Proof.
  unfold bs_add. rewrite add_fold. simpl. rewrite negb_true_iff. apply N.eqb_neq.
Qed.

Lemma remove_changed s items : snd (bs_remove s items) = true <-> fst (bs_remove s items) <> s.
Proof.
  unfold bs_remove. rewrite remove_fold. simpl. rewrite negb_true_iff. apply N.eqb_neq.
Qed.

(* a multi-argument call = the same call one argument at a time, flags or-ed *)
Lemma add_app s xs ys :
  bs_add s (xs ++ ys) =
  let r1 := bs_add s xs in let r2 := bs_add (fst r1) ys in (fst r2, snd r1 || snd r2).
Proof.
  unfold bs_add. rewrite fold_left_app. cbv zeta.
  rewrite (add_fold xs). cbn [fst snd]. rewrite !add_fold. cbn [fst snd orb]. reflexivity.
Qed.

Lemma remove_app s xs ys :
  bs_remove s (xs ++ ys) =
  let r1 := bs_remove s xs in let r2 := bs_remove (fst r1) ys in (fst r2, snd r1 || snd r2).
Proof.
  unfold bs_remove. rewrite fold_left_app. cbv zeta.
  rewrite (remove_fold xs). cbn [fst snd]. rewrite !remove_fold. cbn [fst snd orb]. reflexivity.
Qed.

Lemma add_multi s f fs :
  bs_add s (f :: fs) =
  let r1 := bs_add s [f] in let r2 := bs_add (fst r1) fs in (fst r2, snd r1 || snd r2).
Proof. exact (add_app s [f] fs). Qed.

Lemma remove_multi s f fs :
  bs_remove s (f :: fs) =
  let r1 := bs_remove s [f] in let r2 := bs_remove (fst r1) fs in (fst r2, snd r1 || snd r2).
Proof. exact (remove_app s [f] fs). Qed.

(* ---------- the pinned (pre-fix) Remove does not report changes truthfully ---------- *)
Lemma remove_orig_partial_flag :
  bs_remove_orig 3 [6] = (1, false) /\ 1 <> 3.
Proof. split; [vm_compute; reflexivity | discriminate]. Qed.

Lemma remove_orig_zero_flag :
  bs_remove_orig 3 [0] = (3, true).
Proof. vm_compute; reflexivity. Qed.

Lemma remove_orig_refuted_ex :
  exists s items, ~ (snd (bs_remove_orig s items) = true <-> fst (bs_remove_orig s items) <> s).
Proof.
  exists 3, [6]. destruct remove_orig_partial_flag as [E Hne]. rewrite E. simpl.
  intros [_ H]. specialize (H Hne). discriminate.
Qed.

(* ---------- width: the model computes on unbounded N, the code on uint64 ----------
   Every operation keeps a w-bit state w-bit when its arguments are w-bit (so no wrap-around can
   occur for w = 64 and below), and on a w-bit state Go's `s &= ^f` (AND with the w-bit
   complement of f) is the model's and-not. *)
Definition fits (w x : N) : Prop := forall i, w <= i -> N.testbit x i = false.

Lemma fits_lt w x : x < 2 ^ w -> fits w x.
Proof.
  intros H i Hi. destruct (N.eq_dec x 0) as [->|Hx]; [apply N.bits_0|].
  apply N.bits_above_log2. apply N.log2_lt_pow2 in H; lia.
Qed.

Lemma lt_fits w x : fits w x -> x < 2 ^ w.
Proof.
  intros H. destruct (N.eq_dec x 0) as [->|Hx]; [apply N.neq_0_lt_0, N.pow_nonzero; lia|].
  apply N.log2_lt_pow2; [lia|].
  destruct (N.lt_ge_cases (N.log2 x) w) as [Hl|Hl]; [exact Hl|].
  specialize (H (N.log2 x) Hl). rewrite N.bit_log2 in H by exact Hx. discriminate.
Qed.

Lemma make_fits w items : Forall (fits w) items -> fits w (bs_make items).
Proof.
  intros H i Hi. rewrite make_bits. apply not_true_is_false. intros E.
  apply existsb_exists in E as [f [Hf Hb]]. rewrite Forall_forall in H.
  rewrite (H f Hf i Hi) in Hb. discriminate.
Qed.

Lemma add_fits w s items : fits w s -> Forall (fits w) items -> fits w (fst (bs_add s items)).
Proof.
  intros Hs H i Hi. rewrite add_bits, (Hs i Hi). cbn [orb]. apply not_true_is_false. intros E.
  apply existsb_exists in E as [f [Hf Hb]]. rewrite Forall_forall in H.
  rewrite (H f Hf i Hi) in Hb. discriminate.
Qed.

Lemma remove_fits w s items : fits w s -> fits w (fst (bs_remove s items)).
Proof. intros Hs i Hi. rewrite remove_bits, (Hs i Hi). reflexivity. Qed.

Lemma maskof_fits w s f : fits w s -> fits w (bs_maskof s f).
Proof. intros Hs i Hi. rewrite maskof_bits, (Hs i Hi). reflexivity. Qed.

Lemma ldiff_is_land_complement w s f :
  fits w s -> N.ldiff s f = N.land s (N.lxor (f mod 2 ^ w) (N.ones w)).
Proof.
  intros Hs. apply N.bits_inj. intro i.
  rewrite N.ldiff_spec, N.land_spec, N.lxor_spec.
  destruct (N.lt_ge_cases i w) as [Hi|Hi].
  - rewrite N.mod_pow2_bits_low by exact Hi. rewrite N.ones_spec_low by exact Hi.
    destruct (N.testbit s i), (N.testbit f i); reflexivity.
  - rewrite (Hs i Hi). reflexivity.
Qed.

Lemma fits_iff_lt w x : fits w x <-> x < 2 ^ w.
Proof. split; [apply lt_fits | apply fits_lt]. Qed.

Lemma width_closed w s items f :
  fits w s -> Forall (fits w) items ->
  fits w (bs_make items) /\ fits w (fst (bs_add s items)) /\ fits w (fst (bs_remove s items))
  /\ fits w (bs_maskof s f).
Proof.
  intros Hs Hi. split; [apply make_fits; exact Hi|]. split; [apply add_fits; assumption|].
  split; [apply remove_fits; exact Hs | apply maskof_fits; exact Hs].
Qed.
