(* GenDetJudge.v — judgement of the hash farm's observations for C14 (no proofs).

   One case = one definition file generated repeatedly (in one process and in separate
   processes, alternating fresh / already-generated package states):
   gd_hashes   one entry per generation: "<sha256 of the output file>|<error, if any>"
   gd_types    gsort definitions only: the structs in -types order (parsed tags)
   gd_blocks   gsort definitions only: (sorter type name, element type) of the blocks of the
               generated file, in file order
   gd_value_orders  genum: the enum values in the order in which the generated file lists them
               (every `_XValues` literal and the `case` labels of every trait method)
   gd_name_orders   genum: per enum the trait methods in file order; gerror: per error type the
               fields in the order Error() prints them

   Verdict 1: two generations differ (the property's byte-identity clause is violated).
   Verdict 2: outputs are identical, but an order in the output is not the one the model's
   comparators give: gsort blocks = the model's table (sorted by (TypeName, sortTypeName), `*`
   part of the name); genum value lists ascending under Value.Less (value_lt), trait methods and
   gerror fields ascending under string < (trait_lt / efield_lt read names).  Names are pairwise
   distinct, so "ascending under the comparator" pins the order; which entries are listed
   (deduplication, deleted duplicate instances) is C04/C12's subject, not judged here.       *)
From Coq Require Import List Bool ZArith String.
From GT Require Import Base.Verdict.
From GT Require Import GSortModel GenDetModel Base.SortU.
Import ListNotations.

Record gd_case := {
  gd_kind : string;
  gd_hashes : list string;
  gd_types : list (string * list fieldT);
  gd_blocks : list (string * string);
  gd_value_orders : list (list evalue);
  gd_name_orders : list (list string) }.

Definition all_equal (l : list string) : bool :=
  match l with
  | [] => false
  | h :: r => forallb (String.eqb h) r
  end.

Fixpoint pairs_eqb (a b : list (string * string)) : bool :=
  match a, b with
  | [], [] => true
  | (x1, x2) :: a', (y1, y2) :: b' => String.eqb x1 y1 && String.eqb x2 y2 && pairs_eqb a' b'
  | _, _ => false
  end.

(* the model's table with the identity iteration order and the reference sort: by C14_gsort
   every other choice gives the same table *)
Definition model_blocks (types : list (string * list fieldT)) : list (string * string) :=
  match gsort_tables (fun _ l => l) (isort desc_lt) types with
  | Some ds => map (fun d => (sd_name d, sd_type d)) ds
  | None => []
  end.

Definition orders_ok (c : gd_case) : bool :=
  forallb (sorted_adj_b value_lt) (gd_value_orders c)
  && forallb (sorted_adj_b str_lt) (gd_name_orders c).

Definition gd_judge (c : gd_case) : nat :=
  verdict (all_equal (gd_hashes c))
          ((if String.eqb (gd_kind c) "gsort"
            then pairs_eqb (gd_blocks c) (model_blocks (gd_types c)) else true)
           && orders_ok c).

Definition gd_is_gsort (c : gd_case) : bool := String.eqb (gd_kind c) "gsort".
