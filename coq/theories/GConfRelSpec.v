(* GConfRelSpec.v — property C03 as a RELATION, written from the property text.  Definitions
   only, no proofs.

   Nothing here uses the helpers of the model or of the executable specification
   (classify, switch_dimension, nondefault_keys, spec_switch, active_entry, is_sel, parses,
   is_default, find, forallb, assoc): the side conditions are stated with In, exists, forall,
   d_parse and d_sel only.  From GConfModel come the datatypes alone (tree, dim, res).

   Property text                                                       here
   ------------------------------------------------------------------  ------------------------
   "maps whose keys are not dimension values are kept with their        plain_keys, R_plain
    children resolved" (plain map: possibly empty; keys that are
    neither `default` nor parse as a value of any registered dimension)
   "dimension-keyed map" (non-empty subset of one dimension's values,   switch_of
    optional `default`)
   "replaced by the entry for the selected value of that dimension"     selected_entry, R_selected
   "or with its `default` entry when the selected value has no entry"   none_selected, R_default
   "recursively and also inside lists"                                  R_lst
   "has neither the selected value nor a default: loading fails"        F_none
   failure of the entry followed / of an item / of a child              F_selected, F_default,
                                                                        F_lst, F_plain
   "Get at every path returns exactly the value ..."                    ValueAt

   Which dimension a switch belongs to: the property says "one dimension's values".  When two
   registered dimensions have a value name in common, a map may consist of values of both; the
   code then takes the dimension registered FIRST (builder.go, switchDimension), and so does
   [switch_of]: every dimension registered before d misses one of the keys.  [loose_switch] is
   the reading without that clause; GConfRelProofs shows that the two coincide when no key is
   a value of two registered dimensions ([disjoint_dims], the situation of the property's
   generator) and that without the clause the resolved value would be ambiguous on a
   well-formed document.                                                                    *)
From Coq Require Import List String.
From GT Require Import GConfModel.
Import ListNotations.
Local Open Scope string_scope.

(* a plain map: no key is `default`, no key is a value of a registered dimension (the empty
   map is plain) *)
Definition plain_keys (dims : list dim) (kv : list (string * tree)) : Prop :=
  forall k c, In (k, c) kv ->
    k <> "default" /\ forall d, In d dims -> d_parse d k = None.

(* a switch of dimension d, loosely: d is registered, there is a key other than `default`,
   every key other than `default` is a value of d *)
Definition loose_switch (dims : list dim) (d : dim) (kv : list (string * tree)) : Prop :=
  In d dims /\
  (exists k c, In (k, c) kv /\ k <> "default") /\
  (forall k c, In (k, c) kv -> k <> "default" -> d_parse d k <> None).

(* ... and d is the first such dimension in registration order *)
Definition switch_of (dims : list dim) (d : dim) (kv : list (string * tree)) : Prop :=
  (exists pre post, dims = (pre ++ d :: post)%list /\
     forall d', In d' pre -> exists k c, In (k, c) kv /\ k <> "default" /\ d_parse d' k = None) /\
  (exists k c, In (k, c) kv /\ k <> "default") /\
  (forall k c, In (k, c) kv -> k <> "default" -> d_parse d k <> None).

(* the entry for the selected value of d *)
Definition selected_entry (d : dim) (kv : list (string * tree)) (k : string) (c : tree) : Prop :=
  In (k, c) kv /\ k <> "default" /\ d_parse d k = Some (d_sel d).

(* the selected value of d has no entry *)
Definition none_selected (d : dim) (kv : list (string * tree)) : Prop :=
  forall k c, In (k, c) kv -> k <> "default" -> d_parse d k <> Some (d_sel d).

(* no key is a value of two registered dimensions *)
Definition disjoint_dims (dims : list dim) : Prop :=
  forall i j di dj k,
    nth_error dims i = Some di -> nth_error dims j = Some dj ->
    d_parse di k <> None -> d_parse dj k <> None -> i = j.

(* "document t resolves to value r" *)
Inductive Resolves (dims : list dim) : tree -> tree -> Prop :=
| R_str : forall s, Resolves dims (Str s) (Str s)
| R_atom : forall s, Resolves dims (Atom s) (Atom s)
| R_null : Resolves dims Null Null
| R_lst : forall l l',
    Forall2 (Resolves dims) l l' -> Resolves dims (Lst l) (Lst l')
| R_plain : forall kv kv',
    plain_keys dims kv ->
    Forall2 (fun p q => fst p = fst q /\ Resolves dims (snd p) (snd q)) kv kv' ->
    Resolves dims (Mp kv) (Mp kv')
| R_selected : forall kv d k c r,
    switch_of dims d kv -> selected_entry d kv k c ->
    Resolves dims c r -> Resolves dims (Mp kv) r
| R_default : forall kv d c r,
    switch_of dims d kv -> none_selected d kv -> In ("default", c) kv ->
    Resolves dims c r -> Resolves dims (Mp kv) r.

(* "loading document t fails" *)
Inductive Fails (dims : list dim) : tree -> Prop :=
| F_lst : forall l c, In c l -> Fails dims c -> Fails dims (Lst l)
| F_plain : forall kv k c,
    plain_keys dims kv -> In (k, c) kv -> Fails dims c -> Fails dims (Mp kv)
| F_selected : forall kv d k c,
    switch_of dims d kv -> selected_entry d kv k c -> Fails dims c -> Fails dims (Mp kv)
| F_default : forall kv d c,
    switch_of dims d kv -> none_selected d kv -> In ("default", c) kv ->
    Fails dims c -> Fails dims (Mp kv)
| F_none : forall kv d,
    switch_of dims d kv -> none_selected d kv -> (forall c, ~ In ("default", c) kv) ->
    Fails dims (Mp kv).

(* the same two relations with the loose reading of "switch of dimension d" (no
   first-registered clause); used only to state that the clause matters *)
Inductive LooseResolves (dims : list dim) : tree -> tree -> Prop :=
| LR_str : forall s, LooseResolves dims (Str s) (Str s)
| LR_atom : forall s, LooseResolves dims (Atom s) (Atom s)
| LR_null : LooseResolves dims Null Null
| LR_lst : forall l l',
    Forall2 (LooseResolves dims) l l' -> LooseResolves dims (Lst l) (Lst l')
| LR_plain : forall kv kv',
    plain_keys dims kv ->
    Forall2 (fun p q => fst p = fst q /\ LooseResolves dims (snd p) (snd q)) kv kv' ->
    LooseResolves dims (Mp kv) (Mp kv')
| LR_selected : forall kv d k c r,
    loose_switch dims d kv -> selected_entry d kv k c ->
    LooseResolves dims c r -> LooseResolves dims (Mp kv) r
| LR_default : forall kv d c r,
    loose_switch dims d kv -> none_selected d kv -> In ("default", c) kv ->
    LooseResolves dims c r -> LooseResolves dims (Mp kv) r.

(* "the value at a path of a document": v is reached from t by following the path's keys
   through maps *)
Inductive ValueAt : tree -> list string -> tree -> Prop :=
| VA_here : forall t, ValueAt t [] t
| VA_step : forall kv k c rest v,
    In (k, c) kv -> ValueAt c rest v -> ValueAt (Mp kv) (k :: rest) v.

Definition is_map (t : tree) : Prop := exists kv, t = Mp kv.
