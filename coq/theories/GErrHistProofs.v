(* GErrHistProofs.v — reachable stores are well formed; chains keep their originating factory;
   Convert records the foreign error (lemmas behind Props/C06.v). *)
From Coq Require Import NArith List Bool Lia PeanoNat.
From GT Require Import Base.GErrStr.
From GT Require Import GErrModel GErrSpec GErrProofs GErrHist GErrIsProofs.
Import ListNotations.

Lemma pool_wf st : Forall root_cell st -> wf st.
Proof.
  intros F i c E. apply nth_error_In in E. rewrite Forall_forall in F.
  destruct (F c E) as [H1 [H2 [H3 H4]]]. apply ShRoot; assumption.
Qed.

(* FactoryOf on an existing value keeps the store well formed *)
Lemma nth_error_set_isfac st : forall i j,
  nth_error (set_isfac st i) j
  = if Nat.eqb j i then option_map fac_cell (nth_error st j) else nth_error st j.
Proof.
  induction st as [|c r IH]; intros i j.
  - simpl. destruct j; destruct (Nat.eqb _ i); reflexivity.
  - destruct i as [|i]; destruct j as [|j]; simpl; try reflexivity. apply IH.
Qed.

Lemma set_isfac_lookup st i o co :
  nth_error st o = Some co ->
  exists co', nth_error (set_isfac st i) o = Some co'
    /\ g_fref (c_g co') = g_fref (c_g co) /\ g_serr (c_g co') = g_serr (c_g co)
    /\ g_later (c_g co') = g_later (c_g co) /\ c_x co' = c_x co
    /\ (g_isfac (c_g co) = true -> g_isfac (c_g co') = true).
Proof.
  intros E. rewrite nth_error_set_isfac, E. destruct (Nat.eqb o i); simpl; eexists; repeat split; auto.
Qed.

Lemma set_isfac_wf st i : wf st -> wf (set_isfac st i).
Proof.
  intros W j c' E. rewrite nth_error_set_isfac in E.
  assert (H : exists c, nth_error st j = Some c /\ g_fref (c_g c') = g_fref (c_g c)
                        /\ g_serr (c_g c') = g_serr (c_g c) /\ g_later (c_g c') = g_later (c_g c)
                        /\ c_x c' = c_x c /\ (g_isfac (c_g c) = true -> g_isfac (c_g c') = true)).
  { destruct (Nat.eqb j i).
    - destruct (nth_error st j) as [c|]; [|discriminate]. injection E as <-. exists c. simpl. auto 10.
    - exists c'. auto 10. }
  destruct H as [c [Ec [Hf [Hs [Hl [Hx Hi]]]]]].
  destruct (W j c Ec) as [Fc Sc Lc Xc | o co Fc Eo Fo So Lo Xo Pc PLc].
  - apply ShRoot; try congruence. intros x Hx'. apply Hi. apply (Xc x). congruence.
  - destruct (set_isfac_lookup st i o co Eo) as [co' [Eo' [Hf' [Hs' [Hl' [Hx' Hi']]]]]].
    apply ShDer with (o := o) (co := co'); try congruence.
    intros x Hxx. apply Hi'. apply (Xo x). congruence.
Qed.

Lemma reachable_wf xw st : guarded_wiring xw -> reachable xw st -> wf st.
Proof.
  intros G R. induction R as [st F | st v m a st' r R IH Adm C | st i R IH].
  - apply pool_wf. exact F.
  - destruct (call_wf xw st v m a st' r G IH Adm C) as [W _]. exact W.
  - apply set_isfac_wf. exact IH.
Qed.

(* ---------------------------------------------------------------- one derivation *)
Lemma gv_extend st ext v i : gv st v = Some i -> gv (st ++ ext) v = Some i.
Proof.
  destruct v as [|k|k|]; simpl; try discriminate.
  - destruct (nth_error st k) eqn:E; [|discriminate]. intros H.
    rewrite nth_error_app1 by (apply nth_error_Some; congruence). rewrite E. exact H.
  - destruct (nth_error st k) as [c|] eqn:E; [|discriminate]. intros H.
    rewrite nth_error_app1 by (apply nth_error_Some; congruence). rewrite E. exact H.
Qed.

Lemma origin_extend st ext k : k < length st -> origin (st ++ ext) k = origin st k.
Proof. intros H. unfold origin. rewrite nth_error_app1 by exact H. reflexivity. Qed.

(* a call that is not the early return of Convert: one fresh cell, same originating factory,
   every older cell (and its origin) untouched *)
Lemma call_derives xw st v m a st' r i ci :
  wf st -> gv st v = Some i -> nth_error st i = Some ci ->
  w_guard (wt_of xw v m) && is_gerr_val (a_err a) = false ->
  call xw st v m a = Some (st', r) ->
  exists c', st' = st ++ [c'] /\ gv st' r = Some (length st)
    /\ origin st' (length st) = origin st i
    /\ g_serr (c_g c') = serr_after (g_serr (c_g ci)) (eval_e a (w_serr (wt_of xw v m)))
    /\ g_later (c_g c') = later_after (g_serr (c_g ci)) (g_later (c_g ci)) (eval_e a (w_serr (wt_of xw v m)))
    /\ g_isfac (c_g c') = false
    /\ (c_x c' = None <-> exists k, v = VG k).
Proof.
  intros W G Ei Gd H.
  destruct v as [|k|k|]; simpl in G, H, Gd; try discriminate.
  - destruct (nth_error st k) as [c|] eqn:E; [|discriminate]. injection G as ->.
    rewrite Ei in E. injection E as <-. rewrite Gd in H. injection H as <- <-.
    eexists. split; [reflexivity|].
    destruct (clone_fields (base_wiring m) (c_g ci) (VG i) (VG i) a) as [Hf [Hs [Hl Hi]]].
    split; [simpl; rewrite nth_error_app2, Nat.sub_diag by lia; reflexivity|].
    split.
    { unfold origin at 1. rewrite nth_error_app2, Nat.sub_diag by lia. simpl. rewrite Hf.
      destruct (W i ci Ei) as [Fi _ _ _ | o co Fi _ _ _ _ _ _ _].
      - rewrite Fi. simpl. rewrite (origin_root st i ci Ei Fi). reflexivity.
      - rewrite Fi. simpl. rewrite (origin_der st i ci o Ei Fi). reflexivity. }
    split; [exact Hs|]. split; [exact Hl|]. split; [exact Hi|]. simpl. split; [intros _; eauto|reflexivity].
  - destruct (nth_error st k) as [c|] eqn:E; [|discriminate].
    destruct (c_x c) as [x|] eqn:X; [|discriminate]. injection G as ->.
    rewrite Ei in E. injection E as <-. rewrite Gd in H. injection H as <- <-.
    eexists. split; [reflexivity|].
    destruct (clone_fields (xw m) (c_g ci) (VG i) (VX i) a) as [Hf [Hs [Hl Hi]]].
    split; [simpl; rewrite nth_error_app2, Nat.sub_diag by lia; simpl; reflexivity|].
    split.
    { unfold origin at 1. rewrite nth_error_app2, Nat.sub_diag by lia. simpl. rewrite Hf.
      destruct (W i ci Ei) as [Fi _ _ _ | o co Fi _ _ _ _ _ _ _].
      - rewrite Fi. simpl. rewrite (origin_root st i ci Ei Fi). reflexivity.
      - rewrite Fi. simpl. rewrite (origin_der st i ci o Ei Fi). reflexivity. }
    split; [exact Hs|]. split; [exact Hl|]. split; [exact Hi|]. simpl. split; [discriminate|intros [k0 E0]; discriminate].
Qed.

(* Convert / ConvertS of a value that already is a gerror error: returned unchanged *)
Lemma call_convert_idem xw st v m a i :
  gv st v = Some i -> w_guard (wt_of xw v m) = true -> is_gerr_val (a_err a) = true ->
  call xw st v m a = Some (st, a_err a).
Proof.
  intros G Gd Ge. destruct v as [|k|k|]; simpl in G, Gd |- *; try discriminate.
  - destruct (nth_error st k); [|discriminate]. rewrite Gd, Ge. reflexivity.
  - destruct (nth_error st k) as [c|]; [|discriminate]. destruct (c_x c); [|discriminate].
    rewrite Gd, Ge. reflexivity.
Qed.

(* ---------------------------------------------------------------- whole chains *)
Lemma same_kind_wt xw a b : (exists k, a = VG k) <-> (exists k, b = VG k) -> is_gerr_val a = true ->
  is_gerr_val b = true -> wt_of xw a = wt_of xw b.
Proof.
  intros H Ga Gb. destruct a, b; simpl in *; try discriminate; try reflexivity.
  - destruct H as [H _]. destruct (H (ex_intro _ _ eq_refl)) as [k E]. discriminate.
  - destruct H as [_ H]. destruct (H (ex_intro _ _ eq_refl)) as [k E]. discriminate.
Qed.

(* along a chain of derivations proper the originating factory never changes *)
Lemma derive_origin xw : guarded_wiring xw -> forall ch st v st' r i,
  wf st -> gv st v = Some i ->
  Forall (fun s => admissible st (a_err (snd s))) ch ->
  forallb no_shortcut ch = true ->
  derive xw st v ch = Some (st', r) ->
  wf st' /\ exists k, gv st' r = Some k /\ origin st' k = origin st i /\ length st <= length st'
     /\ (ch = [] \/ (length st <= k /\ exists ck, nth_error st' k = Some ck /\ g_isfac (c_g ck) = false)).
Proof.
  intros GW. induction ch as [|[m a] ch IH]; intros st v st' r i W G Adm NS D.
  - simpl in D. injection D as <- <-. split; [exact W|]. exists i. auto.
  - simpl in D, NS. apply andb_true_iff in NS as [NS1 NS2].
    destruct (call xw st v m a) as [[st1 v1]|] eqn:C; [|discriminate].
    inversion Adm as [|? ? A1 A2]; subst.
    destruct (gv_cell _ _ _ G) as [ci [Ei _]].
    assert (Gd : w_guard (wt_of xw v m) && is_gerr_val (a_err a) = false).
    { unfold no_shortcut in NS1. simpl in NS1. apply negb_true_iff in NS1. rewrite NS1.
      apply andb_false_r. }
    destruct (call_derives xw st v m a st1 v1 i ci W G Ei Gd C) as [c' [E1 [G1 [O1 [_ [_ [I1 _]]]]]]].
    destruct (call_wf xw st v m a st1 v1 GW W A1 C) as [W1 _].
    assert (Adm1 : Forall (fun s => admissible st1 (a_err (snd s))) ch).
    { subst st1. eapply Forall_impl; [|exact A2]. intros s [H|[[k H]|H]].
      - left; exact H.
      - right; left. exists k. apply gv_extend. exact H.
      - right; right. destruct H as [t0 [c0 [p0 [u0 [E0 P0]]]]]. exists t0, c0, p0, u0.
        split; [exact E0|]. apply chain_ok_extend. exact P0. }
    destruct (IH st1 v1 st' r (length st) W1 G1 Adm1 NS2 D) as [W' [k [Gk [Ok [Len Fresh]]]]].
    split; [exact W'|]. exists k. split; [exact Gk|]. split; [congruence|].
    subst st1. rewrite app_length in Len, Fresh. simpl in Len, Fresh. split; [lia|]. right.
    destruct Fresh as [->|[Fresh Cell]]; [|split; [lia|exact Cell]].
    simpl in D. injection D as <- <-. rewrite G1 in Gk. injection Gk as <-. split; [lia|].
    exists c'. split; [|exact I1]. rewrite nth_error_app2, Nat.sub_diag by lia. reflexivity.
Qed.

(* ---------------------------------------------------------------- errors.Is never panics *)
Lemma gerr_val_not_deep v : is_gerr_val v = true -> deep v = false.
Proof. destruct v; simpl; intros H; try discriminate; reflexivity. Qed.

(* [is_foreign va = true -> deep vb = false]: when the source is a foreign error, the target is
   not a deeply non-comparable value (two foreign errors of one such dynamic type make the
   stdlib's own `err == target` panic before any gerror code runs: not one of "these calls") *)
Lemma errors_is_total st va vb :
  wf st -> admissible st va -> admissible st vb ->
  (is_gerr_val va = false -> va <> VNil -> deep vb = false) ->
  exists b, errors_is st va vb = Ok b.
Proof.
  intros W [->|[[i Ga]|[t [c [p [u [-> P]]]]]]] Hb Dp.
  - unfold errors_is, errors_is_gen. simpl. destruct vb; simpl; eauto.
  - destruct Hb as [->|[[j Gb]|[t [c [p [u [-> P]]]]]]].
    + unfold errors_is, errors_is_gen. rewrite orb_true_r. destruct va; simpl in *; eauto; discriminate.
    + exists (Nat.eqb (origin st i) (origin st j)). exact (errors_is_gg true st W va vb i j Ga Gb).
    + destruct (gv_cell _ _ _ Ga) as [ci [Ei _]]. eexists. exact (errors_is_gf st W va i ci t c p u Ga Ei).
  - assert (Dv : deep vb = false) by (apply Dp; [reflexivity|discriminate]).
    apply (errors_is_foreign_any st t c p u vb W P); [|exact Dv].
    destruct Hb as [->|[H|[t' [c' [p' [u' [-> _]]]]]]]; [left; reflexivity|right; left; exact H|].
    right; right. eauto.
Qed.

(* "these calls": at least one side is a gerror value — no further hypothesis *)
Lemma errors_is_total_gerr st va vb :
  wf st -> admissible st va -> admissible st vb ->
  is_gerr_val va = true \/ is_gerr_val vb = true ->
  exists b, errors_is st va vb = Ok b.
Proof.
  intros W Aa Ab [G|G]; apply errors_is_total; auto.
  - intros H. congruence.
  - intros _ _. apply gerr_val_not_deep. exact G.
Qed.

(* ---------------------------------------------------------------- Convert / ConvertS *)
(* which recorded error matches after Convert(e): the first one, or one of the later ones *)
Definition conv_after (s : val) (l : list val) (e : val) : bool :=
  serr_match (serr_after s e) e || existsb (fun x => serr_match x e) (later_after s l e).

Lemma convert_is_fwd xw st v m a st' r i ci t c p u :
  guarded_wiring xw -> wf st -> gv st v = Some i -> nth_error st i = Some ci ->
  w_serr (wt_of xw v m) = EErr -> a_err a = VF t c p u -> chain_ok st u = true ->
  call xw st v m a = Some (st', r) ->
  errors_is st' r (VF t c p u)
  = Ok (conv_after (g_serr (c_g ci)) (g_later (c_g ci)) (VF t c p u)).
Proof.
  intros GW W G Ei Hw Ha P C.
  assert (Adm : admissible st (a_err a)).
  { right; right. rewrite Ha. exists t, c, p, u. auto. }
  assert (Gd : w_guard (wt_of xw v m) && is_gerr_val (a_err a) = false).
  { rewrite Ha. simpl. apply andb_false_r. }
  destruct (call_derives xw st v m a st' r i ci W G Ei Gd C) as [c' [E1 [G1 [_ [S1 [L1 _]]]]]].
  destruct (call_wf xw st v m a st' r GW W Adm C) as [W' _].
  assert (E' : nth_error st' (length st) = Some c').
  { subst st'. rewrite nth_error_app2, Nat.sub_diag by lia. reflexivity. }
  rewrite (errors_is_gf st' W' r (length st) c' t c p u G1 E'). unfold conv_match, conv_after.
  rewrite S1, L1, Hw. simpl eval_e. rewrite Ha. reflexivity.
Qed.

Lemma serr_match_self t p u : serr_match (VF t true p u) (VF t true p u) = true.
Proof. simpl. rewrite !N.eqb_refl. reflexivity. Qed.

Lemma serr_match_noncomparable s t p u : serr_match s (VF t false p u) = false.
Proof.
  destruct s as [| | |t0 c0 p0 u0]; simpl; try reflexivity.
  destruct c0; simpl; rewrite ?andb_false_r; reflexivity.
Qed.

(* a comparable error just converted always matches: as the first one or as a later one *)
Lemma conv_after_comparable s l t p u : conv_after s l (VF t true p u) = true.
Proof.
  unfold conv_after, serr_after, later_after.
  change (is_nil (VF t true p u)) with false.
  destruct (is_nil s); cbn [andb negb].
  - rewrite serr_match_self. reflexivity.
  - rewrite existsb_app. cbn [existsb]. rewrite serr_match_self. rewrite !orb_true_r. reflexivity.
Qed.

Lemma conv_after_noncomparable s l t p u : conv_after s l (VF t false p u) = false.
Proof.
  unfold conv_after. rewrite serr_match_noncomparable. simpl.
  induction (later_after s l (VF t false p u)) as [|x r IH]; simpl; [reflexivity|].
  rewrite serr_match_noncomparable. exact IH.
Qed.

Lemma convert_is_bwd xw st v m a st' r t c p u :
  guarded_wiring xw -> wf st -> (exists i, gv st v = Some i) ->
  a_err a = VF t c p u -> pure u = true ->
  call xw st v m a = Some (st', r) ->
  errors_is st' (VF t c p u) r = Ok false.
Proof.
  intros GW W [i G] Ha P C.
  assert (Adm : admissible st (a_err a)).
  { right; right. rewrite Ha. exists t, c, p, u. split; [reflexivity|]. apply pure_chain_ok. exact P. }
  destruct (call_wf xw st v m a st' r GW W Adm C) as [_ [[k Gk] _]].
  destruct (gv_cell _ _ _ Gk) as [_ [_ Ag]].
  assert (Gr : is_gerr_val r = true) by (destruct r; simpl in Ag; try discriminate; reflexivity).
  destruct (errors_is_foreign_src true st' t c p u r P (gerr_val_not_deep r Gr)) as [b [E F]].
  unfold errors_is. rewrite E, (F Gr). reflexivity.
Qed.

(* ---------------------------------------------------------------- the two clauses that fail *)
(* the pinned Is compares e.srcError == err unguarded *)
Definition panic_store : store :=
  [ mkC (factory_of (new_gerr [70%N] [109%N] [] false)) None ].
Definition slice_err : val := VF 4 false 5 VNil.
Definition panic_args : margs := mkA [] [] [] slice_err [111%N] 0 [109%N; 58%N; 102%N].

Lemma orig_panics :
  match call base_wiring panic_store (VG 0) MConvert panic_args with
  | Some (st', r) => errors_is_orig st' r slice_err = Panic /\ errors_is st' r slice_err = Ok false
  | None => False
  end.
Proof. vm_compute. split; reflexivity. Qed.

(* a second Convert on an error that already carries a converted error: the first stays the
   srcError, the second is recorded as a later one; both match *)
Definition e_one : val := VF 1 true 1 VNil.
Definition e_two : val := VF 1 true 2 VNil.
Lemma double_convert_recorded :
  match call base_wiring panic_store (VG 0) MConvert (mkA [] [] [] e_one [] 0 [109%N]) with
  | Some (st1, r1) =>
      match call base_wiring st1 r1 MConvert (mkA [] [] [] e_two [] 1 [109%N]) with
      | Some (st2, r2) =>
          errors_is st2 r2 e_two = Ok true /\ errors_is st2 r2 e_one = Ok true
          /\ errors_is st2 r1 e_two = Ok false
      | None => False
      end
  | None => False
  end.
Proof. vm_compute. repeat split; reflexivity. Qed.

(* record of the code before the repair ([clone_base_orig]: no list of later errors): the second
   converted error was lost *)
Definition orig_cell (c : cell) : cell := mkC (drop_later (c_g c)) (c_x c).
Lemma double_convert_orig_not_recorded :
  match call base_wiring panic_store (VG 0) MConvert (mkA [] [] [] e_one [] 0 [109%N]) with
  | Some (st1, r1) =>
      match call base_wiring st1 r1 MConvert (mkA [] [] [] e_two [] 1 [109%N]) with
      | Some (st2, r2) =>
          errors_is (map orig_cell st2) r2 e_two = Ok false
          /\ errors_is (map orig_cell st2) r2 e_one = Ok true
      | None => False
      end
  | None => False
  end.
Proof. vm_compute. split; reflexivity. Qed.

(* observation (outside the quantified pool): an extension factory used without FactoryOf is
   not matched by its own derivations *)
Definition bare_ext_store : store :=
  [ mkC (new_gerr [88%N] [] [] false) (Some (mkX 1 [])) ].
Lemma bare_ext_not_matched :
  match call ext_wiring bare_ext_store (VX 0) MMsg (mkA [] [] [104%N] VNil [] 0 [109%N]) with
  | Some (st', r) => errors_is st' r (VX 0) = Ok false /\ errors_is st' (VX 0) r = Ok true
  | None => False
  end.
Proof. vm_compute. split; reflexivity. Qed.

(* ---------------------------------------------------------------- corollaries of errors_is_gg *)
Lemma is_own st e i vf F cF :
  wf st -> gv st e = Some i -> gv st vf = Some F -> nth_error st F = Some cF ->
  g_fref (c_g cF) = VNil -> origin st i = F -> errors_is st e vf = Ok true.
Proof.
  intros W Ge Gf EF FF O. unfold errors_is. rewrite (errors_is_gg true st W e vf i F Ge Gf).
  rewrite (origin_root st F cF EF FF), O, Nat.eqb_refl. reflexivity.
Qed.

Lemma is_not_other st e i vg G cG :
  wf st -> gv st e = Some i -> gv st vg = Some G -> nth_error st G = Some cG ->
  g_fref (c_g cG) = VNil -> origin st i <> G -> errors_is st e vg = Ok false.
Proof.
  intros W Ge Gg EG FG O. unfold errors_is. rewrite (errors_is_gg true st W e vg i G Ge Gg).
  rewrite (origin_root st G cG EG FG). apply Nat.eqb_neq in O. rewrite O. reflexivity.
Qed.

Lemma is_siblings st e1 e2 i j :
  wf st -> gv st e1 = Some i -> gv st e2 = Some j -> origin st i = origin st j ->
  errors_is st e1 e2 = Ok true.
Proof.
  intros W G1 G2 O. unfold errors_is. rewrite (errors_is_gg true st W e1 e2 i j G1 G2), O, Nat.eqb_refl.
  reflexivity.
Qed.

Lemma is_origin st va vb i j :
  wf st -> gv st va = Some i -> gv st vb = Some j ->
  errors_is st va vb = Ok (Nat.eqb (origin st i) (origin st j)).
Proof. intros W. exact (errors_is_gg true st W va vb i j). Qed.

(* Convert/ConvertS of a comparable foreign error e, on ANY receiver: errors.Is(result, e) *)
Lemma convert_fwd_full xw st v m a st' r i t p u :
  guarded_wiring xw -> wf st -> gv st v = Some i ->
  w_serr (wt_of xw v m) = EErr -> a_err a = VF t true p u -> chain_ok st u = true ->
  call xw st v m a = Some (st', r) ->
  errors_is st' r (VF t true p u) = Ok true.
Proof.
  intros GW W G Hw Ha P C. destruct (gv_cell _ _ _ G) as [ci [Ei _]].
  rewrite (convert_is_fwd xw st v m a st' r i ci t true p u GW W G Ei Hw Ha P C).
  rewrite conv_after_comparable. reflexivity.
Qed.

Lemma convert_fwd_noncomparable xw st v m a st' r i ci t p u :
  guarded_wiring xw -> wf st -> gv st v = Some i -> nth_error st i = Some ci ->
  w_serr (wt_of xw v m) = EErr -> a_err a = VF t false p u -> chain_ok st u = true ->
  call xw st v m a = Some (st', r) ->
  errors_is st' r (VF t false p u) = Ok false.
Proof.
  intros GW W G Ei Hw Ha P C.
  rewrite (convert_is_fwd xw st v m a st' r i ci t false p u GW W G Ei Hw Ha P C).
  rewrite conv_after_noncomparable. reflexivity.
Qed.

(* the errors recorded earlier keep matching after any further derivation *)
Lemma later_after_keeps s l e x : In x l -> In x (later_after s l e).
Proof.
  unfold later_after. intros H. destruct (is_nil s && negb (is_nil e)); [exact H|].
  destruct (negb (is_nil e)); [apply in_or_app; left; exact H|exact H].
Qed.

Lemma convert_wiring m : w_serr (base_wiring m) = EErr <-> is_convert m = true.
Proof. destruct m; simpl; split; congruence. Qed.

(* ---------------------------------------------------------------- refutations *)
Lemma panic_store_wf : wf panic_store.
Proof.
  apply pool_wf. constructor; [|constructor].
  split; [reflexivity|split; [reflexivity|split; [reflexivity|intros x Hx; discriminate]]].
Qed.

(* the code before the value-level repair guarded the comparison with the TYPE's comparability:
   a converted error of a comparable struct type holding a slice in an interface field passes
   that guard and the == behind it panics; the repaired code answers false *)
Definition deep_err : val := VF 200 false 5 VNil.
Definition deep_args : margs := mkA [] [] [] deep_err [111%N] 0 [109%N; 58%N; 102%N].

Lemma type_guard_panics :
  match call base_wiring panic_store (VG 0) MConvert deep_args with
  | Some (st', r) =>
      type_comparable deep_err = true /\ comparable deep_err = false
      /\ gerr_is_ty 4 st' 1 deep_err = Panic /\ r = VG 1
      /\ errors_is st' r deep_err = Ok false
  | None => False
  end.
Proof. vm_compute. repeat split; reflexivity. Qed.

Lemma no_panic_orig_refuted :
  exists st va vb, wf st /\ admissible st va /\ admissible st vb /\ errors_is_orig st va vb = Panic.
Proof.
  pose proof orig_panics as D.
  destruct (call base_wiring panic_store (VG 0) MConvert panic_args) as [[st' r]|] eqn:C;
    [|contradiction].
  destruct D as [D _].
  assert (A1 : admissible panic_store (a_err panic_args)).
  { right; right. exists 4%N, false, 5%N, VNil. split; reflexivity. }
  destruct (call_wf base_wiring _ _ _ _ _ _ base_wiring_guarded panic_store_wf A1 C) as [W1 [[k G1] _]].
  exists st', r, slice_err. split; [exact W1|]. split; [right; left; eauto|]. split; [|exact D].
  right; right. exists 4%N, false, 5%N, VNil. split; reflexivity.
Qed.

(* ---------------------------------------------------------------- the property's headline *)
Lemma val_of_extend st ext i : i < length st -> val_of (st ++ ext) i = val_of st i.
Proof. intros H. unfold val_of. rewrite nth_error_app1 by exact H. reflexivity. Qed.

Lemma root_origin st i c : nth_error st i = Some c -> root_cell c -> origin st i = i.
Proof. intros E [F _]. exact (origin_root st i c E F). Qed.

(* any error derived from a pool factory F through any chain: errors.Is(err, F) holds, it is
   false for every other pool factory G, and (for a non-empty chain) ExtractFactoryReference
   returns F's record *)
Lemma headline xw st F ch st' e :
  guarded_wiring xw -> Forall root_cell st -> F < length st ->
  Forall (fun s => admissible st (a_err (snd s))) ch -> forallb no_shortcut ch = true ->
  derive xw st (val_of st F) ch = Some (st', e) ->
  errors_is st' e (val_of st' F) = Ok true
  /\ (forall G, G < length st -> G <> F -> errors_is st' e (val_of st' G) = Ok false)
  /\ (ch <> [] -> extract_fref st' e = VG F).
Proof.
  intros GW Pool HF Adm NS D.
  pose proof (pool_wf st Pool) as W.
  destruct (nth_error st F) as [cF|] eqn:EF; [|apply nth_error_None in EF; lia].
  pose proof (gv_val_of st F cF EF) as GF.
  destruct (derive_origin xw GW ch st (val_of st F) st' e F W GF Adm NS D)
    as [W' [k [Gk [Ok [Len Fresh]]]]].
  destruct (derive_extends _ _ _ _ _ _ D) as [ext ->].
  assert (RF : root_cell cF) by (rewrite Forall_forall in Pool; apply Pool; eapply nth_error_In; eauto).
  rewrite (root_origin st F cF EF RF) in Ok.
  assert (EF' : nth_error (st ++ ext) F = Some cF) by (rewrite nth_error_app1 by exact HF; exact EF).
  split; [|split].
  - rewrite (val_of_extend st ext F HF).
    destruct RF as [RF1 _].
    exact (is_own (st ++ ext) e k (val_of st F) F cF W' Gk (gv_extend st ext _ _ GF) EF' RF1 Ok).
  - intros G HG Hne.
    destruct (nth_error st G) as [cG|] eqn:EG; [|apply nth_error_None in EG; lia].
    assert (RG : root_cell cG) by (rewrite Forall_forall in Pool; apply Pool; eapply nth_error_In; eauto).
    assert (EG' : nth_error (st ++ ext) G = Some cG) by (rewrite nth_error_app1 by exact HG; exact EG).
    rewrite (val_of_extend st ext G HG). destruct RG as [RG1 _].
    apply (is_not_other (st ++ ext) e k (val_of st G) G cG W' Gk
             (gv_extend st ext _ _ (gv_val_of st G cG EG)) EG' RG1). congruence.
  - intros Hne. destruct Fresh as [->|[Fresh [ck [Ek Ik]]]]; [contradiction|].
    rewrite (extract_gerr (st ++ ext) e k ck W' Gk Ek), Ik, Ok.
    destruct (W' k ck Ek) as [Fk _ _ _ | o co Fk _ _ _ _ _ _ _].
    + (* a root among the fresh cells would be its own origin *)
      pose proof (origin_root (st ++ ext) k ck Ek Fk) as Or. rewrite Or in Ok. lia.
    + rewrite Fk. reflexivity.
Qed.
