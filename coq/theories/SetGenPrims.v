(* SetGenPrims.v — the Go map primitives the regenerated SetGen.v (translator tie of C07) is
   written in, over the same representation as SetModel (no proofs).

   Go                         primitive
   make(Set[T], n)            mk_empty
   m[k] = setVal              set_put m k
   delete(m, k)               set_del m k
   _, ok := m[k]              set_has m k
   len(m)                     set_len m
   m == nil                   set_is_nil m
   for k := range m           fold over set_keys m (any order: see C07_addset / C07_removeset)

   Locally built slices are [option (list T)] with None = Go's nil slice:
   make([]T, n) / make([]T, 0, c)   sl_make zero n          r[i] = x       sl_set r i x
   append(r, x) / append(r, xs...)  sl_append / sl_append_all    len(r)    sl_len r
   r == nil                         sl_is_nil r             range r / r... sl_items r        *)
From Coq Require Import List Bool Arith.
From GT Require Import SetModel.
Import ListNotations.

Section Prims.
  Variable T : Type.
  Variable eqb : T -> T -> bool.
  Definition mk_empty : sset T := {| is_nil := false; elems := [] |}.
  Definition set_put (m : sset T) (k : T) : sset T :=
    {| is_nil := is_nil m; elems := insert eqb k (elems m) |}.
  Definition set_del (m : sset T) (k : T) : sset T :=
    {| is_nil := is_nil m; elems := delete eqb k (elems m) |}.
  Definition set_has (m : sset T) (k : T) : bool := memb eqb k (elems m).
  Definition set_len (m : sset T) : nat := length (elems m).
  Definition set_is_nil (m : sset T) : bool := is_nil m.
  Definition set_keys (m : sset T) : list T := elems m.

  Definition sl_items (r : option (list T)) : list T := match r with Some l => l | None => [] end.
  Definition sl_make (zero : T) (n : nat) : option (list T) := Some (repeat zero n).
  Definition sl_len (r : option (list T)) : nat := length (sl_items r).
  Definition sl_is_nil (r : option (list T)) : bool := match r with None => true | Some _ => false end.
  Fixpoint list_upd (l : list T) (i : nat) (x : T) : list T :=
    match l, i with
    | [], _ => []
    | _ :: r, O => x :: r
    | y :: r, S j => y :: list_upd r j x
    end.
  Definition sl_set (r : option (list T)) (i : nat) (x : T) : option (list T) :=
    match r with Some l => Some (list_upd l i x) | None => None end.
  Definition sl_append (r : option (list T)) (x : T) : option (list T) := Some (sl_items r ++ [x]).
  Definition sl_append_all (r : option (list T)) (xs : list T) : option (list T) :=
    match r, xs with None, [] => None | _, _ => Some (sl_items r ++ xs) end.
End Prims.
Arguments sl_items {T}. Arguments sl_make {T}. Arguments sl_len {T}. Arguments sl_is_nil {T}.
Arguments list_upd {T}. Arguments sl_set {T}. Arguments sl_append {T}. Arguments sl_append_all {T}.
Arguments mk_empty {T}. Arguments set_put {T}. Arguments set_del {T}. Arguments set_has {T}.
Arguments set_len {T}. Arguments set_is_nil {T}. Arguments set_keys {T}.
