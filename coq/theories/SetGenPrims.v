(* SetGenPrims.v — the Go map primitives the regenerated SetGen.v (translator tie of C07) is
   written in, over the same representation as SetModel (no proofs).

   Go                         primitive
   make(Set[T], n)            mk_empty
   m[k] = setVal              set_put m k
   delete(m, k)               set_del m k
   _, ok := m[k]              set_has m k
   len(m)                     set_len m
   m == nil                   set_is_nil m
   for k := range m           fold over set_keys m (any order: see C07_addset / C07_removeset) *)
From Coq Require Import List Bool Arith.
From GT Require Import SetModel.
Import ListNotations.

Section Prims.
  Variable T : Type.
  Variable eqb : T -> T -> bool.
  Definition mk_empty : sset T := {| is_nil := false; elems := [] |}.
  Definition set_put (m : sset T) (k : T) : sset T :=
    {| is_nil := is_nil m; elems := insert eqb k (elems m) |}.
  Definition set_del (m : sset T) (k : T) : sset T :=
    {| is_nil := is_nil m; elems := delete eqb k (elems m) |}.
  Definition set_has (m : sset T) (k : T) : bool := memb eqb k (elems m).
  Definition set_len (m : sset T) : nat := length (elems m).
  Definition set_is_nil (m : sset T) : bool := is_nil m.
  Definition set_keys (m : sset T) : list T := elems m.
End Prims.
Arguments mk_empty {T}. Arguments set_put {T}. Arguments set_del {T}. Arguments set_has {T}.
Arguments set_len {T}. Arguments set_is_nil {T}. Arguments set_keys {T}.
