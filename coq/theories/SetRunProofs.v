(* SetRunProofs.v — runs with an iteration-order oracle and Slice() refine the mathematical set. *)
From Coq Require Import List Bool Arith Permutation.
From GT Require Import SetModel SetProofs SetMultiModel SetMultiProofs SetRunModel.
Import ListNotations.

Section SetRunProofs.
  Variable T : Type.
  Variable eqb : T -> T -> bool.
  Hypothesis eqb_eq : forall x y, eqb x y = true <-> x = y.
  Notation wf := (wf T).
  Notation mem := (mem T).
  Notation rel := (rel T eqb).
  Notation covers := (covers T).
  Notation op_ok := (op_ok T).

  (* Slice() against the ABSTRACT set: nil exactly when the set is empty, otherwise a
     duplicate-free listing of exactly the members — for every order the runtime may produce *)
  Lemma slice_abs s p order :
    wf s -> rel s p -> Permutation order (elems s) ->
    match slice_in order with
    | None => forall x, p x = false
    | Some l => l <> [] /\ NoDup l /\ forall x, In x l <-> p x = true
    end.
  Proof.
    intros [Hnd _] Hrel HP.
    assert (Hin : forall x, In x order <-> p x = true).
    { intros x. rewrite (rel_mem T eqb eqb_eq s p x Hrel). unfold SetProofs.mem.
      split; intros H; [eapply Permutation_in | eapply Permutation_in; [apply Permutation_sym|]]; eauto. }
    destruct order as [|y r]; cbn [slice_in].
    - intros x. destruct (p x) eqn:E; [|reflexivity]. apply Hin in E. destruct E.
    - split; [discriminate|]. split; [|exact Hin].
      eapply Permutation_NoDup; [apply Permutation_sym; exact HP | exact Hnd].
  Qed.

  Lemma perm_in_iff (a b : list T) : Permutation a b -> forall x, In x b <-> In x a.
  Proof.
    intros HP x. split; intros H; [eapply Permutation_in; [apply Permutation_sym|] | eapply Permutation_in]; eauto.
  Qed.

  (* one step, whatever the oracle answered *)
  Lemma xstep_refines dom s p x :
    wf s -> rel s p -> covers dom p -> xop_ok (op_ok dom) x -> order_ok eqb s x ->
    let r := x_step eqb s x in let a := ax_step eqb p dom x in
    out_ok (snd r) (snd a) /\ wf (fst r) /\ rel (fst r) (fst a) /\ covers dom (fst a).
  Proof.
    intros Hwf Hrel Hcov Hok Hord.
    destruct x as [o order|order].
    2:{ cbn [x_step ax_step fst snd out_ok]. split; [|auto].
        pose proof (slice_abs s p order Hwf Hrel Hord) as H.
        destruct (slice_in order); exact H. }
    assert (Hplain : forall o', o' = o ->
               x_step eqb s (XOp o order) = (fst (s_step eqb s o), XB (snd (s_step eqb s o))) ->
               let r := x_step eqb s (XOp o order) in let a := ax_step eqb p dom (XOp o order) in
               out_ok (snd r) (snd a) /\ wf (fst r) /\ rel (fst r) (fst a) /\ covers dom (fst a)).
    { intros o' _ E. cbv zeta. rewrite E. cbn [ax_step fst snd out_ok].
      exact (step_refines T eqb eqb_eq dom s p o Hwf Hrel Hcov Hok). }
    destruct o as [|items|items|items| | |items|items| | |items|items];
      try (apply (Hplain _ eq_refl); reflexivity); clear Hplain;
      cbn [x_step ax_step a_step fst snd out_ok order_ok xop_ok] in *.
    - (* OAddSet *)
      apply (add_same T eqb eqb_eq dom s p order items Hwf Hrel Hcov).
      + intros x. rewrite <- (make_In T eqb eqb_eq items x). apply perm_in_iff. exact Hord.
      + exact Hok.
    - (* OAddSelf *)
      unfold s_addset. destruct (add_spec T eqb eqb_eq s order Hwf) as [W [M F]].
      split; [|split; [exact W|split; [|exact Hcov]]].
      + rewrite F. apply not_true_is_false. intros H. apply existsb_exists in H as [x [Hx Hn]].
        apply negb_true_iff in Hn. apply (memb_false T eqb eqb_eq) in Hn.
        apply Hn. eapply Permutation_in; eauto.
      + apply (rel_of_In T eqb eqb_eq). intros x. rewrite M.
        rewrite (rel_mem T eqb eqb_eq s p x Hrel). unfold SetProofs.mem.
        pose proof (perm_in_iff _ _ (Permutation_sym Hord) x). tauto.
    - (* ORemoveSet *)
      apply (remove_same T eqb eqb_eq dom s p order items Hwf Hrel Hcov).
      intros x. rewrite <- (make_In T eqb eqb_eq items x). apply perm_in_iff. exact Hord.
    - (* ORemoveSelf *)
      unfold s_removeset. destruct (remove_spec T eqb eqb_eq s order Hwf) as [W [M F]].
      pose proof (fun x => perm_in_iff _ _ (Permutation_sym Hord) x) as Hio.
      split; [|split; [exact W|split]].
      + rewrite F. apply bool_eq_iff. rewrite !existsb_exists. split; intros [x [Hx Hm]].
        * exists x. split; [apply Hcov|]; rewrite <- Hrel; assumption.
        * exists x. rewrite <- Hrel in Hm. split; [|assumption].
          apply Hio. now apply (memb_In T eqb eqb_eq).
      + apply (rel_of_In T eqb eqb_eq). intros x. rewrite M. unfold SetProofs.mem, a_empty.
        specialize (Hio x). intuition congruence.
      + intros x. unfold a_empty. discriminate.
  Qed.

  (* every run, every oracle: outputs are what the mathematical set allows at every step, and the
     final states are related *)
  Lemma xrun_refines dom xs : forall s p,
    wf s -> rel s p -> covers dom p -> Forall (xop_ok (op_ok dom)) xs -> orders_ok eqb s xs ->
    Forall2 (@out_ok T) (x_run eqb s xs) (ax_run eqb p dom xs)
    /\ wf (x_final eqb s xs) /\ rel (x_final eqb s xs) (ax_final eqb p dom xs).
  Proof.
    induction xs as [|x rest IH]; intros s p Hwf Hrel Hcov Hok Hord.
    - cbn. auto.
    - inversion Hok as [|? ? Ho Hrest]; subst. destruct Hord as [Ho1 Ho2].
      destruct (xstep_refines dom s p x Hwf Hrel Hcov Ho Ho1) as [E [W [R C]]].
      destruct (IH _ _ W R C Hrest Ho2) as [E2 [W2 R2]].
      cbn [x_run ax_run ax_final]. unfold x_final in *. cbn [fold_left].
      split; [constructor; assumption | split; assumption].
  Qed.

  (* ---------- "true exactly when the membership changed" in the after <> before form ---------- *)
  Lemma add_changed s items :
    wf s -> let r := s_add eqb s items in
    snd r = true <-> exists y, mem (fst r) y /\ ~ mem s y.
  Proof.
    intros Hwf. destruct (add_spec T eqb eqb_eq s items Hwf) as [_ [M F]]. cbv zeta.
    rewrite F, existsb_exists. split.
    - intros [x [Hx Hn]]. apply negb_true_iff in Hn. apply (memb_false T eqb eqb_eq) in Hn.
      exists x. split; [apply M; now right | exact Hn].
    - intros [y [Hy Hn]]. apply M in Hy. destruct Hy as [Hy|Hy]; [contradiction|].
      exists y. split; [exact Hy|]. apply negb_true_iff. now apply (memb_false T eqb eqb_eq).
  Qed.

  Lemma remove_changed s items :
    wf s -> let r := s_remove eqb s items in
    snd r = true <-> exists y, mem s y /\ ~ mem (fst r) y.
  Proof.
    intros Hwf. destruct (remove_spec T eqb eqb_eq s items Hwf) as [_ [M F]]. cbv zeta.
    rewrite F, existsb_exists. split.
    - intros [x [Hx Hm]]. apply (memb_In T eqb eqb_eq) in Hm.
      exists x. split; [exact Hm|]. intros H. apply M in H. tauto.
    - intros [y [Hy Hn]]. exists y.
      assert (In y items).
      { destruct (memb eqb y items) eqn:E; [now apply (memb_In T eqb eqb_eq)|].
        apply (memb_false T eqb eqb_eq) in E. exfalso. apply Hn. apply M. tauto. }
      split; [assumption | now apply (memb_In T eqb eqb_eq)].
  Qed.

  (* ---------- the statements of Props/C07.v in the form they are exported ---------- *)
  Lemma empty_covers dom : covers dom (@a_empty T).
  Proof. intros x E. discriminate. Qed.

  Lemma xrun_refines_nil dom xs :
    Forall (xop_ok (op_ok dom)) xs -> orders_ok eqb s_nil xs ->
    Forall2 (@out_ok T) (x_run eqb s_nil xs) (ax_run eqb a_empty dom xs)
    /\ wf (x_final eqb s_nil xs) /\ rel (x_final eqb s_nil xs) (ax_final eqb a_empty dom xs).
  Proof.
    intros H1 H2. exact (xrun_refines dom xs s_nil a_empty (nil_wf T) (nil_rel T eqb) (empty_covers dom) H1 H2).
  Qed.

  Lemma run_refines_nil dom ops :
    Forall (op_ok dom) ops ->
    map snd (s_run eqb s_nil ops) = a_run T eqb a_empty dom ops
    /\ wf (s_final T eqb s_nil ops)
    /\ rel (s_final T eqb s_nil ops) (a_final T eqb a_empty dom ops).
  Proof.
    intros H. exact (run_refines T eqb eqb_eq dom ops s_nil a_empty (nil_wf T) (nil_rel T eqb) (empty_covers dom) H).
  Qed.

  Lemma mrun_refines_nil dom k ops :
    Forall (mop_ok T dom) ops ->
    map snd (m_run eqb (repeat s_nil k) ops) = am_run T eqb (repeat a_empty k) dom ops
    /\ mwf T (m_final T eqb (repeat s_nil k) ops)
    /\ mrel T eqb (m_final T eqb (repeat s_nil k) ops) (am_final T eqb (repeat a_empty k) dom ops).
  Proof.
    intros H. destruct (init_ok T eqb dom k) as [A [B C]].
    exact (mrun_refines T eqb eqb_eq dom ops _ _ A B C H).
  Qed.

  Lemma has_orig_refuted_ex (a : T) :
    exists s items, items <> [] /\ Forall (mem s) items /\ s_has_orig eqb s items = false.
  Proof.
    exists (s_make eqb [a]), [a; a].
    destruct (has_orig_refuted T eqb a) as [E F]. split; [discriminate | split; [exact F | exact E]].
  Qed.
End SetRunProofs.
