(* GErrMetricProofs.v — the derived source is never empty; worked renderings. *)
From Coq Require Import NArith List Bool.
From Coq Require String.
Import Coq.Strings.String.StringSyntax.
From GT Require Import Base.GErrStr.
From GT Require Import GErrMetric.
Import ListNotations.

(* a derived source always contains the ':' delimiter: it is never empty *)
Lemma metric_nonempty name : nonempty (metric name) = true.
Proof.
  unfold metric. destruct (split_on 46 _) as [|pkg vals]; [reflexivity|].
  unfold nonempty. destruct pkg; reflexivity.
Qed.

Lemma split_on_nonempty sep s : split_on sep s <> [].
Proof.
  induction s as [|c r IH]; simpl; [discriminate|].
  destruct (N.eqb c sep); [discriminate|]. destruct (split_on sep r); discriminate.
Qed.

(* the frame names documented in gerror/error_test.go TestStackSource, and the call sites of
   the c15 harness *)
Example metric_examples :
  metric (s_of "github.com/drshriveer/gtools/gerror_test.TestStackSource") = s_of "gerror_test:TestStackSource"
  /\ metric (s_of "github.com/drshriveer/gtools/gerror_test.TestStackSource.func1") = s_of "gerror_test:TestStackSource"
  /\ metric (s_of "github.com/drshriveer/gtools/gerror_test.TestStackSource.AType.InlineError3XL.func3.1.1")
     = s_of "gerror_test:TestStackSource:AType:InlineError3XL"
  /\ metric (s_of "github.com/drshriveer/gtools/gerror_test.AType.ReturnsError") = s_of "gerror_test:AType:ReturnsError"
  /\ metric (s_of "main.siteP3") = s_of "main:siteP3"
  /\ metric (s_of "main.(" ++ [42%N] ++ s_of "recvT).siteM0") = s_of "main:(" ++ [42%N] ++ s_of "recvT):siteM0"
  /\ metric (s_of "main.recvV.siteV8") = s_of "main:recvV:siteV8"
  /\ metric (s_of "main.siteC2.func1") = s_of "main:siteC2"
  /\ metric (s_of "main.siteG[...]") = s_of "main:siteG"
  /\ metric (s_of "main.genT[...].siteGM") = s_of "main:genT["
  /\ metric (s_of "main.siteN.siteN.func1.func2") = s_of "main:siteN"
  /\ metric (s_of "main.init.func1") = s_of "main:init"
  /\ metric (s_of "main.implT.siteI") = s_of "main:implT:siteI"
  /\ metric (s_of "a/b.T.m.T.x") = s_of "b:T:m".
Proof. vm_compute. repeat split. Qed.
