(* GSortTextProofs.v — the rendered text of a Less body denotes less_with (GSortTextModel.v). *)
From Coq Require Import List Bool ZArith String Ascii.
From GT Require Import GSortModel GSortProofs GSortTextModel.
Import ListNotations.
Local Open Scope list_scope.
Local Open Scope string_scope.

(* ---------------------------------------------------------------- strings *)
Lemma sapp_assoc : forall a b c : string, (a ++ b) ++ c = a ++ (b ++ c).
Proof. induction a as [|x a IH]; intros; cbn; [reflexivity|]. rewrite IH. reflexivity. Qed.
Lemma sapp_nil_r : forall a : string, a ++ "" = a.
Proof. induction a as [|x a IH]; cbn; [reflexivity|]. rewrite IH. reflexivity. Qed.

(* ---------------------------------------------------------------- 1. text = printed syntax *)
Lemma cl_string_print : forall c,
  cl_string c = print_expr (if cl_isbool c then ENotAnd (cl_acc c) else ELt (cl_acc c)).
Proof. intros c. unfold cl_string. destruct (cl_isbool c); reflexivity. Qed.

Theorem render_block_print : forall cs,
  render_block cl_string cs = print_stmts (block_ast cs).
Proof.
  induction cs as [|c rest IH]; [reflexivity|].
  cbn [render_block block_ast]. destruct rest as [|c2 r].
  - cbn. rewrite cl_string_print. reflexivity.
  - unfold print_stmts in *. rewrite flat_map_app. cbn [flat_map print_stmt ret_of].
    rewrite app_nil_r, IH, cl_string_print. cbn [print_expr].
    f_equal. f_equal. rewrite !sapp_assoc. reflexivity.
Qed.

(* ---------------------------------------------------------------- 2. meaning of the syntax *)
Definition env_ok (env : aenv) (cs : list cmpline) : Prop :=
  forall c, In c cs -> env (cl_acc c) = Some (cl_isbool c, cl_idx c).

Lemma eval_if : forall env c body a b,
  eval_stmt env (SIf c body) a b =
  match eval_expr env c a b with
  | None => None
  | Some false => Some None
  | Some true => eval_seq env body a b
  end.
Proof.
  intros. cbn [eval_stmt]. destruct (eval_expr env c a b) as [[|]|]; try reflexivity.
  induction body as [|s r IH]; [reflexivity|].
  cbn [eval_seq]. destruct (eval_stmt env s a b) as [[v|]|]; try reflexivity. exact IH.
Qed.

Lemma eval_seq_app : forall env s1 s2 a b,
  eval_seq env (s1 ++ s2) a b =
  match eval_seq env s1 a b with
  | Some None => eval_seq env s2 a b
  | r => r
  end.
Proof.
  induction s1 as [|s r IH]; intros; [reflexivity|].
  cbn [app eval_seq]. destruct (eval_stmt env s a b) as [[v|]|]; try reflexivity. apply IH.
Qed.

Lemma eval_ret : forall env c a b,
  env (cl_acc c) = Some (cl_isbool c, cl_idx c) ->
  eval_stmt env (ret_of c) a b = Some (Some (cl_cmp c a b)).
Proof.
  intros env c a b H. unfold ret_of, cl_cmp. destruct (cl_isbool c) eqn:B;
    cbn [eval_stmt eval_expr]; rewrite H; reflexivity.
Qed.
Lemma eval_eq : forall env c a b,
  env (cl_acc c) = Some (cl_isbool c, cl_idx c) ->
  eval_expr env (EEq (cl_acc c)) a b = Some (cl_eq c a b).
Proof.
  intros env c a b H. unfold cl_eq. cbn [eval_expr]. rewrite H.
  destruct (cl_isbool c); reflexivity.
Qed.

Theorem eval_block : forall env cs a b,
  cs <> [] -> env_ok env cs ->
  eval_seq env (block_ast cs) a b = Some (Some (less_with cl_cmp cs a b)).
Proof.
  intros env. induction cs as [|c rest IH]; intros a b NE OK; [contradiction|].
  assert (Hc : env (cl_acc c) = Some (cl_isbool c, cl_idx c)) by (apply OK; left; reflexivity).
  cbn [block_ast less_with]. destruct rest as [|c2 r].
  - cbn [app eval_seq]. rewrite (eval_ret env c a b Hc). reflexivity.
  - rewrite eval_seq_app. cbn [eval_seq]. rewrite eval_if, (eval_eq env c a b Hc).
    destruct (cl_eq c a b).
    + rewrite IH; [reflexivity|discriminate|]. intros x Hx. apply OK. right. exact Hx.
    + cbn [eval_seq]. rewrite (eval_ret env c a b Hc). reflexivity.
Qed.

Corollary eval_block_stmts : forall env cs a b,
  cs <> [] -> env_ok env cs ->
  eval_stmts env (block_ast cs) a b = Some (less_with cl_cmp cs a b).
Proof. intros. unfold eval_stmts. rewrite eval_block by assumption. reflexivity. Qed.

(* the chain's own environment is consistent when equal accessor texts read equal views *)
Definition chain_consistent (cs : list cmpline) : Prop :=
  forall c c', In c cs -> In c' cs -> cl_acc c = cl_acc c' ->
               cl_isbool c = cl_isbool c' /\ cl_idx c = cl_idx c'.

Lemma env_of_ok : forall cs, chain_consistent cs -> env_ok (env_of cs) cs.
Proof.
  induction cs as [|c r IH]; intros CC x Hx; [destruct Hx|].
  cbn [env_of]. destruct (String.eqb (cl_acc c) (cl_acc x)) eqn:E.
  - apply String.eqb_eq in E. destruct (CC c x (or_introl eq_refl) Hx E) as [-> ->]. reflexivity.
  - destruct Hx as [<-|Hx]; [rewrite String.eqb_refl in E; discriminate|].
    apply IH; [|exact Hx]. intros u v Hu Hv. apply CC; right; assumption.
Qed.

(* ---------------------------------------------------------------- 3. parser o printer = id *)
Fixpoint nospace (s : string) : bool :=
  match s with
  | EmptyString => true
  | String c r => negb (is_space c) && nospace r
  end.

Lemma words_acc_nospace : forall w cur rest,
  nospace w = true -> words_acc cur (w ++ rest) = words_acc (cur ++ w) rest.
Proof.
  induction w as [|c w IH]; intros cur rest H.
  - cbn. rewrite sapp_nil_r. reflexivity.
  - cbn [nospace] in H. apply andb_prop in H. destruct H as [Hc Hw].
    cbn [append words_acc]. apply negb_true_iff in Hc. rewrite Hc.
    rewrite (IH _ _ Hw). rewrite sapp_assoc. reflexivity.
Qed.

Lemma strip_prefix_app : forall p s, strip_prefix p (p ++ s) = Some s.
Proof.
  induction p as [|c p IH]; intros; [reflexivity|].
  cbn. rewrite Ascii.eqb_refl. apply IH.
Qed.

(* words separated by single blanks *)
Fixpoint join (ws : list string) : string :=
  match ws with
  | [] => ""
  | [w] => w
  | w :: r => w ++ " " ++ join r
  end.
Definition word_ok (w : string) : Prop := nospace w = true /\ w <> "".

Lemma words_acc_end : forall w, w <> "" -> words_acc w "" = [w].
Proof. intros w H. cbn. destruct w; [contradiction|reflexivity]. Qed.

Lemma words_join : forall ws, Forall word_ok ws -> words (join ws) = ws.
Proof.
  unfold words. induction ws as [|w r IH]; intros F; [reflexivity|].
  inversion F as [|? ? [Hn Hne] Fr]; subst. destruct r as [|w2 r'].
  - cbn [join]. rewrite <- (sapp_nil_r w) at 1. rewrite (words_acc_nospace w "" "" Hn).
    cbn [append]. apply words_acc_end. exact Hne.
  - change (join (w :: w2 :: r')) with (w ++ " " ++ join (w2 :: r')).
    rewrite (words_acc_nospace w "" _ Hn). cbn [append words_acc is_space].
    destruct w; [contradiction|]. rewrite (IH Fr). reflexivity.
Qed.

Definition expr_acc (e : gexpr) : string :=
  match e with EEq a | ELt a | ENotAnd a => a end.

Lemma nospace_app : forall a b, nospace a = true -> nospace b = true -> nospace (a ++ b) = true.
Proof.
  induction a as [|c a IH]; intros b Ha Hb; [exact Hb|].
  cbn [nospace append] in *. apply andb_prop in Ha. destruct Ha as [H1 H2].
  rewrite H1, (IH b H2 Hb). reflexivity.
Qed.

Definition expr_words (e : gexpr) : list string :=
  match e with
  | EEq a => ["s[i]." ++ a; "=="; "s[j]." ++ a]
  | ELt a => ["s[i]." ++ a; "<"; "s[j]." ++ a]
  | ENotAnd a => ["!s[i]." ++ a; "&&"; "s[j]." ++ a]
  end.

Lemma print_expr_join : forall e, print_expr e = join (expr_words e).
Proof. intros [a|a|a]; cbn [print_expr expr_words join]; rewrite !sapp_assoc; reflexivity. Qed.

Lemma expr_words_ok : forall e, nospace (expr_acc e) = true -> Forall word_ok (expr_words e).
Proof.
  intros [a|a|a] H; cbn [expr_acc] in H; cbn [expr_words];
    repeat constructor; try (apply nospace_app; [reflexivity|exact H]); try reflexivity;
    try discriminate.
Qed.

Lemma parse_expr_words : forall e, parse_expr (expr_words e) = Some e.
Proof.
  intros [a|a|a]; cbn [expr_words parse_expr]; cbn [String.eqb Ascii.eqb Bool.eqb];
    unfold operands.
  - rewrite (strip_prefix_app "s[i]." a), (strip_prefix_app "s[j]." a), String.eqb_refl.
    reflexivity.
  - rewrite (strip_prefix_app "s[i]." a), (strip_prefix_app "s[j]." a), String.eqb_refl.
    reflexivity.
  - change ("!s[i]." ++ a) with ("!" ++ ("s[i]." ++ a)). rewrite (strip_prefix_app "!" _).
    rewrite (strip_prefix_app "s[i]." a), (strip_prefix_app "s[j]." a), String.eqb_refl.
    reflexivity.
Qed.

Lemma classify_return : forall e, nospace (expr_acc e) = true ->
  classify ("return " ++ print_expr e) = LReturn e.
Proof.
  intros e H. unfold classify. rewrite print_expr_join.
  replace ("return " ++ join (expr_words e)) with (join ("return" :: expr_words e))
    by (destruct e; reflexivity).
  rewrite words_join.
  - rewrite parse_expr_words. reflexivity.
  - constructor; [split; [reflexivity|discriminate]|]. apply expr_words_ok, H.
Qed.

Lemma classify_if : forall c, nospace (expr_acc c) = true ->
  classify ("if " ++ print_expr c ++ " {") = LIf c.
Proof.
  intros c H. unfold classify. rewrite print_expr_join.
  replace ("if " ++ join (expr_words c) ++ " {") with (join ("if" :: expr_words c ++ ["{"])%list)
    by (destruct c; cbn [expr_words app join]; rewrite !sapp_assoc; reflexivity).
  rewrite words_join.
  - replace (rev (expr_words c ++ ["{"])%list) with ("{" :: rev (expr_words c))
      by (destruct c; reflexivity).
    rewrite rev_involutive, parse_expr_words. reflexivity.
  - constructor; [split; [reflexivity|discriminate]|].
    apply Forall_app. split; [apply expr_words_ok, H|].
    constructor; [split; [reflexivity|discriminate]|constructor].
Qed.

Lemma classify_close : classify "}" = LClose.
Proof. reflexivity. Qed.

(* statements all of whose accessors are single words *)
Fixpoint stmt_ok (s : gstmt) : bool :=
  match s with
  | SReturn e => nospace (expr_acc e)
  | SIf c body => nospace (expr_acc c) && forallb stmt_ok body
  end.

Section GstmtInd.
  Variable P : gstmt -> Prop.
  Hypothesis Hret : forall e, P (SReturn e).
  Hypothesis Hif : forall c body, Forall P body -> P (SIf c body).
  Fixpoint gstmt_ind2 (s : gstmt) : P s :=
    match s with
    | SReturn e => Hret e
    | SIf c body =>
        Hif c body ((fix go (l : list gstmt) : Forall P l :=
                       match l with
                       | [] => Forall_nil P
                       | x :: r => Forall_cons x (gstmt_ind2 x) (go r)
                       end) body)
    end.
End GstmtInd.

Definition parses (s : gstmt) : Prop :=
  stmt_ok s = true -> forall rest cur stack,
  parse_go (map classify (print_stmt s) ++ rest)%list cur stack = parse_go rest (s :: cur) stack.

Lemma parses_list : forall ss, Forall parses ss -> forallb stmt_ok ss = true ->
  forall rest cur stack,
  parse_go (map classify (flat_map print_stmt ss) ++ rest)%list cur stack
  = parse_go rest (rev ss ++ cur)%list stack.
Proof.
  induction ss as [|s r IH]; intros F OK rest cur stack; [reflexivity|].
  inversion F as [|? ? Hs Fr]; subst. cbn [forallb] in OK. apply andb_prop in OK.
  destruct OK as [O1 O2]. cbn [flat_map]. rewrite map_app, <- app_assoc.
  rewrite (Hs O1). rewrite (IH Fr O2). cbn [rev]. rewrite <- app_assoc. reflexivity.
Qed.

Lemma parses_all : forall s, parses s.
Proof.
  apply gstmt_ind2.
  - intros e OK rest cur stack. cbn [stmt_ok] in OK. cbn [print_stmt map app].
    rewrite (classify_return e OK). reflexivity.
  - intros c body F OK rest cur stack. cbn [stmt_ok] in OK. apply andb_prop in OK.
    destruct OK as [Oc Ob]. cbn [print_stmt map]. rewrite (classify_if c Oc).
    rewrite map_app. cbn [map app parse_go]. rewrite classify_close, <- app_assoc.
    rewrite (parses_list body F Ob). cbn [app parse_go]. rewrite app_nil_r, rev_involutive.
    reflexivity.
Qed.

Theorem parse_print : forall ss, forallb stmt_ok ss = true ->
  parse_lines (print_stmts ss) = Some ss.
Proof.
  intros ss OK. unfold parse_lines, print_stmts.
  rewrite <- (app_nil_r (map classify (flat_map print_stmt ss))).
  rewrite (parses_list ss (proj2 (Forall_forall parses ss) (fun s _ => parses_all s)) OK).
  cbn [parse_go]. rewrite app_nil_r, rev_involutive. reflexivity.
Qed.

(* ---------------------------------------------------------------- 4. all together *)
Lemma block_ast_ok : forall cs,
  forallb (fun c => nospace (cl_acc c)) cs = true -> forallb stmt_ok (block_ast cs) = true.
Proof.
  induction cs as [|c rest IH]; intros H; [reflexivity|].
  cbn [forallb] in H. apply andb_prop in H. destruct H as [Hc Hr].
  cbn [block_ast]. rewrite forallb_app. apply andb_true_intro. split.
  - destruct rest as [|c2 r]; [reflexivity|]. cbn [forallb stmt_ok expr_acc].
    rewrite Hc, (IH Hr). reflexivity.
  - cbn [forallb ret_of stmt_ok]. destruct (cl_isbool c); cbn [expr_acc]; rewrite Hc; reflexivity.
Qed.

(* The text the model renders for a chain, read back by the parser and run by the evaluator of
   the emitted Go statements, computes less_with. *)
Theorem text_denotes : forall cs,
  cs <> [] -> chain_consistent cs -> forallb (fun c => nospace (cl_acc c)) cs = true ->
  exists ss, parse_lines (render_block cl_string cs) = Some ss
             /\ forall a b, eval_stmts (env_of cs) ss a b = Some (less cs a b).
Proof.
  intros cs NE CC NS. exists (block_ast cs). split.
  - rewrite render_block_print. apply parse_print, block_ast_ok, NS.
  - intros a b. apply eval_block_stmts; [exact NE|apply env_of_ok, CC].
Qed.

(* and hence, for the chain of a generated sorter, the lexicographic specification *)
Corollary text_denotes_lex : forall cs,
  cs <> [] -> chain_consistent cs -> forallb (fun c => nospace (cl_acc c)) cs = true ->
  exists ss, parse_lines (render_block cl_string cs) = Some ss
             /\ forall a b, eval_stmts (env_of cs) ss a b = Some (lex_lt (keys_of cs) a b).
Proof.
  intros cs NE CC NS. destruct (text_denotes cs NE CC NS) as [ss [H1 H2]].
  exists ss. split; [exact H1|]. intros a b. rewrite H2, less_lex. reflexivity.
Qed.

(* strict weak order of whatever Less the generator emits *)
Theorem gen_less_swo : forall ty fs name f, gen_less ty fs name = Some f -> Base.SortU.swo f.
Proof.
  intros ty fs name f H. unfold gen_less in H.
  destruct (create ty fs); [|discriminate].
  destruct (find_sorter name l); [|discriminate]. injection H as <-. apply less_swo.
Qed.
