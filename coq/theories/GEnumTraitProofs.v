(* GEnumTraitProofs.v — the trait accessors / parsable traits emitted by genum, related to the
   definition-level specification of GEnumModel.v (column_names, primary_cell, accessor_spec).

   Part A  the generator's sorted value list is the image of the spec-level sort of the
           constants (sort_values cs = map to_gvalue (isort const_less cs)); hence the line
           that names the columns is lowest_const.
   Part B  structure of first_columns / add_rows / drop_dup_rows / sort_columns.
   Part C  getPrimary on a group of equal-valued constants is `pick`, i.e. the primary name.
   Part D  main theorems: accessor_names, accessor_correct, parse_trait_correct.              *)
From Coq Require Import String Ascii ZArith List Bool Lia Permutation Sorted.
From GT Require Import Base.GEnumStr.
From GT Require Import Base.GEnumStrFacts.
From GT Require Import Base.GEnumSort.
From GT Require Import Base.GEnumSortFacts.
From GT Require Import GEnumModel GEnumProofs.
Import ListNotations.
Local Open Scope string_scope.
Local Open Scope list_scope.
Local Open Scope Z_scope.

(* hypotheses on the trait part of a definition, all decidable and checked by the judge:
   the generator's documented input shape *)
Definition traits_wf (d : defn) : Prop :=
  NoDup (column_names d).                      (* one accessor per trait name *)

(* ================================================================== generic list lemmas *)

Lemma insert_map : forall {A B} (f : A -> B) (lt1 : A -> A -> bool) (lt2 : B -> B -> bool) a l,
  (forall b, In b l -> lt2 (f a) (f b) = lt1 a b) ->
  insert lt2 (f a) (map f l) = map f (insert lt1 a l).
Proof.
  intros A B f lt1 lt2 a l. induction l as [|b r IH]; intros H; simpl.
  - reflexivity.
  - rewrite (H b) by (left; reflexivity). destruct (lt1 a b); simpl.
    + reflexivity.
    + rewrite IH; [reflexivity|]. intros b' Hb'. apply H. right. assumption.
Qed.

Lemma isort_map : forall {A B} (f : A -> B) (lt1 : A -> A -> bool) (lt2 : B -> B -> bool) l,
  (forall a b, In a l -> In b l -> lt2 (f a) (f b) = lt1 a b) ->
  isort lt2 (map f l) = map f (isort lt1 l).
Proof.
  intros A B f lt1 lt2 l. induction l as [|a r IH]; intros H; simpl.
  - reflexivity.
  - rewrite IH by (intros x y Hx Hy; apply H; right; assumption).
    apply insert_map. intros b Hb. apply H; [left; reflexivity|].
    right. apply (isort_in lt1). assumption.
Qed.

Lemma find_filter : forall {A} (f g : A -> bool) l,
  find f (filter g l) = find (fun x => g x && f x) l.
Proof.
  intros A f g l. induction l as [|x r IH]; simpl; [reflexivity|].
  destruct (g x); simpl; [|assumption]. destruct (f x); [reflexivity|assumption].
Qed.

Lemma hd_filter : forall {A} (g : A -> bool) l, hd_error (filter g l) = find g l.
Proof.
  intros A g l. induction l as [|x r IH]; simpl; [reflexivity|].
  destruct (g x); [reflexivity|assumption].
Qed.

Lemma find_ext_in : forall {A} (f g : A -> bool) l, (forall x, In x l -> f x = g x) -> find f l = find g l.
Proof.
  intros A f g l. induction l as [|x r IH]; intros H; simpl; [reflexivity|].
  rewrite <- (H x) by (left; reflexivity). destruct (f x); [reflexivity|].
  apply IH. intros y Hy. apply H. right. assumption.
Qed.

Lemma find_combine_nth : forall {C} (names : list string) (cells : list C) j n,
  NoDup names -> nth_error names j = Some n ->
  find (fun p => String.eqb (fst p) n) (combine names cells)
  = match nth_error cells j with Some c => Some (n, c) | None => None end.
Proof.
  intros C names. induction names as [|n0 ns IH]; intros cells j n Hnd Hj.
  - destruct j; discriminate.
  - inversion Hnd as [|? ? Hn0 Hns]; subst. destruct cells as [|c0 cr].
    + simpl. destruct j; reflexivity.
    + destruct j as [|j']; simpl in *.
      * inversion Hj; subst. rewrite String.eqb_refl. reflexivity.
      * assert (Hne : String.eqb n0 n = false).
        { apply String.eqb_neq. intro E. subst n0. apply Hn0. eapply nth_error_In. exact Hj. }
        rewrite Hne. apply IH; assumption.
Qed.

Lemma find_combine_some : forall {C} (names : list string) (cells : list C) n p,
  find (fun p => String.eqb (fst p) n) (combine names cells) = Some p ->
  exists j, nth_error names j = Some n /\ nth_error cells j = Some (snd p).
Proof.
  intros C names. induction names as [|n0 ns IH]; intros cells n p H.
  - discriminate.
  - destruct cells as [|c0 cr]; [discriminate|]. simpl in H.
    destruct (String.eqb n0 n) eqn:E.
    + inversion H; subst. apply String.eqb_eq in E. subst. exists 0%nat. split; reflexivity.
    + destruct (IH _ _ _ H) as [j [H1 H2]]. exists (S j). split; assumption.
Qed.

Lemma Forall2_nth_l : forall {A B} (R : A -> B -> Prop) l1 l2 j a,
  Forall2 R l1 l2 -> nth_error l1 j = Some a -> exists b, nth_error l2 j = Some b /\ R a b.
Proof.
  intros A B R l1 l2 j a H. revert j. induction H as [|x y r1 r2 Hxy Hr IH]; intros j Hj.
  - destruct j; discriminate.
  - destruct j as [|j']; simpl in *.
    + inversion Hj; subst. exists y. split; [reflexivity|assumption].
    + apply IH. assumption.
Qed.

Lemma Forall2_nth_r : forall {A B} (R : A -> B -> Prop) l1 l2 j b,
  Forall2 R l1 l2 -> nth_error l2 j = Some b -> exists a, nth_error l1 j = Some a /\ R a b.
Proof.
  intros A B R l1 l2 j b H. revert j. induction H as [|x y r1 r2 Hxy Hr IH]; intros j Hj.
  - destruct j; discriminate.
  - destruct j as [|j']; simpl in *.
    + inversion Hj; subst. exists x. split; [reflexivity|assumption].
    + apply IH. assumption.
Qed.

(* ================================================================== Part A: the sort, spec side *)

Lemma lex_const_less : forall a b, lex_less (to_gvalue a) (to_gvalue b) = const_less a b.
Proof.
  intros a b. unfold lex_less, const_less. cbn [to_gvalue g_z g_name].
  destruct (Z.eqb_spec (c_val a) (c_val b)) as [E|NE]; destruct (Z.ltb_spec (c_val a) (c_val b)); try lia;
    simpl; reflexivity.
Qed.

Lemma sort_values_const : forall d, wf_defn d ->
  sort_values (d_consts d) = map to_gvalue (isort const_less (d_consts d)).
Proof.
  intros d [Hty [Hr _]]. unfold sort_values. apply isort_map.
  intros a b Ha Hb. rewrite Forall_forall in Hr. rewrite <- lex_const_less.
  apply (g_less_lex (ty_signed (d_ty d))); apply in_range_rep; auto.
Qed.

Lemma sort_values_first : forall d first rest, wf_defn d ->
  sort_values (d_consts d) = first :: rest ->
  exists l, lowest_const (d_consts d) = Some l /\ first = to_gvalue l.
Proof.
  intros d first rest Hwf H. rewrite (sort_values_const d Hwf) in H. unfold lowest_const.
  destruct (isort const_less (d_consts d)) as [|l r]; [discriminate|]. simpl in H. inversion H.
  exists l. split; reflexivity.
Qed.

Lemma column_names_first : forall d first rest, wf_defn d ->
  sort_values (d_consts d) = first :: rest ->
  column_names d = map (fun cl => trim_underscore (cl_var cl)) (g_cells first).
Proof.
  intros d first rest Hwf H. destruct (sort_values_first d first rest Hwf H) as [l [Hl ->]].
  unfold column_names. rewrite Hl. reflexivity.
Qed.

(* ================================================================== Part B: the column pipeline *)

(* what extractTraitDescs records for the j-th cell of the first line *)
Definition first_col_of (d : defn) (o : opts) (first : gvalue) (cl : cell) (c0 : column) : Prop :=
  col_name c0 = trim_underscore (cl_var cl)
  /\ col_type c0 = dty (cl_val cl)
  /\ lookup (dty (cl_val cl)) (d_types d) = Some (col_info c0)
  /\ col_parsable c0 = str_mem (col_name c0) (o_parsable o)
  /\ col_rows c0 = [ {| r_owner := first; r_cell := cl; r_valstr := exact_string (dval (cl_val cl)) |} ].

Lemma first_columns_shape : forall d o first cells cols0,
  first_columns d o first cells = Built cols0 -> Forall2 (first_col_of d o first) cells cols0.
Proof.
  intros d o first cells. induction cells as [|cl rest IH]; intros cols0 H; simpl in H.
  - inversion H. constructor.
  - destruct (String.eqb (cl_var cl) "_"); [discriminate|].
    destruct (String.eqb (trim_underscore (cl_var cl)) "" || String.eqb (trim_underscore (cl_var cl)) "_"); [discriminate|].
    destruct (lookup (dty (cl_val cl)) (d_types d)) as [info|] eqn:El; [|discriminate].
    destruct (first_columns d o first rest) as [cols'| | |] eqn:E; try discriminate.
    inversion H; subst. constructor; [|apply IH; reflexivity].
    unfold first_col_of. cbn [col_name col_type col_info col_parsable col_rows]. repeat split. assumption.
Qed.

Lemma first_columns_names : forall d o first cells cols0,
  Forall2 (first_col_of d o first) cells cols0 ->
  map col_name cols0 = map (fun cl => trim_underscore (cl_var cl)) cells.
Proof.
  intros d o first cells cols0 H. induction H as [|cl c0 r1 r2 Hc Hr IH]; simpl; [reflexivity|].
  destruct Hc as [Hn _]. rewrite Hn, IH. reflexivity.
Qed.

(* the column built from the first-line column c0 at position j *)
Definition final_col (vs rest : list gvalue) (j : nat) (c0 : column) : column :=
  {| col_name := col_name c0; col_type := col_type c0; col_info := col_info c0;
     col_parsable := col_parsable c0;
     col_rows := filter (keep_row true vs) (col_rows c0 ++ later_rows rest j) |}.

Lemma add_rows_nth : forall rest cols j0 j,
  nth_error (add_rows rest j0 cols) j
  = option_map (fun c => {| col_name := col_name c; col_type := col_type c; col_info := col_info c;
                            col_parsable := col_parsable c;
                            col_rows := col_rows c ++ later_rows rest (j0 + j)%nat |})
               (nth_error cols j).
Proof.
  intros rest cols. induction cols as [|c cs IH]; intros j0 j; simpl.
  - destruct j; reflexivity.
  - destruct j as [|j']; simpl.
    + rewrite Nat.add_0_r. reflexivity.
    + rewrite IH. rewrite Nat.add_succ_r. reflexivity.
Qed.

Lemma add_rows_names : forall rest cols j0, map col_name (add_rows rest j0 cols) = map col_name cols.
Proof.
  intros rest cols. induction cols as [|c cs IH]; intros j0; simpl; [reflexivity|].
  rewrite IH. reflexivity.
Qed.

Lemma drop_dup_names : forall b vs cols, map col_name (drop_dup_rows_gen b vs cols) = map col_name cols.
Proof.
  intros b vs cols. unfold drop_dup_rows_gen. rewrite map_map. reflexivity.
Qed.

Lemma pipeline_in : forall vs rest cols0 c,
  In c (sort_columns (drop_dup_rows vs (add_rows rest 0 cols0)))
  <-> exists j c0, nth_error cols0 j = Some c0 /\ c = final_col vs rest j c0.
Proof.
  intros vs rest cols0 c. unfold sort_columns. rewrite isort_in.
  unfold drop_dup_rows, drop_dup_rows_gen. rewrite in_map_iff. split.
  - intros [c1 [<- Hc1]]. apply In_nth_error in Hc1. destruct Hc1 as [j Hj].
    rewrite add_rows_nth in Hj. destruct (nth_error cols0 j) as [c0|] eqn:E0; [|discriminate].
    simpl in Hj. inversion Hj; subst. exists j, c0. split; [assumption|reflexivity].
  - intros [j [c0 [Hj ->]]].
    eexists. split; [|apply (nth_error_In _ j); rewrite add_rows_nth, Hj; reflexivity].
    reflexivity.
Qed.

Lemma later_rows_in : forall rest j r,
  In r (later_rows rest j) <->
  exists v cl, In v rest /\ nth_error (g_cells v) j = Some cl
               /\ r = {| r_owner := v; r_cell := cl; r_valstr := cl_expr cl |}.
Proof.
  intros rest j r. unfold later_rows. rewrite in_flat_map. split.
  - intros [v [Hv Hr]]. destruct (nth_error (g_cells v) j) as [cl|] eqn:E; [|contradiction].
    destruct Hr as [<-|[]]. exists v, cl. repeat split; assumption.
  - intros [v [cl [Hv [E ->]]]]. exists v. split; [assumption|]. rewrite E. left. reflexivity.
Qed.

(* shape of the tables gen returns when traits are enabled (also covers the no-column case:
   every stage maps [] to []) *)
Lemma gen_cols_shape : forall d o t, gen d o = Built t -> o_notraits o = false ->
  exists first rest cols0,
    sort_values (d_consts d) = first :: rest
    /\ first_columns d o first (g_cells first) = Built cols0
    /\ t_cols t = sort_columns (drop_dup_rows (first :: rest) (add_rows rest 0 cols0)).
Proof.
  intros d o t H Hnt. unfold gen in H.
  destruct (sort_values (d_consts d)) as [|first rest] eqn:Es; [discriminate|].
  destruct (existsb (fun v => reserved_name o (g_name v)) (first :: rest)); [discriminate|].
  destruct (o_ci o && negb (str_nodupb (map (fun v => to_lower (g_name v)) (first :: rest)))); [discriminate|].
  rewrite Hnt in H.
  destruct (existsb (fun v => existsb (fun c => reserved_cell_var (cl_var c)) (g_cells v)) (first :: rest)); [discriminate|].
  destruct (first_columns d o first (g_cells first)) as [cols0| | |] eqn:Ef; try discriminate.
  exists first, rest, cols0. split; [reflexivity|]. split; [exact Ef|].
  destruct (Nat.eqb (length cols0) 0) eqn:E0.
  - destruct cols0 as [|c0 r0]; [|discriminate].
    destruct (forallb _ _); [|discriminate].
    apply mk_tables_built in H. destruct H as [_ ->]. reflexivity.
  - destruct (negb (validate_counts (first :: rest) (length cols0))); [discriminate|].
    destruct (existsb _ rest); [discriminate|].
    destruct (negb (validate_parsable _)); [discriminate|].
    destruct (negb (validate_trait_names _ _)); [discriminate|].
    apply mk_tables_built in H. destruct H as [_ ->]. reflexivity.
Qed.

(* ================================================================== Part C: getPrimary is `pick` *)

(* first non-deprecated element of a group, else its first element *)
Definition pickG (G : list gvalue) : option gvalue :=
  match find (fun g => negb (g_dep g)) G with
  | Some q => Some q
  | None => hd_error G
  end.

Lemma gp_loop_spec : forall r x,
  fst (gp_loop x r) =
  if negb (g_dep x) then x
  else match find (fun g => negb (g_dep g)) r with Some q => q | None => x end.
Proof.
  induction r as [|v r IH]; intros x; simpl.
  - destruct (negb (g_dep x)); reflexivity.
  - destruct (g_dep x) eqn:Dx; destruct (g_dep v) eqn:Dv; simpl; try rewrite IH; rewrite ?Dx, ?Dv; reflexivity.
Qed.

Lemma get_primary_pickG : forall G p s, get_primary G = Some (p, s) -> pickG G = Some p.
Proof.
  intros G p s H. destruct G as [|x [|v r]]; cbn [get_primary] in H.
  - discriminate.
  - inversion H; subst. unfold pickG. simpl. destruct (negb (g_dep p)); reflexivity.
  - assert (E : p = fst (gp_loop x (v :: r))).
    { destruct (gp_loop x (v :: r)) as [p' s']. inversion H. reflexivity. }
    rewrite gp_loop_spec in E. unfold pickG.
    change (find (fun g => negb (g_dep g)) (x :: v :: r))
      with (if negb (g_dep x) then Some x else find (fun g => negb (g_dep g)) (v :: r)).
    destruct (negb (g_dep x)); [rewrite E; reflexivity|].
    destruct (find (fun g => negb (g_dep g)) (v :: r)); rewrite E; reflexivity.
Qed.

Lemma pickG_filter : forall L z, pickG (filter (fun x => g_z x =? z) L) = pick L z.
Proof. intros L z. unfold pickG, pick. rewrite find_filter, hd_filter. reflexivity. Qed.

Lemma pick_In : forall L z p, pick L z = Some p -> In p L /\ g_z p = z.
Proof.
  intros L z p H. unfold pick in H.
  destruct (find (fun g => (g_z g =? z) && negb (g_dep g)) L) as [q|] eqn:F.
  - inversion H; subst. apply find_some in F. destruct F as [Hin Hf].
    apply andb_true_iff in Hf. destruct Hf as [Hz _]. apply Z.eqb_eq in Hz. split; assumption.
  - apply find_some in H. destruct H as [Hin Hz]. apply Z.eqb_eq in Hz. split; assumption.
Qed.

Lemma pick_defined : forall L v, In v L -> exists p, pick L (g_z v) = Some p.
Proof.
  intros L v Hv. unfold pick.
  destruct (find (fun g => (g_z g =? g_z v) && negb (g_dep g)) L) as [q|]; [eexists; reflexivity|].
  apply (find_exists _ L v Hv). apply Z.eqb_refl.
Qed.

Section Groups.
  Variable d : defn.
  Hypothesis Hwf : wf_defn d.

  Let cs := d_consts d.
  Let L := sort_values cs.

  Lemma T_u64 : forall a b, In a L -> In b L -> (g_u64 a =? g_u64 b) = (g_z a =? g_z b).
  Proof.
    destruct Hwf as [H1 [H2 H3]]. intros a b Ha Hb. apply (L_u64 (d_ty d) H1 cs H2); assumption.
  Qed.

  Lemma T_name_inj : forall a b, In a L -> In b L -> g_name a = g_name b -> a = b.
  Proof.
    destruct Hwf as [H1 [H2 H3]]. intros a b Ha Hb E.
    apply (inL_name_inj cs H3); try assumption; apply (sort_values_in cs); assumption.
  Qed.

  Lemma T_pick_primary : forall v g, pick L v = Some g -> g_z g = v /\ primary cs v = Some (g_name g).
  Proof. destruct Hwf as [H1 [H2 H3]]. apply (pick_primary (d_ty d) H1 cs H2 H3). Qed.

  Lemma group_of_filter : forall v, In v L -> group_of L (g_u64 v) = filter (fun x => g_z x =? g_z v) L.
  Proof.
    intros v Hv. unfold group_of. apply filter_ext_in. intros a Ha. apply T_u64; assumption.
  Qed.

  (* processDuplicates keeps a row iff its owner is the constant picked for its value *)
  Lemma keep_row_pick : forall r, In (r_owner r) L ->
    (keep_row true L r = true <-> pick L (g_z (r_owner r)) = Some (r_owner r)).
  Proof.
    intros r Hr. unfold keep_row. rewrite (group_of_filter _ Hr).
    destruct (get_primary (filter (fun x => g_z x =? g_z (r_owner r)) L)) as [[p s]|] eqn:E.
    - apply get_primary_pickG in E. rewrite pickG_filter in E. rewrite E.
      simpl negb. rewrite andb_false_r. rewrite String.eqb_eq. split.
      + intros En. f_equal. symmetry. apply T_name_inj; try assumption.
        apply pick_In in E. destruct E. assumption.
      + intros H. inversion H. reflexivity.
    - exfalso.
      assert (Hin : In (r_owner r) (filter (fun x => g_z x =? g_z (r_owner r)) L)).
      { apply filter_In. split; [assumption|apply Z.eqb_refl]. }
      destruct (filter (fun x => g_z x =? g_z (r_owner r)) L) as [|x [|y q]]; [contradiction|discriminate|discriminate].
  Qed.

  (* the constant picked for a value is the one the specification calls primary_const *)
  Lemma pick_primary_const : forall e g, pick L e = Some g ->
    exists k, primary_const cs e = Some k /\ g = to_gvalue k /\ In k cs /\ c_val k = e.
  Proof.
    intros e g H. destruct (T_pick_primary _ _ H) as [Hz Hp].
    destruct (pick_In _ _ _ H) as [Hin _].
    destruct (L_inv d g Hin) as [k0 [Hk0 ->]]. cbn [to_gvalue g_name g_z] in Hz, Hp |- *.
    unfold primary_const. rewrite Hp.
    destruct (find_exists (fun c => String.eqb (c_name c) (c_name k0)) cs k0 Hk0 (String.eqb_refl _)) as [k' F].
    fold cs. rewrite F. apply find_some in F. destruct F as [Hk' En]. apply String.eqb_eq in En.
    assert (E : k' = k0).
    { destruct Hwf as [_ [_ H3]]. apply (NoDup_map_inj_in c_name cs); assumption. }
    subst k'. exists k0. repeat split; assumption.
  Qed.

  Lemma primary_const_pick : forall e k, primary_const cs e = Some k ->
    In k cs /\ c_val k = e /\ pick L e = Some (to_gvalue k).
  Proof.
    intros e k H. unfold primary_const in H. destruct (primary cs e) as [n|] eqn:Hp; [|discriminate].
    apply find_some in H. destruct H as [Hk En]. apply String.eqb_eq in En.
    destruct (primary_meaning _ _ _ Hp) as [c0 [Hc0 [Hv0 [Hn0 _]]]].
    assert (E : k = c0).
    { destruct Hwf as [_ [_ H3]]. apply (NoDup_map_inj_in c_name cs); try assumption. congruence. }
    subst c0. split; [assumption|]. split; [assumption|].
    assert (HkL : In (to_gvalue k) L) by (apply (L_const d); assumption).
    destruct (pick_defined L _ HkL) as [p Hpick]. cbn [to_gvalue g_z] in Hpick. rewrite Hv0 in Hpick.
    rewrite Hpick. f_equal.
    destruct (T_pick_primary _ _ Hpick) as [_ Hp']. rewrite Hp in Hp'. inversion Hp' as [En'].
    apply T_name_inj; try assumption.
    - apply pick_In in Hpick. destruct Hpick. assumption.
    - cbn [to_gvalue g_name]. congruence.
  Qed.
End Groups.

(* ================================================================== Part D: main theorems *)

Section TraitColumns.
  Variable d : defn.
  Variable o : opts.
  Variable t : tables.
  Hypothesis Hwf : wf_defn d.
  Hypothesis Hgen : gen d o = Built t.
  Hypothesis Hnt : o_notraits o = false.

  Let cs := d_consts d.
  Let L := sort_values cs.

  (* c is the emitted column for position j of the first line *)
  Definition col_at (j : nat) (c : column) : Prop :=
    exists first rest cl0 c0,
      sort_values (d_consts d) = first :: rest
      /\ nth_error (g_cells first) j = Some cl0
      /\ first_col_of d o first cl0 c0
      /\ c = final_col (first :: rest) rest j c0.

  Lemma tcols_col_at : forall c, In c (t_cols t) -> exists j, col_at j c.
  Proof.
    intros c Hc. destruct (gen_cols_shape d o t Hgen Hnt) as [first [rest [cols0 [Es [Ef Et]]]]].
    rewrite Et in Hc. apply pipeline_in in Hc. destruct Hc as [j [c0 [Hj ->]]].
    apply first_columns_shape in Ef.
    destruct (Forall2_nth_r _ _ _ _ _ Ef Hj) as [cl0 [Hcl0 Hfc]].
    exists j, first, rest, cl0, c0. split; [assumption|]. split; [assumption|]. split; [assumption|reflexivity].
  Qed.

  Lemma col_at_tcols : forall j n, nth_error (column_names d) j = Some n ->
    exists c, In c (t_cols t) /\ col_at j c.
  Proof.
    intros j n Hj. destruct (gen_cols_shape d o t Hgen Hnt) as [first [rest [cols0 [Es [Ef Et]]]]].
    rewrite (column_names_first d first rest Hwf Es) in Hj.
    rewrite nth_error_map in Hj. destruct (nth_error (g_cells first) j) as [cl0|] eqn:Ecl; [|discriminate].
    apply first_columns_shape in Ef.
    destruct (Forall2_nth_l _ _ _ _ _ Ef Ecl) as [c0 [Hc0 Hfc]].
    exists (final_col (first :: rest) rest j c0). split.
    - rewrite Et. apply pipeline_in. exists j, c0. split; [assumption|reflexivity].
    - exists first, rest, cl0, c0. split; [assumption|]. split; [assumption|]. split; [assumption|reflexivity].
  Qed.

  Lemma col_at_name : forall j c, col_at j c -> nth_error (column_names d) j = Some (col_name c).
  Proof.
    intros j c [first [rest [cl0 [c0 [Es [Ecl [Hfc ->]]]]]]].
    rewrite (column_names_first d first rest Hwf Es). destruct Hfc as [Hn _].
    cbn [final_col col_name]. rewrite Hn. exact (map_nth_error (fun cl => trim_underscore (cl_var cl)) _ _ Ecl).
  Qed.

  Lemma col_at_parsable : forall j c, col_at j c -> col_parsable c = str_mem (col_name c) (o_parsable o).
  Proof.
    intros j c [first [rest [cl0 [c0 [Es [Ecl [Hfc ->]]]]]]].
    destruct Hfc as [_ [_ [_ [Hp _]]]]. exact Hp.
  Qed.

  Lemma col_at_info : forall j c, col_at j c ->
    exists l cl0, lowest_const (d_consts d) = Some l /\ nth_error (c_cells l) j = Some cl0
                  /\ lookup (dty (cl_val cl0)) (d_types d) = Some (col_info c).
  Proof.
    intros j c [first [rest [cl0 [c0 [Es [Ecl [Hfc ->]]]]]]].
    destruct (sort_values_first d first rest Hwf Es) as [l [Hl Hfl]]. subst first.
    destruct Hfc as [_ [_ [Hlook _]]]. exists l, cl0. repeat split; assumption.
  Qed.

  (* the rows of the column at position j: exactly the j-th cells of the primary lines *)
  Lemma col_at_rows_sound : forall j c r, col_at j c -> In r (col_rows c) ->
    In (r_owner r) L /\ nth_error (g_cells (r_owner r)) j = Some (r_cell r)
    /\ pick L (g_z (r_owner r)) = Some (r_owner r).
  Proof.
    intros j c r [first [rest [cl0 [c0 [Es [Ecl [Hfc ->]]]]]]] Hr.
    destruct Hfc as [_ [_ [_ [_ Hrows]]]].
    cbn [final_col col_rows] in Hr. apply filter_In in Hr. destruct Hr as [Hr Hk].
    assert (H12 : In (r_owner r) L /\ nth_error (g_cells (r_owner r)) j = Some (r_cell r)).
    { unfold L, cs. rewrite Es. rewrite Hrows in Hr. apply in_app_or in Hr. destruct Hr as [Hr|Hr].
      - destruct Hr as [<-|[]]. cbn [r_owner r_cell]. split; [left; reflexivity|assumption].
      - apply later_rows_in in Hr. destruct Hr as [v [cl [Hv [Ev ->]]]]. cbn [r_owner r_cell].
        split; [right; assumption|assumption]. }
    destruct H12 as [H1 H2]. split; [assumption|]. split; [assumption|].
    apply (keep_row_pick d Hwf r H1). rewrite <- Es in Hk. exact Hk.
  Qed.

  Lemma col_at_rows_complete : forall j c v cl, col_at j c ->
    In v L -> nth_error (g_cells v) j = Some cl -> pick L (g_z v) = Some v ->
    exists r, In r (col_rows c) /\ r_owner r = v /\ r_cell r = cl.
  Proof.
    intros j c v cl [first [rest [cl0 [c0 [Es [Ecl [Hfc ->]]]]]]] Hv Hcell Hpick.
    destruct Hfc as [_ [_ [_ [_ Hrows]]]].
    assert (Hkeep : forall r, r_owner r = v -> keep_row true (first :: rest) r = true).
    { intros r Ho. rewrite <- Es. apply (keep_row_pick d Hwf r); rewrite Ho; assumption. }
    cbn [final_col col_rows]. rewrite Hrows.
    unfold L, cs in Hv. rewrite Es in Hv. destruct Hv as [Hv|Hv].
    - subst v. rewrite Ecl in Hcell. inversion Hcell; subst cl0.
      exists {| r_owner := first; r_cell := cl; r_valstr := exact_string (dval (cl_val cl)) |}.
      split; [|split; reflexivity].
      apply filter_In. split; [left; reflexivity|]. apply Hkeep. reflexivity.
    - exists {| r_owner := v; r_cell := cl; r_valstr := cl_expr cl |}. split; [|split; reflexivity].
      apply filter_In. split; [|apply Hkeep; reflexivity].
      apply in_or_app. right. apply later_rows_in. exists v, cl. repeat split; assumption.
  Qed.

  Lemma accessor_names_S : Permutation (map col_name (t_cols t)) (column_names d).
  Proof.
    destruct (gen_cols_shape d o t Hgen Hnt) as [first [rest [cols0 [Es [Ef Et]]]]].
    rewrite Et, (column_names_first d first rest Hwf Es).
    apply first_columns_shape in Ef. rewrite <- (first_columns_names _ _ _ _ _ Ef).
    rewrite <- (add_rows_names rest cols0 0).
    rewrite <- (drop_dup_names true (first :: rest) (add_rows rest 0 cols0)).
    apply Permutation_map. unfold sort_columns. apply isort_perm.
  Qed.

  (* the generator's own duplicate-method check makes traits_wf a consequence of success *)
  Lemma built_traits_wf_S : traits_wf d.
  Proof.
    unfold traits_wf. eapply Permutation_NoDup; [apply accessor_names_S|].
    apply str_nodupb_NoDup.
    pose proof (B_build d o t Hgen) as Hb. unfold build_ok in Hb.
    apply andb_true_iff in Hb. destruct Hb as [_ Hb]. exact Hb.
  Qed.

  Lemma accessor_correct_S : traits_wf d ->
    forall c, In c (t_cols t) -> forall e, sem_accessor c e = accessor_spec d (col_name c) e.
  Proof.
    intros Htw c Hc e. destruct (tcols_col_at c Hc) as [j Hat].
    pose proof (col_at_name j c Hat) as Hname.
    assert (Hfind : forall k, find (fun p => String.eqb (fst p) (col_name c)) (named_cells d k)
                              = match nth_error (c_cells k) j with
                                | Some cl => Some (col_name c, cl) | None => None end).
    { intros k. unfold named_cells. apply find_combine_nth; assumption. }
    assert (Hzero : column_zero d (col_name c) = zero_payload (ti_bkind (col_info c))).
    { destruct (col_at_info j c Hat) as [l [cl0 [Hl [Hcl0 Hlook]]]].
      unfold column_zero. rewrite Hl, Hfind, Hcl0. cbn [snd]. rewrite Hlook. reflexivity. }
    unfold accessor_spec, primary_cell.
    destruct (primary_const (d_consts d) e) as [k|] eqn:Hpc.
    - destruct (primary_const_pick d Hwf e k Hpc) as [Hk [Hv Hpick]].
      rewrite Hfind. destruct (nth_error (c_cells k) j) as [cl|] eqn:Ecl.
      + cbn [snd].
        destruct (col_at_rows_complete j c (to_gvalue k) cl Hat) as [r [Hr [Ho Hcell]]].
        * apply (L_const d). assumption.
        * exact Ecl.
        * cbn [to_gvalue g_z]. rewrite Hv. exact Hpick.
        * pose proof (accessor_row d o t Hgen c r Hc Hr) as Ha.
          rewrite Ho, Hcell in Ha. cbn [to_gvalue g_z] in Ha. rewrite Hv in Ha. exact Ha.
      + rewrite Hzero. apply accessor_zero. intros r Hr Ez.
        destruct (col_at_rows_sound j c r Hat Hr) as [H1 [H2 H3]].
        rewrite Ez in H3. unfold L, cs in H3. rewrite Hpick in H3. inversion H3 as [Eo].
        rewrite <- Eo in H2. cbn [to_gvalue g_cells] in H2. congruence.
    - rewrite Hzero. apply accessor_zero. intros r Hr Ez.
      destruct (col_at_rows_sound j c r Hat Hr) as [H1 [H2 H3]].
      rewrite Ez in H3. destruct (pick_primary_const d Hwf e _ H3) as [k [Hk _]]. congruence.
  Qed.

  Lemma parse_trait_correct_S :
    forall col e cl, In col (o_parsable o) -> primary_cell d col e = Some cl ->
    sem_parse t (cl_val cl) = Some e.
  Proof.
    intros col e cl Hcol Hpc. unfold primary_cell in Hpc.
    destruct (primary_const (d_consts d) e) as [k|] eqn:Hk; [|discriminate].
    destruct (find (fun p => String.eqb (fst p) col) (named_cells d k)) as [p|] eqn:F; [|discriminate].
    inversion Hpc; subst cl. unfold named_cells in F.
    destruct (find_combine_some _ _ _ _ F) as [j [Hj Hcell]].
    destruct (col_at_tcols j col Hj) as [c [Hc Hat]].
    assert (En : col_name c = col).
    { pose proof (col_at_name j c Hat) as Hn. rewrite Hj in Hn. inversion Hn. reflexivity. }
    assert (Hp : col_parsable c = true).
    { rewrite (col_at_parsable j c Hat), En. apply str_mem_In. assumption. }
    destruct (primary_const_pick d Hwf e k Hk) as [Hkin [Hv Hpick]].
    destruct (col_at_rows_complete j c (to_gvalue k) (snd p) Hat) as [r [Hr [Ho Hrc]]].
    - apply (L_const d). assumption.
    - exact Hcell.
    - cbn [to_gvalue g_z]. rewrite Hv. exact Hpick.
    - pose proof (parse_trait_row d o t Hwf Hgen c r Hc Hp Hr) as H.
      rewrite Ho, Hrc in H. cbn [to_gvalue g_z] in H. rewrite Hv in H. exact H.
  Qed.
End TraitColumns.

(* 1. every declared trait gets an accessor and vice versa *)
Theorem accessor_names : forall d o t, wf_defn d -> gen d o = Built t -> o_notraits o = false ->
  Permutation (map col_name (t_cols t)) (column_names d).
Proof. intros d o t Hwf Hgen Hnt. apply (accessor_names_S d o t Hwf Hgen Hnt). Qed.

(* a definition whose generation succeeds has pairwise distinct trait names *)
Theorem built_traits_wf : forall d o t, wf_defn d -> gen d o = Built t -> o_notraits o = false ->
  traits_wf d.
Proof. intros d o t Hwf Hgen Hnt. apply (built_traits_wf_S d o t Hwf Hgen Hnt). Qed.

(* 2. each accessor returns, for every value e, the cell on the primary definition line of e
      (zero value of the column type when e is undefined or its primary line has no such cell) *)
Theorem accessor_correct : forall d o t, wf_defn d -> traits_wf d -> gen d o = Built t -> o_notraits o = false ->
  forall c, In c (t_cols t) -> forall e, sem_accessor c e = accessor_spec d (col_name c) e.
Proof. intros d o t Hwf Htw Hgen Hnt. apply (accessor_correct_S d o t Hwf Hgen Hnt Htw). Qed.

(* 3. Parse<T> of the cell of a parsable column on the primary line of e returns e *)
Theorem parse_trait_correct : forall d o t, wf_defn d -> traits_wf d -> gen d o = Built t -> o_notraits o = false ->
  forall col e cl, In col (o_parsable o) -> primary_cell d col e = Some cl ->
  sem_parse t (cl_val cl) = Some e.
Proof. intros d o t Hwf Htw Hgen Hnt. apply (parse_trait_correct_S d o t Hwf Hgen Hnt). Qed.

Print Assumptions accessor_names.
Print Assumptions built_traits_wf.
Print Assumptions accessor_correct.
Print Assumptions parse_trait_correct.

(* ================================================================== definition-level reading of the
   exception clauses ("… that is not the value of a trait declared parsable", "unambiguous") *)
Lemma nth_combine : forall {A B} (l1 : list A) (l2 : list B) j a b,
  nth_error l1 j = Some a -> nth_error l2 j = Some b -> In (a, b) (combine l1 l2).
Proof.
  intros A B l1. induction l1 as [|x r IH]; intros l2 j a b H1 H2; destruct j; simpl in *; try discriminate.
  - destruct l2; simpl in *; [discriminate|]. inversion H1; inversion H2; subst. left; reflexivity.
  - destruct l2; simpl in *; [discriminate|]. right. eapply IH; eauto.
Qed.

Lemma dyn_eqb_refl : forall x, dyn_eqb x x = true.
Proof.
  intros [ty p]. unfold dyn_eqb. simpl. rewrite String.eqb_refl. simpl.
  destruct p as [s|z|b]; simpl; [apply String.eqb_refl|apply Z.eqb_refl|destruct b; reflexivity].
Qed.

(* every constant the generator lists in the Parse switch as a trait constant of value g is, in the
   DEFINITION, the value of a cell of a column declared parsable on a line of that value *)
Lemma trait_const_owner_sound : forall d o t g x, wf_defn d -> gen d o = Built t -> o_notraits o = false ->
  In g (sort_values (d_consts d)) -> In x (trait_consts t g) ->
  exists k cl, In k (d_consts d) /\ c_val k = g_z g /\ In cl (parsable_cells d o k) /\ cl_val cl = x.
Proof.
  intros d o t g x Hwf Hgen Hnt Hg Hx.
  unfold trait_consts in Hx. apply dyn_dedup_from_In in Hx. destruct Hx as [Hx _].
  apply in_flat_map in Hx. destruct Hx as [c [Hc Hx]].
  destruct (col_parsable c) eqn:Hp; [|contradiction].
  unfold owned_cells in Hx. apply in_map_iff in Hx. destruct Hx as [r [Er Hr]].
  apply filter_In in Hr. destruct Hr as [Hr Hown].
  destruct (tcols_col_at d o t Hgen Hnt c Hc) as [j Hat].
  destruct (col_at_rows_sound d o Hwf j c r Hat Hr) as [HL [Hnth _]].
  pose proof (col_at_name d o Hwf j c Hat) as Hname.
  pose proof (col_at_parsable d o j c Hat) as Hpar. rewrite Hp in Hpar.
  destruct (L_inv d _ HL) as [k [Hk Ek]].
  apply String.eqb_eq in Hown.
  assert (Eg : r_owner r = g).
  { destruct (L_inv d _ Hg) as [k' [Hk' Ek']]. rewrite Ek, Ek' in Hown. cbn [to_gvalue g_name] in Hown.
    destruct Hwf as [_ [_ Hnd]].
    assert (k = k') by (eapply (NoDup_map_inj_in c_name); eauto). subst k'. congruence. }
  exists k, (r_cell r). split; [assumption|]. split; [rewrite <- Eg, Ek; reflexivity|]. split; [|assumption].
  unfold parsable_cells. rewrite Hnt. apply in_map_iff. exists (col_name c, r_cell r). split; [reflexivity|].
  apply filter_In. split.
  - unfold named_cells. eapply nth_combine; [exact Hname|]. rewrite Ek in Hnth. exact Hnth.
  - simpl. symmetry. exact Hpar.
Qed.

Lemma notraits_no_cols : forall d o t, gen d o = Built t -> o_notraits o = true -> t_cols t = [].
Proof.
  intros d o t H Hnt. unfold gen in H.
  destruct (sort_values (d_consts d)) as [|first rest]; [discriminate|].
  destruct (existsb (fun v => reserved_name o (g_name v)) (first :: rest)); [discriminate|].
  destruct (o_ci o && negb (str_nodupb (map (fun v => to_lower (g_name v)) (first :: rest)))); [discriminate|].
  rewrite Hnt in H. apply mk_tables_built in H. destruct H as [_ ->]. reflexivity.
Qed.

(* soundness of the exception clause of the rejection theorems *)
Lemma trait_const_sound : forall d o t x, wf_defn d -> gen d o = Built t ->
  is_trait_const d t x -> is_parsable_trait_value d o x = true.
Proof.
  intros d o t x Hwf Hgen [g [Hg Hx]].
  destruct (o_notraits o) eqn:Hnt.
  - exfalso. unfold trait_consts in Hx. rewrite (notraits_no_cols d o t Hgen Hnt) in Hx. simpl in Hx. exact Hx.
  - destruct (trait_const_owner_sound d o t g x Hwf Hgen Hnt Hg Hx) as [k [cl [Hk [_ [Hcl <-]]]]].
    unfold is_parsable_trait_value. apply existsb_exists. exists k. split; [assumption|].
    apply existsb_exists. exists cl. split; [assumption|apply dyn_eqb_refl].
Qed.

(* what a successful Parse<T> means, at the level of the definition: the input names a constant of
   that value (case-insensitively under -caseInsensitive), or it is a parsable trait cell on a line of
   that value *)
Lemma parse_some_inv : forall d o t x w, wf_defn d -> gen d o = Built t -> sem_parse t x = Some w ->
  (exists c, In c (d_consts d) /\ c_val c = w /\
             (x = DStr (c_name c) \/ (o_ci o = true /\ exists s, x = DStr s /\ to_lower s = to_lower (c_name c))))
  \/ (exists k cl, In k (d_consts d) /\ c_val k = w /\ In cl (parsable_cells d o k) /\ cl_val cl = x).
Proof.
  intros d o t x w Hwf Hgen H. unfold sem_parse in H.
  rewrite (B_all d o t Hgen), (B_opts d o t Hgen) in H.
  destruct (find _ (sort_values (d_consts d))) as [g|] eqn:F.
  - inversion H; subst w. apply find_some in F. destruct F as [Hg Hex].
    apply existsb_dyn_In in Hex. rewrite case_consts_split in Hex. destruct Hex as [E|Hx].
    + left. destruct (L_inv d g Hg) as [c [Hc ->]]. exists c. split; [assumption|]. split; [reflexivity|]. left. symmetry. exact E.
    + destruct (o_notraits o) eqn:Hnt.
      * exfalso. unfold trait_consts in Hx. rewrite (notraits_no_cols d o t Hgen Hnt) in Hx. exact Hx.
      * right. destruct (trait_const_owner_sound d o t g x Hwf Hgen Hnt Hg Hx) as [k [cl [Hk [Hv [Hcl E]]]]].
        exists k, cl. auto.
  - destruct (o_ci o) eqn:Hci; [|discriminate].
    destruct x as [ty p]. cbn [dval dty] in H. destruct p as [s| |]; try discriminate.
    destruct (String.eqb ty "string") eqn:Ety; [|discriminate]. apply String.eqb_eq in Ety. subst ty.
    destruct (find (fun g => String.eqb (to_lower (g_name g)) (to_lower s)) (sort_values (d_consts d))) as [g|] eqn:F2; [|discriminate]. inversion H; subst w.
    apply find_some in F2. destruct F2 as [Hg E]. apply String.eqb_eq in E.
    left. destruct (L_inv d g Hg) as [c [Hc ->]]. exists c. split; [assumption|]. split; [reflexivity|].
    right. split; [reflexivity|]. exists s. split; [reflexivity|]. symmetry. exact E.
Qed.

(* a definition-level sufficient condition for `unambiguous`: no reading the decoder tries names a
   constant of another value or is a parsable trait cell on a line of another value (executable) *)
Definition names_const (o : opts) (c : const) (y : dyn) : bool :=
  dyn_eqb y (DStr (c_name c))
  || (o_ci o && match dval y with
                | PStr s => String.eqb (dty y) "string" && String.eqb (to_lower s) (to_lower (c_name c))
                | _ => false
                end).
Definition def_unambiguous (d : defn) (o : opts) (l : list dyn) (v : Z) : bool :=
  forallb (fun y =>
    forallb (fun c => Z.eqb (c_val c) v
                      || negb (names_const o c y || existsb (fun cl => dyn_eqb (cl_val cl) y) (parsable_cells d o c)))
            (d_consts d)) l.

Lemma def_unambiguous_sound : forall d o t l v, wf_defn d -> gen d o = Built t ->
  def_unambiguous d o l v = true -> unambiguous t l v.
Proof.
  intros d o t l v Hwf Hgen H y w Hy Hp. unfold def_unambiguous in H. rewrite forallb_forall in H.
  specialize (H y Hy). rewrite forallb_forall in H.
  destruct (parse_some_inv d o t y w Hwf Hgen Hp) as [[c [Hc [Hv Hn]]]|[k [cl [Hk [Hv [Hcl E]]]]]].
  - specialize (H c Hc). apply orb_true_iff in H. destruct H as [H|H]; [apply Z.eqb_eq in H; congruence|].
    exfalso. apply negb_true_iff in H. apply orb_false_iff in H. destruct H as [H _].
    unfold names_const in H. apply orb_false_iff in H. destruct H as [H1 H2].
    destruct Hn as [->|[Hci [s [-> Hs]]]].
    + rewrite dyn_eqb_refl in H1. discriminate.
    + rewrite Hci in H2. cbn [dval dty DStr andb] in H2. rewrite String.eqb_refl, Hs, String.eqb_refl in H2. discriminate.
  - specialize (H k Hk). apply orb_true_iff in H. destruct H as [H|H]; [apply Z.eqb_eq in H; congruence|].
    exfalso. apply negb_true_iff in H. apply orb_false_iff in H. destruct H as [_ H].
    assert (T : existsb (fun cl0 => dyn_eqb (cl_val cl0) y) (parsable_cells d o k) = true).
    { apply existsb_exists. exists cl. split; [assumption|]. rewrite E. apply dyn_eqb_refl. }
    congruence.
Qed.

(* the generator accepts every well-formed definition without traits *)
Lemma existsb_perm : forall {A} (f : A -> bool) l1 l2, Permutation.Permutation l1 l2 -> existsb f l1 = existsb f l2.
Proof.
  intros A f l1 l2 H. induction H; simpl; try congruence.
  - destruct (f x), (f y); reflexivity.
Qed.
Lemma gen_total_notraits : forall d o, wf_defn d -> d_consts d <> [] -> o_notraits o = true -> o_ci o = false ->
  existsb (fun c => reserved_name o (c_name c)) (d_consts d) = false ->
  exists t, gen d o = Built t.
Proof.
  intros d o Hwf Hne Hnt Hci Hres. unfold gen.
  assert (Hr : existsb (fun v => reserved_name o (g_name v)) (sort_values (d_consts d)) = false).
  { rewrite (existsb_perm _ _ _ (sort_values_perm (d_consts d))). unfold gvals.
    rewrite <- Hres. clear. induction (d_consts d) as [|c r IH]; simpl; [reflexivity|]. rewrite IH. reflexivity. }
  revert Hr.
  destruct (sort_values (d_consts d)) as [|f r] eqn:E.
  - intros _. exfalso. apply Hne. pose proof (sort_values_length (d_consts d)) as HL. rewrite E in HL.
    destruct (d_consts d); [reflexivity|discriminate].
  - intros Hr. rewrite Hr, Hci, Hnt. simpl. unfold mk_tables.
    assert (Hb : build_ok o (f :: r) [] = true).
    { unfold build_ok. rewrite Hci. simpl orb. cbn [forallb map str_nodupb andb].
      rewrite andb_true_r. rewrite andb_true_r.
      destruct Hwf as [_ [_ Hnd]].
      assert (HN : NoDup (map g_name (f :: r))).
      { rewrite <- E. eapply Permutation.Permutation_NoDup; [|exact Hnd].
        apply Permutation.Permutation_sym.
        eapply Permutation.perm_trans; [apply Permutation.Permutation_map; apply sort_values_perm|].
        unfold gvals. rewrite map_map. apply Permutation.Permutation_refl. }
      clear E. revert HN. generalize (f :: r). intros l HN.
      assert (forall l, flat_map (case_consts []) l = map (fun g => DStr (g_name g)) l) as Hfm.
      { induction l0; simpl; [reflexivity|]. rewrite IHl0. reflexivity. }
      rewrite Hfm. induction l as [|a l IH]; [reflexivity|].
      simpl. inversion HN; subst. rewrite IH by assumption. rewrite andb_true_r.
      apply negb_true_iff. destruct (existsb (dyn_eqb _) _) eqn:Ex; [|reflexivity].
      exfalso. apply existsb_exists in Ex. destruct Ex as [y [Hy Hey]].
      apply in_map_iff in Hy. destruct Hy as [g [<- Hgin]].
      unfold dyn_eqb, DStr in Hey. simpl in Hey. apply String.eqb_eq in Hey.
      apply H1. rewrite Hey. apply in_map. assumption. }
    rewrite Hb. eexists; reflexivity.
Qed.

(* the rejection clauses with the exception read off the definition *)
Lemma parse_reject_def : forall d o t, wf_defn d -> gen d o = Built t -> forall s,
  (forall c, In c (d_consts d) -> c_name c <> s) ->
  (o_ci o = true -> forall c, In c (d_consts d) -> to_lower (c_name c) <> to_lower s) ->
  is_parsable_trait_value d o (DStr s) = false -> sem_parse_string t s = None.
Proof.
  intros d o t Hwf Hg s Hn Hl Hp. apply (parse_reject d o t Hg s Hn Hl).
  intro Ht. rewrite (trait_const_sound d o t _ Hwf Hg Ht) in Hp. discriminate.
Qed.
Lemma rejectable_def : forall d o t x, wf_defn d -> gen d o = Built t ->
  ~ names_constant d o x -> is_parsable_trait_value d o x = false -> rejectable d o t x.
Proof.
  intros d o t x Hwf Hg Hn Hp. split; [exact Hn|].
  intro Ht. rewrite (trait_const_sound d o t _ Hwf Hg Ht) in Hp. discriminate.
Qed.

(* non-vacuity of the decoding theorems: a parsable int64 trait 12 / 7 and a parsable named string trait
   "1.1" / "v2": the JSON number 12, the YAML scalar 1.1 decode to the owner, the documents are
   unambiguous by the definition-level criterion *)
Definition ex_cell (var ty : string) (p : payload) (e : string) : cell :=
  {| cl_var := var; cl_expr := e; cl_val := {| dty := ty; dval := p |} |}.
Definition ex_defn : defn :=
  {| d_ty := {| ty_name := "E0"; ty_signed := false; ty_bits := 8 |};
     d_consts := [ {| c_name := "Old"; c_val := 3; c_dep := false;
                      c_cells := [ex_cell "_Code" "int64" (PInt 12) "int64(12)"; ex_cell "_Proto" "pkg.Str" (PStr "1.1") "Str(""1.1"")"] |};
                   {| c_name := "New"; c_val := 9; c_dep := false;
                      c_cells := [ex_cell "_" "int64" (PInt 7) "int64(7)"; ex_cell "_" "pkg.Str" (PStr "v2") "Str(""v2"")"] |} ];
     d_types := [("int64", {| ti_bkind := BInt64; ti_json_own := false; ti_yaml_own := false; ti_text_own := false |});
                 ("pkg.Str", {| ti_bkind := BString; ti_json_own := false; ti_yaml_own := false; ti_text_own := false |})] |}.
Definition ex_opts : opts :=
  {| o_json := true; o_yaml := true; o_text := true; o_ci := true; o_notraits := false; o_parsable := ["Code"; "Proto"] |}.
Definition ex_json12 : jview := {| jv_null := false; jv_string := None; jv_u64 := Some 12; jv_i64 := Some 12; jv_native := [] |}.
Definition ex_yaml11 : yview := {| yv_scalar := true; yv_value := "1.1"; yv_u64 := None; yv_i64 := None; yv_native := [] |}.
Lemma ex_decodes :
  exists t, gen ex_defn ex_opts = Built t
    /\ def_unambiguous ex_defn ex_opts (json_attempts t ex_json12) 3 = true
    /\ decode_json t ex_json12 = Some 3
    /\ def_unambiguous ex_defn ex_opts (yaml_attempts t ex_yaml11) 3 = true
    /\ decode_yaml t ex_yaml11 = Some 3
    /\ decode_text t {| tv_text := "v2"; tv_native := [] |} = Some 9.
Proof. eexists. split; [vm_compute; reflexivity|]. vm_compute. repeat split. Qed.

(* non-vacuity of the rejection theorems: for P0/P1/P2 with the parsable integer trait Code = 0/7/9 every
   faithful reading of the YAML scalar `garbage` is rejectable (it names no constant and is no cell of a
   parsable column of the definition), so all well-formed decoders reject it *)
Lemma garbage_rejectable : forall t, gen yw_defn yw_opts = Built t ->
  forall x, reading (Some "garbage") None None [] t x -> rejectable yw_defn yw_opts t x.
Proof.
  intros t Hg x Hr.
  assert (Hwf : wf_defn yw_defn).
  { split; [unfold ty_ok; simpl; split; discriminate|]. split.
    - repeat constructor.
    - repeat constructor; simpl; intuition discriminate. }
  inversion Hr as [s Hs Hv|u c Hu|i c Hi|c p _ _ Hl]; try discriminate.
  inversion Hs; subst s. destruct x as [ty p]. simpl in Hv. subst p.
  apply (rejectable_def yw_defn yw_opts t _ Hwf Hg).
  - intros [c [Hc [E|[Hci _]]]]; [|discriminate Hci].
    simpl in Hc. destruct Hc as [<-|[<-|[<-|[]]]]; inversion E.
  - unfold is_parsable_trait_value. simpl. unfold dyn_eqb. simpl. rewrite !andb_false_r. reflexivity.
Qed.
Lemma garbage_rejected : forall k, skels_ok k = true -> forall t, gen yw_defn yw_opts = Built t ->
  decode_yaml_sk k t yw_garbage = None.
Proof.
  intros k Hk t Hg. apply (reject_yaml_sk k Hk yw_defn yw_opts t yw_garbage Hg).
  intros x Hx. apply (garbage_rejectable t Hg x Hx).
Qed.

(* acceptance, for every option set: a well-formed definition without trait cells, without reserved names and
   (under -caseInsensitive) without names that differ only by case is generated — with or without -disableTraits *)
Lemma gen_total_nocells : forall d o, wf_defn d -> d_consts d <> [] ->
  existsb (fun c => reserved_name o (c_name c)) (d_consts d) = false ->
  (o_ci o = true -> NoDup (map (fun c => to_lower (c_name c)) (d_consts d))) ->
  forallb (fun c => Nat.eqb (length (c_cells c)) 0) (d_consts d) = true ->
  exists t, gen d o = Built t.
Proof.
  intros d o Hwf Hne Hres Hlow Hcells. unfold gen.
  pose proof (sort_values_perm (d_consts d)) as Hperm. unfold gvals in Hperm.
  assert (Hr : existsb (fun v => reserved_name o (g_name v)) (sort_values (d_consts d)) = false).
  { rewrite (existsb_perm _ _ _ Hperm). rewrite <- Hres. clear.
    induction (d_consts d) as [|c r IH]; simpl; [reflexivity|]. rewrite IH. reflexivity. }
  assert (Hnocells : forall v, In v (sort_values (d_consts d)) -> g_cells v = []).
  { intros v Hv. apply (Permutation.Permutation_in _ Hperm) in Hv. apply in_map_iff in Hv. destruct Hv as [c [<- Hc]].
    rewrite forallb_forall in Hcells. specialize (Hcells c Hc). cbn [to_gvalue g_cells].
    destruct (c_cells c); [reflexivity|discriminate]. }
  assert (Hci : o_ci o && negb (str_nodupb (map (fun v => to_lower (g_name v)) (sort_values (d_consts d)))) = false).
  { destruct (o_ci o) eqn:E; [|reflexivity]. simpl. apply negb_false_iff. apply str_nodupb_NoDup.
    eapply Permutation.Permutation_NoDup; [|exact (Hlow eq_refl)].
    apply Permutation.Permutation_sym.
    eapply Permutation.perm_trans; [apply Permutation.Permutation_map; exact Hperm|].
    rewrite map_map. apply Permutation.Permutation_refl. }
  assert (HN : NoDup (map g_name (sort_values (d_consts d)))).
  { destruct Hwf as [_ [_ Hnd]]. eapply Permutation.Permutation_NoDup; [|exact Hnd].
    apply Permutation.Permutation_sym.
    eapply Permutation.perm_trans; [apply Permutation.Permutation_map; exact Hperm|].
    rewrite map_map. apply Permutation.Permutation_refl. }
  revert Hr Hnocells Hci HN.
  destruct (sort_values (d_consts d)) as [|f r] eqn:E.
  - intros _ _ _ _. exfalso. apply Hne. pose proof (sort_values_length (d_consts d)) as HL. rewrite E in HL.
    destruct (d_consts d); [reflexivity|discriminate].
  - intros Hr Hnocells Hci HN. rewrite Hr, Hci.
    assert (Hb : build_ok o (f :: r) [] = true).
    { unfold build_ok. cbn [forallb map str_nodupb andb]. rewrite andb_true_r.
      apply andb_true_iff. split.
      - revert HN. generalize (f :: r). intros l HN.
        assert (forall l, flat_map (case_consts []) l = map (fun g => DStr (g_name g)) l) as Hfm.
        { induction l0; simpl; [reflexivity|]. rewrite IHl0. reflexivity. }
        rewrite Hfm. induction l as [|a l IH]; [reflexivity|].
        simpl. inversion HN; subst. rewrite IH by assumption. rewrite andb_true_r.
        apply negb_true_iff. destruct (existsb (dyn_eqb _) _) eqn:Ex; [|reflexivity].
        exfalso. apply existsb_exists in Ex. destruct Ex as [y [Hy Hey]].
        apply in_map_iff in Hy. destruct Hy as [g [<- Hgin]].
        unfold dyn_eqb, DStr in Hey. simpl in Hey. apply String.eqb_eq in Hey.
        apply H1. rewrite Hey. apply in_map. assumption.
      - destruct (o_ci o); [|reflexivity]. simpl in Hci. apply negb_false_iff in Hci. simpl. exact Hci. }
    assert (Hmk : exists t, mk_tables d o (f :: r) [] = Built t).
    { unfold mk_tables. rewrite Hb. eexists; reflexivity. }
    destruct (o_notraits o); [exact Hmk|].
    assert (Hnc : existsb (fun v => existsb (fun c => reserved_cell_var (cl_var c)) (g_cells v)) (f :: r) = false).
    { clear - Hnocells. induction (f :: r) as [|a l IH]; [reflexivity|]. simpl.
      rewrite (Hnocells a (or_introl eq_refl)). simpl. apply IH. intros v Hv. apply Hnocells. right. exact Hv. }
    rewrite Hnc. rewrite (Hnocells f (or_introl eq_refl)). cbn [first_columns length Nat.eqb].
    assert (Hall : forallb (fun v => Nat.eqb (length (g_cells v)) 0) (f :: r) = true).
    { apply forallb_forall. intros v Hv. rewrite (Hnocells v Hv). reflexivity. }
    rewrite Hall. exact Hmk.
Qed.
