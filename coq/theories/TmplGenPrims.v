(* TmplGenPrims.v — the library calls the translator harness/cmd/xlate_gconf (-set templates)
   maps gconfig/yaml_templates.go onto (no proofs).

   Go                                             Gallina
   --------------------------------------------   ------------------------------------------
   envVarTmplMatcher.FindStringSubmatch(in)       find_submatch in   ([] when there is no match,
                                                  else [whole; name; default-or-empty]; the
                                                  matcher is TmplModel.match_env — its agreement
                                                  with Go's regexp on the pattern is C16's trusted
                                                  and validated part, its language is proved)
   matches[i]                                     str_nth matches i
   os.LookupEnv(name)                             os_lookup_env env name  (env = the process
                                                  environment, an extra parameter)
   strings.Trim(s, cutset)                        strings_trim s cutset                       *)
From Coq Require Import List String Ascii Bool Arith.
From GT Require Import GConfModel GConfGenPrims TmplModel.
Import ListNotations.

Definition find_submatch (s : string) : list string :=
  match match_env s with
  | Some (n, d) => [s; n; d]
  | None => []
  end.

Definition in_cutset (cut : list ascii) (c : ascii) : bool := existsb (Ascii.eqb c) cut.

Fixpoint ltrim_set (cut : list ascii) (l : list ascii) : list ascii :=
  match l with
  | c :: r => if in_cutset cut c then ltrim_set cut r else l
  | [] => []
  end.

Definition strings_trim (s cutset : string) : string :=
  let cut := list_ascii_of_string cutset in
  string_of_list_ascii (rev (ltrim_set cut (rev (ltrim_set cut (list_ascii_of_string s))))).
