(* IFaceParse.v — a parser for the type syntax FindInterface renders (no proofs here).

   IFaceModel.print turns a reference AST (texpr) into the text that goes into the generated file;
   what that text MEANS is what the Go compiler reads back.  This file is a small recursive-descent
   parser for exactly that syntax

     T ::= ident | ident "." ident | T0 "[" T {", " T} "]"      (named, qualified, instantiated)
         | "*" T | "[]" T | "[" digits "]" T | "map[" T "]" T
         | "func(" [ D {", " D} ] ") " [ T | "(" T {", " T} ")" ]
     D ::= ident [ "..." ] " " T

   into the tree [pty]; IFaceParseProofs shows  parse (print x) = Some (to_pty x)  for every
   well-formed x, so that "every referenced type denotes the identical type" can be stated about
   the TEXT: [denote_p] gives the Go type a parsed tree denotes under the active imports. *)
From Coq Require Import List Bool String Ascii NArith Arith DecimalString.
From GT Require Import IFaceModel.
Import ListNotations.
Local Open Scope string_scope.

Inductive pty :=
| PName (q : option string) (n : string) (args : list pty)
| PPtr (e : pty)
| PSlice (e : pty)
| PArray (n : N) (e : pty)
| PMap (k v : pty)
| PFunc (ins : list (string * bool * pty)) (outs : list pty).

(* what the text of a reference AST parses to: a bare name is a name (basic types included), the
   names of results are not printed, a variadic flag on a result is printed as [] *)
Fixpoint to_pty (x : texpr) : pty :=
  match x with
  | ERaw s => PName None s []
  | EName q n args => PName q n (map to_pty args)
  | EPtr y => PPtr (to_pty y)
  | ESlice y => PSlice (to_pty y)
  | EArray n y => PArray n (to_pty y)
  | EMap k v => PMap (to_pty k) (to_pty v)
  | EFunc ins outs =>
      PFunc (map (fun p : string * bool * texpr => let '(n, v, y) := p in (n, v, to_pty y)) ins)
            (map (fun p : string * bool * texpr => let '(_, v, y) := p in
                    if v then PSlice (to_pty y) else to_pty y) outs)
  end.

(* ------------------------------------------------------------------ lexical helpers *)
Definition ident_char (c : ascii) : bool := is_letter c || is_digit c.

Fixpoint span (p : ascii -> bool) (s : string) : string * string :=
  match s with
  | EmptyString => (EmptyString, EmptyString)
  | String c r => if p c then let '(a, b) := span p r in (String c a, b) else (EmptyString, s)
  end.

Fixpoint strip (p s : string) : option string :=
  match p with
  | EmptyString => Some s
  | String c p' => match s with
                   | String d s' => if Ascii.eqb c d then strip p' s' else None
                   | EmptyString => None
                   end
  end.

Definition parse_num (s : string) : option (N * string) :=
  let '(ds, r) := span is_digit s in
  match ds with
  | EmptyString => None
  | _ => match NilEmpty.uint_of_string ds with
         | Some u => Some (N.of_uint u, r)
         | None => None
         end
  end.

Definition is_empty (s : string) : bool := match s with EmptyString => true | _ => false end.

(* p {", " p}: at most n elements *)
Fixpoint parse_seq {A : Type} (p : string -> option (A * string)) (n : nat) (s : string)
  : option (list A * string) :=
  match n with
  | O => None
  | S n' =>
      match p s with
      | None => None
      | Some (a, r) =>
          match strip ", " r with
          | Some r1 => match parse_seq p n' r1 with
                       | Some (l, r2) => Some (a :: l, r2)
                       | None => None
                       end
          | None => Some ([a], r)
          end
      end
  end.

(* can a type end here?  (what follows a type in the rendered syntax) *)
Definition at_follow (s : string) : bool :=
  match s with
  | EmptyString => true
  | String c _ => Ascii.eqb c "]" || Ascii.eqb c "," || Ascii.eqb c ")"
  end.

Fixpoint parse_ty (fuel : nat) (s : string) : option (pty * string) :=
  match fuel with
  | O => None
  | S f =>
      let decl := fun s : string =>
        let '(n, r) := span ident_char s in
        if is_empty n then None else
        match strip "... " r with
        | Some r1 => match parse_ty f r1 with Some (t, r2) => Some ((n, true, t), r2) | None => None end
        | None => match strip " " r with
                  | Some r1 => match parse_ty f r1 with Some (t, r2) => Some ((n, false, t), r2) | None => None end
                  | None => None
                  end
        end in
      let args := fun (q : option string) (n r : string) =>
        match strip "[" r with
        | Some r1 => match parse_seq (parse_ty f) f r1 with
                     | Some (l, r2) => match strip "]" r2 with
                                       | Some r3 => Some (PName q n l, r3)
                                       | None => None
                                       end
                     | None => None
                     end
        | None => Some (PName q n [], r)
        end in
      match strip "*" s with
      | Some r => match parse_ty f r with Some (t, r1) => Some (PPtr t, r1) | None => None end
      | None =>
      match strip "[]" s with
      | Some r => match parse_ty f r with Some (t, r1) => Some (PSlice t, r1) | None => None end
      | None =>
      match strip "[" s with
      | Some r =>
          match parse_num r with
          | Some (n, r1) => match strip "]" r1 with
                            | Some r2 => match parse_ty f r2 with
                                         | Some (t, r3) => Some (PArray n t, r3)
                                         | None => None
                                         end
                            | None => None
                            end
          | None => None
          end
      | None =>
          let '(id, r) := span ident_char s in
          if is_empty id then None
          else if String.eqb id "map" then
            match strip "[" r with
            | Some r1 =>
                match parse_ty f r1 with
                | Some (k, r2) =>
                    match strip "]" r2 with
                    | Some r3 => match parse_ty f r3 with
                                 | Some (v, r4) => Some (PMap k v, r4)
                                 | None => None
                                 end
                    | None => None
                    end
                | None => None
                end
            | None => None
            end
          else if String.eqb id "func" then
            match strip "(" r with
            | None => None
            | Some r1 =>
                let ins :=
                  match strip ")" r1 with
                  | Some r2 => Some ([], r2)
                  | None => match parse_seq decl f r1 with
                            | Some (l, r2) => match strip ")" r2 with
                                              | Some r3 => Some (l, r3)
                                              | None => None
                                              end
                            | None => None
                            end
                  end in
                match ins with
                | None => None
                | Some (l, r2) =>
                    match strip " " r2 with
                    | None => None
                    | Some r3 =>
                        if at_follow r3 then Some (PFunc l [], r3)
                        else match strip "(" r3 with
                             | Some r4 =>
                                 match parse_seq (parse_ty f) f r4 with
                                 | Some (o, r5) => match strip ")" r5 with
                                                   | Some r6 => Some (PFunc l o, r6)
                                                   | None => None
                                                   end
                                 | None => None
                                 end
                             | None => match parse_ty f r3 with
                                       | Some (t, r4) => Some (PFunc l [t], r4)
                                       | None => None
                                       end
                             end
                    end
                end
            end
          else
            match strip "." r with
            | Some r1 =>
                let '(n, r2) := span ident_char r1 in
                if is_empty n then None else args (Some id) n r2
            | None => args None id r
            end
      end end end
  end.

Definition parse (s : string) : option pty :=
  match parse_ty (S (String.length s)) s with
  | Some (t, EmptyString) => Some t
  | _ => None
  end.

(* ------------------------------------------------------------------ what a parsed type denotes *)
(* Go's predeclared basic type names (go/types Typ[] plus the aliases byte and rune) *)
Definition basic_type_names : list string :=
  ["bool"; "string"; "int"; "int8"; "int16"; "int32"; "int64"; "uint"; "uint8"; "uint16";
   "uint32"; "uint64"; "uintptr"; "byte"; "rune"; "float32"; "float64"; "complex64"; "complex128"].
Definition is_basic_name (s : string) : bool := mem s basic_type_names.

Definition is_nil_l (l : list pty) : bool := match l with [] => true | _ => false end.

Section DenoteP.
  Variable self : string.
  Variable local : string -> bool.
  Variable act : table.
  Variable basic : string -> bool.      (* the predeclared basic type names *)

  Fixpoint denote_p (t : pty) : option ty :=
    match t with
    | PName q n args =>
        match sequence (map denote_p args) with
        | None => None
        | Some targs =>
            match q with
            | None =>
                if basic n && negb (local n) && is_nil_l args then Some (TBasic n)
                else Some (TNamed (if local n then Some (self, "") else None) n targs)
            | Some a => match resolve act a with
                        | Some p => Some (TNamed (Some (p, "")) n targs)
                        | None => None
                        end
            end
        end
    | PPtr y => option_map TPtr (denote_p y)
    | PSlice y => option_map TSlice (denote_p y)
    | PArray n y => option_map (TArray n) (denote_p y)
    | PMap k v => match denote_p k, denote_p v with
                  | Some a, Some b => Some (TMap a b)
                  | _, _ => None
                  end
    | PFunc ins outs =>
        let den := fun p : string * bool * pty =>
                     let '(_, v, y) := p in
                     option_map (fun t => (blank, if v then TSlice t else t)) (denote_p y) in
        match sequence (map den ins), sequence (map (fun y => option_map (fun t => (blank, t)) (denote_p y)) outs) with
        | Some ps, Some rs => Some (TFunc ps (existsb (fun p : string * bool * pty => snd (fst p)) ins) rs)
        | _, _ => None
        end
    end.
End DenoteP.
