(* TmplCompProofs.v — C16 at the level of the MODEL of Builder.FromBytes (load_full = reduce,
   non-map check, template pass), composed with the relational specification of C03
   (GConfRelSpec.Resolves / Fails), and a relational reading of the outcome of one string.

     model_unselected_irrelevant   WF t -> WF t' -> Agree t t' -> load_full t = load_full t'
     model_load_resolved           load_full is the template pass over THE document t resolves to
     model_error_iff               load_full = Err  <->  Fails t \/ t not a map \/ t resolves to a
                                   non-map or to a document one of whose strings fails under env
     template_outcome              Outcome env s o -> resolve_str env s = o, Outcome being written
                                   from the property text over the documented grammar
                                   (TmplProofs.shape / render / doc_ok) only
     template_outcome_total        every string of the documented grammar and every string that
                                   is not template-shaped has an outcome                      *)
From Coq Require Import List String Ascii Bool Arith Lia.
From GT Require Import GConfModel GConfProofs GConfRelSpec GConfRelProofs TmplModel TmplProofs.
Import ListNotations.

(* ------------------------------------------------------------------ selected branches only *)
Theorem model_unselected_irrelevant : forall dims env t t' p p',
  WF dims p t -> WF dims p' t' -> Agree dims t t' ->
  load_full dims env t = load_full dims env t'.
Proof.
  intros dims env t t' p p' HW HW' HA.
  rewrite (load_full_is_spec dims env t p HW), (load_full_is_spec dims env t' p' HW').
  apply agree_load_full. exact HA.
Qed.

(* the template pass of FromBytes, as a function of the resolved document *)
Definition templates_over (env : list (string * string)) (r : tree) : res (list (string * tree)) :=
  match r with
  | Mp _ => match subst env r with Ok (Mp kv') => Ok kv' | _ => Err end
  | _ => Err
  end.

Theorem model_load_resolved : forall dims env t p r,
  WF dims p t -> is_map t -> Resolves dims t r ->
  load_full dims env t = templates_over env r.
Proof.
  intros dims env t p r HW [kv ->] HR. apply (rel_reduce_ok dims _ p r HW) in HR.
  unfold load_full, load_model. rewrite HR. destruct r; reflexivity.
Qed.

Theorem model_load_fails : forall dims env t p,
  WF dims p t -> Fails dims t -> load_full dims env t = Err.
Proof.
  intros dims env t p HW HF. unfold load_full.
  assert (E : load_model dims t = Err).
  { apply (load_error_rel dims p t HW). left. exact HF. }
  rewrite E. reflexivity.
Qed.

Theorem model_error_iff : forall dims env t p, WF dims p t ->
  (load_full dims env t = Err <->
   Fails dims t \/ ~ is_map t \/
   exists r, Resolves dims t r /\
             (~ is_map r \/ exists s, In s (strings_of r) /\ resolve_str env s = Err)).
Proof.
  intros dims env t p HW. unfold load_full. destruct (load_model dims t) as [kv|] eqn:EL.
  - pose proof (load_model_ok dims t kv EL) as ER.
    assert (HR : Resolves dims t (Mp kv)) by (apply (rel_reduce_ok dims t p _ HW); exact ER).
    assert (HnE : load_model dims t <> Err) by congruence.
    destruct (subst env (Mp kv)) as [r'|] eqn:ES.
    + assert (Hr' : exists kv', r' = Mp kv').
      { rewrite subst_Mp in ES. destruct (seq_kv (rmap (subst env) kv)) as [kv'|]; [|discriminate].
        cbn in ES. inversion ES. eexists. reflexivity. }
      destruct Hr' as [kv' ->]. split; [discriminate|]. intros H. exfalso.
      destruct H as [HF | [Hnm | [r [Hr [Hnm | [s [Hs He]]]]]]].
      * apply HnE. apply (load_error_rel dims p t HW). left. exact HF.
      * apply HnE. apply (load_error_rel dims p t HW). right. right. exact Hnm.
      * rewrite (rel_deterministic dims t p _ _ HW Hr HR) in Hnm. apply Hnm. eexists. reflexivity.
      * rewrite (rel_deterministic dims t p _ _ HW Hr HR) in Hs.
        assert (E : subst env (Mp kv) = Err) by (apply subst_err_iff; exists s; split; assumption).
        congruence.
    + split; [|reflexivity]. intros _. right. right. exists (Mp kv). split; [exact HR|].
      right. apply subst_err_iff. exact ES.
  - split; [|reflexivity]. intros _.
    apply (load_error_rel dims p t HW) in EL. destruct EL as [HF | [[r [Hr Hnm]] | Hnm]].
    + left. exact HF.
    + right. right. exists r. split; [exact Hr| left; exact Hnm].
    + right. left. exact Hnm.
Qed.

(* ------------------------------------------------------------------ the outcome of one string
   s is the template ${{ env: NAME [| DEFAULT] }} of the documented grammar *)
Definition TemplateOf (s : string) (name dflt : bytes) : Prop :=
  exists sh, doc_ok sh /\ s = string_of_list_ascii (render sh) /\ name = nm sh /\ dflt = df sh.

(* m is dflt with the surrounding double quotes stripped *)
Definition Unquoted (dflt m : bytes) : Prop :=
  exists q1 q2, dflt = q1 ++ m ++ q2 /\ Forall isq q1 /\ Forall isq q2 /\
                starts_nonquote m /\ starts_nonquote (rev m).

Inductive Outcome (env : list (string * string)) : string -> res string -> Prop :=
| O_set : forall s name dflt v,          (* NAME is set, even to the empty string *)
    TemplateOf s name dflt -> assoc (string_of_list_ascii name) env = Some v ->
    Outcome env s (Ok v)
| O_default : forall s name dflt m,      (* NAME unset, a default is given *)
    TemplateOf s name dflt -> assoc (string_of_list_ascii name) env = None ->
    dflt <> [] -> Unquoted dflt m ->
    Outcome env s (Ok (string_of_list_ascii m))
| O_error : forall s name,               (* NAME unset, no default *)
    TemplateOf s name [] -> assoc (string_of_list_ascii name) env = None ->
    Outcome env s Err
| O_other : forall s,                    (* every other string *)
    ~ shaped (list_ascii_of_string s) -> Outcome env s (Ok s).

Lemma template_match : forall s name dflt, TemplateOf s name dflt ->
  match_env s = Some (string_of_list_ascii name, string_of_list_ascii dflt).
Proof. intros s name dflt [sh [Hok [-> [-> ->]]]]. apply grammar_string. exact Hok. Qed.

Theorem template_outcome : forall env s o, Outcome env s o -> resolve_str env s = o.
Proof.
  intros env s o H. destruct H as [s name dflt v HT Hv | s name dflt m HT Hv Hne HU | s name HT Hv | s Hns].
  - rewrite (resolve_three_way env s _ _ (template_match s name dflt HT)), Hv. reflexivity.
  - rewrite (resolve_three_way env s _ _ (template_match s name dflt HT)), Hv.
    destruct HU as [q1 [q2 [E [H1 [H2 [H3 H4]]]]]].
    assert (Et : trim_quotes (string_of_list_ascii dflt) = string_of_list_ascii m).
    { unfold trim_quotes. rewrite list_ascii_of_string_of_list_ascii, E.
      rewrite (trim_quotes_spec q1 m q2 H1 H2 H3 H4). reflexivity. }
    rewrite Et. destruct dflt as [|c d]; [congruence| reflexivity].
  - rewrite (resolve_three_way env s _ _ (template_match s name [] HT)), Hv. reflexivity.
  - apply untouched_unless_shaped. exact Hns.
Qed.

(* the outcome is defined on all of the documented grammar and on all non-templates *)
Lemma ltrim_q_inv : forall l,
  exists q, l = q ++ ltrim_q l /\ Forall isq q /\ starts_nonquote (ltrim_q l).
Proof.
  induction l as [|c l IH]; [exists []; repeat split; constructor|].
  cbn [ltrim_q]. destruct (Ascii.eqb c quote_c) eqn:E.
  - apply Ascii.eqb_eq in E. subst c. destruct IH as [q [H1 [H2 H3]]].
    exists (quote_c :: q). split; [cbn; f_equal; exact H1|].
    split; [constructor; [reflexivity| exact H2]| exact H3].
  - exists []. split; [reflexivity|]. split; [constructor|]. cbn. intros ->.
    rewrite Ascii.eqb_refl in E. discriminate.
Qed.

Lemma unquoted_exists : forall dflt, exists m, Unquoted dflt m.
Proof.
  intros dflt. destruct (ltrim_q_inv dflt) as [q1 [E1 [H1 Hx]]].
  set (x := ltrim_q dflt) in *. destruct (ltrim_q_inv (rev x)) as [q2 [E2 [H2 Hy]]].
  set (y := ltrim_q (rev x)) in *. exists (rev y), q1, (rev q2).
  assert (Ex : x = rev y ++ rev q2).
  { rewrite <- rev_app_distr, <- E2, rev_involutive. reflexivity. }
  split; [rewrite <- Ex; exact E1|]. split; [exact H1|]. split; [apply Forall_rev; exact H2|].
  split; [|rewrite rev_involutive; exact Hy].
  destruct (rev y) as [|c m] eqn:Em; [exact I|]. rewrite Ex in Hx. exact Hx.
Qed.

Theorem template_outcome_total : forall env s,
  (exists name dflt, TemplateOf s name dflt) \/ ~ shaped (list_ascii_of_string s) ->
  exists o, Outcome env s o.
Proof.
  intros env s [[name [dflt HT]] | Hns]; [|exists (Ok s); apply O_other; exact Hns].
  destruct (assoc (string_of_list_ascii name) env) as [v|] eqn:Ev.
  - exists (Ok v). exact (O_set env s name dflt v HT Ev).
  - destruct dflt as [|c d] eqn:Ed.
    + exists Err. exact (O_error env s name HT Ev).
    + destruct (unquoted_exists (c :: d)) as [m Hm]. exists (Ok (string_of_list_ascii m)).
      apply (O_default env s name (c :: d) m HT Ev); [discriminate| exact Hm].
Qed.
