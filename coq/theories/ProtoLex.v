(* ProtoLex.v — the content of a .proto file: what `protoFileHasGoPackage` reads of it, and what
   "declares option go_package" means (no proofs; theorems in ProtoScan.v).

   Specification side — the property says "proto … that does not declare `option go_package`".
   A file declares it when its token stream (protobuf lexical structure: white space, `//` and
   `/* */` comments, "…" and '…' string literals with backslash escapes, identifiers, single
   character punctuation: [lex]) contains the consecutive tokens
        option  go_package  =  <string literal>
   [declares_go_package].

   Go (gogenproto/gen/generate.go, after fix C20-go-package-scan)    →  here
   ------------------------------------------------------------------------------------------
   declaresGoPackage: one pass over the bytes, a state machine over   →  [scan_from]: [lex_step]
     inCode / inIdent / afterSlash / inLineComment / inBlockComment /    on the state, every token
     inBlockCommentStar / inString / inStringEscape, the closure         it emits fed to [gp_next]
     `token` advancing `matched` over `option go_package = <string>`  →  [gp_next] (0..4, 4 = found)
   the string literal left open at the end of the file                →  [flush_str]
   `return matched == 4`                                              →  [scan_go_package]

   Before the fix the function was a line scan for the substring `option go_package =`
   (bufio.Scanner lines, strings.Contains): kept as [scan_go_package_orig] with its
   counterexamples (ProtoScan.v, scan_refuted_…).                                               *)
From Coq Require Import String List Bool Arith Ascii NArith.
From GT Require Export ProtoPath.
Import ListNotations.
Local Open Scope string_scope.
Local Open Scope list_scope.

Definition nl : ascii := "010"%char.
Definition cr : ascii := "013"%char.

(* how the harness writes file contents into case terms: lines joined by '\n', control
   characters as explicit pieces (a case term has to stay on one line) *)
Fixpoint nl_join (l : list string) : string :=
  match l with
  | [] => EmptyString
  | [x] => x
  | x :: r => x ++ String nl (nl_join r)
  end.
Definition pieces (l : list string) : string := String.concat "" l.
Definition ctl_char (n : nat) : string := String (ascii_of_nat n) EmptyString.
(* a piece repeated n times (long contents: padding up to a buffer boundary) *)
Definition repN (n : N) (s : string) : string := N.iter n (fun acc => (s ++ acc)%string) EmptyString.

(* ------------------------------------------------------------------ the line scan before fix C20-go-package-scan *)
Fixpoint drop_cr (s : string) : string :=
  match s with
  | EmptyString => EmptyString
  | String c EmptyString => if Ascii.eqb c cr then EmptyString else s
  | String c r => String c (drop_cr r)
  end.

Fixpoint drop_last_empty (l : list string) : list string :=
  match l with
  | [] => []
  | [s] => if String.eqb s "" then [] else [s]
  | s :: r => s :: drop_last_empty r
  end.

Definition content_lines (c : string) : list string :=
  map drop_cr (drop_last_empty (split_on nl c)).

Definition go_package_marker : string := "option go_package =".

Definition scan_lines (lines : list string) : bool :=
  existsb (str_contains go_package_marker) lines.

Definition scan_go_package_orig (content : string) : bool := scan_lines (content_lines content).

(* ------------------------------------------------------------------ the lexical structure *)
Inductive token : Type := TIdent (s : string) | TStr | TPunct (c : ascii).

Inductive lstate : Type :=
| LNormal
| LId (acc : string)          (* inside an identifier / number *)
| LSlash                      (* after a '/' that may start a comment *)
| LLine                       (* // … *)
| LBlock                      (* /* … *)
| LBlockStar                  (* /* … * *)
| LStr (q : ascii)            (* inside a string literal opened by q *)
| LEsc (q : ascii).           (* after a backslash inside a string literal *)

(* character classes on the byte value (binary numbers: files of 100 KB and more are judged) *)
Definition is_ws (c : ascii) : bool :=
  let n := N_of_ascii c in
  N.eqb n 32 || (N.leb 9 n && N.leb n 13).

Definition is_idch (c : ascii) : bool :=
  let n := N_of_ascii c in
  (N.leb 48 n && N.leb n 57) || (N.leb 65 n && N.leb n 90)
  || (N.leb 97 n && N.leb n 122) || N.eqb n 95.

Definition is_quote (c : ascii) : bool := Ascii.eqb c """" || Ascii.eqb c "'".

(* tokens are accumulated in reverse *)
Definition lex_start (c : ascii) (toks : list token) : lstate * list token :=
  if is_ws c then (LNormal, toks)
  else if is_idch c then (LId (String c ""), toks)
  else if Ascii.eqb c "/" then (LSlash, toks)
  else if is_quote c then (LStr c, toks)
  else (LNormal, TPunct c :: toks).

Definition lex_step (st : lstate) (toks : list token) (c : ascii) : lstate * list token :=
  match st with
  | LNormal => lex_start c toks
  | LId a => if is_idch c then (LId (a ++ String c ""), toks) else lex_start c (TIdent a :: toks)
  | LSlash =>
      if Ascii.eqb c "/" then (LLine, toks)
      else if Ascii.eqb c "*" then (LBlock, toks)
      else lex_start c (TPunct "/" :: toks)
  | LLine => if Ascii.eqb c nl then (LNormal, toks) else (LLine, toks)
  | LBlock => if Ascii.eqb c "*" then (LBlockStar, toks) else (LBlock, toks)
  | LBlockStar =>
      if Ascii.eqb c "/" then (LNormal, toks)
      else if Ascii.eqb c "*" then (LBlockStar, toks)
      else (LBlock, toks)
  | LStr q =>
      if Ascii.eqb c q then (LNormal, TStr :: toks)
      else if Ascii.eqb c "\" then (LEsc q, toks)
      else if Ascii.eqb c nl then (LNormal, TStr :: toks)     (* unterminated literal *)
      else (LStr q, toks)
  | LEsc q => (LStr q, toks)
  end.

Fixpoint lex_from (st : lstate) (toks : list token) (s : string) : lstate * list token :=
  match s with
  | EmptyString => (st, toks)
  | String c r => let '(st', toks') := lex_step st toks c in lex_from st' toks' r
  end.

Definition lex_flush (st : lstate) (toks : list token) : list token :=
  match st with
  | LId a => TIdent a :: toks
  | LSlash => TPunct "/" :: toks
  | LStr _ | LEsc _ => TStr :: toks
  | _ => toks
  end.

Definition lex (s : string) : list token :=
  let '(st, toks) := lex_from LNormal [] s in rev_append (lex_flush st toks) [].   (* = rev …, linear *)

(* the k-th token of the declaration `option go_package = <string>` *)
Definition tok_matches (k : nat) (t : token) : bool :=
  match k, t with
  | 0, TIdent s => String.eqb s "option"
  | 1, TIdent s => String.eqb s "go_package"
  | 2, TPunct c => Ascii.eqb c "="
  | 3, TStr => true
  | _, _ => false
  end.

(* the tokens start with the declaration from its k-th token on *)
Fixpoint starts_gp (k : nat) (toks : list token) {struct toks} : bool :=
  if Nat.leb 4 k then true
  else match toks with
       | [] => false
       | t :: r => tok_matches k t && starts_gp (S k) r
       end.

Fixpoint has_go_package_tokens (toks : list token) : bool :=
  match toks with
  | [] => false
  | _ :: r => starts_gp 0 toks || has_go_package_tokens r
  end.

(* the file declares `option go_package` *)
Definition declares_go_package (content : string) : bool := has_go_package_tokens (lex content).

(* ------------------------------------------------------------------ declaresGoPackage (the code) *)
(* the closure `token`: how many tokens of the declaration the last tokens read are *)
Definition gp_next (m : nat) (t : token) : nat :=
  if Nat.eqb m 4 then 4
  else if Nat.eqb m 0 && tok_matches 0 t then 1
  else if Nat.eqb m 1 && tok_matches 1 t then 2
  else if Nat.eqb m 2 && tok_matches 2 t then 3
  else if Nat.eqb m 3 && tok_matches 3 t then 4
  else if tok_matches 0 t then 1
  else 0.

(* one byte: the state machine, and the tokens it completes in the order they are completed *)
Definition scan_step (st : lstate) (m : nat) (c : ascii) : lstate * nat :=
  let '(st', toks) := lex_step st [] c in (st', fold_left gp_next (rev toks) m).

Fixpoint scan_from (st : lstate) (m : nat) (s : string) : lstate * nat :=
  match s with
  | EmptyString => (st, m)
  | String c r => let '(st', m') := scan_step st m c in scan_from st' m' r
  end.

(* the end of the file ends a string literal that was left open *)
Definition flush_str (st : lstate) (m : nat) : nat :=
  match st with
  | LStr _ | LEsc _ => gp_next m TStr
  | _ => m
  end.

Definition scan_go_package (content : string) : bool :=
  let '(st, m) := scan_from LNormal 0 content in Nat.eqb (flush_str st m) 4.

(* the inputs on which a decider is right about "declares go_package" *)
Definition scan_agrees (content : string) : bool :=
  Bool.eqb (scan_go_package content) (declares_go_package content).
Definition scan_agrees_orig (content : string) : bool :=
  Bool.eqb (scan_go_package_orig content) (declares_go_package content).
