(* ProtoLex.v — the content of a .proto file: what `protoFileHasGoPackage` reads of it, and what
   "declares option go_package" means (no proofs; theorems in ProtoScan.v).

   Go (gogenproto/gen/generate.go:144-162)                       →  here
   ------------------------------------------------------------------------------------------
   bufio.Scanner with the default ScanLines split function        →  [content_lines]: split at
     (lines without the newline, one trailing '\r' dropped, no      '\n', drop a final empty
     final empty line)                                              piece, [drop_cr]
   strings.Contains(scanner.Text(), "option go_package =") for    →  [scan_go_package]
     some line
   (lines of 64 KiB and more make Scan stop early; the error is ignored by the code — files
    with such lines are outside the model, see design_notes/C20.md)

   Specification side — the property says "proto … that does not declare `option go_package`".
   A file declares it when its token stream (protobuf lexical structure: white space, `//` and
   `/* */` comments, "…" and '…' string literals with backslash escapes, identifiers, single
   character punctuation) contains the consecutive tokens
        option  go_package  =  <string literal>
   [declares_go_package].  So `option go_package="x";`, `option  go_package  =  "x";` and the
   option split over lines all declare it; `// option go_package = "x";`, the same inside
   /* */ or inside a string literal do not.                                                   *)
From Coq Require Import String List Bool Arith Ascii.
From GT Require Export ProtoPath.
Import ListNotations.
Local Open Scope string_scope.
Local Open Scope list_scope.

Definition nl : ascii := "010"%char.
Definition cr : ascii := "013"%char.

(* how the harness writes file contents into case terms: lines joined by '\n', control
   characters as explicit pieces (a case term has to stay on one line) *)
Fixpoint nl_join (l : list string) : string :=
  match l with
  | [] => EmptyString
  | [x] => x
  | x :: r => x ++ String nl (nl_join r)
  end.
Definition pieces (l : list string) : string := String.concat "" l.
Definition ctl_char (n : nat) : string := String (ascii_of_nat n) EmptyString.

(* ------------------------------------------------------------------ the real scan *)
Fixpoint drop_cr (s : string) : string :=
  match s with
  | EmptyString => EmptyString
  | String c EmptyString => if Ascii.eqb c cr then EmptyString else s
  | String c r => String c (drop_cr r)
  end.

Fixpoint drop_last_empty (l : list string) : list string :=
  match l with
  | [] => []
  | [s] => if String.eqb s "" then [] else [s]
  | s :: r => s :: drop_last_empty r
  end.

Definition content_lines (c : string) : list string :=
  map drop_cr (drop_last_empty (split_on nl c)).

Definition go_package_marker : string := "option go_package =".

Definition scan_lines (lines : list string) : bool :=
  existsb (str_contains go_package_marker) lines.

Definition scan_go_package (content : string) : bool := scan_lines (content_lines content).

(* ------------------------------------------------------------------ the lexical structure *)
Inductive token : Type := TIdent (s : string) | TStr | TPunct (c : ascii).

Inductive lstate : Type :=
| LNormal
| LId (acc : string)          (* inside an identifier / number *)
| LSlash                      (* after a '/' that may start a comment *)
| LLine                       (* // … *)
| LBlock                      (* /* … *)
| LBlockStar                  (* /* … * *)
| LStr (q : ascii)            (* inside a string literal opened by q *)
| LEsc (q : ascii).           (* after a backslash inside a string literal *)

Definition is_ws (c : ascii) : bool :=
  let n := nat_of_ascii c in
  Nat.eqb n 32 || (Nat.leb 9 n && Nat.leb n 13).

Definition is_idch (c : ascii) : bool :=
  let n := nat_of_ascii c in
  (Nat.leb 48 n && Nat.leb n 57) || (Nat.leb 65 n && Nat.leb n 90)
  || (Nat.leb 97 n && Nat.leb n 122) || Nat.eqb n 95.

Definition is_quote (c : ascii) : bool := Ascii.eqb c """" || Ascii.eqb c "'".

(* tokens are accumulated in reverse *)
Definition lex_start (c : ascii) (toks : list token) : lstate * list token :=
  if is_ws c then (LNormal, toks)
  else if is_idch c then (LId (String c ""), toks)
  else if Ascii.eqb c "/" then (LSlash, toks)
  else if is_quote c then (LStr c, toks)
  else (LNormal, TPunct c :: toks).

Definition lex_step (st : lstate) (toks : list token) (c : ascii) : lstate * list token :=
  match st with
  | LNormal => lex_start c toks
  | LId a => if is_idch c then (LId (a ++ String c ""), toks) else lex_start c (TIdent a :: toks)
  | LSlash =>
      if Ascii.eqb c "/" then (LLine, toks)
      else if Ascii.eqb c "*" then (LBlock, toks)
      else lex_start c (TPunct "/" :: toks)
  | LLine => if Ascii.eqb c nl then (LNormal, toks) else (LLine, toks)
  | LBlock => if Ascii.eqb c "*" then (LBlockStar, toks) else (LBlock, toks)
  | LBlockStar =>
      if Ascii.eqb c "/" then (LNormal, toks)
      else if Ascii.eqb c "*" then (LBlockStar, toks)
      else (LBlock, toks)
  | LStr q =>
      if Ascii.eqb c q then (LNormal, TStr :: toks)
      else if Ascii.eqb c "\" then (LEsc q, toks)
      else if Ascii.eqb c nl then (LNormal, TStr :: toks)     (* unterminated literal *)
      else (LStr q, toks)
  | LEsc q => (LStr q, toks)
  end.

Fixpoint lex_from (st : lstate) (toks : list token) (s : string) : lstate * list token :=
  match s with
  | EmptyString => (st, toks)
  | String c r => let '(st', toks') := lex_step st toks c in lex_from st' toks' r
  end.

Definition lex_flush (st : lstate) (toks : list token) : list token :=
  match st with
  | LId a => TIdent a :: toks
  | LSlash => TPunct "/" :: toks
  | LStr _ | LEsc _ => TStr :: toks
  | _ => toks
  end.

Definition lex (s : string) : list token :=
  let '(st, toks) := lex_from LNormal [] s in rev (lex_flush st toks).

Fixpoint has_go_package_tokens (toks : list token) : bool :=
  match toks with
  | [] => false
  | t :: r =>
      match t, r with
      | TIdent a, TIdent b :: TPunct e :: TStr :: _ =>
          (String.eqb a "option" && String.eqb b "go_package" && Ascii.eqb e "=")
          || has_go_package_tokens r
      | _, _ => has_go_package_tokens r
      end
  end.

(* the file declares `option go_package` *)
Definition declares_go_package (content : string) : bool := has_go_package_tokens (lex content).

(* the inputs on which the line scan decides "declares go_package" correctly *)
Definition scan_agrees (content : string) : bool :=
  Bool.eqb (scan_go_package content) (declares_go_package content).
