(* GEnumJudge.v — judgement of observed genum behaviour (no proofs).

   A case = one enum type of one definition file run through the real CLI under given options:
   the definition, the options, the outcome (0 generated and compiled, 1 generator error,
   2 compile error, >= 3 observation failure) and what the compiled code was seen to do.
   judge_cXX_sk k c = verdict (observation satisfies the property's specification)
                              (observation equals the prediction of GEnumModel.gen and of the interpreters
                               sem_xxx_sk / decode_xxx_sk at the skeleton record k).
   k is the record regenerated from the template of the tree under test (GEnumSkelGen.gen_skels) when the
   translator tie holds, the hand-written cur_skels otherwise.                                          *)
From Coq Require Import String Ascii ZArith List Bool.
From GT Require Import Base.Verdict.
From GT Require Import Base.GEnumStr.
From GT Require Import Base.GEnumSort.
From GT Require Import GEnumModel.
Import ListNotations.
Local Open Scope string_scope.
Local Open Scope list_scope.
Local Open Scope Z_scope.

(* strings with bytes outside printable ASCII are written by the harness as byte lists *)
Fixpoint str_of_bytes (l : list N) : string :=
  match l with
  | [] => EmptyString
  | b :: r => String (ascii_of_N b) (str_of_bytes r)
  end.

Inductive res := ROk (z : Z) | RErr | RPanic.
Definition res_of (o : option Z) : res := match o with Some z => ROk z | None => RErr end.
Definition res_eqb (a b : res) : bool :=
  match a, b with
  | ROk x, ROk y => Z.eqb x y
  | RErr, RErr => true
  | RPanic, RPanic => true
  | _, _ => false
  end.

Definition outcome_code (o : outcome tables) : nat :=
  match o with Built _ => 0 | GenErr => 1 | BuildErr => 2 | Unsupported => 9 end.

(* the quantified space: non-empty, pairwise distinct names, values representable in the
   underlying type *)
Definition in_domain_names (d : defn) : bool :=
  match d_consts d with [] => false | _ => true end
  && str_nodupb (map c_name (d_consts d))
  && forallb (fun c => in_range (d_ty d) (c_val c)) (d_consts d).
(* -caseInsensitive with names that differ only by case: the generator must refuse (near-miss
   stream of C04: expected observable = generator error, nothing written) *)
Definition ci_collision (d : defn) (o : opts) : bool :=
  o_ci o && negb (str_nodupb (map (fun c => to_lower (c_name c)) (d_consts d))).
Definition in_domain (d : defn) (o : opts) : bool := in_domain_names d && negb (ci_collision d o).
(* a constant named like an identifier the template binds: the generator must refuse (near-miss stream) *)
Definition reserved_collision (d : defn) (o : opts) : bool :=
  existsb (fun c => reserved_name o (c_name c)) (d_consts d).
(* trait cells bound to / referring to such identifiers are outside the modelled space *)
Definition cells_in_domain (d : defn) : bool :=
  forallb (fun c => forallb (fun cl => negb (reserved_cell_var (cl_var cl))) (c_cells c)) (d_consts d).

(* documented acceptance rules of the generator, over the definition:
   trait names on the line of the lowest value; a line with trait cells has (or shares its value
   with a line that has) one cell per trait; parsable trait values unique within the enum *)
Definition ncols (d : defn) : nat := length (column_names d).
Definition traits_in_domain (d : defn) : bool :=
  match lowest_const (d_consts d) with
  | None => false
  | Some l =>
      forallb (fun cl => negb (String.eqb (cl_var cl) "_") && negb (String.eqb (trim_underscore (cl_var cl)) "")
                         && negb (String.eqb (trim_underscore (cl_var cl)) "_")) (c_cells l)
      && forallb (fun c => Nat.leb (length (c_cells c)) (ncols d)) (d_consts d)
      && (negb (Nat.eqb (ncols d) 0) || forallb (fun c => Nat.eqb (length (c_cells c)) 0) (d_consts d))
      && str_nodupb (column_names d)
  end.

Definition counts_ok (d : defn) : bool :=
  forallb (fun c => Nat.eqb (length (c_cells c)) 0
                    || existsb (fun c' => Z.eqb (c_val c') (c_val c) && Nat.eqb (length (c_cells c')) (ncols d))
                               (d_consts d)) (d_consts d).
Definition is_primary_const (d : defn) (c : const) : bool :=
  match primary (d_consts d) (c_val c) with Some n => String.eqb n (c_name c) | None => false end.
Definition unique_ok (d : defn) (o : opts) : bool :=
  validate_pairs (flat_map (fun c => if is_primary_const d c
                                     then map (fun cl => (cl_val cl, c_name c)) (parsable_cells d o c)
                                     else []) (d_consts d)).
(* a parsable plain-string trait (on a primary line) must not spell the name of another definition *)
Definition names_ok (d : defn) (o : opts) : bool :=
  forallb (fun c => negb (is_primary_const d c)
                    || forallb (fun cl => forallb (fun k => String.eqb (c_name k) (c_name c)
                                                            || negb (dyn_eqb (cl_val cl) (DStr (c_name k))))
                                                  (d_consts d))
                               (parsable_cells d o c)) (d_consts d).
Definition spec_accepts (d : defn) (o : opts) : bool :=
  if o_notraits o then true else counts_ok d && unique_ok d o && names_ok d o.

(* ------------------------------------------------------------------ C04 *)
Record c04_case := {
  k_def : defn; k_opts : opts; k_outcome : nat;
  k_values : list Z; k_strvalues : list string;
  k_probes : list (Z * (bool * string));              (* e, IsValid, String *)
  k_parses : list (string * (res * (res * res)));     (* s, Parse<T>, ParseString, ParseGeneric *)
  (* history: after the observations above the observer WRITES into the slices it got from Values() and
     StringValues() (k_hist) and observes again *)
  (* Parse<T> / ParseGeneric on inputs that are not strings: numbers, booleans, nil, byte slices, the enum value itself *)
  k_odd : list (dyn * (res * res));
  k_hist : list hist_ev;
  k_values2 : list Z; k_strvalues2 : list string; k_probes2 : list (Z * (bool * string))
}.

(* what the property demands of Parse on the string s *)
Definition parse_spec_ok (d : defn) (o : opts) (s : string) (r : res) : bool :=
  match name_value (d_consts d) s with
  | Some v => res_eqb r (ROk v)
  | None =>
      match (if o_ci o then name_value_ci (d_consts d) s else None) with
      | Some v => res_eqb r (ROk v) || is_parsable_trait_value d o (DStr s)
      | None =>
          if is_parsable_trait_value d o (DStr s) then negb (res_eqb r RPanic)
          else res_eqb r RErr
      end
  end.

Definition c04_spec_ok (c : c04_case) : bool :=
  let d := k_def c in
  let vs := values_spec (d_consts d) in
  if ci_collision d (k_opts c) || reserved_collision d (k_opts c) then Nat.eqb (k_outcome c) 1 else
  Nat.eqb (k_outcome c) 0
  && list_eqb Z.eqb (k_values c) vs
  && list_eqb String.eqb (k_strvalues c) (map (string_spec d) vs)
  && forallb (fun p => let '(e, (valid, str)) := p in
                       Bool.eqb valid (existsb (Z.eqb e) vs) && String.eqb str (string_spec d e))
             (k_probes c)
  && forallb (fun p => let '(s, (r1, (r2, r3))) := p in
                       res_eqb r1 r2 && res_eqb r1 r3 && parse_spec_ok d (k_opts c) s r1)
             (k_parses c)
  (* an input that is not a string is the value of no name: rejected unless it is a parsable trait value *)
  && forallb (fun p => let '(x, (r1, r3)) := p in
                       res_eqb r1 r3 && (if is_parsable_trait_value d (k_opts c) x then negb (res_eqb r1 RPanic) else res_eqb r1 RErr))
             (k_odd c)
  (* … and the same after any history of caller writes *)
  && list_eqb Z.eqb (k_values2 c) vs
  && list_eqb String.eqb (k_strvalues2 c) (map (string_spec d) vs)
  && forallb (fun p => let '(e, (valid, str)) := p in
                       Bool.eqb valid (existsb (Z.eqb e) vs) && String.eqb str (string_spec d e))
             (k_probes2 c).

Definition c04_model_eq (k : skels) (c : c04_case) : bool :=
  match gen (k_def c) (k_opts c) with
  | Built t =>
      Nat.eqb (k_outcome c) 0
      && list_eqb Z.eqb (k_values c) (sem_values_sk k t)
      && list_eqb String.eqb (k_strvalues c) (sem_stringvalues_sk k t)
      && forallb (fun p => let '(e, (valid, str)) := p in
                           Bool.eqb valid (sem_isvalid_sk k t e) && String.eqb str (sem_string_sk k t e))
                 (k_probes c)
      && forallb (fun p => let '(s, (r1, (r2, r3))) := p in
                           let m := res_of (sem_parse_sk (sk_parse k) t (DStr s)) in
                           res_eqb r1 m && (negb (sk_parsestring k) || res_eqb r2 m)
                           && (negb (sk_parsegeneric k) || res_eqb r3 m))
                 (k_parses c)
      && forallb (fun p => let '(x, (r1, r3)) := p in
                           let m := res_of (sem_parse_sk (sk_parse k) t x) in
                           res_eqb r1 m && (negb (sk_parsegeneric k) || res_eqb r3 m)) (k_odd c)
      && list_eqb Z.eqb (k_values2 c) (sem_values_hist k t (k_hist c))
      && list_eqb String.eqb (k_strvalues2 c) (sem_stringvalues_sk k t)
      && forallb (fun p => let '(e, (valid, str)) := p in
                           Bool.eqb valid (sem_isvalid_hist k t (k_hist c) e) && String.eqb str (sem_string_sk k t e))
                 (k_probes2 c)
  | o => Nat.eqb (k_outcome c) (outcome_code o)
  end.

Definition judge_c04_sk (k : skels) (c : c04_case) : nat :=
  if in_domain_names (k_def c) && traits_in_domain (k_def c) && cells_in_domain (k_def c)
  then verdict (c04_spec_ok c) (c04_model_eq k c) else 3.
Definition judge_c04 : c04_case -> nat := judge_c04_sk cur_skels.

(* non-trivial case: duplicates present, or the binary-search variant of IsValid was emitted *)
Definition c04_nontrivial (c : c04_case) : bool :=
  negb (Nat.eqb (length (values_spec (d_consts (k_def c)))) (length (d_consts (k_def c))))
  || Nat.ltb 15 (length (d_consts (k_def c))).

(* ------------------------------------------------------------------ documents (C05, C12) *)
Inductive codec := CJson | CText | CYaml.
Inductive dfrom :=
| FromNone                              (* rejection stream *)
| FromValue (v : Z)                     (* the real encoding of enum value v *)
| FromTrait (col : string) (v : Z).     (* the library rendering of trait col of enum value v *)

(* one decoded document: what the libraries report about it (the views of GEnumModel) and
   what the generated decoder returned.  do_called = the library handed the document to the
   generated Unmarshal* method (false e.g. for YAML null: out of the decoders' reach) *)
Record doc_obs := {
  do_codec : codec; do_from : dfrom; do_called : bool;
  do_null : bool;                         (* the document holds no scalar: the JSON literal null (json.Unmarshal "reads"
                                             "" and 0 from it), a YAML sequence or mapping node (its Value is "") *)
  do_str : option string;                 (* JSON string view | text | yaml node value *)
  do_u64 : option Z; do_i64 : option Z;   (* json.Unmarshal into uint64/int64 | strconv.ParseUint/ParseInt *)
  do_bool : option bool;                  (* json.Unmarshal into bool | yaml Node.Decode into bool *)
  do_native : list (string * option payload);
  do_res : res }.

Definition model_decode (k : skels) (t : tables) (x : doc_obs) : res :=
  match do_codec x with
  | CJson => res_of (decode_json_sk k t {| jv_null := do_null x; jv_string := do_str x; jv_u64 := do_u64 x; jv_i64 := do_i64 x;
                                           jv_native := do_native x |})
  | CText => match do_str x with
             | Some s => res_of (decode_text_sk k t {| tv_text := s; tv_native := do_native x |})
             | None => RErr
             end
  | CYaml => match do_str x with
             | Some s => res_of (decode_yaml_sk k t {| yv_scalar := negb (do_null x); yv_value := s; yv_u64 := do_u64 x;
                                                       yv_i64 := do_i64 x; yv_native := do_native x |})
             | None => RErr
             end
  end.

(* does the document denote the constant cl?  (faithful readings only: the string content,
   the number itself, the value its own unmarshaler produced) *)
Definition doc_denotes (x : doc_obs) (cl : cell) : bool :=
  negb (do_null x) &&
  (match dval (cl_val cl) with
  | PStr s => match do_str x with Some s' => String.eqb s s' | None => false end
  | PInt z => match do_u64 x with Some u => Z.eqb u z | None => false end
              || match do_i64 x with Some i => Z.eqb i z | None => false end
  | PBool b => match do_bool x with Some b' => Bool.eqb b b' | None => false end
  end
  || existsb (fun p => String.eqb (fst p) (dty (cl_val cl))
                       && match snd p with Some q => payload_eqb q (dval (cl_val cl)) | None => false end)
             (do_native x)).

(* values whose parsable trait cells the document denotes *)
Definition doc_trait_owners (d : defn) (o : opts) (x : doc_obs) : list Z :=
  map c_val (filter (fun c => existsb (doc_denotes x) (parsable_cells d o c)) (d_consts d)).

Definition doc_name_value (d : defn) (o : opts) (x : doc_obs) : option Z :=
  if do_null x then None else
  match do_str x with
  | Some s => match name_value (d_consts d) s with
              | Some v => Some v
              | None => if o_ci o then name_value_ci (d_consts d) s else None
              end
  | None => None
  end.

(* ------------------------------------------------------------------ C05 *)
Record c05_case := {
  k5_def : defn; k5_opts : opts; k5_outcome : nat;
  k5_values : list Z;
  k5_enc : list (Z * (option string * (option string * option string)));  (* v, json bytes, text, MarshalYAML() *)
  k5_docs : list doc_obs }.

Definition opt_str_is (o : option string) (s : string) : bool :=
  match o with Some x => String.eqb x s | None => false end.

Definition c05_doc_spec_ok (d : defn) (o : opts) (x : doc_obs) : bool :=
  if negb (do_called x) then true
  else match do_from x with
       | FromValue v => res_eqb (do_res x) (ROk v)
       | _ =>
           match doc_name_value d o x with
           | Some v => res_eqb (do_res x) (ROk v) || negb (Nat.eqb (length (doc_trait_owners d o x)) 0)
           | None =>
               if Nat.eqb (length (doc_trait_owners d o x)) 0 then res_eqb (do_res x) RErr
               else negb (res_eqb (do_res x) RPanic)
           end
       end.

Definition c05_spec_ok (c : c05_case) : bool :=
  let d := k5_def c in let o := k5_opts c in
  let vs := values_spec (d_consts d) in
  (* a definition the documented rules reject generates nothing: vacuous *)
  if negb (spec_accepts d o) || reserved_collision d o then Nat.eqb (k5_outcome c) 1 else
  Nat.eqb (k5_outcome c) 0
  && list_eqb Z.eqb (k5_values c) vs
  && list_eqb Z.eqb (map fst (k5_enc c)) (if o_json o || o_text o || o_yaml o then vs else [])
  && forallb (fun p => let '(v, (j, (tx, y))) := p in
                       let n := string_spec d v in
                       (negb (o_json o) || opt_str_is j (quote n))
                       && (negb (o_text o) || opt_str_is tx n)
                       && (negb (o_yaml o) || opt_str_is y n)) (k5_enc c)
  && forallb (c05_doc_spec_ok d o) (k5_docs c).

Definition c05_model_eq (k : skels) (c : c05_case) : bool :=
  match gen (k5_def c) (k5_opts c) with
  | Built t =>
      let o := k5_opts c in
      Nat.eqb (k5_outcome c) 0
      && list_eqb Z.eqb (k5_values c) (sem_values_sk k t)
      && forallb (fun p => let '(v, (j, (tx, y))) := p in
                           (negb (o_json o) || opt_str_is j (encode_json_sk k t v))
                           && (negb (o_text o) || opt_str_is tx (encode_text_sk k t v))
                           && (negb (o_yaml o) || opt_str_is y (encode_yaml_sk k t v))) (k5_enc c)
      && forallb (fun x => negb (do_called x) || res_eqb (do_res x) (model_decode k t x)) (k5_docs c)
  | o => Nat.eqb (k5_outcome c) (outcome_code o)
  end.

Definition judge_c05_sk (k : skels) (c : c05_case) : nat :=
  if in_domain (k5_def c) (k5_opts c) && traits_in_domain (k5_def c) && cells_in_domain (k5_def c)
  then verdict (c05_spec_ok c) (c05_model_eq k c) else 3.
Definition judge_c05 : c05_case -> nat := judge_c05_sk cur_skels.

(* non-trivial: some parsable trait family is in play or a document was rejected *)
Definition c05_nontrivial (c : c05_case) : bool :=
  existsb (fun k => negb (Nat.eqb (length (parsable_cells (k5_def c) (k5_opts c) k)) 0)) (d_consts (k5_def c))
  || existsb (fun x => res_eqb (do_res x) RErr) (k5_docs c).

(* ------------------------------------------------------------------ C12 *)
Record c12_case := {
  k12_def : defn; k12_opts : opts; k12_outcome : nat;
  k12_values : list Z;
  k12_acc : list (string * list (Z * payload));       (* accessor name, (e, result) *)
  k12_tparse : list (string * (Z * (dyn * res)));     (* column, e, accessor(e) as any, Parse<T>(it) *)
  k12_docs : list doc_obs }.



Definition c12_doc_spec_ok (d : defn) (o : opts) (x : doc_obs) : bool :=
  if negb (do_called x) then true
  else match do_from x with
       | FromValue v => res_eqb (do_res x) (ROk v)
       | FromTrait col e =>
           match primary_cell d col e with
           | Some _ =>
               (* ambiguous documents (e.g. YAML 12 for a string trait "12" and an integer trait 12 of
                  different values) carry no obligation *)
               if forallb (Z.eqb e) (doc_trait_owners d o x) && negb (match doc_name_value d o x with Some _ => true | None => false end)
               then res_eqb (do_res x) (ROk e) else negb (res_eqb (do_res x) RPanic)
           | None => negb (res_eqb (do_res x) RPanic)
           end
       | FromNone => true
       end.

Definition c12_spec_ok (c : c12_case) : bool :=
  let d := k12_def c in let o := k12_opts c in
  if negb (spec_accepts d o) || reserved_collision d o then Nat.eqb (k12_outcome c) 1      (* rejected with a diagnostic: nothing generated *)
  else
    Nat.eqb (k12_outcome c) 0
    && list_eqb Z.eqb (k12_values c) (values_spec (d_consts d))
    && (o_notraits o
        || (list_eqb String.eqb (isort str_ltb (map fst (k12_acc c))) (isort str_ltb (column_names d))
            && forallb (fun a => forallb (fun p => payload_eqb (snd p) (accessor_spec d (fst a) (fst p))) (snd a))
                       (k12_acc c)
            && forallb (fun q => let '(col, (e, (x, r))) := q in
                                 match primary_cell d col e with
                                 | Some _ => res_eqb r (ROk e)
                                 | None => negb (res_eqb r RPanic)
                                 end) (k12_tparse c)))
    && forallb (c12_doc_spec_ok d o) (k12_docs c).

Definition c12_model_eq (k : skels) (c : c12_case) : bool :=
  match gen (k12_def c) (k12_opts c) with
  | Built t =>
      Nat.eqb (k12_outcome c) 0
      && list_eqb Z.eqb (k12_values c) (sem_values_sk k t)
      && list_eqb String.eqb (isort str_ltb (map fst (k12_acc c))) (map col_name (t_cols t))
      && forallb (fun a => match find (fun col => String.eqb (col_name col) (fst a)) (t_cols t) with
                           | Some col => forallb (fun p => payload_eqb (snd p) (sem_accessor_sk k col (fst p))) (snd a)
                           | None => false
                           end) (k12_acc c)
      && forallb (fun q => let '(col, (e, (x, r))) := q in res_eqb r (res_of (sem_parse_sk (sk_parse k) t x))) (k12_tparse c)
      && forallb (fun x => negb (do_called x) || res_eqb (do_res x) (model_decode k t x)) (k12_docs c)
  | o => Nat.eqb (k12_outcome c) (outcome_code o)
  end.

Definition judge_c12_sk (k : skels) (c : c12_case) : nat :=
  if in_domain (k12_def c) (k12_opts c) && traits_in_domain (k12_def c) && cells_in_domain (k12_def c)
  then verdict (c12_spec_ok c) (c12_model_eq k c) else 3.
Definition judge_c12 : c12_case -> nat := judge_c12_sk cur_skels.

Definition c12_nontrivial (c : c12_case) : bool :=
  negb (Nat.eqb (ncols (k12_def c)) 0)
  && (existsb (fun k => negb (Nat.eqb (length (parsable_cells (k12_def c) (k12_opts c) k)) 0)) (d_consts (k12_def c))
      || negb (Nat.eqb (length (values_spec (d_consts (k12_def c)))) (length (d_consts (k12_def c))))).
