(* GEnumJudge.v — judgement of observed genum behaviour (no proofs).

   A case = one enum type of one definition file run through the real CLI under given options:
   the definition, the options, the outcome (0 generated and compiled, 1 generator error,
   2 compile error, >= 3 observation failure) and what the compiled code was seen to do.
   judge_cXX c = verdict (observation satisfies the property's specification)
                         (observation equals the prediction of GEnumModel.gen / sem_xxx).      *)
From Coq Require Import String Ascii ZArith List Bool.
From GT Require Import Base.Verdict.
From GT Require Import Base.GEnumStr.
From GT Require Import Base.GEnumSort.
From GT Require Import GEnumModel.
Import ListNotations.
Local Open Scope string_scope.
Local Open Scope list_scope.
Local Open Scope Z_scope.

Inductive res := ROk (z : Z) | RErr | RPanic.
Definition res_of (o : option Z) : res := match o with Some z => ROk z | None => RErr end.
Definition res_eqb (a b : res) : bool :=
  match a, b with
  | ROk x, ROk y => Z.eqb x y
  | RErr, RErr => true
  | RPanic, RPanic => true
  | _, _ => false
  end.

Fixpoint list_eqb {A} (eqb : A -> A -> bool) (a b : list A) : bool :=
  match a, b with
  | [], [] => true
  | x :: a', y :: b' => eqb x y && list_eqb eqb a' b'
  | _, _ => false
  end.

Definition outcome_code (o : outcome tables) : nat :=
  match o with Built _ => 0 | GenErr => 1 | BuildErr => 2 | Unsupported => 9 end.

(* the quantified space: non-empty, pairwise distinct names (also after lower-casing when the
   enum is generated case-insensitively), values representable in the underlying type *)
Definition in_domain (d : defn) (o : opts) : bool :=
  match d_consts d with [] => false | _ => true end
  && str_nodupb (map c_name (d_consts d))
  && forallb (fun c => in_range (d_ty d) (c_val c)) (d_consts d)
  && (negb (o_ci o) || str_nodupb (map (fun c => to_lower (c_name c)) (d_consts d))).

(* ---- spec-level view of traits: columns are named on the line of the least (value, name) *)
Definition const_less (a b : const) : bool :=
  if c_val a =? c_val b then str_ltb (c_name a) (c_name b) else c_val a <? c_val b.
Fixpoint least_const (x : const) (l : list const) : const :=
  match l with
  | [] => x
  | y :: r => if const_less y x then least_const y r else least_const x r
  end.
Definition lowest_const (cs : list const) : option const :=
  match cs with [] => None | x :: r => Some (least_const x r) end.
Definition column_names (d : defn) : list string :=
  match lowest_const (d_consts d) with
  | Some c => map (fun cl => trim_underscore (cl_var cl)) (c_cells c)
  | None => []
  end.
(* (column name, cell) pairs of a constant *)
Definition named_cells (d : defn) (c : const) : list (string * cell) := combine (column_names d) (c_cells c).
Definition parsable_cells (d : defn) (o : opts) (c : const) : list cell :=
  if o_notraits o then []
  else map snd (filter (fun p => str_mem (fst p) (o_parsable o)) (named_cells d c)).
(* is the dynamic value x the value of a parsable trait (of any constant)? *)
Definition is_parsable_trait_value (d : defn) (o : opts) (x : dyn) : bool :=
  existsb (fun c => existsb (fun cl => dyn_eqb x (cl_val cl)) (parsable_cells d o c)) (d_consts d).

(* ------------------------------------------------------------------ C04 *)
Record c04_case := {
  k_def : defn; k_opts : opts; k_outcome : nat;
  k_values : list Z; k_strvalues : list string;
  k_probes : list (Z * (bool * string));              (* e, IsValid, String *)
  k_parses : list (string * (res * (res * res)))      (* s, Parse<T>, ParseString, ParseGeneric *)
}.

(* what the property demands of Parse on the string s *)
Definition parse_spec_ok (d : defn) (o : opts) (s : string) (r : res) : bool :=
  match name_value (d_consts d) s with
  | Some v => res_eqb r (ROk v)
  | None =>
      match (if o_ci o then name_value_ci (d_consts d) s else None) with
      | Some v => res_eqb r (ROk v) || is_parsable_trait_value d o (DStr s)
      | None =>
          if is_parsable_trait_value d o (DStr s) then negb (res_eqb r RPanic)
          else res_eqb r RErr
      end
  end.

Definition c04_spec_ok (c : c04_case) : bool :=
  let d := k_def c in
  let vs := values_spec (d_consts d) in
  Nat.eqb (k_outcome c) 0
  && list_eqb Z.eqb (k_values c) vs
  && list_eqb String.eqb (k_strvalues c) (map (string_spec d) vs)
  && forallb (fun p => let '(e, (valid, str)) := p in
                       Bool.eqb valid (existsb (Z.eqb e) vs) && String.eqb str (string_spec d e))
             (k_probes c)
  && forallb (fun p => let '(s, (r1, (r2, r3))) := p in
                       res_eqb r1 r2 && res_eqb r1 r3 && parse_spec_ok d (k_opts c) s r1)
             (k_parses c).

Definition c04_model_eq (c : c04_case) : bool :=
  match gen (k_def c) (k_opts c) with
  | Built t =>
      Nat.eqb (k_outcome c) 0
      && list_eqb Z.eqb (k_values c) (sem_values t)
      && list_eqb String.eqb (k_strvalues c) (sem_stringvalues t)
      && forallb (fun p => let '(e, (valid, str)) := p in
                           Bool.eqb valid (sem_isvalid t e) && String.eqb str (sem_string t e))
                 (k_probes c)
      && forallb (fun p => let '(s, (r1, (r2, r3))) := p in
                           let m := res_of (sem_parse_string t s) in
                           res_eqb r1 m && res_eqb r2 m && res_eqb r3 m)
                 (k_parses c)
  | o => Nat.eqb (k_outcome c) (outcome_code o)
  end.

Definition judge_c04 (c : c04_case) : nat :=
  if in_domain (k_def c) (k_opts c) then verdict (c04_spec_ok c) (c04_model_eq c) else 0.

(* non-trivial case: duplicates present, or the binary-search variant of IsValid was emitted *)
Definition c04_nontrivial (c : c04_case) : bool :=
  negb (Nat.eqb (length (values_spec (d_consts (k_def c)))) (length (d_consts (k_def c))))
  || Nat.ltb 15 (length (d_consts (k_def c))).
