(* GenDetStateModel.v — the PACKAGE STATE before a generation as an explicit input (C14: "runs made
   while a previous output file already sits in the package all write byte-identical files").
   No proofs here (GenDetStateProofs.v).

   All three generators start with gencommon.LoadPackages(g.InFile): go/packages loads and
   type-checks EVERY .go file of the package directory — the definition file, the other
   hand-written files, and whatever file currently sits where the output is about to be written
   (nothing; the previous output of the same configuration; the output of another configuration;
   a foreign file).  What the generators then read from the loaded package:

     (i)   the AST of the definition file and the constant values / struct tags / field names
           of the types named in -types: fixed by the source text, the same in every state;
     (ii)  go/types' answer to "does this type implement that interface" — the METHOD SET of
           a type, to which every file of the package contributes, the previous output included:
             genum/gen/traits.go implementsJSONUnmarshaler / implementsYAMLUnmarshaler /
             implementsTextUnmarshaler, asked of the type of every parsable trait; the answers
             select, per codec, between the trait's own Unmarshal method ("native parsing") and
             the cast family of its underlying kind (getParsableUnderlying, GetParsable...);
     (iii) gsort: FieldType.String() == "bool" (a type NAME, not a method set);
           gerror: field names and tags only.

   Go source (genum/gen)                                    model
   -----------------------------------------------------------------------------------------
   the loaded package, as far as (ii) goes                 decls = list (receiver type, method)
   package directory before the run                        pkg_state: PFresh | PPrev out (a file
                                                             at the output path declaring `out`;
                                                             a foreign / minimal file: PPrev [])
   LoadPackages                                            loaded src st = src ++ methods of st
   types.Implements(T, json/yaml/encoding Unmarshaler)     implements pk T codec
   TraitDesc.extractUnderlying                             pt_under (recorded per trait)
   GetParsable{JSON,YAML,Text}Unmarshalable                self_decoding
   getParsableUnderlying(u, implementsX)                   cast_family
   everything the template draws from them                 decode_plan (per codec: the traits
                                                             decoded natively, and per underlying
                                                             kind the traits decoded by a cast)
   the Unmarshal.. / Marshal.. / String ... methods the      genum_declares (what the output adds
     output file declares on every type of -types            to the package for the NEXT run)

   The rest of the generated file is a function of (i) alone.  So the output is independent of
   the package state exactly as far as decode_plan is.

   Three versions.  Current code (fix ac1d647): genum loads the package with the file at the output
   path overlaid by a bare package clause (gencommon.LoadPackagesIgnoring): the state is no input
   any more.  `_d8826bb` and `_orig` are records of the two earlier stages.  `_orig` (up to c36dccd): every answer comes from go/types.  Current code
   (fix d8826bb, genum/gen/generate.go generatedUnmarshalers + TraitDesc.generated): a trait type
   that is one of the enums of THIS invocation is described by what this invocation generates
   for it — json.Unmarshaler iff -json, yaml.Unmarshaler iff -yaml, neither when it is the enum
   being generated itself — whatever an older output declares; every other type keeps the
   go/types answer (`_d8826bb`: over the package INCLUDING the file at the output path).  encoding.TextUnmarshaler is asked with types.Implements on the value type:
   only value-receiver methods count, and the generated UnmarshalText has a pointer receiver.                                        *)
From Coq Require Import List Bool String.
Import ListNotations.
Local Open Scope string_scope.
Local Open Scope list_scope.

Inductive codec := CJSON | CYAML | CText.
Definition codecs : list codec := [CJSON; CYAML; CText].
Definition unmarshal_method (c : codec) : string :=
  match c with CJSON => "UnmarshalJSON" | CYAML => "UnmarshalYAML" | CText => "UnmarshalText" end.

(* a method declaration of a package: receiver type name, method name, pointer receiver? *)
Record mdecl := { md_type : string; md_name : string; md_ptr : bool }.
Definition decls := list mdecl.

Inductive pkg_state :=
| PFresh                       (* no file at the output path *)
| PPrev (out : decls).         (* a file there; `out` = the methods it declares *)

Definition state_decls (st : pkg_state) : decls :=
  match st with PFresh => [] | PPrev o => o end.
(* LoadPackages: the hand-written files plus whatever sits at the output path *)
Definition loaded (src : decls) (st : pkg_state) : decls := src ++ state_decls st.

(* the go/types answer.  json / yaml: gencommon.TypeImplements walks Named.Method(i), methods of
   both receiver kinds; text: types.Implements on the value type, value receivers only *)
Definition implements (pk : decls) (ty : string) (c : codec) : bool :=
  existsb (fun d => String.eqb (md_type d) ty && String.eqb (md_name d) (unmarshal_method c)
                    && match c with CText => negb (md_ptr d) | _ => true end) pk.

Inductive underlying := UString | UFloat64 | UFloat32 | UInt64 | UUint64 | UOther.
Definition underlyings : list underlying := [UString; UFloat64; UFloat32; UInt64; UUint64].
Definition under_eqb (a b : underlying) : bool :=
  match a, b with
  | UString, UString | UFloat64, UFloat64 | UFloat32, UFloat32 | UInt64, UInt64
  | UUint64, UUint64 | UOther, UOther => true
  | _, _ => false
  end.

(* a trait as the decoders see it; pt_type = the NAME of its (named) type, "" for a basic type *)
Record ptrait := { pt_name : string; pt_type : string; pt_parsable : bool;
                   pt_under : underlying }.

(* one invocation, as far as the decoders depend on it: the -types list, the enum whose traits
   are being described, the -json and -yaml switches *)
Record invocation := { iv_types : list string; iv_this : string; iv_json : bool; iv_yaml : bool }.
Definition mem_str (s : string) (l : list string) : bool := existsb (String.eqb s) l.

(* implementsJSONUnmarshaler & co. of the current code (TraitDesc.generated first): is go/types
   asked at all about this type and codec ... *)
Definition asks_types (iv : invocation) (ty : string) (c : codec) : bool :=
  match c with CText => true | _ => negb (mem_str ty (iv_types iv)) end.
(* ... and the answer *)
Definition implements_cur (iv : invocation) (pk : decls) (ty : string) (c : codec) : bool :=
  if asks_types iv ty c then implements pk ty c
  else if String.eqb ty (iv_this iv) then false
       else match c with CJSON => iv_json iv | _ => iv_yaml iv end.

Section Plan.
  Variable impl : string -> codec -> bool.     (* "does the type implement the codec's Unmarshaler" *)
  Definition self_decoding (c : codec) (ts : list ptrait) : list ptrait :=
    filter (fun t => pt_parsable t && impl (pt_type t) c) ts.
  Definition cast_family (c : codec) (u : underlying) (ts : list ptrait) : list ptrait :=
    filter (fun t => pt_parsable t && under_eqb (pt_under t) u && negb (impl (pt_type t) c)) ts.
  (* what the Unmarshal blocks of the template are built from *)
  Definition decode_plan (ts : list ptrait) : list (list ptrait * list (list ptrait)) :=
    map (fun c => (self_decoding c ts, map (fun u => cast_family c u ts) underlyings)) codecs.
End Plan.

(* the Unmarshal methods the generated file declares on each type of -types, by option; all
   three have pointer receivers *)
Definition genum_declares (types : list string) (json yaml text : bool) : decls :=
  flat_map (fun T => (if json then [{| md_type := T; md_name := "UnmarshalJSON"; md_ptr := true |}] else [])
                     ++ (if yaml then [{| md_type := T; md_name := "UnmarshalYAML"; md_ptr := true |}] else [])
                     ++ (if text then [{| md_type := T; md_name := "UnmarshalText"; md_ptr := true |}] else []))
           types.

(* fix ac1d647 (gencommon.LoadPackagesIgnoring, used by genum): the file at the output path is
   loaded as if it held nothing but the package clause, whatever it holds — the package the
   generator sees is the hand-written files alone *)
Definition loaded_overlaid (src : decls) (st : pkg_state) : decls := src.
(* one generation: the plan drawn from the package as the CURRENT genum loads it in state `st` *)
Definition genum_plan (iv : invocation) (src : decls) (st : pkg_state) (ts : list ptrait) :=
  decode_plan (implements_cur iv (loaded_overlaid src st)) ts.
(* d8826bb .. ac707f2: TraitDesc.generated already there, the package still loaded with whatever
   sat at the output path *)
Definition genum_plan_d8826bb (iv : invocation) (src : decls) (st : pkg_state) (ts : list ptrait) :=
  decode_plan (implements_cur iv (loaded src st)) ts.
Definition genum_plan_orig (src : decls) (st : pkg_state) (ts : list ptrait) :=
  decode_plan (implements (loaded src st)) ts.

(* the file at the output path gives no parsable trait's type an Unmarshal method that the
   decoders would ask go/types about: trait types of this invocation are exempt (current code) *)
Definition state_blind (iv : invocation) (st : pkg_state) (ts : list ptrait) : Prop :=
  forall t, In t ts -> pt_parsable t = true ->
  forall c, asks_types iv (pt_type t) c = true -> implements (state_decls st) (pt_type t) c = false.
Definition state_blind_orig (st : pkg_state) (ts : list ptrait) : Prop :=
  forall t, In t ts -> pt_parsable t = true ->
  forall c, implements (state_decls st) (pt_type t) c = false.
(* no parsable trait is typed by a type of the list *)
Definition no_selfref (types : list string) (ts : list ptrait) : Prop :=
  forall t, In t ts -> pt_parsable t = true -> ~ In (pt_type t) types.
(* every parsable trait typed by a type of `old` is typed by a type of `new` *)
Definition covers (new old : list string) (ts : list ptrait) : Prop :=
  forall t, In t ts -> pt_parsable t = true -> In (pt_type t) old -> In (pt_type t) new.

(* the audit's counterexample: `Red, _Kind = Color(iota), KA`, genum -types Kind,Color
   -parsableByTraits=Kind *)
Definition cx_traits : list ptrait :=
  [ {| pt_name := "Kind"; pt_type := "Kind"; pt_parsable := true; pt_under := UInt64 |} ].
Definition cx_types : list string := ["Kind"; "Color"].
Definition cx_inv : invocation :=
  {| iv_types := cx_types; iv_this := "Color"; iv_json := true; iv_yaml := true |}.
(* the residual: Kind dropped from -types while the output of `-types Kind,Color` is still there *)
Definition cx_inv_dropped : invocation :=
  {| iv_types := ["Color"]; iv_this := "Color"; iv_json := true; iv_yaml := true |}.
