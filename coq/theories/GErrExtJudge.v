(* GErrExtJudge.v — judgement of observed behaviour of generated extension types for C09
   (no proofs).  A case: one generated struct type (its extra fields with tags, the factory's
   field values and the zero renderings), the base fields shared by a plain GError factory and
   the extension factory, a chain of 1-2 method calls issued on both from the same function, and
   what was observed after every step: the accessor view of the base result and of the generated
   result, the head of the generated Error() (the text before the stack), whether the stack
   text follows as expected, and the result's field values (%v rendering, reflect.DeepEqual
   with the factory's field).
   Codes: 0 ok; 1 observation violates the specification; 2 satisfies it but differs from the
   model; 3 outside the domain.                                                              *)
From Coq Require Import NArith List Bool.
From GT Require Import Base.Verdict.
From GT Require Import Base.GErrStr.
From GT Require Import GErrModel GErrSpec GErrJudge.
Import ListNotations.

Record c09_case := {
  n_fields : list xfield;
  n_name : str; n_msg : str; n_src : str;
  n_steps : list step;
  n_base : list view;
  n_gen : list view;
  n_heads : list str;
  n_bheads : list str;          (* head of the BASE result's Error(): "the base rendering" *)
  n_suffix_ok : list bool;
  n_fvals : list (list (str * bool)) }.

Definition c09_st0 (c : c09_case) : store :=
  [ mkC (factory_of (new_gerr (n_name c) (n_msg c) (n_src c) false)) None;
    mkC (factory_of (new_gerr (n_name c) (n_msg c) (n_src c) false)) (Some (mkX 1 (n_fields c))) ].

Fixpoint strs_eqb (a b : list str) : bool :=
  match a, b with
  | [], [] => true
  | x :: a', y :: b' => str_eqb x y && strs_eqb a' b'
  | _, _ => false
  end.

(* ---- model ---- *)
Definition cell_at (st : store) (v : val) : option cell :=
  match as_gerror v with Some i => nth_error st i | None => None end.

Definition model_fvals (c : cell) : list str :=
  match c_x c with Some x => map f_val (x_fields x) | None => [] end.
Definition model_head (c : cell) : str :=
  match c_x c with Some x => ext_error_head (c_g c) x | None => error_head (c_g c) end.

Definition c09_model (c : c09_case) : option (list view * list view * list str * list (list str)) :=
  match derive_trace ext_wiring (c09_st0 c) (VG 0) (n_steps c) with
  | None => None
  | Some (stb, vb) =>
      match derive_trace ext_wiring (c09_st0 c) (VX 1) (n_steps c) with
      | None => None
      | Some (stg, vg) =>
          let cells := map (fun v => cell_at stg v) vg in
          Some (map (view_at stb) vb, map (view_at stg) vg,
                map (fun oc => match oc with Some cl => model_head cl | None => [] end) cells,
                map (fun oc => match oc with Some cl => model_fvals cl | None => [] end) cells)
      end
  end.

Fixpoint fvals_eqb (obs : list (list (str * bool))) (m : list (list str)) : bool :=
  match obs, m with
  | [], [] => true
  | o :: obs', x :: m' => strs_eqb (map fst o) x && fvals_eqb obs' m'
  | _, _ => false
  end.

(* ---- spec ---- *)
(* clone-tagged fields equal the factory's (same rendering, DeepEqual) *)
Fixpoint clone_ok (fs : list xfield) (obs : list (str * bool)) : bool :=
  match fs, obs with
  | [], [] => true
  | f :: fs', (v, deq) :: obs' =>
      (if f_clone f then deq && str_eqb v (f_val f) else true) && clone_ok fs' obs'
  | _, _ => false
  end.

(* the fields with the values observed on the result *)
Fixpoint with_vals (fs : list xfield) (obs : list (str * bool)) : list xfield :=
  match fs, obs with
  | f :: fs', (v, _) :: obs' =>
      mkF (f_name f) (f_tagged f) (f_tagname f) (f_opts f) v (f_zero f) :: with_vals fs' obs'
  | _, _ => []
  end.

Definition gerr_of_view (v : view) : gerr :=
  mkG (v_name v) (v_msg v) (v_src v) (v_dtag v) (v_stack v) VNil VNil [] false.

(* Error() = base prefix, the print-tagged fields under their print names, the message *)
Definition spec_head (fs : list xfield) (v : view) (obs : list (str * bool)) : str :=
  ext_error_head (gerr_of_view v) (mkX 1 (with_vals fs obs)).

(* "in addition to the base rendering", relationally: the base result's Error() head is
   P ++ M with M = "Message: " ++ its message; the generated head must be P ++ S ++ M where S is
   one segment per print-tagged field (print name, observed value) in field-name order.  Nothing
   here reads an extension field to render the base part: a struct field that shadows
   Name/Source/Message must not leak into P or M. *)
Definition print_segments (fs : list xfield) (obs : list (str * bool)) : str :=
  concat (map field_segment (fields_to_print (with_vals fs obs))).

Definition head_rel_ok (fs : list xfield) (bv : view) (bh h : str) (obs : list (str * bool)) : bool :=
  let lm := length lit_message + length (v_msg bv) in
  let k := length bh - lm in
  Nat.leb lm (length bh)
  && str_eqb (skipn k bh) (lit_message ++ v_msg bv)
  && str_eqb h (firstn k bh ++ print_segments fs obs ++ skipn k bh).

Fixpoint steps_ok (fs : list xfield) (base : list view) (bheads heads : list str) (suf : list bool)
         (fv : list (list (str * bool))) : bool :=
  match base, bheads, heads, suf, fv with
  | [], [], [], [], [] => true
  | bv :: base', bh :: bheads', h :: heads', s :: suf', o :: fv' =>
      clone_ok fs o && head_rel_ok fs bv bh h o && s && steps_ok fs base' bheads' heads' suf' fv'
  | _, _, _, _, _ => false
  end.

Definition c09_spec_ok (c : c09_case) : bool :=
  views_eqb (n_gen c) (n_base c)
  && steps_ok (n_fields c) (n_base c) (n_bheads c) (n_heads c) (n_suffix_ok c) (n_fvals c).

Definition c09_domain (c : c09_case) : bool :=
  forallb no_shortcut (n_steps c)
  && forallb derived_ok (map (eff_of base_wiring) (n_steps c))
  && negb (Nat.eqb (length (n_steps c)) 0).

Definition c09_judge (c : c09_case) : nat :=
  if negb (c09_domain c) then 3
  else verdict (c09_spec_ok c)
               (match c09_model c with
                | Some (mb, mg, mh, mf) =>
                    views_eqb (n_base c) mb && views_eqb (n_gen c) mg && strs_eqb (n_heads c) mh
                    && strs_eqb (n_bheads c) (map (fun v => error_head (gerr_of_view v)) mb)
                    && fvals_eqb (n_fvals c) mf
                | None => false
                end).

Definition c09_nontrivial (c : c09_case) : bool :=
  negb (Nat.eqb (length (n_fields c)) 0)
  && existsb (fun s => let e := eff_of base_wiring s in
                       nonempty (trim_space (e_msg e)) || nonempty (e_dtag e) || nonempty (e_src e)
                       || takes_stack (e_stack e)) (n_steps c).
