(* GConfCacheModel.v — executable mirror of the memo in /repo/gconfig/config.go (Get, MustGet,
   GetOrDefault, getFromCache).  No proofs here.

   Parameters of the model (Section variables, instantiated per case by the judge):
     ty, ty_eqb      result types T of Get[T] (identified by reflect.Type)
     is_iface T      T is an interface type (`any`): a null decodes to the nil interface
     type_name T     fmt.Sprintf("%T", zero T)             (pinned code only)
     conv key T      extractAndConvert[T](cfg.data, key): path walk + yaml re-marshal into T —
                     deterministic and independent of the cache (trusted, recorded per case
                     from a freshly loaded Config)

   Go source (current tree, after fixes C10-typed-cache-key and C10-nil-interface)    model
   --------------------------------------------------------------------------------   -----
   cached *xsync.MapOf[cacheKey, any], cacheKey{key, reflect.Type}                    cache
   getFromCache[T]: Compute(k, ...)  loaded -> old value                              get_cached
                                     else extractAndConvert; error -> not stored
                    one atomic step per request (xsync Compute; trusted)
                    if v == nil { return zero } ; return v.(T)
   Get / MustGet (panics with the error) / GetOrDefault (default on error)            run_op

   Pinned code (kept as get_cached_orig / run_op_orig): memo key = key + type_name T,
   then `v.(T)` on whatever the memo holds under that string.                            *)
From Coq Require Import List String Bool Arith.
From GT Require Import GConfModel.
Import ListNotations.
Local Open Scope string_scope.

(* a converted value: VNil = the nil interface (only for interface result types) *)
Inductive val := VNil | V (s : string).

Inductive outcome :=
| OVal (v : val)        (* value, nil error *)
| OErr                  (* error returned *)
| OMustPanic            (* MustGet panicking with the error (allowed by the property) *)
| OPanic.               (* any other panic *)

Section Cache.
  Variable ty : Type.
  Variable ty_eqb : ty -> ty -> bool.
  Variable is_iface : ty -> bool.
  Variable type_name : ty -> string.
  Variable conv : string -> ty -> res val.

  Inductive op :=
  | Get (key : string) (T : ty)
  | MustGet (key : string) (T : ty)
  | GetOrDefault (key : string) (T : ty) (dflt : val).

  (* ------------------------------------------------------------ repaired code *)
  Definition cache := list ((string * ty) * val).

  Fixpoint lookup (key : string) (T : ty) (c : cache) : option val :=
    match c with
    | [] => None
    | ((k, T0), v) :: rest =>
        if String.eqb key k && ty_eqb T T0 then Some v else lookup key T rest
    end.

  Definition get_cached (c : cache) (key : string) (T : ty) : cache * outcome :=
    match lookup key T c with
    | Some v => (c, OVal v)
    | None =>
        match conv key T with
        | Err => (c, OErr)
        | Ok v => (((key, T), v) :: c, OVal v)
        end
    end.

  Definition finish (o : op) (r : outcome) : outcome :=
    match o, r with
    | MustGet _ _, OErr => OMustPanic
    | GetOrDefault _ _ d, OErr => OVal d
    | _, r => r
    end.

  Definition op_key (o : op) : string :=
    match o with Get k _ | MustGet k _ | GetOrDefault k _ _ => k end.
  Definition op_ty (o : op) : ty :=
    match o with Get _ T | MustGet _ T | GetOrDefault _ T _ => T end.

  Definition run_op (c : cache) (o : op) : cache * outcome :=
    let (c', r) := get_cached c (op_key o) (op_ty o) in (c', finish o r).

  (* outcomes of a whole history, starting from a cache *)
  Fixpoint run (c : cache) (h : list op) : list outcome :=
    match h with
    | [] => []
    | o :: rest => let (c', r) := run_op c o in r :: run c' rest
    end.

  Fixpoint final_cache (c : cache) (h : list op) : cache :=
    match h with
    | [] => c
    | o :: rest => final_cache (fst (run_op c o)) rest
    end.

  (* the same request on a freshly loaded Config *)
  Definition fresh (o : op) : outcome := snd (run_op [] o).

  (* ------------------------------------------------------------ pinned code *)
  Definition cache_o := list (string * (ty * val)).

  (* v.(T) on a memo entry stored for T0 *)
  Definition assert_orig (T0 : ty) (v : val) (T : ty) : outcome :=
    match v with
    | VNil => OPanic                      (* interface conversion: interface is nil *)
    | V _ => if is_iface T then OVal v else if ty_eqb T0 T && negb (is_iface T0) then OVal v else OPanic
    end.

  Definition get_cached_orig (c : cache_o) (key : string) (T : ty) : cache_o * outcome :=
    let k := key ++ type_name T in
    match assoc k c with
    | Some (T0, v) => (c, assert_orig T0 v T)
    | None =>
        match conv key T with
        | Err => (c, OErr)
        | Ok v => ((k, (T, v)) :: c, assert_orig T v T)
        end
    end.

  Definition run_op_orig (c : cache_o) (o : op) : cache_o * outcome :=
    let (c', r) := get_cached_orig c (op_key o) (op_ty o) in (c', finish o r).

  Fixpoint run_orig (c : cache_o) (h : list op) : list outcome :=
    match h with
    | [] => []
    | o :: rest => let (c', r) := run_op_orig c o in r :: run_orig c' rest
    end.

  (* ------------------------------------------------------------ specification
     every request answers as extractAndConvert on the loaded document would: the value, or
     the error (MustGet: the panic carrying it; GetOrDefault: the default) — never another
     panic, and independently of every earlier request *)
  Definition spec (o : op) : outcome :=
    finish o (match conv (op_key o) (op_ty o) with Ok v => OVal v | Err => OErr end).
End Cache.

Arguments Get {ty} key T.
Arguments MustGet {ty} key T.
Arguments GetOrDefault {ty} key T dflt.
