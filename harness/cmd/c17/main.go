// c17 — encodes set.Set values of the current tree with encoding/json and yaml.v3, decodes the
// documents into nil, empty and pre-filled targets (standalone and as struct fields) and
// records what came out, mapped to indices of the element universe.
//
// Besides the document the set's own Marshal produced (whose element order is the runtime's map
// order of that run) the same document is decoded again with its ELEMENT DOCUMENTS RE-ORDERED
// (ascending, descending and one seeded shuffle of the universe indices): the raw element
// encodings are taken from the real document (json.RawMessage / yaml.Node), only their order
// changes — every such document is an encoding the set could have produced in another run, and
// decoding must yield the same membership.  This makes order-dependent defects (decoding of
// element k depending on element k-1) deterministic to find.
//
// Element types: string, int, float, bool, a plain struct, and struct types whose decoding INTO
// AN EXISTING VALUE differs from decoding into a fresh one: omitempty fields (opt), nested and
// embedded structs with omitempty fields (nested), arrays of such structs (arr), an interface
// field (iface) and a type with its own Marshal/Unmarshal methods that omit zero fields and
// merge on decoding (custom).
//
//	c17 -seed N -out PREFIX -mode random|corpus -n COUNT
package main

import (
	"bytes"
	"encoding/json"
	"flag"
	"fmt"
	"math"
	"math/rand/v2"
	"os"
	"sort"
	"strings"

	"gopkg.in/yaml.v3"

	"github.com/drshriveer/gtools/set"

	"gtverif/internal/gal"
)

type pt struct {
	A int    `json:"a" yaml:"a"`
	B string `json:"b" yaml:"b"`
}

// opt: every field but Name may be left out of the encoding.
type opt struct {
	Name   string `json:"name" yaml:"name"`
	Weight int    `json:"weight,omitempty" yaml:"weight,omitempty"`
	Tag    string `json:"tag,omitempty" yaml:"tag,omitempty"`
	On     bool   `json:"on,omitempty" yaml:"on,omitempty"`
}

type inner struct {
	X int    `json:"x,omitempty" yaml:"x,omitempty"`
	Y string `json:"y,omitempty" yaml:"y,omitempty"`
}

type Emb struct {
	Z int `json:"z,omitempty" yaml:"z,omitempty"`
}

type nested struct {
	ID  int   `json:"id" yaml:"id"`
	In  inner `json:"in" yaml:"in"`
	Emb `yaml:",inline"`
}

type optS struct {
	A int    `json:"a,omitempty" yaml:"a,omitempty"`
	B string `json:"b,omitempty" yaml:"b,omitempty"`
}

type arr [2]optS

type iface struct {
	K string `json:"k" yaml:"k"`
	V any    `json:"v,omitempty" yaml:"v,omitempty"`
}

// cust encodes itself as an object that lists only its non-zero fields and, on decoding, sets
// only the fields the object lists (a fresh value therefore round-trips).
type cust struct{ A, B int }

func (c cust) asMap() map[string]int {
	m := map[string]int{}
	if c.A != 0 {
		m["a"] = c.A
	}
	if c.B != 0 {
		m["b"] = c.B
	}
	return m
}

func (c *cust) fromMap(m map[string]int) {
	if v, ok := m["a"]; ok {
		c.A = v
	}
	if v, ok := m["b"]; ok {
		c.B = v
	}
}

func (c cust) MarshalJSON() ([]byte, error) { return json.Marshal(c.asMap()) }
func (c *cust) UnmarshalJSON(d []byte) error {
	var m map[string]int
	if err := json.Unmarshal(d, &m); err != nil {
		return err
	}
	c.fromMap(m)
	return nil
}
func (c cust) MarshalYAML() (any, error) { return c.asMap(), nil }
func (c *cust) UnmarshalYAML(n *yaml.Node) error {
	var m map[string]int
	if err := n.Decode(&m); err != nil {
		return err
	}
	c.fromMap(m)
	return nil
}

// sp: two string fields — different values may have the same printed form ({"a b", ""} and
// {"a", "b "} both print as {a b }), as may an `any` field holding the string "true" and the
// boolean true.  An implementation that identifies members by their %v text conflates them.
type sp struct {
	A string `json:"a" yaml:"a"`
	B string `json:"b" yaml:"b"`
}

type perm struct {
	Order  []int  `json:"order"`
	Doc    string `json:"doc"`
	DecErr string `json:"dec_err,omitempty"`
	Result []int  `json:"result"`
}

type jcase struct {
	Kind     string `json:"kind"`
	Elem     string `json:"elem"`
	Codec    string `json:"codec"`
	Field    bool   `json:"as_struct_field"`
	N        int    `json:"universe"`
	Src      []int  `json:"src"`
	SrcNil   bool   `json:"src_nil"`
	Tgt      []int  `json:"tgt"`
	TgtNil   bool   `json:"tgt_nil"`
	Doc      string `json:"doc"`
	EncErr   string `json:"enc_err,omitempty"`
	EncNull  bool   `json:"enc_null"`
	Listing  []int  `json:"enc_listing"`
	DecErr   string `json:"dec_err,omitempty"`
	Result   []int  `json:"result"`
	PlainErr string `json:"plain_decode_err,omitempty"`
	Perms    []perm `json:"perms,omitempty"`
	PermSeed uint64 `json:"perm_seed"`
	PermNote string `json:"perm_note,omitempty"`
}

type wrap[T comparable] struct {
	S set.Set[T] `json:"s" yaml:"s"`
}

func indices[T comparable](univ []T, xs []T) []int {
	index := make(map[T]int, len(univ))
	for i, u := range univ {
		index[u] = i
	}
	out := make([]int, 0, len(xs))
	for _, x := range xs {
		k, ok := index[x]
		if !ok {
			k = -1
		}
		out = append(out, k)
	}
	sort.Ints(out)
	return out
}

func pick[T any](univ []T, idx []int) []T {
	out := make([]T, len(idx))
	for i, k := range idx {
		out[i] = univ[k]
	}
	return out
}

func one[T comparable](c *jcase, univ []T) {
	var s set.Set[T]
	if !c.SrcNil {
		s = set.Make(pick(univ, c.Src)...)
	}
	var t set.Set[T]
	if !c.TgtNil {
		t = set.Make(pick(univ, c.Tgt)...)
	}
	yml := c.Codec == "yaml"
	var data []byte
	var err error
	// encode (a panic of the encoder is an encoding error of this case)
	func() {
		defer func() {
			if r := recover(); r != nil {
				err = fmt.Errorf("panic: %v", r)
			}
		}()
		if c.Field {
			if yml {
				data, err = yaml.Marshal(wrap[T]{S: s})
			} else {
				data, err = json.Marshal(wrap[T]{S: s})
			}
		} else {
			if yml {
				data, err = yaml.Marshal(s)
			} else {
				data, err = json.Marshal(s)
			}
		}
	}()
	if err != nil {
		c.EncErr = err.Error()
		return
	}
	c.Doc = string(data)
	// what the document lists, through the plain library
	var plain []T
	var perr error
	if c.Field {
		var pw struct {
			S []T `json:"s" yaml:"s"`
		}
		if yml {
			perr = yaml.Unmarshal(data, &pw)
		} else {
			perr = json.Unmarshal(data, &pw)
		}
		plain = pw.S
		if yml {
			c.EncNull = strings.TrimSpace(c.Doc) == "s: null"
		} else {
			c.EncNull = bytes.Equal(bytes.TrimSpace(data), []byte(`{"s":null}`))
		}
	} else {
		if yml {
			perr = yaml.Unmarshal(data, &plain)
			c.EncNull = strings.TrimSpace(c.Doc) == "null"
		} else {
			perr = json.Unmarshal(data, &plain)
			c.EncNull = bytes.Equal(bytes.TrimSpace(data), []byte("null"))
		}
	}
	if perr != nil {
		c.PlainErr = perr.Error()
	}
	c.Listing = indices(univ, plain)
	// decode into the target
	res, derr := decodeInto(c, data, t)
	c.DecErr = derr
	c.Result = indices(univ, res)
	// the same document with its element documents in other orders
	reorder(c, univ, data)
}

// decodeInto decodes the document into (a set with the members of) t and returns the members afterwards.
func decodeInto[T comparable](c *jcase, data []byte, t set.Set[T]) (members []T, derr string) {
	// a panic inside the decoder (yaml.v3 re-panics what an UnmarshalYAML method panics with) is
	// a decode failure of this case, not the end of the harness
	defer func() {
		if r := recover(); r != nil {
			members, derr = t.Slice(), fmt.Sprint("panic: ", r)
		}
	}()
	yml := c.Codec == "yaml"
	var err error
	if c.Field {
		w := wrap[T]{S: t}
		if yml {
			err = yaml.Unmarshal(data, &w)
		} else {
			err = json.Unmarshal(data, &w)
		}
		t = w.S
	} else {
		if yml {
			err = yaml.Unmarshal(data, &t)
		} else {
			err = json.Unmarshal(data, &t)
		}
	}
	if err != nil {
		return t.Slice(), err.Error()
	}
	return t.Slice(), ""
}

// reorder takes the element documents of the real encoding, identifies each (decoded alone,
// into a fresh value, by the plain library), and decodes re-assembled documents that list them
// in ascending, descending and one seeded-shuffle order of their universe indices.
func reorder[T comparable](c *jcase, univ []T, data []byte) {
	index := make(map[T]int, len(univ))
	for i, u := range univ {
		index[u] = i
	}
	yml := c.Codec == "yaml"
	type el struct {
		idx  int
		raw  json.RawMessage
		node *yaml.Node
	}
	var els []el
	var root yaml.Node
	var seq *yaml.Node
	if yml {
		if err := yaml.Unmarshal(data, &root); err != nil || root.Kind != yaml.DocumentNode || len(root.Content) != 1 {
			c.PermNote = "document does not parse as one YAML document"
			return
		}
		seq = root.Content[0]
		if c.Field {
			if seq.Kind != yaml.MappingNode || len(seq.Content) != 2 {
				c.PermNote = "struct field document is not a one-key mapping"
				return
			}
			seq = seq.Content[1]
		}
		if seq.Kind != yaml.SequenceNode {
			return // null / scalar: nothing to re-order
		}
		for _, n := range seq.Content {
			var x T
			if err := n.Decode(&x); err != nil {
				c.PermNote = "element document does not decode alone: " + err.Error()
				return
			}
			k, ok := index[x]
			if !ok {
				c.PermNote = "element document decodes to a value outside the universe"
				return
			}
			els = append(els, el{idx: k, node: n})
		}
	} else {
		var raws []json.RawMessage
		var err error
		if c.Field {
			var w struct {
				S []json.RawMessage `json:"s"`
			}
			err = json.Unmarshal(data, &w)
			raws = w.S
		} else {
			err = json.Unmarshal(data, &raws)
		}
		if err != nil {
			c.PermNote = "document is not an array: " + err.Error()
			return
		}
		for _, raw := range raws {
			var x T
			if err := json.Unmarshal(raw, &x); err != nil {
				c.PermNote = "element document does not decode alone: " + err.Error()
				return
			}
			k, ok := index[x]
			if !ok {
				c.PermNote = "element document decodes to a value outside the universe"
				return
			}
			els = append(els, el{idx: k, raw: raw})
		}
	}
	if len(els) < 2 {
		return
	}
	asc := append([]el(nil), els...)
	sort.SliceStable(asc, func(i, j int) bool { return asc[i].idx < asc[j].idx })
	desc := make([]el, len(asc))
	for i := range asc {
		desc[len(asc)-1-i] = asc[i]
	}
	shuf := append([]el(nil), asc...)
	pr := gal.NewRand(c.PermSeed)
	pr.Shuffle(len(shuf), func(i, j int) { shuf[i], shuf[j] = shuf[j], shuf[i] })
	for _, order := range [][]el{asc, desc, shuf} {
		var doc []byte
		if yml {
			seq.Content = seq.Content[:0:0]
			for _, e := range order {
				seq.Content = append(seq.Content, e.node)
			}
			var err error
			doc, err = yaml.Marshal(&root)
			if err != nil {
				c.PermNote = "re-assembled document does not encode: " + err.Error()
				return
			}
		} else {
			var b bytes.Buffer
			if c.Field {
				b.WriteString(`{"s":`)
			}
			b.WriteByte('[')
			for i, e := range order {
				if i > 0 {
					b.WriteByte(',')
				}
				b.Write(e.raw)
			}
			b.WriteByte(']')
			if c.Field {
				b.WriteByte('}')
			}
			doc = b.Bytes()
		}
		var t set.Set[T]
		if !c.TgtNil {
			t = set.Make(pick(univ, c.Tgt)...)
		}
		res, derr := decodeInto(c, doc, t)
		p := perm{Doc: string(doc), DecErr: derr, Result: indices(univ, res)}
		for _, e := range order {
			p.Order = append(p.Order, e.idx)
		}
		c.Perms = append(c.Perms, p)
	}
}

var strUniv = []string{"", "a", "A", "é", "日本", "true", "null", "1", "1.5", "~", "a b", " lead", "trail ", "x: y",
	"- z", "#c", "'q'", "\"dq\"", "line\nbreak", "tab\t", "no", "yes", "0x10", "[]", "{}", "*ref", "&anc", "!tag", "|", ">",
	"%", "@", "`", ",", "?", ":", "-", "null ", "Null", "NULL", "True", "off", "1e3", ".inf", ".nan", "2001-01-01", "0o7", " ", "\U0001F600", "\\"}

func universe(elem string, n int, c *jcase) {
	switch elem {
	case "string":
		one(c, strUniv[:n])
	case "int":
		u := make([]int, n)
		for i := range u {
			if i < 6 {
				u[i] = []int{0, 1, -1, math.MaxInt64, math.MinInt64, 42}[i]
			} else {
				u[i] = i*13 + 100
			}
		}
		one(c, u)
	case "float":
		u := make([]float64, n)
		for i := range u {
			if i < 8 {
				u[i] = []float64{0, 0.5, -1.25, 1e100, 3, math.SmallestNonzeroFloat64, math.MaxFloat64, -2}[i]
			} else {
				u[i] = float64(i)*0.25 + 10
			}
		}
		one(c, u)
	case "bool":
		one(c, []bool{false, true}[:n])
	case "opt": // consecutive indices alternate between present and omitted optional fields
		u := make([]opt, n)
		for i := range u {
			u[i] = opt{Weight: []int{5, 0, 7}[i%3], Name: []string{"a", "", "b c"}[(i/3)%3], Tag: []string{"", "t"}[(i/9)%2], On: (i/18)%2 == 1}
		}
		one(c, u)
	case "nested":
		u := make([]nested, n)
		for i := range u {
			u[i] = nested{In: inner{X: []int{3, 0, 4}[i%3], Y: []string{"", "y"}[(i/9)%2]}, ID: (i / 3) % 3, Emb: Emb{Z: []int{0, 9}[(i/18)%2]}}
		}
		one(c, u)
	case "arr":
		u := make([]arr, n)
		mk := func(k int) optS { return optS{A: []int{1, 0}[k%2], B: []string{"", "b"}[k/2]} }
		for i := range u {
			u[i] = arr{mk(i % 4), mk((i / 4) % 4)}
		}
		one(c, u)
	case "iface":
		u := make([]iface, n)
		for i := range u {
			u[i] = iface{V: []any{"x", nil, true, 0.5}[i%4], K: []string{"a", "b", ""}[(i/4)%3]}
		}
		one(c, u)
	case "sp":
		u := make([]sp, n)
		as := []string{"a b", "a", "a ", "", "a b "}
		bs := []string{"", "b ", " b", "b", " "}
		for i := range u {
			u[i] = sp{A: as[i%5], B: bs[(i/5)%5]}
		}
		one(c, u)
	case "ifacetxt": // an `any` field whose values print alike: "true"/true, "0.5"/0.5, "<nil>"/nil
		u := make([]iface, n)
		for i := range u {
			u[i] = iface{V: []any{"true", true, "0.5", 0.5, "<nil>", nil}[i%6], K: []string{"a", "a b"}[(i/6)%2]}
		}
		one(c, u)
	case "custom":
		u := make([]cust, n)
		for i := range u {
			u[i] = cust{A: []int{2, 0, 1, 3}[i%4], B: []int{0, 5, 6, 7}[(i/4)%4]}
		}
		one(c, u)
	case "struct":
		u := make([]pt, n)
		for i := range u {
			u[i] = pt{A: i / 3, B: []string{"", "x", "null"}[i%3]}
		}
		one(c, u)
	default:
		panic("unknown element type " + elem)
	}
}

// maxUniverse is the largest universe of distinct values each element type offers.
var maxUniverse = map[string]int{"string": len(strUniv), "bool": 2, "int": 50, "float": 50, "struct": 50,
	"opt": 36, "nested": 36, "arr": 16, "iface": 12, "custom": 16, "sp": 25, "ifacetxt": 12}

// mergeable lists the element types whose decoding into an existing value differs from decoding into a fresh one.
var mergeable = []string{"opt", "nested", "arr", "iface", "custom", "sp", "ifacetxt"}

func galInts(a []int) string {
	return gal.ListOf(a, func(i int) string { return gal.Z(int64(i)) })
}

func emit(out *gal.Out, c jcase) {
	if c.N > maxUniverse[c.Elem] {
		panic(fmt.Sprintf("universe of %s has only %d values", c.Elem, maxUniverse[c.Elem]))
	}
	universe(c.Elem, c.N, &c)
	univ := make([]int, c.N)
	for i := range univ {
		univ[i] = i
	}
	tgt := "None"
	if !c.TgtNil {
		tgt = "(Some " + galInts(c.Tgt) + ")"
	}
	// an encoding error or a plain-decode error is reported as a decode error of the case
	decErr := c.DecErr != "" || c.EncErr != "" || c.PlainErr != ""
	g := "{| cc_yaml := " + gal.Bool(c.Codec == "yaml") + "; cc_univ := " + galInts(univ) +
		"; cc_src := " + galInts(c.Src) + "; cc_src_nil := " + gal.Bool(c.SrcNil) + "; cc_tgt := " + tgt +
		"; cc_enc_null := " + gal.Bool(c.EncNull) + "; cc_enc_listing := " + galInts(c.Listing) +
		"; cc_dec_err := " + gal.Bool(decErr) + "; cc_result := " + galInts(c.Result) +
		"; cc_perms := " + gal.ListOf(c.Perms, func(p perm) string {
		return gal.Pair(galInts(p.Order), gal.Pair(gal.Bool(p.DecErr != ""), galInts(p.Result)))
	}) + " |}"
	out.Case(g, c)
}

func subset(r *rand.Rand, n, max int, repeats bool) []int {
	k := r.IntN(max + 1)
	a := make([]int, 0, k)
	for i := 0; i < k; i++ {
		if repeats && i > 0 && r.IntN(4) == 0 {
			a = append(a, a[r.IntN(i)])
		} else {
			a = append(a, r.IntN(n))
		}
	}
	return a
}

func randomCase(r *rand.Rand, out *gal.Out) {
	elems := []string{"string", "string", "int", "float", "bool", "struct", "opt", "opt", "nested", "arr", "iface", "custom", "sp", "ifacetxt"}
	c := jcase{Kind: "random", Elem: elems[r.IntN(len(elems))], Codec: []string{"json", "yaml"}[r.IntN(2)], Field: r.IntN(3) == 0,
		PermSeed: r.Uint64()}
	switch c.Elem {
	case "bool":
		c.N = 2
	default:
		c.N = 3 + r.IntN(maxUniverse[c.Elem]-2)
	}
	max := c.N
	if max > 50 {
		max = 50
	}
	switch r.IntN(6) {
	case 0:
		c.SrcNil = true
	case 1: // empty, non-nil
	default:
		c.Src = subset(r, c.N, max, true)
	}
	switch r.IntN(4) {
	case 0:
		c.TgtNil = true
	case 1: // empty target
	default:
		c.Tgt = subset(r, c.N, max/2+1, true)
	}
	emit(out, c)
}

func main() {
	seed := flag.Uint64("seed", 1, "PRNG seed")
	prefix := flag.String("out", "c17", "output prefix")
	mode := flag.String("mode", "random", "random|corpus|file")
	in := flag.String("in", "", "file mode: JSON lines of cases (inputs only) to execute")
	n := flag.Int("n", 300, "number of random cases")
	flag.Parse()
	r := gal.NewRand(*seed)
	out := gal.NewOut(*prefix)
	defer out.Close()
	if *mode == "file" {
		data, err := os.ReadFile(*in)
		if err != nil {
			panic(err)
		}
		for _, line := range strings.Split(strings.TrimSpace(string(data)), "\n") {
			var c jcase
			if err := json.Unmarshal([]byte(line), &c); err != nil {
				panic(err)
			}
			emit(out, jcase{Kind: c.Kind, Elem: c.Elem, Codec: c.Codec, Field: c.Field, N: c.N, Src: c.Src, SrcNil: c.SrcNil,
				Tgt: c.Tgt, TgtNil: c.TgtNil, PermSeed: c.PermSeed})
		}
		return
	}
	if *mode == "corpus" {
		for _, codec := range []string{"json", "yaml"} {
			for _, field := range []bool{false, true} {
				all := make([]int, len(strUniv))
				for i := range all {
					all[i] = i
				}
				emit(out, jcase{Kind: "corpus", Elem: "string", Codec: codec, Field: field, N: len(strUniv), Src: all, TgtNil: true})
				emit(out, jcase{Kind: "corpus", Elem: "string", Codec: codec, Field: field, N: 8, SrcNil: true, Tgt: []int{0, 5, 6}})
				emit(out, jcase{Kind: "corpus", Elem: "string", Codec: codec, Field: field, N: 8, Src: nil, TgtNil: true})
				emit(out, jcase{Kind: "corpus", Elem: "bool", Codec: codec, Field: field, N: 2, Src: []int{0, 1}, Tgt: []int{1}})
				emit(out, jcase{Kind: "corpus", Elem: "float", Codec: codec, Field: field, N: 8, Src: []int{0, 1, 2, 3, 4, 5, 6, 7}, Tgt: nil})
				emit(out, jcase{Kind: "corpus", Elem: "int", Codec: codec, Field: field, N: 6, Src: []int{3, 4}, Tgt: []int{0}})
				emit(out, jcase{Kind: "corpus", Elem: "struct", Codec: codec, Field: field, N: 6, Src: []int{0, 1, 2, 5}, Tgt: []int{2, 3}})
				// element types that merge into an existing value: the whole universe, and a pair of
				// neighbours (one with, one without its optional fields) next to a pre-filled target
				for _, elem := range mergeable {
					n := maxUniverse[elem]
					all := make([]int, n)
					for i := range all {
						all[i] = i
					}
					emit(out, jcase{Kind: "corpus", Elem: elem, Codec: codec, Field: field, N: n, Src: all, TgtNil: true, PermSeed: 1})
					emit(out, jcase{Kind: "corpus", Elem: elem, Codec: codec, Field: field, N: n, Src: []int{0, 1}, Tgt: []int{2}, PermSeed: 2})
					emit(out, jcase{Kind: "corpus", Elem: elem, Codec: codec, Field: field, N: n, Src: []int{1, 2, n - 1}, Tgt: nil, PermSeed: 3})
				}
			}
		}
		return
	}
	for i := 0; i < *n; i++ {
		randomCase(r, out)
	}
}
