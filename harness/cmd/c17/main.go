// c17 — encodes set.Set values of the current tree with encoding/json and yaml.v3, decodes the
// documents into nil, empty and pre-filled targets (standalone and as struct fields) and
// records what came out, mapped to indices of the element universe.
//
//	c17 -seed N -out PREFIX -mode random|corpus -n COUNT
package main

import (
	"bytes"
	"encoding/json"
	"flag"
	"math"
	"math/rand/v2"
	"sort"
	"strings"

	"gopkg.in/yaml.v3"

	"github.com/drshriveer/gtools/set"

	"gtverif/internal/gal"
)

type pt struct {
	A int    `json:"a" yaml:"a"`
	B string `json:"b" yaml:"b"`
}

type jcase struct {
	Kind     string `json:"kind"`
	Elem     string `json:"elem"`
	Codec    string `json:"codec"`
	Field    bool   `json:"as_struct_field"`
	N        int    `json:"universe"`
	Src      []int  `json:"src"`
	SrcNil   bool   `json:"src_nil"`
	Tgt      []int  `json:"tgt"`
	TgtNil   bool   `json:"tgt_nil"`
	Doc      string `json:"doc"`
	EncErr   string `json:"enc_err,omitempty"`
	EncNull  bool   `json:"enc_null"`
	Listing  []int  `json:"enc_listing"`
	DecErr   string `json:"dec_err,omitempty"`
	Result   []int  `json:"result"`
	PlainErr string `json:"plain_decode_err,omitempty"`
}

type wrap[T comparable] struct {
	S set.Set[T] `json:"s" yaml:"s"`
}

func indices[T comparable](univ []T, xs []T) []int {
	index := make(map[T]int, len(univ))
	for i, u := range univ {
		index[u] = i
	}
	out := make([]int, 0, len(xs))
	for _, x := range xs {
		k, ok := index[x]
		if !ok {
			k = -1
		}
		out = append(out, k)
	}
	sort.Ints(out)
	return out
}

func pick[T any](univ []T, idx []int) []T {
	out := make([]T, len(idx))
	for i, k := range idx {
		out[i] = univ[k]
	}
	return out
}

func one[T comparable](c *jcase, univ []T) {
	var s set.Set[T]
	if !c.SrcNil {
		s = set.Make(pick(univ, c.Src)...)
	}
	var t set.Set[T]
	if !c.TgtNil {
		t = set.Make(pick(univ, c.Tgt)...)
	}
	yml := c.Codec == "yaml"
	var data []byte
	var err error
	// encode
	if c.Field {
		if yml {
			data, err = yaml.Marshal(wrap[T]{S: s})
		} else {
			data, err = json.Marshal(wrap[T]{S: s})
		}
	} else {
		if yml {
			data, err = yaml.Marshal(s)
		} else {
			data, err = json.Marshal(s)
		}
	}
	if err != nil {
		c.EncErr = err.Error()
		return
	}
	c.Doc = string(data)
	// what the document lists, through the plain library
	var plain []T
	var perr error
	if c.Field {
		var pw struct {
			S []T `json:"s" yaml:"s"`
		}
		if yml {
			perr = yaml.Unmarshal(data, &pw)
		} else {
			perr = json.Unmarshal(data, &pw)
		}
		plain = pw.S
		if yml {
			c.EncNull = strings.TrimSpace(c.Doc) == "s: null"
		} else {
			c.EncNull = bytes.Equal(bytes.TrimSpace(data), []byte(`{"s":null}`))
		}
	} else {
		if yml {
			perr = yaml.Unmarshal(data, &plain)
			c.EncNull = strings.TrimSpace(c.Doc) == "null"
		} else {
			perr = json.Unmarshal(data, &plain)
			c.EncNull = bytes.Equal(bytes.TrimSpace(data), []byte("null"))
		}
	}
	if perr != nil {
		c.PlainErr = perr.Error()
	}
	c.Listing = indices(univ, plain)
	// decode into the target
	if c.Field {
		w := wrap[T]{S: t}
		if yml {
			err = yaml.Unmarshal(data, &w)
		} else {
			err = json.Unmarshal(data, &w)
		}
		t = w.S
	} else {
		if yml {
			err = yaml.Unmarshal(data, &t)
		} else {
			err = json.Unmarshal(data, &t)
		}
	}
	if err != nil {
		c.DecErr = err.Error()
	}
	c.Result = indices(univ, t.Slice())
}

var strUniv = []string{"", "a", "A", "é", "日本", "true", "null", "1", "1.5", "~", "a b", " lead", "trail ", "x: y",
	"- z", "#c", "'q'", "\"dq\"", "line\nbreak", "tab\t", "no", "yes", "0x10", "[]", "{}", "*ref", "&anc", "!tag", "|", ">",
	"%", "@", "`", ",", "?", ":", "-", "null ", "Null", "NULL", "True", "off", "1e3", ".inf", ".nan", "2001-01-01", "0o7", " ", "\U0001F600", "\\"}

func universe(elem string, n int, c *jcase) {
	switch elem {
	case "string":
		one(c, strUniv[:n])
	case "int":
		u := make([]int, n)
		for i := range u {
			if i < 6 {
				u[i] = []int{0, 1, -1, math.MaxInt64, math.MinInt64, 42}[i]
			} else {
				u[i] = i*13 + 100
			}
		}
		one(c, u)
	case "float":
		u := make([]float64, n)
		for i := range u {
			if i < 8 {
				u[i] = []float64{0, 0.5, -1.25, 1e100, 3, math.SmallestNonzeroFloat64, math.MaxFloat64, -2}[i]
			} else {
				u[i] = float64(i)*0.25 + 10
			}
		}
		one(c, u)
	case "bool":
		one(c, []bool{false, true}[:n])
	default:
		u := make([]pt, n)
		for i := range u {
			u[i] = pt{A: i / 3, B: []string{"", "x", "null"}[i%3]}
		}
		one(c, u)
	}
}

func galInts(a []int) string {
	return gal.ListOf(a, func(i int) string { return gal.Z(int64(i)) })
}

func emit(out *gal.Out, c jcase) {
	universe(c.Elem, c.N, &c)
	univ := make([]int, c.N)
	for i := range univ {
		univ[i] = i
	}
	tgt := "None"
	if !c.TgtNil {
		tgt = "(Some " + galInts(c.Tgt) + ")"
	}
	// an encoding error or a plain-decode error is reported as a decode error of the case
	decErr := c.DecErr != "" || c.EncErr != "" || c.PlainErr != ""
	g := "{| cc_yaml := " + gal.Bool(c.Codec == "yaml") + "; cc_univ := " + galInts(univ) +
		"; cc_src := " + galInts(c.Src) + "; cc_src_nil := " + gal.Bool(c.SrcNil) + "; cc_tgt := " + tgt +
		"; cc_enc_null := " + gal.Bool(c.EncNull) + "; cc_enc_listing := " + galInts(c.Listing) +
		"; cc_dec_err := " + gal.Bool(decErr) + "; cc_result := " + galInts(c.Result) + " |}"
	out.Case(g, c)
}

func subset(r *rand.Rand, n, max int, repeats bool) []int {
	k := r.IntN(max + 1)
	a := make([]int, 0, k)
	for i := 0; i < k; i++ {
		if repeats && i > 0 && r.IntN(4) == 0 {
			a = append(a, a[r.IntN(i)])
		} else {
			a = append(a, r.IntN(n))
		}
	}
	return a
}

func randomCase(r *rand.Rand, out *gal.Out) {
	elems := []string{"string", "string", "int", "float", "bool", "struct"}
	c := jcase{Kind: "random", Elem: elems[r.IntN(len(elems))], Codec: []string{"json", "yaml"}[r.IntN(2)], Field: r.IntN(3) == 0}
	switch c.Elem {
	case "string":
		c.N = 3 + r.IntN(len(strUniv)-2)
	case "bool":
		c.N = 2
	default:
		c.N = 3 + r.IntN(48)
	}
	max := c.N
	if max > 50 {
		max = 50
	}
	switch r.IntN(6) {
	case 0:
		c.SrcNil = true
	case 1: // empty, non-nil
	default:
		c.Src = subset(r, c.N, max, true)
	}
	switch r.IntN(4) {
	case 0:
		c.TgtNil = true
	case 1: // empty target
	default:
		c.Tgt = subset(r, c.N, max/2+1, true)
	}
	emit(out, c)
}

func main() {
	seed := flag.Uint64("seed", 1, "PRNG seed")
	prefix := flag.String("out", "c17", "output prefix")
	mode := flag.String("mode", "random", "random|corpus")
	n := flag.Int("n", 300, "number of random cases")
	flag.Parse()
	r := gal.NewRand(*seed)
	out := gal.NewOut(*prefix)
	defer out.Close()
	if *mode == "corpus" {
		for _, codec := range []string{"json", "yaml"} {
			for _, field := range []bool{false, true} {
				all := make([]int, len(strUniv))
				for i := range all {
					all[i] = i
				}
				emit(out, jcase{Kind: "corpus", Elem: "string", Codec: codec, Field: field, N: len(strUniv), Src: all, TgtNil: true})
				emit(out, jcase{Kind: "corpus", Elem: "string", Codec: codec, Field: field, N: 8, SrcNil: true, Tgt: []int{0, 5, 6}})
				emit(out, jcase{Kind: "corpus", Elem: "string", Codec: codec, Field: field, N: 8, Src: nil, TgtNil: true})
				emit(out, jcase{Kind: "corpus", Elem: "bool", Codec: codec, Field: field, N: 2, Src: []int{0, 1}, Tgt: []int{1}})
				emit(out, jcase{Kind: "corpus", Elem: "float", Codec: codec, Field: field, N: 8, Src: []int{0, 1, 2, 3, 4, 5, 6, 7}, Tgt: nil})
				emit(out, jcase{Kind: "corpus", Elem: "int", Codec: codec, Field: field, N: 6, Src: []int{3, 4}, Tgt: []int{0}})
				emit(out, jcase{Kind: "corpus", Elem: "struct", Codec: codec, Field: field, N: 6, Src: []int{0, 1, 2, 5}, Tgt: []int{2, 3}})
			}
		}
		return
	}
	for i := 0; i < *n; i++ {
		randomCase(r, out)
	}
}
