// xlate_set — translator tie (T) for C07: reads set/set.go of the current tree with go/parser
// and regenerates Gallina definitions for Make, Add, AddSet, Remove, RemoveSet, Has and HasAny
// over the map primitives of GT.SetGenPrims (mk_empty, set_put, set_del, set_has, set_len,
// set_is_nil, set_keys).  Slice and the four codec methods are not translated (array writes
// and library calls); they are tied by the correspondence run only.
//
// Supported subset: `x := e`, `x = e`, `*s = e`, `m[k] = setVal`, `delete(m, k)`,
// `_, ok := m[k]`, `if [init;] c { … }` (falling through or ending in return, no else),
// `for _, v := range slice`, `for k := range map` (the key order is the argument's key list —
// an explicit iteration order), `return e`, `len`, `make(Set[T], n)`, `== nil`, `==`, `!`, `||`,
// `&&`, integer literals, true/false.  Anything else is rendered as UNSUPPORTED_<what>, which
// makes the generated file fail to compile and thereby breaks the tie.
//
//	xlate_set -src <repo>/set/set.go -out SetGen.v
package main

import (
	"flag"
	"fmt"
	"go/ast"
	"go/parser"
	"go/token"
	"os"
	"sort"
	"strings"
)

var wanted = []string{"Make", "Add", "AddSet", "Remove", "RemoveSet", "Has", "HasAny"}

type kind int

const (
	kOther kind = iota
	kSet
	kSlice
)

type fn struct {
	name     string
	recv     string
	mutates  bool
	params   []string
	env      map[string]kind
	problems []string
	retWrap  func(string) string
}

func (f *fn) bad(what string) string {
	f.problems = append(f.problems, what)
	return "UNSUPPORTED_" + strings.Map(func(r rune) rune {
		if r >= 'a' && r <= 'z' || r >= 'A' && r <= 'Z' || r >= '0' && r <= '9' {
			return r
		}
		return '_'
	}, what)
}

func typeKind(t ast.Expr) kind {
	switch x := t.(type) {
	case *ast.StarExpr:
		return typeKind(x.X)
	case *ast.Ellipsis, *ast.ArrayType:
		return kSlice
	case *ast.IndexExpr:
		if id, ok := x.X.(*ast.Ident); ok && id.Name == "Set" {
			return kSet
		}
	}
	return kOther
}

func baseIdent(e ast.Expr) string {
	switch x := e.(type) {
	case *ast.Ident:
		return x.Name
	case *ast.StarExpr:
		return baseIdent(x.X)
	case *ast.ParenExpr:
		return baseIdent(x.X)
	}
	return ""
}

func (f *fn) expr(e ast.Expr) string {
	switch x := e.(type) {
	case *ast.ParenExpr:
		return f.expr(x.X)
	case *ast.StarExpr:
		return f.expr(x.X)
	case *ast.Ident:
		switch x.Name {
		case "true", "false":
			return x.Name
		}
		return "v_" + x.Name
	case *ast.BasicLit:
		if x.Kind == token.INT {
			return x.Value
		}
		return f.bad("literal")
	case *ast.UnaryExpr:
		if x.Op == token.NOT {
			return "(negb " + f.expr(x.X) + ")"
		}
		return f.bad("unary " + x.Op.String())
	case *ast.BinaryExpr:
		// x == nil on a set
		if id, ok := x.Y.(*ast.Ident); ok && id.Name == "nil" && x.Op == token.EQL {
			if n := baseIdent(x.X); n != "" && f.env[n] == kSet {
				return "(set_is_nil v_" + n + ")"
			}
			return f.bad("nil comparison")
		}
		l, r := f.expr(x.X), f.expr(x.Y)
		switch x.Op {
		case token.EQL:
			return "(Nat.eqb " + l + " " + r + ")"
		case token.LSS:
			return "(Nat.ltb " + l + " " + r + ")"
		case token.LOR:
			return "(orb " + l + " " + r + ")"
		case token.LAND:
			return "(andb " + l + " " + r + ")"
		}
		return f.bad("binary " + x.Op.String())
	case *ast.CallExpr:
		if id, ok := x.Fun.(*ast.Ident); ok {
			switch id.Name {
			case "len":
				if len(x.Args) == 1 {
					n := baseIdent(x.Args[0])
					switch f.env[n] {
					case kSet:
						return "(set_len v_" + n + ")"
					case kSlice:
						return "(length v_" + n + ")"
					}
				}
				return f.bad("len")
			case "make":
				if len(x.Args) >= 1 && typeKind(x.Args[0]) == kSet {
					return "mk_empty"
				}
				return f.bad("make")
			}
		}
		return f.bad("call")
	}
	return f.bad(fmt.Sprintf("expr %T", e))
}

// assigned lists the variables a statement list assigns without declaring them (including
// sets mutated through an index assignment or delete), sorted.
func (f *fn) assigned(list []ast.Stmt) []string {
	set := map[string]bool{}
	declared := map[string]bool{}
	var walk func(n ast.Node) bool
	walk = func(n ast.Node) bool {
		switch s := n.(type) {
		case *ast.AssignStmt:
			for _, l := range s.Lhs {
				name := ""
				switch t := l.(type) {
				case *ast.IndexExpr:
					name = baseIdent(t.X)
					if name != "" {
						set[name] = true
					}
					continue
				default:
					name = baseIdent(l)
				}
				if name == "" || name == "_" {
					continue
				}
				if s.Tok == token.DEFINE {
					declared[name] = true
				} else if !declared[name] {
					set[name] = true
				}
			}
		case *ast.ExprStmt:
			if c, ok := s.X.(*ast.CallExpr); ok {
				if id, ok := c.Fun.(*ast.Ident); ok && id.Name == "delete" && len(c.Args) == 2 {
					if n := baseIdent(c.Args[0]); n != "" {
						set[n] = true
					}
				}
			}
		}
		return true
	}
	for _, s := range list {
		ast.Inspect(s, walk)
	}
	out := make([]string, 0, len(set))
	for k := range set {
		out = append(out, k)
	}
	sort.Strings(out)
	return out
}

func tuple(vars []string) string {
	switch len(vars) {
	case 0:
		return "tt"
	case 1:
		return "v_" + vars[0]
	}
	parts := make([]string, len(vars))
	for i, v := range vars {
		parts[i] = "v_" + v
	}
	return "(" + strings.Join(parts, ", ") + ")"
}

func pat(vars []string) string {
	switch len(vars) {
	case 0:
		return "_"
	case 1:
		return "v_" + vars[0]
	}
	return "'" + tuple(vars)
}

func returns(list []ast.Stmt) bool {
	found := false
	for _, s := range list {
		ast.Inspect(s, func(n ast.Node) bool {
			if _, ok := n.(*ast.ReturnStmt); ok {
				found = true
			}
			return true
		})
	}
	return found
}

func (f *fn) ret(v string) string {
	if f.retWrap != nil {
		return f.retWrap(v)
	}
	if f.mutates && f.recv != "" {
		return "(v_" + f.recv + ", " + v + ")"
	}
	return v
}

// stmts renders a statement list in continuation style; k is the term for "fell off the end".
func (f *fn) stmts(list []ast.Stmt, k string, ind string) string {
	if len(list) == 0 {
		return k
	}
	rest := func() string { return f.stmts(list[1:], k, ind) }
	switch s := list[0].(type) {
	case *ast.AssignStmt:
		// _, ok := m[k]
		if len(s.Lhs) == 2 && len(s.Rhs) == 1 {
			ix, isIx := s.Rhs[0].(*ast.IndexExpr)
			okv, isId := s.Lhs[1].(*ast.Ident)
			if blank, ok := s.Lhs[0].(*ast.Ident); ok && blank.Name == "_" && isIx && isId && s.Tok == token.DEFINE {
				m := baseIdent(ix.X)
				if f.env[m] == kSet {
					return "let v_" + okv.Name + " := set_has eqb v_" + m + " " + f.expr(ix.Index) + " in\n" + ind + rest()
				}
			}
			return f.bad("two-value assign")
		}
		if len(s.Lhs) != 1 || len(s.Rhs) != 1 {
			return f.bad("multi-assign")
		}
		// m[k] = setVal
		if ix, ok := s.Lhs[0].(*ast.IndexExpr); ok {
			m := baseIdent(ix.X)
			if id, ok := s.Rhs[0].(*ast.Ident); ok && id.Name == "setVal" && f.env[m] == kSet && s.Tok == token.ASSIGN {
				return "let v_" + m + " := set_put eqb v_" + m + " " + f.expr(ix.Index) + " in\n" + ind + rest()
			}
			return f.bad("index assign")
		}
		name := baseIdent(s.Lhs[0])
		if name == "" || (s.Tok != token.DEFINE && s.Tok != token.ASSIGN) {
			return f.bad("assign")
		}
		if s.Tok == token.DEFINE {
			if c, ok := s.Rhs[0].(*ast.CallExpr); ok {
				if id, ok := c.Fun.(*ast.Ident); ok && id.Name == "make" && len(c.Args) >= 1 {
					f.env[name] = typeKind(c.Args[0])
				}
			}
		}
		return "let v_" + name + " := " + f.expr(s.Rhs[0]) + " in\n" + ind + rest()
	case *ast.ExprStmt:
		if c, ok := s.X.(*ast.CallExpr); ok {
			if id, ok := c.Fun.(*ast.Ident); ok && id.Name == "delete" && len(c.Args) == 2 {
				m := baseIdent(c.Args[0])
				if f.env[m] == kSet {
					return "let v_" + m + " := set_del eqb v_" + m + " " + f.expr(c.Args[1]) + " in\n" + ind + rest()
				}
			}
		}
		return f.bad("expression statement")
	case *ast.ReturnStmt:
		if len(s.Results) != 1 {
			return f.bad("return arity")
		}
		return f.ret(f.expr(s.Results[0]))
	case *ast.IfStmt:
		if s.Else != nil {
			return f.bad("if/else")
		}
		pre := ""
		if s.Init != nil {
			pre = f.stmts([]ast.Stmt{s.Init}, "INIT_END", ind)
			if !strings.HasSuffix(pre, "INIT_END") {
				return f.bad("if init")
			}
			pre = strings.TrimSuffix(pre, "INIT_END")
		}
		cond := f.expr(s.Cond)
		if returns(s.Body.List) {
			then := f.stmts(s.Body.List, "FALLS_THROUGH", ind+"  ")
			if strings.Contains(then, "FALLS_THROUGH") {
				return f.bad("if body that may fall through after a return")
			}
			return pre + "if " + cond + " then " + then + "\n" + ind + "else " + rest()
		}
		vars := f.assigned(s.Body.List)
		then := f.stmts(s.Body.List, tuple(vars), ind+"  ")
		return pre + "let " + pat(vars) + " := (if " + cond + " then " + then + " else " + tuple(vars) + ") in\n" + ind + rest()
	case *ast.RangeStmt:
		var loopVar string
		xs := ""
		src := baseIdent(s.X)
		switch f.env[src] {
		case kSlice:
			if id, ok := s.Key.(*ast.Ident); !ok || id.Name != "_" || s.Value == nil {
				return f.bad("slice range form")
			}
			loopVar = baseIdent(s.Value)
			xs = "v_" + src
		case kSet:
			if s.Value != nil || s.Key == nil {
				return f.bad("map range form")
			}
			loopVar = baseIdent(s.Key)
			xs = "(set_keys v_" + src + ")"
		default:
			return f.bad("range over unknown")
		}
		vars := f.assigned(s.Body.List)
		if !returns(s.Body.List) {
			body := f.stmts(s.Body.List, tuple(vars), ind+"    ")
			return "let " + pat(vars) + " := fold_left (fun " + pat(vars) + " v_" + loopVar + " =>\n" + ind + "    " + body +
				") " + xs + " " + tuple(vars) + " in\n" + ind + rest()
		}
		saved := f.retWrap
		f.retWrap = func(v string) string { return "(" + tuple(vars) + ", Some " + v + ")" }
		body := f.stmts(s.Body.List, "("+tuple(vars)+", None)", ind+"      ")
		f.retWrap = saved
		acc := strings.TrimPrefix(pat(vars), "'")
		return "let '(" + acc + ", early) := fold_left (fun '(" + acc + ", early) v_" + loopVar + " =>\n" +
			ind + "    match early with Some _ => (" + tuple(vars) + ", early) | None =>\n" + ind + "      " + body + " end) " +
			xs + " (" + tuple(vars) + ", None) in\n" + ind + "match early with Some r => " + f.ret("r") + " | None =>\n" + ind + rest() + " end"
	}
	return f.bad(fmt.Sprintf("stmt %T", list[0]))
}

func mutatesRecv(body *ast.BlockStmt, recv string) bool {
	found := false
	ast.Inspect(body, func(n ast.Node) bool {
		switch s := n.(type) {
		case *ast.AssignStmt:
			for _, l := range s.Lhs {
				if ix, ok := l.(*ast.IndexExpr); ok && baseIdent(ix.X) == recv {
					found = true
				}
				if st, ok := l.(*ast.StarExpr); ok && baseIdent(st.X) == recv {
					found = true
				}
			}
		case *ast.CallExpr:
			if id, ok := s.Fun.(*ast.Ident); ok && id.Name == "delete" && len(s.Args) == 2 && baseIdent(s.Args[0]) == recv {
				found = true
			}
		}
		return true
	})
	return found
}

func main() {
	src := flag.String("src", "", "path of set.go")
	out := flag.String("out", "SetGen.v", "output file")
	flag.Parse()
	fset := token.NewFileSet()
	file, err := parser.ParseFile(fset, *src, nil, 0)
	if err != nil {
		fmt.Fprintln(os.Stderr, err)
		os.Exit(2)
	}
	decls := map[string]*ast.FuncDecl{}
	for _, d := range file.Decls {
		if fd, ok := d.(*ast.FuncDecl); ok && fd.Body != nil {
			decls[fd.Name.Name] = fd
		}
	}
	var b strings.Builder
	b.WriteString("(* GENERATED by harness/cmd/xlate_set from set/set.go of the current tree — do not edit *)\n")
	b.WriteString("From Coq Require Import List Bool Arith.\nImport ListNotations.\nFrom GT Require Import SetModel SetGenPrims.\n\n")
	b.WriteString("Section SetGen.\n  Variable T : Type.\n  Variable eqb : T -> T -> bool.\n\n")
	var problems []string
	for _, name := range wanted {
		fd, ok := decls[name]
		if !ok {
			b.WriteString("  Definition gen_" + name + " := UNSUPPORTED_function_" + name + "_not_found.\n\n")
			problems = append(problems, name+": not found")
			continue
		}
		f := &fn{name: name, env: map[string]kind{}}
		sig := "  Definition gen_" + name
		if fd.Recv != nil && len(fd.Recv.List) == 1 && len(fd.Recv.List[0].Names) == 1 {
			f.recv = fd.Recv.List[0].Names[0].Name
			f.env[f.recv] = kSet
			f.mutates = mutatesRecv(fd.Body, f.recv)
			sig += " (v_" + f.recv + " : sset T)"
		}
		for _, p := range fd.Type.Params.List {
			k := typeKind(p.Type)
			for _, n := range p.Names {
				f.env[n.Name] = k
				switch k {
				case kSet:
					sig += " (v_" + n.Name + " : sset T)"
				case kSlice:
					sig += " (v_" + n.Name + " : list T)"
				default:
					sig += " (v_" + n.Name + " : UNSUPPORTED_param_type)"
				}
			}
		}
		body := f.stmts(fd.Body.List, "MISSING_RETURN", "    ")
		if strings.Contains(body, "MISSING_RETURN") {
			body = strings.ReplaceAll(body, "MISSING_RETURN", f.bad("missing return"))
		}
		b.WriteString(sig + " :=\n    " + body + ".\n\n")
		for _, p := range f.problems {
			problems = append(problems, name+": "+p)
		}
	}
	b.WriteString("End SetGen.\n(* functions translated: " + strings.Join(wanted, ", ") + "; not translated: Slice, MarshalJSON, UnmarshalJSON, MarshalYAML, UnmarshalYAML *)\n")
	if err := os.WriteFile(*out, []byte(b.String()), 0o644); err != nil {
		fmt.Fprintln(os.Stderr, err)
		os.Exit(2)
	}
	for _, p := range problems {
		fmt.Println("unsupported:", p)
	}
}
