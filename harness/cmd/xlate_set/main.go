// xlate_set — translator tie (T) for C07 and C17: reads set/set.go of the current tree with
// go/parser and regenerates Gallina definitions over the map / slice primitives of
// GT.SetGenPrims (mk_empty, set_put, set_del, set_has, set_len, set_is_nil, set_keys; sl_make,
// sl_set, sl_append, sl_len, sl_items).  The translation itself is harness/internal/setxl
// (dialect "set"): see the package comment there for the supported Go subset (unexported
// helper methods such as contains / allocIfNil, a map copied into a local as an alias of the
// same map, index loops, if/else with any mix of fall-through / return / continue / break, …).
// Anything outside the subset is rendered as UNSUPPORTED_<what>: the generated file then fails
// to compile and the tie breaks.
//
//	-part set    Make, Slice, Add, AddSet, Remove, RemoveSet, Has, HasAny and the functions
//	             they call                        -> SetGen.v       (coq/ties/Tie_C07.v)
//	-part codec  MarshalJSON, UnmarshalJSON, MarshalYAML, UnmarshalYAML and the functions they
//	             call (Slice, Add, …); json.Marshal / json.Unmarshal / Node.Decode are Section
//	             variables                        -> SetCodecGen.v  (coq/ties/Tie_C17.v)
//
//	-part store  the functions of -part set once more, with MAP IDENTITIES: a Set value is a
//	             reference into a heap of maps (make allocates a location, `*s = t` and `u := s`
//	             copy the reference, writes go to the location), so storage shared between two
//	             sets is expressible       -> SetStoreGen.v  (coq/ties/Tie_C07_store.v)
//
//	xlate_set -src <repo>/set/set.go [-part set|codec|store] -out SetGen.v
package main

import (
	"flag"
	"fmt"
	"os"

	"gtverif/internal/setxl"
)

func main() {
	src := flag.String("src", "", "path of set.go")
	out := flag.String("out", "SetGen.v", "output file")
	part := flag.String("part", "set", "set|codec|store")
	flag.Parse()
	cfg := setxl.Config{
		Dialect: "set",
		Indent:  "  ",
		DefAttr: "#[using=\"All\"] ", // every definition takes all Section variables, whether it uses them or not
		Header: "From Coq Require Import List Bool Arith.\nImport ListNotations.\n" +
			"From GT Require Import Base.SetLoopTie SetModel SetGenPrims.\n\n" +
			"Section SetGen.\n  Variable T : Type.\n  Variable eqb : T -> T -> bool.\n  Variable zero : T.\n",
		Footer: "End SetGen.\n",
	}
	switch *part {
	case "set":
		cfg.Roots = []string{"Make", "Slice", "Add", "AddSet", "Remove", "RemoveSet", "Has", "HasAny"}
		cfg.Header += "\n"
	case "store":
		cfg.Dialect = "store"
		cfg.Roots = []string{"Make", "Slice", "Add", "AddSet", "Remove", "RemoveSet", "Has", "HasAny"}
		cfg.Header = "From Coq Require Import List Bool Arith.\nImport ListNotations.\n" +
			"From GT Require Import Base.SetLoopTie SetModel SetGenPrims SetHeapPrims.\n\n" +
			"Section SetGen.\n  Variable T : Type.\n  Variable eqb : T -> T -> bool.\n  Variable zero : T.\n\n"
	case "codec":
		cfg.Roots = []string{"MarshalJSON", "UnmarshalJSON", "MarshalYAML", "UnmarshalYAML"}
		cfg.Header += "  (* the library: json.Marshal of a []T, json.Unmarshal / yaml Node.Decode INTO a []T variable *)\n" +
			"  Variable jbytes ynode jresult : Type.\n" +
			"  Variable lib_json_Marshal : option (list T) -> jresult.\n" +
			"  Variable lib_json_Unmarshal : jbytes -> option (list T) -> option (list T) * bool.\n" +
			"  Variable lib_yaml_Decode : ynode -> option (list T) -> option (list T) * bool.\n\n"
	default:
		fmt.Fprintln(os.Stderr, "unknown part", *part)
		os.Exit(2)
	}
	res, err := setxl.Translate(*src, cfg)
	if err != nil {
		fmt.Fprintln(os.Stderr, err)
		os.Exit(2)
	}
	if err := os.WriteFile(*out, []byte(res.Text), 0o644); err != nil {
		fmt.Fprintln(os.Stderr, err)
		os.Exit(2)
	}
	for _, p := range res.Problems {
		fmt.Println("unsupported:", p)
	}
}
