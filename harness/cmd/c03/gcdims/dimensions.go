//nolint:revive // test only
package gcdims

//go:generate genum -types=DimensionOne,DimensionTwo,DimensionThree -caseInsensitive
type DimensionOne int

const (
	D1a DimensionOne = iota
	D1b
	D1c
	D1d
)

type DimensionTwo int

const (
	D2a DimensionTwo = iota
	D2b
	D2c
	D2d
	D2e
)

type DimensionThree int

const (
	D3a DimensionThree = iota
	D3b
	D3c
)
