package gcx

import (
	"fmt"
	"os"
	"strings"
	"testing/fstest"

	"github.com/drshriveer/gtools/gconfig"
	"gopkg.in/yaml.v3"

	"gtverif/internal/gal"
)

// GetObs is one Get[any] observation.
type GetObs struct {
	Key  string `json:"key"`
	Kind string `json:"kind"` // val | err | panic
	Val  *Tree  `json:"val,omitempty"`
}

// StrObs is one Get[string] observation.
type StrObs struct {
	Key  string `json:"key"`
	Kind string `json:"kind"` // val | err | panic
	Val  string `json:"val,omitempty"`
}

// Oracle is the generator's by-construction expectation of a load.
type Oracle struct {
	Ok  bool  `json:"ok"`
	Cfg *Tree `json:"cfg,omitempty"`
}

// Case is a load of one document with everything observed about it.
type Case struct {
	Kind    string            `json:"kind"`
	Dims    []DimReg          `json:"dims"`
	Tables  [][][2]any        `json:"tables"`
	Env     map[string]string `json:"env"`
	Doc     Tree              `json:"doc"`
	Yaml    string            `json:"yaml"`
	Oracle  *Oracle           `json:"oracle,omitempty"`
	Load    string            `json:"load"` // ok | err | buildpanic | panic
	LoadMsg string            `json:"load_msg,omitempty"`
	DimVals []int             `json:"dimvals"`
	Gets    []GetObs          `json:"gets"`
	Strs    []StrObs          `json:"strs"`
}

func getAny(cfg *gconfig.Config, key string) (o GetObs) {
	o.Key = key
	defer func() {
		if r := recover(); r != nil {
			o.Kind, o.Val = "panic", nil
		}
	}()
	box, err := gconfig.Get[AnyBox](cfg, key)
	if err != nil {
		o.Kind = "err"
		return o
	}
	t := FromAny(box.V)
	o.Kind, o.Val = "val", &t
	if box.V != nil {
		// the plain Get[any] must tell the same story wherever the value is not null
		v, err := gconfig.Get[any](cfg, key)
		if err != nil {
			o.Kind, o.Val = "err", nil
			return o
		}
		t2 := FromAny(v)
		o.Val = &t2
	}
	return o
}

func getStr(cfg *gconfig.Config, key string) (o StrObs) {
	o.Key = key
	defer func() {
		if r := recover(); r != nil {
			o.Kind, o.Val = "panic", ""
		}
	}()
	s, err := gconfig.Get[string](cfg, key)
	if err != nil {
		o.Kind = "err"
		return o
	}
	o.Kind, o.Val = "val", s
	return o
}

// Paths lists the dotted keys of every position reachable through maps, depth first.
func Paths(t Tree, prefix string, leavesOnly bool, out *[]string) {
	if t.T != "m" {
		return
	}
	for _, e := range t.M {
		k := e.K
		if prefix != "" {
			k = prefix + "." + e.K
		}
		if !leavesOnly || (e.V.T != "m" && e.V.T != "l" && e.V.T != "x") {
			*out = append(*out, k)
		}
		if e.V.T == "x" && !leavesOnly {
			// a dotted key cannot walk through a map with non-string keys: these must not exist
			for _, xe := range e.V.M {
				if len(xe.K) > 2 {
					*out = append(*out, k+"."+xe.K[2:])
				}
			}
		}
		Paths(e.V, k, leavesOnly, out)
	}
}

func uniq(xs []string, limit int) []string {
	seen := map[string]bool{}
	var out []string
	for _, x := range xs {
		if !seen[x] && len(out) < limit {
			seen[x] = true
			out = append(out, x)
		}
	}
	return out
}

// wordRuns collects every maximal run of [0-9A-Za-z_] in the string scalars of a tree: the
// only names an env template in the document can refer to.
func wordRuns(t Tree, into map[string]bool) {
	if t.T == "s" {
		cur := strings.Builder{}
		flush := func() {
			if cur.Len() > 0 {
				into[cur.String()] = true
				cur.Reset()
			}
		}
		for i := 0; i < len(t.V); i++ {
			c := t.V[i]
			if c == '_' || (c >= '0' && c <= '9') || (c >= 'A' && c <= 'Z') || (c >= 'a' && c <= 'z') {
				cur.WriteByte(c)
			} else {
				flush()
			}
		}
		flush()
	}
	for _, e := range t.L {
		wordRuns(e, into)
	}
	for _, e := range t.M {
		wordRuns(e.V, into)
	}
}

// RunCase performs the load and the lookups with the real library and writes the case.
// templates: also record the state of every environment variable a string of the document
// could name (so that the model sees the environment the library saw).
var (
	fileSerial    int
	flagSerial    int
	usedFlagNames = map[string]bool{}
)

// NewFlagName returns a flag / variable name no Builder of this process has registered yet.
func NewFlagName(base string) string {
	for {
		flagSerial++
		n := fmt.Sprintf("%s_f%d", base, flagSerial)
		if !usedFlagNames[n] {
			return n
		}
	}
}

func RunCase(out *gal.Out, kind string, in Input, orc *Oracle, extraKeys []string, templates bool) {
	var text []byte
	if in.RawYaml != "" {
		text = []byte(in.RawYaml)
		var back map[string]any
		if err := yaml.Unmarshal(text, &back); err == nil {
			in.Doc = FromAny(map[string]any(back))
		} else {
			in.Doc = Null() // FromBytes fails on it as well (the model: not a map -> error)
		}
	} else {
		text = Yaml(in.Doc)
	}
	// a flagged dimension gets a name that is new to the process-wide flag set
	dims := make([]DimReg, len(in.Dims))
	copy(dims, in.Dims)
	env := map[string]string{}
	for k, v := range in.Env {
		env[k] = v
	}
	for i := range dims {
		if dims[i].Flag == nil {
			continue
		}
		old := dims[i].Name
		if !usedFlagNames[old] { // e.g. a name the generator made unique (NewFlagName)
			usedFlagNames[old] = true
			continue
		}
		dims[i].Name = NewFlagName(strings.SplitN(old, "_f", 2)[0])
		usedFlagNames[dims[i].Name] = true
		// environment variables that named this dimension follow the new name
		for _, f := range []func(string) string{func(s string) string { return s }, strings.ToUpper, strings.ToLower} {
			if v, ok := env[f(old)]; ok {
				delete(env, f(old))
				env[f(dims[i].Name)] = v
			}
		}
	}
	in.Dims, in.Env = dims, env
	c := Case{Kind: kind, Dims: in.Dims, Env: map[string]string{}, Doc: in.Doc, Yaml: string(text), Oracle: orc,
		DimVals: []int{}, Gets: []GetObs{}, Strs: []StrObs{}}
	for k, v := range in.Env {
		c.Env[k] = v
	}
	var cfg *gconfig.Config
	var fileCfgs []*gconfig.Config
	fileDiff := ""
	WithEnv(in.Env, func() {
		if templates {
			names := map[string]bool{}
			wordRuns(in.Doc, names)
			for n := range names {
				if v, ok := os.LookupEnv(n); ok {
					c.Env[n] = v
				}
			}
		}
		b, p := Build(in.Dims)
		if p != nil {
			c.Load, c.LoadMsg = "buildpanic", fmt.Sprint(p)
			return
		}
		func() {
			defer func() {
				if r := recover(); r != nil {
					c.Load, c.LoadMsg = "panic", fmt.Sprint(r)
				}
			}()
			var err error
			cfg, err = b.FromBytes(text)
			if err != nil {
				c.Load, c.LoadMsg = "err", err.Error()
				cfg = nil
				return
			}
			c.Load = "ok"
		}()
		// the other entry point: FromFile on the same bytes (and, every fourth case, on the same
		// document behind more than 1 MiB of comment lines) must load what FromBytes loads
		if b != nil && (c.Load == "ok" || c.Load == "err") {
			fileSerial++
			variants := [][]byte{text}
			if fileSerial%4 == 0 {
				variants = append(variants, append([]byte(strings.Repeat("# "+strings.Repeat("padding ", 15)+"\n", 9000)), text...))
			}
			for _, data := range variants {
				func() {
					defer func() {
						if r := recover(); r != nil {
							fileDiff = fmt.Sprintf("FromFile panicked on a file of %d bytes: %v", len(data), r)
						}
					}()
					fc, ferr := b.FromFile(fstest.MapFS{"conf/c.yaml": &fstest.MapFile{Data: data}}, "conf/c.yaml")
					if (ferr != nil) != (c.Load == "err") {
						fileDiff = fmt.Sprintf("FromFile on a file of %d bytes: error %v, FromBytes on the same document: %s", len(data), ferr, c.Load)
						return
					}
					if ferr == nil {
						fileCfgs = append(fileCfgs, fc)
					}
				}()
			}
		}
	})
	// strings whose ParseGeneric the model needs: every map key and every environment value
	strs := map[string]bool{}
	MapKeys(in.Doc, strs)
	for _, v := range c.Env {
		strs[v] = true
	}
	for _, d := range in.Dims {
		if d.Flag != nil {
			strs[*d.Flag] = true
		}
	}
	for _, d := range in.Dims {
		c.Tables = append(c.Tables, Table(d.Enum, strs))
	}
	if cfg != nil {
		for _, d := range in.Dims {
			c.DimVals = append(c.DimVals, Enums[d.Enum-1].GetDim(cfg))
		}
		// probe: every path of the expected configuration (when known), every path of the raw
		// document (through switch keys too: those must be gone), some keys that do not exist
		var keys, leaves []string
		if orc != nil && orc.Ok {
			Paths(*orc.Cfg, "", false, &keys)
			Paths(*orc.Cfg, "", true, &leaves)
		}
		Paths(in.Doc, "", false, &keys)
		Paths(in.Doc, "", true, &leaves)
		keys = append(keys, extraKeys...)
		keys = append(keys, "", "nope", "nope.x")
		if len(keys) > 3 {
			keys = append(keys, keys[0]+".zz", keys[len(keys)/2]+".")
		}
		for _, k := range uniq(keys, 60) {
			c.Gets = append(c.Gets, getAny(cfg, k))
		}
		for _, k := range uniq(leaves, 30) {
			c.Strs = append(c.Strs, getStr(cfg, k))
		}
		// the Configs loaded through FromFile answer like the one loaded through FromBytes
		for _, fc := range fileCfgs {
			for _, g := range c.Gets {
				if o := getAny(fc, g.Key); fileDiff == "" && (o.Kind != g.Kind || (o.Val != nil && g.Val != nil && !Equal(*o.Val, *g.Val))) {
					fileDiff = fmt.Sprintf("Get(%q) on the Config loaded by FromFile: %s, on the one loaded by FromBytes from the same document: %s", g.Key, o.Kind, g.Kind)
				}
			}
			for i, d := range in.Dims {
				if i < len(c.DimVals) && Enums[d.Enum-1].GetDim(fc) != c.DimVals[i] && fileDiff == "" {
					fileDiff = "GetDimension differs between the Configs loaded by FromFile and by FromBytes"
				}
			}
		}
	}
	if fileDiff != "" {
		// an observation no model of FromBytes can agree with: the case is a failing input
		c.Load, c.LoadMsg = "panic", fileDiff
	}
	out.Case(GalCase(c), c)
}

// GalCase renders a case as a term of GConfJudge.c03_case.
func GalCase(c Case) string {
	var sb strings.Builder
	sb.WriteString("{| cc_dims := ")
	dims := make([]string, len(c.Dims))
	for i, d := range c.Dims {
		fl := "None"
		if d.Flag != nil {
			fl = "Some " + GStr(*d.Flag)
		}
		dims[i] = "{| dc_name := " + GStr(d.Name) + "; dc_table := " + GTable(c.Tables[i]) +
			"; dc_default := " + gal.Nat(d.Default) + "; dc_flag := " + fl + " |}"
	}
	sb.WriteString(gal.List(dims))
	sb.WriteString("; cc_env := " + GEnv(c.Env))
	sb.WriteString("; cc_doc := " + GTree(c.Doc))
	switch {
	case c.Oracle == nil:
		sb.WriteString("; cc_oracle := None")
	case !c.Oracle.Ok:
		sb.WriteString("; cc_oracle := Some Err")
	default:
		sb.WriteString("; cc_oracle := Some (Ok " + GEntries(c.Oracle.Cfg.M) + ")")
	}
	sb.WriteString("; cc_load := " + map[string]string{"ok": "LOk", "err": "LErr", "buildpanic": "LBuildPanic", "panic": "LPanic"}[c.Load])
	sb.WriteString("; cc_dimvals := " + gal.ListOf(c.DimVals, gal.Nat))
	sb.WriteString("; cc_gets := " + gal.ListOf(c.Gets, func(g GetObs) string {
		switch g.Kind {
		case "val":
			return gal.Pair(GStr(g.Key), "GVal "+GTree(*g.Val))
		case "err":
			return gal.Pair(GStr(g.Key), "GErr")
		}
		return gal.Pair(GStr(g.Key), "GPanic")
	}))
	sb.WriteString("; cc_strs := " + gal.ListOf(c.Strs, func(g StrObs) string {
		switch g.Kind {
		case "val":
			return gal.Pair(GStr(g.Key), "SVal "+GStr(g.Val))
		case "err":
			return gal.Pair(GStr(g.Key), "SErr")
		}
		return gal.Pair(GStr(g.Key), "SPanic")
	}))
	sb.WriteString(" |}")
	return sb.String()
}
