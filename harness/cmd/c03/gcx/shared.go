package gcx

import (
	"fmt"
	"strings"

	"github.com/drshriveer/gtools/gconfig"
	"github.com/drshriveer/gtools/genum"
)

// Two hand-written dimension enums that SHARE value names (prod, stage, dev — under different
// indexes), as two real dimensions of a deployment may ("tier" and "zone" both having a `dev`).
// A switch keyed by shared names only is a switch of whichever of the two was registered FIRST
// (C03_loose_reading_ambiguous / C03_first_registered_void_when_disjoint): the registration order
// given to WithDimension is observable, in both orders.

// Tier is enum 4.
type Tier int

// Zone is enum 5.
type Zone int

var tierNames = []string{"prod", "stage", "dev", "only4"}
var zoneNames = []string{"dev", "prod", "stage", "only5"}

func parseIn(names []string, input any) (int, error) {
	s, ok := input.(string)
	if !ok {
		if b, isBytes := input.([]byte); isBytes {
			s, ok = string(b), true
		}
	}
	if ok {
		for i, n := range names {
			if strings.EqualFold(n, s) {
				return i, nil
			}
		}
	}
	return 0, fmt.Errorf("%v is not one of %v", input, names)
}

func (t Tier) IsValid() bool                { return t >= 0 && int(t) < len(tierNames) }
func (t Tier) StringValues() []string       { return append([]string{}, tierNames...) }
func (t Tier) String() string               { return tierNames[t] }
func (t Tier) IsEnum()                      {}
func (t Tier) MarshalText() ([]byte, error) { return []byte(t.String()), nil }
func (t Tier) ParseGeneric(input any) (genum.Enum, error) {
	i, err := parseIn(tierNames, input)
	return Tier(i), err
}

func (z Zone) IsValid() bool                { return z >= 0 && int(z) < len(zoneNames) }
func (z Zone) StringValues() []string       { return append([]string{}, zoneNames...) }
func (z Zone) String() string               { return zoneNames[z] }
func (z Zone) IsEnum()                      {}
func (z Zone) MarshalText() ([]byte, error) { return []byte(z.String()), nil }
func (z Zone) ParseGeneric(input any) (genum.Enum, error) {
	i, err := parseIn(zoneNames, input)
	return Zone(i), err
}

func init() {
	Enums = append(Enums,
		DimEnum{4, tierNames, Tier(0), func(v int) genum.Enum { return Tier(v) },
			func(cfg *gconfig.Config) int { return int(gconfig.GetDimension[Tier](cfg)) }},
		DimEnum{5, zoneNames, Zone(0), func(v int) genum.Enum { return Zone(v) },
			func(cfg *gconfig.Config) int { return int(gconfig.GetDimension[Zone](cfg)) }})
	NamePool = append(NamePool, []string{"tier", "gtvTier", "GTV_TIER"}, []string{"zone", "gtvZone", "Gtv_Zone"})
}
