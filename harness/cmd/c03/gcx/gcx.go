// Package gcx holds what the gconfig harnesses (c03, c16, c10) share: the canonical tree of a
// decoded YAML value, its Gallina/JSON renderings, the registry of the real dimension enums
// (copied from gconfig/internal of the current tree into ../gcdims by the check) and the
// environment helpers.
package gcx

import (
	"encoding/json"
	"flag"
	"fmt"
	"math"
	"os"
	"sort"
	"strconv"
	"strings"
	"time"

	"github.com/drshriveer/gtools/gconfig"
	"github.com/drshriveer/gtools/genum"
	"gopkg.in/yaml.v3"

	"gtverif/cmd/c03/gcdims"
	"gtverif/internal/gal"
)

// Tree is the canonical form of a YAML value decoded into `any`:
// T = "s" string, "a" other scalar (canonical text i:.., f:.., b:.., t:.., ?:..), "n" null,
// "l" list, "m" map with entries sorted by key, "x" map with at least one key that is not a string
// (yaml decodes it as map[any]any; entries in M, keyed by the canonical text of the key: i:80,
// b:true, f:1.5, n:, s:name).  For the Coq model an "x" map is the list of its [key; value] pairs:
// like a list it keeps its shape, has its values resolved and cannot be walked through by a dotted
// Get key — which is what gconfig does with such a map.
type Tree struct {
	T string  `json:"t"`
	V string  `json:"v,omitempty"`
	L []Tree  `json:"l,omitempty"`
	M []Entry `json:"m,omitempty"`
}

// Entry is one key/value pair of a map.
type Entry struct {
	K string `json:"k"`
	V Tree   `json:"v"`
}

// Str, Atom, Null, List, Map build trees.
func Str(s string) Tree  { return Tree{T: "s", V: s} }
func Atom(s string) Tree { return Tree{T: "a", V: s} }
func Null() Tree         { return Tree{T: "n"} }
func List(l ...Tree) Tree {
	if l == nil {
		l = []Tree{}
	}
	return Tree{T: "l", L: l}
}
func Map(m ...Entry) Tree {
	if m == nil {
		m = []Entry{}
	}
	sort.SliceStable(m, func(i, j int) bool { return m[i].K < m[j].K })
	return Tree{T: "m", M: m}
}

// XMap builds a map with non-string keys (K = canonical key text).
func XMap(m ...Entry) Tree {
	sort.SliceStable(m, func(i, j int) bool { return m[i].K < m[j].K })
	return Tree{T: "x", M: m}
}

// KeyText is the canonical text of a key of a map[any]any.
func KeyText(k any) string {
	switch x := k.(type) {
	case nil:
		return "n:"
	case string:
		return "s:" + x
	case int:
		return "i:" + strconv.Itoa(x)
	case int64:
		return "i:" + strconv.FormatInt(x, 10)
	case uint64:
		return "i:" + strconv.FormatUint(x, 10)
	case float64:
		return FloatText(x)
	case bool:
		return "b:" + strconv.FormatBool(x)
	}
	return fmt.Sprintf("?%T:%v", k, k)
}

// KeyOf rebuilds the key a canonical key text stands for.
func KeyOf(text string) any {
	switch {
	case text == "n:":
		return nil
	case strings.HasPrefix(text, "s:"):
		return text[2:]
	}
	return ToAny(Atom(text))
}

// FloatText is the canonical text of a float scalar.
func FloatText(f float64) string { return "f:" + strconv.FormatFloat(f, 'g', -1, 64) }

// FromAny canonicalises a value produced by yaml.Unmarshal into `any`.
func FromAny(v any) Tree {
	switch x := v.(type) {
	case nil:
		return Null()
	case string:
		return Str(x)
	case int:
		return Atom("i:" + strconv.Itoa(x))
	case int64:
		return Atom("i:" + strconv.FormatInt(x, 10))
	case uint64:
		return Atom("i:" + strconv.FormatUint(x, 10))
	case float64:
		return Atom(FloatText(x))
	case bool:
		return Atom("b:" + strconv.FormatBool(x))
	case time.Time:
		return Atom("t:" + x.UTC().Format(time.RFC3339Nano))
	case []any:
		l := make([]Tree, len(x))
		for i, e := range x {
			l[i] = FromAny(e)
		}
		return List(l...)
	case map[string]any:
		m := make([]Entry, 0, len(x))
		for k, e := range x {
			m = append(m, Entry{k, FromAny(e)})
		}
		return Map(m...)
	case map[any]any:
		m := make([]Entry, 0, len(x))
		for k, e := range x {
			m = append(m, Entry{KeyText(k), FromAny(e)})
		}
		return XMap(m...)
	default:
		return Atom(fmt.Sprintf("?:%T:%v", v, v))
	}
}

// ToAny rebuilds the Go value a tree stands for (what yaml.Unmarshal would produce).
func ToAny(t Tree) any {
	switch t.T {
	case "s":
		return t.V
	case "a":
		body := t.V
		if len(body) >= 2 {
			body = body[2:]
		}
		switch {
		case strings.HasPrefix(t.V, "i:"):
			n, err := strconv.ParseInt(body, 10, 64)
			if err != nil {
				panic(err)
			}
			return int(n)
		case strings.HasPrefix(t.V, "f:"):
			f, err := strconv.ParseFloat(body, 64)
			if err != nil {
				panic(err)
			}
			return f
		case strings.HasPrefix(t.V, "b:"):
			return body == "true"
		}
		panic("gcx: cannot rebuild atom " + t.V)
	case "n":
		return nil
	case "l":
		l := make([]any, len(t.L))
		for i, e := range t.L {
			l[i] = ToAny(e)
		}
		return l
	case "m":
		m := make(map[string]any, len(t.M))
		for _, e := range t.M {
			m[e.K] = ToAny(e.V)
		}
		return m
	case "x":
		m := make(map[any]any, len(t.M))
		for _, e := range t.M {
			m[KeyOf(e.K)] = ToAny(e.V)
		}
		return m
	}
	panic("gcx: bad tree kind " + t.T)
}

// Equal compares canonical trees.
func Equal(a, b Tree) bool {
	if a.T != b.T || a.V != b.V || len(a.L) != len(b.L) || len(a.M) != len(b.M) {
		return false
	}
	for i := range a.L {
		if !Equal(a.L[i], b.L[i]) {
			return false
		}
	}
	for i := range a.M {
		if a.M[i].K != b.M[i].K || !Equal(a.M[i].V, b.M[i].V) {
			return false
		}
	}
	return true
}

// GStr renders a Coq string.  Printable ASCII and bytes >= 0x80 go into a literal as they
// are; tab, newline and carriage return become the constants c_tab / c_nl / c_cr, any other
// control byte `bs [n]` (all defined in GConfJudge.v); pieces are joined with `cat [...]`.
func GStr(s string) string {
	var pieces []string
	cur := strings.Builder{}
	flush := func() {
		if cur.Len() > 0 {
			pieces = append(pieces, lit(cur.String()))
			cur.Reset()
		}
	}
	for i := 0; i < len(s); i++ {
		c := s[i]
		switch {
		case c == '\t':
			flush()
			pieces = append(pieces, "c_tab")
		case c == '\n':
			flush()
			pieces = append(pieces, "c_nl")
		case c == '\r':
			flush()
			pieces = append(pieces, "c_cr")
		case c < 32 || c == 127:
			flush()
			pieces = append(pieces, "bs ["+strconv.Itoa(int(c))+"]")
		default:
			cur.WriteByte(c)
		}
	}
	flush()
	switch len(pieces) {
	case 0:
		return lit("")
	case 1:
		if strings.HasPrefix(pieces[0], "\"") {
			return pieces[0]
		}
		return "(" + pieces[0] + ")"
	}
	return "(cat [" + strings.Join(pieces, "; ") + "])"
}

// lit is a Coq string literal without scope delimiter (case files open string_scope).
func lit(s string) string { return "\"" + strings.ReplaceAll(s, "\"", "\"\"") + "\"" }

// GTree renders a tree as a Gallina term of GConfModel.tree.
func GTree(t Tree) string {
	switch t.T {
	case "s":
		return "(Str " + GStr(t.V) + ")"
	case "a":
		return "(Atom " + GStr(t.V) + ")"
	case "n":
		return "Null"
	case "l":
		return "(Lst " + gal.ListOf(t.L, GTree) + ")"
	case "x": // the list of its [key; value] pairs
		return "(Lst " + gal.ListOf(t.M, func(e Entry) string {
			return "(Lst [Atom " + GStr("k:"+e.K) + "; " + GTree(e.V) + "])"
		}) + ")"
	default:
		return "(Mp " + GEntries(t.M) + ")"
	}
}

// GEntries renders the association list of a map.
func GEntries(m []Entry) string {
	return gal.ListOf(m, func(e Entry) string { return gal.Pair(GStr(e.K), GTree(e.V)) })
}

// MapKeys collects every map key occurring in a tree.
func MapKeys(t Tree, into map[string]bool) {
	for _, e := range t.L {
		MapKeys(e, into)
	}
	for _, e := range t.M {
		if t.T == "m" {
			into[e.K] = true
		}
		MapKeys(e.V, into)
	}
}

// ---------------------------------------------------------------- dimensions

// DimEnum describes one of the real generated enums.
type DimEnum struct {
	ID     int // 1, 2, 3
	Names  []string
	Zero   genum.Enum
	Of     func(v int) genum.Enum
	GetDim func(cfg *gconfig.Config) int
}

// Enums are the three dimension enums of gconfig/internal.
var Enums = []DimEnum{
	{1, gcdims.DimensionOne(0).StringValues(), gcdims.D1a,
		func(v int) genum.Enum { return gcdims.DimensionOne(v) },
		func(cfg *gconfig.Config) int { return int(gconfig.GetDimension[gcdims.DimensionOne](cfg)) }},
	{2, gcdims.DimensionTwo(0).StringValues(), gcdims.D2a,
		func(v int) genum.Enum { return gcdims.DimensionTwo(v) },
		func(cfg *gconfig.Config) int { return int(gconfig.GetDimension[gcdims.DimensionTwo](cfg)) }},
	{3, gcdims.DimensionThree(0).StringValues(), gcdims.D3a,
		func(v int) genum.Enum { return gcdims.DimensionThree(v) },
		func(cfg *gconfig.Config) int { return int(gconfig.GetDimension[gcdims.DimensionThree](cfg)) }},
}

// Parse runs the real ParseGeneric of enum id on a string.
func (d DimEnum) Parse(s string) (int, bool) {
	e, err := d.Zero.ParseGeneric(s)
	if err != nil {
		return 0, false
	}
	switch x := e.(type) {
	case gcdims.DimensionOne:
		return int(x), true
	case gcdims.DimensionTwo:
		return int(x), true
	case gcdims.DimensionThree:
		return int(x), true
	case Tier:
		return int(x), true
	case Zone:
		return int(x), true
	}
	return 0, false
}

// DimReg is one WithDimension call of a case.
type DimReg struct {
	Enum    int    `json:"enum"`    // 1..3
	Name    string `json:"name"`    // flag / environment variable name
	Default int    `json:"default"` // builder default (index of the constant)
	// Flag, when set, is handed to flag.Set(Name, *Flag) after WithDimension (the flag route).
	// WithDimension registers the flag on the process-wide flag.CommandLine and binds it to the
	// dimension object of the FIRST registration of that name, so RunCase gives every flagged
	// dimension a name no earlier Builder of the process has used.
	Flag *string `json:"flag,omitempty"`
}

// Input is everything that determines a load: registrations in order, environment, document.
type Input struct {
	Dims []DimReg          `json:"dims"`
	Env  map[string]string `json:"env"`
	Doc  Tree              `json:"doc"`
	// RawYaml, when set, is the text handed to FromBytes instead of the marshalled Doc (anchors,
	// aliases, non-string keys: out-of-domain stream); Doc is then what the text decodes to.
	RawYaml string `json:"raw_yaml,omitempty"`
}

// Table records ParseGeneric of the registration's enum on the given strings (sorted).
func Table(enum int, strs map[string]bool) [][2]any {
	keys := make([]string, 0, len(strs))
	for k := range strs {
		keys = append(keys, k)
	}
	sort.Strings(keys)
	var out [][2]any
	for _, k := range keys {
		if v, ok := Enums[enum-1].Parse(k); ok {
			out = append(out, [2]any{k, v})
		}
	}
	return out
}

// GTable renders a parse table.
func GTable(tb [][2]any) string {
	return gal.ListOf(tb, func(p [2]any) string { return gal.Pair(GStr(p[0].(string)), gal.Nat(p[1].(int))) })
}

// GEnv renders an environment (sorted by name).
func GEnv(env map[string]string) string {
	names := make([]string, 0, len(env))
	for k := range env {
		names = append(names, k)
	}
	sort.Strings(names)
	return gal.ListOf(names, func(k string) string { return gal.Pair(GStr(k), GStr(env[k])) })
}

// WithEnv sets the variables, runs f, and restores the previous state.
func WithEnv(env map[string]string, f func()) {
	type old struct {
		v  string
		ok bool
	}
	saved := map[string]old{}
	for k, v := range env {
		o, ok := os.LookupEnv(k)
		saved[k] = old{o, ok}
		if err := os.Setenv(k, v); err != nil {
			panic(err)
		}
	}
	defer func() {
		for k, o := range saved {
			if o.ok {
				os.Setenv(k, o.v)
			} else {
				os.Unsetenv(k)
			}
		}
	}()
	f()
}

// Build registers the dimensions on a new builder.  A panic of WithDimension is returned.
func Build(dims []DimReg) (b *gconfig.Builder, panicked any) {
	defer func() {
		if r := recover(); r != nil {
			b, panicked = nil, r
		}
	}()
	b = gconfig.NewBuilder()
	for _, d := range dims {
		b = b.WithDimension(d.Name, Enums[d.Enum-1].Of(d.Default))
		if d.Flag != nil {
			_ = flag.Set(d.Name, *d.Flag) // an unparsable value leaves the error to the flag package
		}
	}
	return b, nil
}

// Yaml marshals the document and checks that decoding the text gives the same tree back
// (the generator's intent survives the YAML round trip; yaml.v3 is trusted beyond that).
func Yaml(doc Tree) []byte {
	text, err := yaml.Marshal(ToAny(doc))
	if err != nil {
		panic(fmt.Sprintf("gcx: cannot marshal document: %v", err))
	}
	var back any
	if err := yaml.Unmarshal(text, &back); err != nil {
		panic(fmt.Sprintf("gcx: cannot re-read document: %v\n%s", err, text))
	}
	if got := FromAny(back); !Equal(got, doc) {
		a, _ := json.Marshal(doc)
		b, _ := json.Marshal(got)
		panic(fmt.Sprintf("gcx: YAML round trip changed the document\nwant %s\ngot  %s\ntext:\n%s", a, b, text))
	}
	return text
}

// AnyBox receives any YAML value, null included, without the Config cache having to assert
// a nil interface (Get[any] on a null value is C10's business, not C03's).
type AnyBox struct{ V any }

// UnmarshalYAML decodes the node into V.
func (b *AnyBox) UnmarshalYAML(n *yaml.Node) error { return n.Decode(&b.V) }

// FiniteFloat reports whether f can be used as a scalar of a generated document.
func FiniteFloat(f float64) bool { return !math.IsNaN(f) && !math.IsInf(f, 0) && f != math.Trunc(f) }
