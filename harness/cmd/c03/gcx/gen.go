package gcx

import (
	"bufio"
	"encoding/json"
	"math/rand/v2"
	"os"
	"sort"
	"strconv"
	"strings"
)

// Gen draws documents by construction from the quantifier of C03 together with their
// expected resolution.
type Gen struct {
	R    *rand.Rand
	Regs []DimReg    // registered dimensions, registration order
	Sel  map[int]int // enum id -> selected value
	OOD  bool        // also produce shapes outside the quantifier
	// Leaf, when set, may supply a scalar position (document value, expected value after
	// loading, ok=false when loading must fail because of it); handled=false falls through
	// to the ordinary scalars.
	Leaf func(g *Gen) (doc, exp Tree, ok, handled bool)
}

var plainKeyPool = []string{"a", "b", "c", "k1", "name", "x-y", "Default", "DEFAULT", "defaults", "D1",
	"D1aa", "d4a", "D9z", "a b", "1", "true", "null", "list", "cfg", "timeout", "é", "key.with.dot",
	"D1a", "D1b", "d1c", "D2a", "D2e", "d2b", "D3a", "D3c", "d3b", "~", "_", "prod", "Dev", "only4", "only5", "stage"}

var stringPool = []string{"", "x", "hello world", "default", "D1a", "D2b", "true", "123", "~", "a.b", "null",
	"3m", "é!", "line1\nline2", " lead", "trail ", "{}", "[]", "k: v", "- item", "#c", "'q'", "\"dq\""}

// NamePool holds the flag / environment variable names given to WithDimension, per enum.
var NamePool = [][]string{{"d1", "gtvDimOne", "GTV_ONE"}, {"d2", "gtvDimTwo", "gtv_two"}, {"d3", "gtvDimThree", "Gtv3"}}

// CleanEnv unsets every variable that could name a dimension value behind the model's back.
func CleanEnv() {
	for _, names := range NamePool {
		for _, nm := range names {
			os.Unsetenv(nm)
			os.Unsetenv(strings.ToUpper(nm))
			os.Unsetenv(strings.ToLower(nm))
		}
	}
}

// IsPlainKey: neither `default` nor a value of any registered dimension.
func (g *Gen) IsPlainKey(k string) bool {
	if k == "default" {
		return false
	}
	for _, d := range g.Regs {
		if _, ok := Enums[d.Enum-1].Parse(k); ok {
			return false
		}
	}
	return true
}

// Scalar draws a scalar position.
func (g *Gen) Scalar() (Tree, Tree, bool) {
	if g.Leaf != nil {
		if d, e, ok, handled := g.Leaf(g); handled {
			return d, e, ok
		}
	}
	s := g.PlainScalar()
	return s, s, true
}

// PlainScalar draws a scalar that no template pass can change.
func (g *Gen) PlainScalar() Tree {
	switch g.R.IntN(10) {
	case 0:
		return Null()
	case 1, 2:
		return Atom("i:" + strconv.Itoa(g.R.IntN(2000)-1000))
	case 3:
		return Atom(FloatText(float64(g.R.IntN(400)-200) + []float64{0.5, 0.25, 0.125}[g.R.IntN(3)]))
	case 4:
		return Atom("b:" + strconv.FormatBool(g.R.IntN(2) == 0))
	case 5, 6:
		return Str(stringPool[g.R.IntN(len(stringPool))])
	default:
		return Str("v" + strconv.Itoa(g.R.IntN(1000)))
	}
}

// Spell returns a case variant of an enum value name.
func Spell(r *rand.Rand, name string) string {
	switch r.IntN(7) {
	case 0:
		return strings.ToLower(name)
	case 1:
		return strings.ToUpper(name)
	case 2: // every letter in a case of its own: the enums parse their names case-insensitively
		b := []byte(name)
		for i, c := range b {
			if r.IntN(2) == 0 {
				b[i] = []byte(strings.ToUpper(string(c)))[0]
			} else {
				b[i] = []byte(strings.ToLower(string(c)))[0]
			}
		}
		return string(b)
	default:
		return name
	}
}

// Spine wraps a node into a chain of 33..48 nested containers (plain maps, lists, switches of
// alternating dimensions with and without default, maps with non-string keys): documents far
// deeper than the generator's ordinary depth of 7 and than any fixed recursion budget.
func (g *Gen) Spine(doc, exp Tree, ok bool) (Tree, Tree, bool) {
	n := 33 + g.R.IntN(16)
	last := 0
	for i := 0; i < n; i++ {
		switch g.R.IntN(4) {
		case 0:
			doc, exp = List(doc), List(exp)
		case 1:
			reg := g.Regs[g.R.IntN(len(g.Regs))]
			if reg.Enum == last || len(g.Regs) == 0 {
				doc, exp = M("k1", doc), M("k1", exp)
				last = 0
				continue
			}
			// a switch that selects the chain, next to an entry that must not matter
			name := Enums[reg.Enum-1].Names[g.Sel[reg.Enum]]
			eff := reg.Enum
			for _, d := range g.Regs { // the first registered dimension that parses the key owns the switch
				if _, p := Enums[d.Enum-1].Parse(name); p {
					eff = d.Enum
					break
				}
			}
			if v, _ := Enums[eff-1].Parse(name); eff != reg.Enum && v != g.Sel[eff] {
				doc, exp = M("k1", doc), M("k1", exp)
				last = 0
				continue
			}
			doc = M(Spell(g.R, name), doc, "default", Str("not this one"))
			last = eff
			continue
		case 2:
			doc, exp = XMap(Entry{K: "i:1", V: doc}), XMap(Entry{K: "i:1", V: exp})
		default:
			doc, exp = M("a", doc, "b", Str("sibling")), M("a", exp, "b", Str("sibling"))
		}
		last = 0
	}
	return M("spine", doc), M("spine", exp), ok
}

// Node returns a document and its expected resolution (ok=false: loading must fail here).
// parent = enum id of the switch directly above (0 = none).
func (g *Gen) Node(depth, parent int) (doc Tree, exp Tree, ok bool) {
	if depth <= 0 {
		return g.Scalar()
	}
	switch x := g.R.IntN(100); {
	case x < 22:
		return g.Scalar()
	case x < 37: // list (lists of lists included)
		n := g.R.IntN(4)
		if g.R.IntN(6) == 0 {
			n = 0
		}
		var dl, el []Tree
		ok = true
		for i := 0; i < n; i++ {
			d, e, o := g.Node(depth-1, 0)
			dl, el = append(dl, d), append(el, e)
			ok = ok && o
		}
		return List(dl...), List(el...), ok
	case x < 62: // plain map, possibly empty
		return g.Plain(depth)
	default:
		return g.Switch(depth, parent)
	}
}

// keys of maps that have a key which is not a string: yaml decodes those as map[any]any.  Such a
// map is never a dimension switch, whatever its string keys look like (D1a, default included);
// it keeps its keys, its values are resolved, and Get cannot walk through it.
var nonStringKeys = []string{"i:80", "i:443", "i:0", "i:-1", "i:1", "b:true", "b:false", "f:1.5", "n:"}
var stringKeysBesideThem = []string{"s:a", "s:k1", "s:D1a", "s:D2b", "s:default", "s:d3c"}

// AnyKeyed draws a map with at least one non-string key.
func (g *Gen) AnyKeyed(depth int) (Tree, Tree, bool) {
	n := 1 + g.R.IntN(4)
	var dm, em []Entry
	used := map[string]bool{}
	ok := true
	for i := 0; i < n; i++ {
		k := nonStringKeys[g.R.IntN(len(nonStringKeys))]
		if i > 0 && g.R.IntN(3) == 0 {
			k = stringKeysBesideThem[g.R.IntN(len(stringKeysBesideThem))]
		}
		if used[k] {
			continue
		}
		used[k] = true
		d, e, o := g.Node(depth-1, 0)
		dm, em = append(dm, Entry{K: k, V: d}), append(em, Entry{K: k, V: e})
		ok = ok && o
	}
	return XMap(dm...), XMap(em...), ok
}

// Plain draws a plain map.
func (g *Gen) Plain(depth int) (Tree, Tree, bool) {
	if g.R.IntN(7) == 0 {
		return g.AnyKeyed(depth)
	}
	n := 1 + g.R.IntN(5)
	if g.R.IntN(6) == 0 {
		n = 0
	}
	var dm, em []Entry
	used := map[string]bool{}
	ok := true
	for i := 0; i < n; i++ {
		k := plainKeyPool[g.R.IntN(len(plainKeyPool))]
		if used[k] || !g.IsPlainKey(k) {
			continue
		}
		used[k] = true
		d, e, o := g.Node(depth-1, 0)
		dm, em = append(dm, Entry{K: k, V: d}), append(em, Entry{K: k, V: e})
		ok = ok && o
	}
	return Map(dm...), Map(em...), ok
}

// Switch draws a switch of a registered dimension other than the one directly above (the
// quantifier excludes same-dimension direct nesting; the OOD stream includes it).
func (g *Gen) Switch(depth, parent int) (Tree, Tree, bool) {
	var cands []int
	for _, d := range g.Regs {
		if d.Enum != parent || g.OOD {
			cands = append(cands, d.Enum)
		}
	}
	if len(cands) == 0 {
		return g.Plain(depth)
	}
	enum := cands[g.R.IntN(len(cands))]
	names := Enums[enum-1].Names
	// non-empty subset of the values
	perm := g.R.Perm(len(names))
	cnt := 1 + g.R.IntN(len(names))
	if g.R.IntN(3) > 0 && cnt > 2 {
		cnt = 1 + g.R.IntN(2)
	}
	keys := make([]string, 0, cnt)
	for _, vi := range perm[:cnt] {
		keys = append(keys, Spell(g.R, names[vi]))
	}
	// the map is a switch of the FIRST registered dimension under which every key parses: when two
	// registered dimensions share value names that need not be the one the keys were drawn from
	eff := enum
	for _, d := range g.Regs {
		all := true
		for _, k := range keys {
			if _, ok := Enums[d.Enum-1].Parse(k); !ok {
				all = false
			}
		}
		if all {
			eff = d.Enum
			break
		}
	}
	if eff == parent && !g.OOD {
		return g.Plain(depth) // would nest a dimension directly under itself
	}
	var dm []Entry
	var exp Tree
	found, ok := false, false
	for _, k := range keys {
		d, e, o := g.Node(depth-1, eff)
		dm = append(dm, Entry{K: k, V: d})
		if v, _ := Enums[eff-1].Parse(k); v == g.Sel[eff] {
			exp, ok, found = e, o, true
		}
	}
	if g.R.IntN(100) < 60 {
		d, e, o := g.Node(depth-1, eff)
		dm = append(dm, Entry{K: "default", V: d})
		if !found {
			exp, ok, found = e, o, true
		}
	}
	if !found {
		return Map(dm...), Null(), false
	}
	return Map(dm...), exp, ok
}

// Setup draws the registrations, the selection of every dimension and the way it is made;
// it returns the environment variables to set.
func (g *Gen) Setup() map[string]string {
	env := map[string]string{}
	order := g.R.Perm(3)
	n := 1 + g.R.IntN(3)
	if g.R.IntN(5) == 0 {
		// the two dimensions that share value names, in either order, possibly with a third one
		// anywhere among them
		pair := []int{3, 4}
		if g.R.IntN(2) == 0 {
			pair = []int{4, 3}
		}
		order, n = pair, 2
		if g.R.IntN(3) == 0 {
			third := g.R.IntN(3)
			at := g.R.IntN(3)
			order = append(append(append([]int{}, pair[:min(at, 2)]...), third), pair[min(at, 2):]...)
			n = 3
		}
	}
	g.Regs, g.Sel = nil, map[int]int{}
	for _, e := range order[:n] {
		enum := e + 1
		names := Enums[e].Names
		sel := g.R.IntN(len(names))
		reg := DimReg{Enum: enum, Name: NamePool[e][g.R.IntN(3)], Default: sel}
		other := (sel + 1 + g.R.IntN(len(names)-1)) % len(names)
		switch route := g.R.IntN(10); {
		case route < 4: // through the environment: the builder default is another value
			reg.Default = other
			// lookupEnv tries the name as given, then upper-case, then lower-case: set a non-empty
			// subset of the three spellings to different values; the first present one must win
			spellings := []string{reg.Name, strings.ToUpper(reg.Name), strings.ToLower(reg.Name)}
			vals := g.R.Perm(len(names))
			some := false
			for i := len(spellings) - 1; i >= 0; i-- { // lowest priority first: a coinciding spelling is overwritten
				if g.R.IntN(2) == 0 || (i == 0 && !some) {
					env[spellings[i]] = Spell(g.R, names[vals[i%len(vals)]])
					some = true
				}
			}
			varName := ""
			for _, sp := range spellings {
				if _, ok := env[sp]; ok {
					varName = sp
					break
				}
			}
			sel, _ = Enums[e].Parse(env[varName])
			reg.Default = (sel + 1 + g.R.IntN(len(names)-1)) % len(names)
			if g.OOD && g.R.IntN(4) == 0 {
				env[varName] = []string{"", "nope", names[sel] + "x", " " + names[sel]}[g.R.IntN(4)]
				// whatever ParseGeneric makes of it decides the selection
				if v, ok := Enums[e].Parse(env[varName]); ok {
					sel = v
				}
			}
		case route < 6: // through the flag (set after WithDimension, as flag.Parse would)
			reg.Default = other
			reg.Name = NewFlagName(reg.Name) // the process-wide flag set must not know the name yet
			fv := Spell(g.R, names[sel])
			if g.OOD && g.R.IntN(4) == 0 {
				fv = []string{"", "nope", names[sel] + "x"}[g.R.IntN(3)]
			}
			reg.Flag = &fv
			if g.R.IntN(3) == 0 { // the environment names yet another value: the flag wins
				env[strings.ToUpper(reg.Name)] = names[other]
			}
		}
		g.Sel[enum] = sel
		g.Regs = append(g.Regs, reg)
	}
	return env
}

// Document draws a whole document: a plain map at the top (sometimes a switch over maps).
func (g *Gen) Document() (doc, exp Tree, ok bool) {
	if g.R.IntN(20) == 0 && len(g.Regs) > 0 { // a very deep document
		d, e, o := g.Node(2, 0)
		return g.Spine(d, e, o)
	}
	depth := 2 + g.R.IntN(5)
	if g.R.IntN(12) == 0 {
		for {
			doc, exp, ok = g.Switch(depth, 0)
			if doc.T != "m" {
				continue
			}
			if !ok || exp.T == "m" {
				return doc, exp, ok
			}
		}
	}
	for {
		doc, exp, ok = g.Plain(depth)
		if doc.T != "m" { // the root of a configuration file is a string-keyed map
			continue
		}
		if len(doc.M) > 1 || g.R.IntN(15) == 0 {
			return doc, exp, ok
		}
	}
}

// ReplayInput is one line of a replay file.
type ReplayInput struct {
	Input
	Keys []string `json:"keys"`
}

// ReadInputs reads a JSON-lines file of inputs (maps re-sorted).
func ReadInputs(path string) []ReplayInput {
	f, err := os.Open(path)
	if err != nil {
		panic(err)
	}
	defer f.Close()
	sc := bufio.NewScanner(f)
	sc.Buffer(make([]byte, 1<<20), 1<<28)
	var out []ReplayInput
	for sc.Scan() {
		line := strings.TrimSpace(sc.Text())
		if line == "" {
			continue
		}
		var in ReplayInput
		if err := json.Unmarshal([]byte(line), &in); err != nil {
			panic(err)
		}
		in.Doc = Canon(in.Doc)
		out = append(out, in)
	}
	return out
}

// Canon re-sorts the maps of a tree read from JSON.
func Canon(t Tree) Tree {
	switch t.T {
	case "l":
		l := make([]Tree, len(t.L))
		for i, e := range t.L {
			l[i] = Canon(e)
		}
		return List(l...)
	case "m", "x":
		es := make([]Entry, len(t.M))
		for i, e := range t.M {
			es[i] = Entry{K: e.K, V: Canon(e.V)}
		}
		sort.SliceStable(es, func(i, j int) bool { return es[i].K < es[j].K })
		if t.T == "x" {
			return XMap(es...)
		}
		return Map(es...)
	}
	return t
}

// M builds a map from alternating keys and trees.
func M(kv ...any) Tree {
	var es []Entry
	for i := 0; i < len(kv); i += 2 {
		es = append(es, Entry{K: kv[i].(string), V: kv[i+1].(Tree)})
	}
	return Map(es...)
}
