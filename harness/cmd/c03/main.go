// c03 — loads generated dimensioned documents with the real gconfig of the current tree and
// records the outcome of WithDimension/FromBytes, GetDimension and Get at every path.
//
//	c03 -seed N -out PREFIX -mode corpus|random|ood|replay -n COUNT [-in FILE]
//
// random: documents by construction from the quantifier of C03 (scalars, nulls, lists of
// lists, plain maps incl. empty, switches of 1-3 registered dimensions in any nesting order,
// with/without default, case variants of the value names) x a selection of every dimension
// through the builder default, an environment variable or the dimension's flag; each case carries the generator's
// own by-construction expectation.  ood: documents outside the quantifier (mixed maps,
// default-only maps, same-dimension nesting, case-variant duplicates, unparsable environment or
// flag values, YAML anchors/aliases/merge keys, non-string keys), compared with the model only.  replay: inputs from a JSON-lines file.
// (generator and case runner live in ./gcx, shared with c16 and c10)
package main

import (
	"flag"
	"strings"

	"gtverif/cmd/c03/gcx"
	"gtverif/internal/gal"
)

func randomCase(g *gcx.Gen, out *gal.Out) {
	env := g.Setup()
	doc, exp, ok := g.Document()
	orc := &gcx.Oracle{Ok: ok}
	if ok {
		orc.Cfg = &exp
	}
	gcx.RunCase(out, "random", gcx.Input{Dims: g.Regs, Env: env, Doc: doc}, orc, nil, false)
}

// oodCase: documents outside the quantifier; no by-construction expectation.
func oodCase(g *gcx.Gen, out *gal.Out) {
	env := g.Setup()
	doc, _, _ := g.Plain(2 + g.R.IntN(4))
	// plant one out-of-domain shape at the top
	var planted gcx.Tree
	enum := g.Regs[g.R.IntN(len(g.Regs))].Enum
	names := gcx.Enums[enum-1].Names
	sc := func() gcx.Tree { return g.PlainScalar() }
	switch g.R.IntN(5) {
	case 0: // mixed map
		planted = gcx.M(names[0], sc(), "other", sc())
	case 1: // default-only
		planted = gcx.M("default", sc())
	case 2: // same-dimension direct nesting
		inner := gcx.M(names[g.Sel[enum]], sc(), "default", sc())
		planted = gcx.M(names[g.Sel[enum]], inner, "default", inner)
	case 3: // two spellings of one value
		other := strings.ToLower(names[g.Sel[enum]])
		if other == names[g.Sel[enum]] {
			other = strings.ToUpper(other)
		}
		planted = gcx.M(names[g.Sel[enum]], gcx.Str("same"), other, gcx.Str("same"))
	default: // keys of two dimensions in one map
		other := gcx.Enums[enum%3].Names
		if other[0] == names[0] {
			other = gcx.Enums[(enum+1)%3].Names
		}
		planted = gcx.M(names[0], sc(), other[0], sc())
	}
	doc = gcx.Map(append(doc.M, gcx.Entry{K: "planted", V: planted})...)
	gcx.RunCase(out, "ood", gcx.Input{Dims: g.Regs, Env: env, Doc: doc}, nil, nil, false)
}

// rawTexts: YAML the generator cannot produce through yaml.Marshal — anchors and aliases (the
// decoded value shares nodes, which reduceAny rewrites in place), merge keys, non-string keys
// (nested maps with such keys decode to map[any]any and are opaque to the resolution).  All out
// of the property's domain: compared with the model (which sees a tree), never gating.
var rawTexts = []string{
	"base: &b\n  D1a: x\n  default: y\nuse: *b\nlist:\n  - *b\n  - *b\n",
	"p: &p\n  k:\n    D1a: 1\n    default: 2\n  l: [1, {D2a: a, default: b}]\nq: *p\nr: {inner: *p}\n",
	"defaults: &d\n  timeout: {D1b: 1s, default: 2s}\n  name: n\nsvc:\n  <<: *d\n  name: other\n",
	"m:\n  1: one\n  2: two\n  true: t\n  D1a: x\n",
	"1: top\ntrue: b\nk: v\n",
	"sw:\n  D1a: {1: x, 2: y}\n  default: {z: {D2a: 1, default: 2}}\n",
	"a: &x [1, 2]\nb: *x\nc: {D1a: *x, default: []}\n",
	"k: !!str 12\nn: !!null\nf: !!float 3\nt: 2001-12-14\n",
}

func rawCases(g *gcx.Gen, out *gal.Out) {
	for _, txt := range rawTexts {
		env := g.Setup()
		gcx.RunCase(out, "ood", gcx.Input{Dims: g.Regs, Env: env, RawYaml: txt}, nil, nil, false)
	}
}

// corpus: the DESIGN §5 witnesses and a few fixed shapes (further ones: /verif/corpus/C03).
func corpus(out *gal.Out) {
	d12 := []gcx.DimReg{{Enum: 1, Name: "d1", Default: 0}, {Enum: 2, Name: "d2", Default: 0}}
	s, m := gcx.Str, gcx.M
	run := func(in gcx.Input) { gcx.RunCase(out, "corpus", in, nil, nil, false) }
	// (a) an empty map; an empty document
	run(gcx.Input{Dims: d12, Doc: m("k", m())})
	run(gcx.Input{Dims: d12, Doc: m()})
	// (b) a D1 switch under a D2 switch under a D1 switch
	run(gcx.Input{Dims: d12, Doc: m("k", m("D1a", m("D2a", m("D1a", s("x"), "default", s("y")))))})
	// (c) a switch without default in an unselected branch of a switch of a later dimension
	run(gcx.Input{Dims: d12, Doc: m("k", m("D2b", m("D1b", s("x")), "default", s("z")))})
	// a switch on the selected path with neither the selected value nor default: must fail
	run(gcx.Input{Dims: d12, Doc: m("k", gcx.List(m("D1b", s("x"))))})
	// selection through the environment, upper-case variable and lower-case value
	run(gcx.Input{Dims: d12, Env: map[string]string{"D1": "d1c"},
		Doc: m("k", m("D1c", s("c"), "default", s("d")), "n", gcx.Null())})
	// maps with non-string keys (yaml: map[any]any): never a switch whatever their string keys look
	// like, keys kept, values resolved, no dotted path through them
	x := func(kv ...any) gcx.Tree {
		var es []gcx.Entry
		for i := 0; i < len(kv); i += 2 {
			es = append(es, gcx.Entry{K: kv[i].(string), V: kv[i+1].(gcx.Tree)})
		}
		return gcx.XMap(es...)
	}
	run(gcx.Input{Dims: d12, Doc: m("k", x("i:1", m("D1a", s("x"), "default", s("y"))))})
	run(gcx.Input{Dims: d12, Doc: m("ports", x("i:80", s("http"), "i:443", gcx.List(m("D2b", s("no"), "default", s("yes")))),
		"flags", x("b:true", m("D1a", m("D2a", s("hit"))), "b:false", gcx.Null(), "s:D1a", s("kept"), "s:default", s("kept too")),
		"r", x("f:1.5", x("n:", m("D1b", s("no"), "D1a", s("deep")))))})
	run(gcx.Input{Dims: d12, Doc: m("k", x("i:0", m("D1b", s("stuck"))))}) // a stuck switch below such a map: loading fails
	// two dimensions that share value names (enum 4 "tier": prod stage dev only4; enum 5 "zone": dev prod
	// stage only5), registered in both orders and under names whose alphabetical order is the
	// opposite of the registration order: a switch keyed by shared names only belongs to the FIRST
	// registered of the two
	shared := m("k", m("prod", s("p"), "dev", s("d"), "default", s("dflt")),
		"own4", m("only4", s("o4"), "prod", s("p4")), "own5", m("only5", s("o5"), "default", s("d5")),
		"l", gcx.List(m("stage", m("only5", s("deep"), "default", s("deep default")), "default", s("no"))))
	for _, regs := range [][]gcx.DimReg{
		{{Enum: 4, Name: "tier", Default: 0}, {Enum: 5, Name: "zone", Default: 0}},
		{{Enum: 5, Name: "zone", Default: 0}, {Enum: 4, Name: "tier", Default: 0}},
		{{Enum: 4, Name: "zz_tier", Default: 1}, {Enum: 5, Name: "aa_zone", Default: 2}},
		{{Enum: 5, Name: "zz_zone", Default: 3}, {Enum: 1, Name: "mm_d1", Default: 0}, {Enum: 4, Name: "aa_tier", Default: 1}},
	} {
		run(gcx.Input{Dims: regs, Doc: shared})
	}
	// mixed-case switch keys (the enums parse case-insensitively) and a document 40 levels deep
	run(gcx.Input{Dims: d12, Doc: m("k", m("d1A", s("hit"), "default", s("no")), "l", m("D2A", s("hit2"), "d1b", s("x")))})
	deep, deepDflt := m("D1a", s("bottom"), "default", s("no")), s("never")
	for i := 0; i < 40; i++ {
		switch i % 4 {
		case 0:
			deep = m("k", deep)
		case 1:
			deep = gcx.List(deep)
		case 2:
			deep = m("D2a", deep, "default", deepDflt)
		default:
			deep = m("a", deep, "b", s("sibling"))
		}
	}
	run(gcx.Input{Dims: d12, Doc: m("deep", deep)})
	// three dimensions, D3 registered first
	d312 := []gcx.DimReg{{Enum: 3, Name: "d3", Default: 1}, {Enum: 1, Name: "d1", Default: 3}, {Enum: 2, Name: "d2", Default: 4}}
	run(gcx.Input{Dims: d312,
		Doc: m("k", m("D2e", gcx.List(m("d1d", m("D3B", s("hit"), "D3a", s("no"))), gcx.List(m(), gcx.List())), "default", s("no")))})
}

func main() {
	seed := flag.Uint64("seed", 1, "PRNG seed")
	prefix := flag.String("out", "c03", "output prefix")
	mode := flag.String("mode", "random", "corpus|random|ood|replay")
	n := flag.Int("n", 300, "number of cases")
	in := flag.String("in", "", "replay: JSON-lines file of inputs")
	flag.Parse()
	gcx.CleanEnv()
	out := gal.NewOut(*prefix)
	defer out.Close()
	g := &gcx.Gen{R: gal.NewRand(*seed)}
	switch *mode {
	case "corpus":
		corpus(out)
	case "replay":
		for _, ri := range gcx.ReadInputs(*in) {
			gcx.RunCase(out, "replay", ri.Input, nil, ri.Keys, false)
		}
	case "ood":
		g.OOD = true
		rawCases(g, out)
		for i := 0; i < *n; i++ {
			oodCase(g, out)
		}
	default:
		for i := 0; i < *n; i++ {
			randomCase(g, out)
		}
	}
}
