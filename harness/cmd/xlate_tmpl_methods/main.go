// xlate_tmpl_methods — (T) tie of property C13.
//
// Reads the three generator templates of the current tree with text/template/parse and the
// interface definitions the generated code must satisfy with go/parser, and regenerates the
// Gallina file TmplMethodsGen.v:
//
//   - for every `func` a template emits: its name, its receiver kind, the list of guards
//     ({{if}} / {{else}} / {{range}} / {{with}} nodes) enclosing the position of the `func`
//     keyword, and its signature (parameter and result types as template text, read off the
//     header line with go/parser);
//   - the method names of genum.Enum, genum.TypedEnum (with the embedded Enum), gerror.Error,
//     gerror.Factory, and the methods declared on gerror.GError (promoted into every extension
//     struct).
//
// Only the standard library is used.  The translator is dumb on purpose: it does not decide
// which guard is an option flag or which range is the per-type range — it prints what it
// sees; the interpretation (GenBuildModel.v) is hand-written and proved about.
//
//	xlate_tmpl_methods -repo DIR -out FILE
package main

import (
	"flag"
	"fmt"
	"go/ast"
	"go/parser"
	"go/printer"
	"go/token"
	"os"
	"path/filepath"
	"regexp"
	"sort"
	"strings"
	"text/template/parse"
)

type guard struct {
	kind string // flag | data | range | with
	text string
	pos  bool
}

type tfunc struct {
	name    string
	recv    string // RValue | RPointer | RNone
	guards  []guard
	params  []string // parameter types as template text, one per parameter
	results []string // result types as template text
}

// piece is one element of the linearised template: literal text or an action placeholder,
// together with the guards in force where it occurs.
type piece struct {
	text   string
	guards []guard
}

var flagRe = regexp.MustCompile(`^\$?\.([A-Za-z_][A-Za-z0-9_]*)$`)
var notFlagRe = regexp.MustCompile(`^not \$?\.([A-Za-z_][A-Za-z0-9_]*)$`)

// condGuard classifies an {{if}} pipeline: a bare top-level field (".X" / "$.X"), its negation
// ("not $.X"), or anything else (a condition on the data).
func condGuard(pipe string, positive bool) guard {
	p := strings.TrimSpace(pipe)
	if m := flagRe.FindStringSubmatch(p); m != nil {
		return guard{"flag", m[1], positive}
	}
	if m := notFlagRe.FindStringSubmatch(p); m != nil {
		return guard{"flag", m[1], !positive}
	}
	return guard{"data", p, positive}
}

func cp(gs []guard, g guard) []guard {
	out := make([]guard, len(gs)+1)
	copy(out, gs)
	out[len(gs)] = g
	return out
}

type walker struct {
	pieces []piece
	trees  map[string]*parse.Tree
	depth  int
}

func (w *walker) list(l *parse.ListNode, gs []guard) {
	if l == nil {
		return
	}
	for _, n := range l.Nodes {
		w.node(n, gs)
	}
}

func (w *walker) node(n parse.Node, gs []guard) {
	switch x := n.(type) {
	case *parse.TextNode:
		w.pieces = append(w.pieces, piece{string(x.Text), gs})
	case *parse.ActionNode:
		// an action that only declares variables prints nothing
		if len(x.Pipe.Decl) > 0 {
			return
		}
		w.pieces = append(w.pieces, piece{"<" + x.Pipe.String() + ">", gs})
	case *parse.IfNode:
		w.list(x.List, cp(gs, condGuard(x.Pipe.String(), true)))
		w.list(x.ElseList, cp(gs, condGuard(x.Pipe.String(), false)))
	case *parse.RangeNode:
		p := x.Pipe.String()
		if i := strings.Index(p, ":="); i >= 0 {
			p = strings.TrimSpace(p[i+2:])
		}
		w.list(x.List, cp(gs, guard{"range", p, true}))
		w.list(x.ElseList, cp(gs, guard{"range", p, false}))
	case *parse.WithNode:
		w.list(x.List, cp(gs, guard{"with", x.Pipe.String(), true}))
		w.list(x.ElseList, cp(gs, guard{"with", x.Pipe.String(), false}))
	case *parse.TemplateNode:
		// inline the named template (bounded depth: PriorityBlock is recursive)
		if t, ok := w.trees[x.Name]; ok && w.depth < 2 {
			w.depth++
			w.list(t.Root, cp(gs, guard{"with", "template " + x.Name, true}))
			w.depth--
		}
	case *parse.ListNode:
		w.list(x, gs)
	case *parse.CommentNode, *parse.BreakNode, *parse.ContinueNode:
	default:
		// unknown node kinds print nothing we look at
	}
}

var funcRe = regexp.MustCompile(`(?m)^func (\(([A-Za-z_][A-Za-z0-9_]* )?(\*?)[^)]*\) )?([^\s(]+)\(`)

// funcsOf finds every `func` header in the linearised text; the guards are those of the
// piece containing the `func` keyword.
func funcsOf(pieces []piece) []tfunc {
	var sb strings.Builder
	starts := make([]int, len(pieces))
	for i, p := range pieces {
		starts[i] = sb.Len()
		sb.WriteString(p.text)
	}
	all := sb.String()
	var out []tfunc
	for _, m := range funcRe.FindAllStringSubmatchIndex(all, -1) {
		at := m[0]
		k := sort.Search(len(starts), func(i int) bool { return starts[i] > at }) - 1
		recv := "RNone"
		if m[2] >= 0 {
			recv = "RValue"
			if m[6] >= 0 && all[m[6]:m[7]] == "*" {
				recv = "RPointer"
			}
		}
		// the signature: the rest of the header line after the function name
		rest := all[m[9]:] // starts at the "(" of the parameter list
		if nl := strings.IndexByte(rest, '\n'); nl >= 0 {
			rest = rest[:nl]
		}
		ps, rs := signatureOf(rest)
		out = append(out, tfunc{name: all[m[8]:m[9]], recv: recv, guards: pieces[k].guards, params: ps, results: rs})
	}
	return out
}

var placeholderRe = regexp.MustCompile(`<[^<>]*>`)

// signatureOf parses "(params) results {" (template text with <action> placeholders) with
// go/parser and returns the parameter and result types, one entry per parameter, printed
// canonically (interface{} as any); placeholders are kept verbatim.
func signatureOf(rest string) ([]string, []string) {
	var phs []string
	src := placeholderRe.ReplaceAllStringFunc(rest, func(m string) string {
		phs = append(phs, m)
		return fmt.Sprintf("PH%dX", len(phs)-1)
	})
	// the body starts at the first "{" up to which the text parses as a signature (a "{" inside
	// interface{} / struct{} does not)
	fset := token.NewFileSet()
	var fd *ast.FuncDecl
	for i := 0; i < len(src); i++ {
		if src[i] != '{' {
			continue
		}
		f, err := parser.ParseFile(fset, "sig.go", "package p\nfunc f"+src[:i]+"{}\n", 0)
		if err != nil || len(f.Decls) != 1 {
			continue
		}
		if d, ok := f.Decls[0].(*ast.FuncDecl); ok {
			fd = d
			break
		}
	}
	if fd == nil {
		return []string{"?unparsed: " + strings.TrimSpace(rest)}, []string{}
	}
	back := func(t string) string {
		for i, ph := range phs {
			t = strings.ReplaceAll(t, fmt.Sprintf("PH%dX", i), ph)
		}
		t = strings.ReplaceAll(t, "interface{}", "any")
		return t
	}
	list := func(fl *ast.FieldList) []string {
		out := []string{}
		if fl == nil {
			return out
		}
		for _, fld := range fl.List {
			var b strings.Builder
			_ = printer.Fprint(&b, fset, fld.Type)
			n := len(fld.Names)
			if n == 0 {
				n = 1
			}
			for i := 0; i < n; i++ {
				out = append(out, back(b.String()))
			}
		}
		return out
	}
	return list(fd.Type.Params), list(fd.Type.Results)
}

func parseTemplate(path string) ([]tfunc, error) {
	raw, err := os.ReadFile(path)
	if err != nil {
		return nil, err
	}
	trees := map[string]*parse.Tree{}
	t := parse.New(filepath.Base(path))
	t.Mode = parse.SkipFuncCheck
	if _, err := t.Parse(string(raw), "", "", trees); err != nil {
		return nil, err
	}
	w := &walker{trees: trees}
	root := trees[filepath.Base(path)]
	if root == nil {
		return nil, fmt.Errorf("no root tree for %s", path)
	}
	w.list(root.Root, nil)
	return funcsOf(w.pieces), nil
}

func q(s string) string { return "\"" + strings.ReplaceAll(s, "\"", "\"\"") + "\"" }

func galGuard(g guard) string {
	b := "false"
	if g.pos {
		b = "true"
	}
	switch g.kind {
	case "flag":
		return "GFlag " + q(g.text) + " " + b
	case "range":
		return "GRange " + q(g.text) + " " + b
	case "with":
		return "GWith " + q(g.text) + " " + b
	default:
		return "GData " + q(g.text) + " " + b
	}
}

func qlist(xs []string) string {
	qs := make([]string, len(xs))
	for i, x := range xs {
		qs[i] = q(x)
	}
	return "[" + strings.Join(qs, "; ") + "]"
}

func galFuncs(name string, fs []tfunc) string {
	var sb strings.Builder
	fmt.Fprintf(&sb, "Definition %s : list tfunc := [\n", name)
	for i, f := range fs {
		gs := make([]string, len(f.guards))
		for j, g := range f.guards {
			gs[j] = galGuard(g)
		}
		sep := ";"
		if i == len(fs)-1 {
			sep = ""
		}
		fmt.Fprintf(&sb, "  mk_tfunc %s %s [%s] %s %s%s\n", q(f.name), f.recv, strings.Join(gs, "; "), qlist(f.params), qlist(f.results), sep)
	}
	sb.WriteString("].\n\n")
	return sb.String()
}

// ifaceMethods returns the method names of interface `name` declared in package dir, in source
// order, with the names of embedded interfaces prefixed by "embed:".
func ifaceMethods(dir, name string) ([]string, error) {
	fset := token.NewFileSet()
	pkgs, err := parser.ParseDir(fset, dir, func(fi os.FileInfo) bool {
		return !strings.HasSuffix(fi.Name(), "_test.go")
	}, 0)
	if err != nil {
		return nil, err
	}
	for _, p := range pkgs {
		for _, f := range p.Files {
			for _, d := range f.Decls {
				gd, ok := d.(*ast.GenDecl)
				if !ok {
					continue
				}
				for _, s := range gd.Specs {
					ts, ok := s.(*ast.TypeSpec)
					if !ok || ts.Name.Name != name {
						continue
					}
					it, ok := ts.Type.(*ast.InterfaceType)
					if !ok {
						return nil, fmt.Errorf("%s is not an interface", name)
					}
					var out []string
					for _, m := range it.Methods.List {
						if len(m.Names) == 0 {
							if id, ok := m.Type.(*ast.Ident); ok {
								out = append(out, "embed:"+id.Name)
							} else {
								out = append(out, "embed:?")
							}
							continue
						}
						for _, n := range m.Names {
							out = append(out, n.Name)
						}
					}
					return out, nil
				}
			}
		}
	}
	return nil, fmt.Errorf("interface %s not found in %s", name, dir)
}

// methodsOn returns the names of the methods declared on type `typ` (value or pointer receiver).
func methodsOn(dir, typ string) ([]string, error) {
	fset := token.NewFileSet()
	pkgs, err := parser.ParseDir(fset, dir, func(fi os.FileInfo) bool {
		return !strings.HasSuffix(fi.Name(), "_test.go")
	}, 0)
	if err != nil {
		return nil, err
	}
	var out []string
	for _, p := range pkgs {
		for _, f := range p.Files {
			for _, d := range f.Decls {
				fd, ok := d.(*ast.FuncDecl)
				if !ok || fd.Recv == nil || len(fd.Recv.List) != 1 {
					continue
				}
				t := fd.Recv.List[0].Type
				if st, ok := t.(*ast.StarExpr); ok {
					t = st.X
				}
				if id, ok := t.(*ast.Ident); ok && id.Name == typ {
					out = append(out, fd.Name.Name)
				}
			}
		}
	}
	sort.Strings(out)
	return out, nil
}

func galStrs(name string, xs []string) string {
	qs := make([]string, len(xs))
	for i, x := range xs {
		qs[i] = q(x)
	}
	return fmt.Sprintf("Definition %s : list string := [%s].\n\n", name, strings.Join(qs, "; "))
}

func main() {
	repo := flag.String("repo", "/repo", "root of the tree to read")
	out := flag.String("out", "TmplMethodsGen.v", "output file")
	flag.Parse()
	var sb strings.Builder
	sb.WriteString("(* TmplMethodsGen.v — REGENERATED on every run by harness/cmd/xlate_tmpl_methods from the\n" +
		"   templates and interface definitions of the current tree.  Do not edit. *)\n" +
		"From Coq Require Import String List.\nFrom GT Require Import GenBuildModel.\nImport ListNotations.\nLocal Open Scope string_scope.\n\n")
	for _, t := range []struct{ def, path string }{
		{"genum_funcs", "genum/gen/enumTemplate.gotmpl"},
		{"gerror_funcs", "gerror/gen/gerror.gotmpl"},
		{"gsort_funcs", "gsort/gen/gsort.gotmpl"},
	} {
		fs, err := parseTemplate(filepath.Join(*repo, t.path))
		if err != nil {
			fmt.Fprintln(os.Stderr, "xlate_tmpl_methods:", err)
			os.Exit(1)
		}
		sb.WriteString(galFuncs(t.def, fs))
	}
	for _, i := range []struct{ def, dir, name string }{
		{"iface_genum_Enum", "genum", "Enum"},
		{"iface_genum_TypedEnum", "genum", "TypedEnum"},
		{"iface_gerror_Error", "gerror", "Error"},
		{"iface_gerror_Factory", "gerror", "Factory"},
	} {
		ms, err := ifaceMethods(filepath.Join(*repo, i.dir), i.name)
		if err != nil {
			fmt.Fprintln(os.Stderr, "xlate_tmpl_methods:", err)
			os.Exit(1)
		}
		sb.WriteString(galStrs(i.def, ms))
	}
	ms, err := methodsOn(filepath.Join(*repo, "gerror"), "GError")
	if err != nil {
		fmt.Fprintln(os.Stderr, "xlate_tmpl_methods:", err)
		os.Exit(1)
	}
	sb.WriteString(galStrs("methods_gerror_GError", ms))
	sb.WriteString("(* the interface signatures come from the farm harness (IfaceSigsGen.v) *)\n" +
		"Definition gen_tables_of (isigs : list (string * sigreq)) : tmpl_tables :=\n  {| tt_genum := genum_funcs; tt_gerror := gerror_funcs; tt_gsort := gsort_funcs;\n" +
		"     tt_enum := iface_genum_Enum; tt_typed := iface_genum_TypedEnum;\n" +
		"     tt_error := iface_gerror_Error; tt_factory := iface_gerror_Factory;\n" +
		"     tt_promoted := methods_gerror_GError; tt_isigs := isigs |}.\n")
	if err := os.WriteFile(*out, []byte(sb.String()), 0o644); err != nil {
		fmt.Fprintln(os.Stderr, "xlate_tmpl_methods:", err)
		os.Exit(1)
	}
}
