// xlate_tmpl_methods — (T) tie of property C13.
//
// Reads the three generator templates of the current tree with text/template/parse and the
// interface definitions the generated code must satisfy with go/parser, and regenerates the
// Gallina file TmplMethodsGen.v:
//
//   - for every `func` a template emits: its name, its receiver kind, the list of guards
//     ({{if}} / {{else}} / {{range}} / {{with}} nodes) enclosing the position of the `func`
//     keyword, and its signature (parameter and result types as template text, read off the
//     header line with go/parser);
//   - the method names of genum.Enum, genum.TypedEnum (with the embedded Enum), gerror.Error,
//     gerror.Factory, and the methods declared on gerror.GError (promoted into every extension
//     struct).
//
// Only the standard library is used.  The translator is dumb on purpose: it does not decide
// which guard is an option flag or which range is the per-type range — it prints what it
// sees; the interpretation (GenBuildModel.v) is hand-written and proved about.
//
//	xlate_tmpl_methods -repo DIR -out FILE
package main

import (
	"flag"
	"fmt"
	"go/ast"
	"go/parser"
	"go/printer"
	"go/token"
	"os"
	"path/filepath"
	"regexp"
	"sort"
	"strings"
	"text/template/parse"

	"gtverif/internal/gentmpl"
	"gtverif/internal/srcset"
)

type guard struct {
	kind string // flag | data | range | with
	text string
	pos  bool
}

type tfunc struct {
	name    string
	recv    string // RValue | RPointer | RNone
	guards  []guard
	params  []string // parameter types as template text, one per parameter
	results []string // result types as template text
}

// piece is one element of the linearised template: literal text or an action placeholder,
// together with the guards in force where it occurs.
type piece struct {
	text   string
	guards []guard
}

var flagRe = regexp.MustCompile(`^\(?\$?\.([A-Za-z_][A-Za-z0-9_]*)\)?$`)
var notFlagRe = regexp.MustCompile(`^not \(?\$?\.([A-Za-z_][A-Za-z0-9_]*)\)?$`)

// condGuard classifies an {{if}} pipeline: a bare top-level field (".X" / "$.X"), its negation
// ("not $.X"), or anything else (a condition on the data).
func condGuard(pipe string, positive bool) guard {
	p := strings.TrimSpace(pipe)
	if m := flagRe.FindStringSubmatch(p); m != nil {
		return guard{"flag", m[1], positive}
	}
	if m := notFlagRe.FindStringSubmatch(p); m != nil {
		return guard{"flag", m[1], !positive}
	}
	return guard{"data", p, positive}
}

func cp(gs []guard, g guard) []guard {
	out := make([]guard, len(gs)+1)
	copy(out, gs)
	out[len(gs)] = g
	return out
}

type walker struct {
	pieces []piece
	trees  map[string]*parse.Tree
	depth  int
	// template variables -> what they are bound to, in canonical text: the element / index of
	// a range over a canonical pipeline, or the canonical text of the assigned pipeline.  With
	// it an action prints the same whatever the template's variables are called.
	vars map[string]string
	acts []string // canonical text of the printing actions, by token number
	// does `.` still denote the template's root data here (not inside a range / with / define)?
	dotRoot bool
}

func (w *walker) list(l *parse.ListNode, gs []guard) {
	if l == nil {
		return
	}
	for _, n := range l.Nodes {
		w.node(n, gs)
	}
}

// canon prints a pipeline / command / argument with every template variable replaced by its
// binding and, where `.` is the root, `.X` written as `$.X`.
func (w *walker) canon(n parse.Node) string {
	switch x := n.(type) {
	case *parse.PipeNode:
		cmds := make([]string, len(x.Cmds))
		for i, c := range x.Cmds {
			cmds[i] = w.canon(c)
		}
		return strings.Join(cmds, " | ")
	case *parse.CommandNode:
		args := make([]string, len(x.Args))
		for i, a := range x.Args {
			if p, ok := a.(*parse.PipeNode); ok {
				args[i] = "(" + w.canon(p) + ")"
			} else {
				args[i] = w.canon(a)
			}
		}
		return strings.Join(args, " ")
	case *parse.FieldNode:
		if w.dotRoot {
			return "$." + strings.Join(x.Ident, ".")
		}
		return "." + strings.Join(x.Ident, ".")
	case *parse.VariableNode:
		head := x.Ident[0]
		if b, ok := w.vars[head]; ok {
			head = b
		}
		if len(x.Ident) > 1 {
			return head + "." + strings.Join(x.Ident[1:], ".")
		}
		return head
	case *parse.ChainNode:
		base := w.canon(x.Node)
		if _, ok := x.Node.(*parse.PipeNode); ok {
			base = "(" + base + ")"
		}
		return base + "." + strings.Join(x.Field, ".")
	case *parse.DotNode:
		if w.dotRoot {
			return "$"
		}
		return "."
	}
	return n.String()
}

// bind records the variables a pipeline declares; rng: the pipeline is a range header
// (`$i, $x := P` binds index and element, `$x := P` the element).
func (w *walker) pipeText(pipe *parse.PipeNode) string {
	return w.canon(&parse.PipeNode{NodeType: pipe.NodeType, Cmds: pipe.Cmds})
}

func (w *walker) bind(pipe *parse.PipeNode, text string, rng bool) {
	switch {
	case rng && len(pipe.Decl) == 2:
		w.vars[pipe.Decl[0].Ident[0]] = "idx(" + text + ")"
		w.vars[pipe.Decl[1].Ident[0]] = "elem(" + text + ")"
	case rng && len(pipe.Decl) == 1:
		w.vars[pipe.Decl[0].Ident[0]] = "elem(" + text + ")"
	case len(pipe.Decl) == 1:
		w.vars[pipe.Decl[0].Ident[0]] = text
	}
}

func (w *walker) scoped(dotRoot bool, f func()) {
	saved, savedRoot := w.vars, w.dotRoot
	w.vars = map[string]string{}
	for k, v := range saved {
		w.vars[k] = v
	}
	w.dotRoot = dotRoot
	f()
	w.vars, w.dotRoot = saved, savedRoot
}

func (w *walker) node(n parse.Node, gs []guard) {
	switch x := n.(type) {
	case *parse.TextNode:
		w.pieces = append(w.pieces, piece{string(x.Text), gs})
	case *parse.ActionNode:
		// an action that only declares variables prints nothing
		if len(x.Pipe.Decl) > 0 {
			w.bind(x.Pipe, w.pipeText(x.Pipe), false)
			return
		}
		// an opaque token in the linearised text (the canonical text has blanks and
		// parentheses, which the header regexps and go/parser must not see)
		w.acts = append(w.acts, w.canon(x.Pipe))
		w.pieces = append(w.pieces, piece{fmt.Sprintf("<@%d>", len(w.acts)-1), gs})
	case *parse.IfNode:
		cond := w.canon(x.Pipe)
		w.scoped(w.dotRoot, func() { w.list(x.List, cp(gs, condGuard(cond, true))) })
		w.scoped(w.dotRoot, func() { w.list(x.ElseList, cp(gs, condGuard(cond, false))) })
	case *parse.RangeNode:
		p := w.pipeText(x.Pipe)
		w.scoped(false, func() {
			w.bind(x.Pipe, p, true)
			w.list(x.List, cp(gs, guard{"range", p, true}))
		})
		w.scoped(w.dotRoot, func() { w.list(x.ElseList, cp(gs, guard{"range", p, false})) })
	case *parse.WithNode:
		p := w.pipeText(x.Pipe)
		w.scoped(false, func() {
			w.bind(x.Pipe, p, false)
			w.list(x.List, cp(gs, guard{"with", p, true}))
		})
		w.scoped(w.dotRoot, func() { w.list(x.ElseList, cp(gs, guard{"with", p, false})) })
	case *parse.TemplateNode:
		// inline the named template (bounded depth: the gsort key chain is recursive); inside it
		// `.` is the argument
		if t, ok := w.trees[x.Name]; ok && w.depth < 2 {
			w.depth++
			w.scoped(false, func() { w.list(t.Root, cp(gs, guard{"with", "template", true})) })
			w.depth--
		}
	case *parse.ListNode:
		w.list(x, gs)
	case *parse.CommentNode, *parse.BreakNode, *parse.ContinueNode:
	default:
		// unknown node kinds print nothing we look at
	}
}

// tuse: inside the body of an emitted func, a call of a method on the func's own receiver
// (`e.Name(`) or of a function whose name is built from a template action (`Parse<T>(`): the
// callee must be something the template declares under guards that hold whenever the use can
// be emitted (or, for methods, something the receiver's type has by other means).
type tuse struct {
	in     string // name of the func whose body holds the use
	name   string
	method bool
	guards []guard
}

var funcRe = regexp.MustCompile(`(?m)^func (\(([A-Za-z_][A-Za-z0-9_]* )?(\*?)[^)]*\) )?([^\s(]+)\(`)

// funcsOf finds every `func` header in the linearised text; the guards are those of the
// piece containing the `func` keyword.
var tokenRe = regexp.MustCompile(`<@(\d+)>`)

// usesOf: see tuse.  The body of a func runs from its header to the next line that is `}`.
func usesOf(pieces []piece, acts []string) []tuse {
	expand := func(t string) string {
		return tokenRe.ReplaceAllStringFunc(t, func(m string) string {
			var k int
			fmt.Sscanf(m, "<@%d>", &k)
			return "<" + acts[k] + ">"
		})
	}
	var sb strings.Builder
	starts := make([]int, len(pieces))
	for i, p := range pieces {
		starts[i] = sb.Len()
		sb.WriteString(p.text)
	}
	all := sb.String()
	guardsAt := func(at int) []guard {
		k := sort.Search(len(starts), func(i int) bool { return starts[i] > at }) - 1
		return pieces[k].guards
	}
	var out []tuse
	seen := map[string]bool{}
	for _, m := range funcRe.FindAllStringSubmatchIndex(all, -1) {
		body := all[m[0]:]
		if end := strings.Index(body, "\n}\n"); end >= 0 {
			body = body[:end]
		}
		fname := expand(all[m[8]:m[9]])
		add := func(off int, name string, method bool) {
			u := tuse{in: fname, name: expand(name), method: method, guards: guardsAt(m[0] + off)}
			key := fmt.Sprint(u.in, "|", u.name, "|", u.method, "|", u.guards)
			if !seen[key] {
				seen[key] = true
				out = append(out, u)
			}
		}
		if m[4] >= 0 { // a named receiver
			recv := strings.TrimSpace(all[m[4]:m[5]])
			re := regexp.MustCompile(`(^|[^A-Za-z0-9_.\]])\(?\*?` + regexp.QuoteMeta(recv) + `\)?\.([A-Za-z_][A-Za-z0-9_]*)\(`)
			hdr := strings.Index(body, "\n")
			if hdr < 0 {
				continue
			}
			for _, u := range re.FindAllStringSubmatchIndex(body[hdr:], -1) {
				add(hdr+u[4], body[hdr+u[4]:hdr+u[5]], true)
			}
		}
		// functions named with a template action
		re2 := regexp.MustCompile(`(^|[^A-Za-z0-9_.>])([A-Za-z_][A-Za-z0-9_]*<@\d+>[A-Za-z0-9_]*)\(`)
		hdr := strings.Index(body, "\n")
		if hdr < 0 {
			continue
		}
		for _, u := range re2.FindAllStringSubmatchIndex(body[hdr:], -1) {
			add(hdr+u[4], body[hdr+u[4]:hdr+u[5]], false)
		}
	}
	return out
}

func galUses(name string, us []tuse) string {
	var sb strings.Builder
	fmt.Fprintf(&sb, "Definition %s : list tuse := [\n", name)
	for i, u := range us {
		gs := make([]string, len(u.guards))
		for j, g := range u.guards {
			gs[j] = galGuard(g)
		}
		sep := ";"
		if i == len(us)-1 {
			sep = ""
		}
		b := "false"
		if u.method {
			b = "true"
		}
		fmt.Fprintf(&sb, "  mk_tuse %s %s %s [%s]%s\n", q(u.in), q(u.name), b, strings.Join(gs, "; "), sep)
	}
	sb.WriteString("].\n\n")
	return sb.String()
}

func funcsOf(pieces []piece, acts []string) []tfunc {
	expand := func(t string) string {
		return tokenRe.ReplaceAllStringFunc(t, func(m string) string {
			var k int
			fmt.Sscanf(m, "<@%d>", &k)
			return "<" + acts[k] + ">"
		})
	}
	var sb strings.Builder
	starts := make([]int, len(pieces))
	for i, p := range pieces {
		starts[i] = sb.Len()
		sb.WriteString(p.text)
	}
	all := sb.String()
	var out []tfunc
	for _, m := range funcRe.FindAllStringSubmatchIndex(all, -1) {
		at := m[0]
		k := sort.Search(len(starts), func(i int) bool { return starts[i] > at }) - 1
		recv := "RNone"
		if m[2] >= 0 {
			recv = "RValue"
			if m[6] >= 0 && all[m[6]:m[7]] == "*" {
				recv = "RPointer"
			}
		}
		// the signature: the rest of the header line after the function name
		rest := all[m[9]:] // starts at the "(" of the parameter list
		if nl := strings.IndexByte(rest, '\n'); nl >= 0 {
			rest = rest[:nl]
		}
		ps, rs := signatureOf(rest)
		name := all[m[8]:m[9]]
		for i := range ps {
			ps[i] = expand(ps[i])
		}
		for i := range rs {
			rs[i] = expand(rs[i])
		}
		// the generated type is whatever the receiver is declared with: name it <RECV> in the
		// signature, so that the table does not depend on how the template spells it
		if m[2] >= 0 {
			rt := strings.TrimSpace(all[m[2]:m[3]])
			rt = strings.TrimSuffix(strings.TrimPrefix(rt, "("), ")")
			if i := strings.LastIndexAny(rt, " *"); i >= 0 {
				rt = rt[i+1:]
			}
			if rt = expand(rt); rt != "" {
				for i := range ps {
					ps[i] = strings.ReplaceAll(ps[i], rt, "<RECV>")
				}
				for i := range rs {
					rs[i] = strings.ReplaceAll(rs[i], rt, "<RECV>")
				}
			}
		}
		out = append(out, tfunc{name: expand(name), recv: recv, guards: pieces[k].guards, params: ps, results: rs})
	}
	return out
}

var placeholderRe = regexp.MustCompile(`<[^<>]*>`)

// signatureOf parses "(params) results {" (template text with <action> placeholders) with
// go/parser and returns the parameter and result types, one entry per parameter, printed
// canonically (interface{} as any); placeholders are kept verbatim.
func signatureOf(rest string) ([]string, []string) {
	var phs []string
	src := placeholderRe.ReplaceAllStringFunc(rest, func(m string) string {
		phs = append(phs, m)
		return fmt.Sprintf("PH%dX", len(phs)-1)
	})
	// the body starts at the first "{" up to which the text parses as a signature (a "{" inside
	// interface{} / struct{} does not)
	fset := token.NewFileSet()
	var fd *ast.FuncDecl
	for i := 0; i < len(src); i++ {
		if src[i] != '{' {
			continue
		}
		f, err := parser.ParseFile(fset, "sig.go", "package p\nfunc f"+src[:i]+"{}\n", 0)
		if err != nil || len(f.Decls) != 1 {
			continue
		}
		if d, ok := f.Decls[0].(*ast.FuncDecl); ok {
			fd = d
			break
		}
	}
	if fd == nil {
		return []string{"?unparsed: " + strings.TrimSpace(rest)}, []string{}
	}
	back := func(t string) string {
		for i, ph := range phs {
			t = strings.ReplaceAll(t, fmt.Sprintf("PH%dX", i), ph)
		}
		t = strings.ReplaceAll(t, "interface{}", "any")
		return t
	}
	list := func(fl *ast.FieldList) []string {
		out := []string{}
		if fl == nil {
			return out
		}
		for _, fld := range fl.List {
			var b strings.Builder
			_ = printer.Fprint(&b, fset, fld.Type)
			n := len(fld.Names)
			if n == 0 {
				n = 1
			}
			for i := 0; i < n; i++ {
				out = append(out, back(b.String()))
			}
		}
		return out
	}
	return list(fd.Type.Params), list(fd.Type.Results)
}

func parseTemplate(path string) ([]tfunc, []tuse, error) {
	raw, err := os.ReadFile(path)
	if err != nil {
		return nil, nil, err
	}
	trees := map[string]*parse.Tree{}
	t := parse.New(filepath.Base(path))
	t.Mode = parse.SkipFuncCheck
	if _, err := t.Parse(string(raw), "", "", trees); err != nil {
		return nil, nil, err
	}
	w := &walker{trees: trees, vars: map[string]string{}, dotRoot: true}
	root := trees[filepath.Base(path)]
	if root == nil {
		return nil, nil, fmt.Errorf("no root tree for %s", path)
	}
	w.list(root.Root, nil)
	return funcsOf(w.pieces, w.acts), usesOf(w.pieces, w.acts), nil
}

func q(s string) string { return "\"" + strings.ReplaceAll(s, "\"", "\"\"") + "\"" }

func galGuard(g guard) string {
	b := "false"
	if g.pos {
		b = "true"
	}
	switch g.kind {
	case "flag":
		return "GFlag " + q(g.text) + " " + b
	case "range":
		return "GRange " + q(g.text) + " " + b
	case "with":
		return "GWith " + q(g.text) + " " + b
	default:
		return "GData " + q(g.text) + " " + b
	}
}

func qlist(xs []string) string {
	qs := make([]string, len(xs))
	for i, x := range xs {
		qs[i] = q(x)
	}
	return "[" + strings.Join(qs, "; ") + "]"
}

func galFuncs(name string, fs []tfunc) string {
	var sb strings.Builder
	fmt.Fprintf(&sb, "Definition %s : list tfunc := [\n", name)
	for i, f := range fs {
		gs := make([]string, len(f.guards))
		for j, g := range f.guards {
			gs[j] = galGuard(g)
		}
		sep := ";"
		if i == len(fs)-1 {
			sep = ""
		}
		fmt.Fprintf(&sb, "  mk_tfunc %s %s [%s] %s %s%s\n", q(f.name), f.recv, strings.Join(gs, "; "), qlist(f.params), qlist(f.results), sep)
	}
	sb.WriteString("].\n\n")
	return sb.String()
}

// ifaceMethods returns the method names of interface `name` declared in package dir, in source
// order, with the names of embedded interfaces prefixed by "embed:".
func ifaceMethods(dir, name string) ([]string, error) {
	// the package's file set as the compiler selects it (build constraints, sibling files)
	p, err := srcset.Load(dir)
	if err != nil {
		return nil, err
	}
	ts, err := p.TypeSpec(name)
	if err != nil {
		return nil, err
	}
	it, ok := ts.Type.(*ast.InterfaceType)
	if !ok {
		return nil, fmt.Errorf("%s is not an interface", name)
	}
	var out []string
	for _, m := range it.Methods.List {
		if len(m.Names) == 0 {
			if id, ok := m.Type.(*ast.Ident); ok {
				out = append(out, "embed:"+id.Name)
			} else {
				out = append(out, "embed:?")
			}
			continue
		}
		for _, n := range m.Names {
			out = append(out, n.Name)
		}
	}
	return out, nil
}

// methodsOn returns the names of the methods declared on type `typ` (value or pointer receiver)
// in the package's file set.
func methodsOn(dir, typ string) ([]string, error) {
	p, err := srcset.Load(dir)
	if err != nil {
		return nil, err
	}
	return p.MethodsOf(typ), nil
}

func galStrs(name string, xs []string) string {
	qs := make([]string, len(xs))
	for i, x := range xs {
		qs[i] = q(x)
	}
	return fmt.Sprintf("Definition %s : list string := [%s].\n\n", name, strings.Join(qs, "; "))
}

func main() {
	repo := flag.String("repo", "/repo", "root of the tree to read")
	out := flag.String("out", "TmplMethodsGen.v", "output file")
	flag.Parse()
	var sb strings.Builder
	sb.WriteString("(* TmplMethodsGen.v — REGENERATED on every run by harness/cmd/xlate_tmpl_methods from the\n" +
		"   templates and interface definitions of the current tree.  Do not edit. *)\n" +
		"From Coq Require Import String List.\nFrom GT Require Import GenBuildModel.\nImport ListNotations.\nLocal Open Scope string_scope.\n\n")
	for _, t := range []struct{ def, dir string }{
		{"genum_funcs", "genum/gen"},
		{"gerror_funcs", "gerror/gen"},
		{"gsort_funcs", "gsort/gen"},
	} {
		// the template the generator executes: through the package's file set and go:embed; refused
		// when an init() or other code of the package can swap or reconfigure it
		found, err := gentmpl.Find(filepath.Join(*repo, t.dir))
		if err != nil {
			fmt.Fprintln(os.Stderr, "xlate_tmpl_methods:", err)
			os.Exit(1)
		}
		fs, us, err := parseTemplate(found.File)
		if err != nil {
			fmt.Fprintln(os.Stderr, "xlate_tmpl_methods:", err)
			os.Exit(1)
		}
		sb.WriteString(galFuncs(t.def, fs))
		sb.WriteString(galUses(strings.Replace(t.def, "_funcs", "_uses", 1), us))
	}
	for _, i := range []struct{ def, dir, name string }{
		{"iface_genum_Enum", "genum", "Enum"},
		{"iface_genum_TypedEnum", "genum", "TypedEnum"},
		{"iface_gerror_Error", "gerror", "Error"},
		{"iface_gerror_Factory", "gerror", "Factory"},
	} {
		ms, err := ifaceMethods(filepath.Join(*repo, i.dir), i.name)
		if err != nil {
			fmt.Fprintln(os.Stderr, "xlate_tmpl_methods:", err)
			os.Exit(1)
		}
		sb.WriteString(galStrs(i.def, ms))
	}
	ms, err := methodsOn(filepath.Join(*repo, "gerror"), "GError")
	if err != nil {
		fmt.Fprintln(os.Stderr, "xlate_tmpl_methods:", err)
		os.Exit(1)
	}
	sb.WriteString(galStrs("methods_gerror_GError", ms))
	sb.WriteString("(* the interface signatures come from the farm harness (IfaceSigsGen.v) *)\n" +
		"Definition gen_tables_of (isigs : list (string * sigreq)) : tmpl_tables :=\n  {| tt_genum := genum_funcs; tt_gerror := gerror_funcs; tt_gsort := gsort_funcs;\n" +
		"     tt_enum := iface_genum_Enum; tt_typed := iface_genum_TypedEnum;\n" +
		"     tt_error := iface_gerror_Error; tt_factory := iface_gerror_Factory;\n" +
		"     tt_promoted := methods_gerror_GError; tt_isigs := isigs |}.\n")
	if err := os.WriteFile(*out, []byte(sb.String()), 0o644); err != nil {
		fmt.Fprintln(os.Stderr, "xlate_tmpl_methods:", err)
		os.Exit(1)
	}
}
