// c11 — runs set.BitSet of the current tree on generated operation sequences and records,
// after every operation, the stored bits and the boolean result.
//
//	c11 -seed N -out PREFIX -mode random|sweep -n COUNT [-sweepstep K]
package main

import (
	"flag"
	"fmt"
	"math/rand/v2"

	"github.com/drshriveer/gtools/set"

	"gtverif/internal/gal"
)

type anyUint interface {
	~uint64 | ~uint32 | ~uint16 | ~uint8 | ~uint
}

type (
	f8  uint8
	f16 uint16
	f32 uint32
	f64 uint64
	fu  uint
)

type op struct {
	Op   string   `json:"op"`
	Args []uint64 `json:"args"`
}

type obs struct {
	Bits uint64 `json:"bits"`
	Res  bool   `json:"res"`
}

type jcase struct {
	Kind  string `json:"kind"`
	Width int    `json:"width"`
	Init  uint64 `json:"init"`
	Ops   []op   `json:"ops"`
	Obs   []obs  `json:"obs"`
	Panic string `json:"panic,omitempty"` // the LAST operation of ops panicked (it has no entry in obs)
}

func conv[T anyUint](xs []uint64) []T {
	out := make([]T, len(xs))
	for i, x := range xs {
		out[i] = T(x)
	}
	return out
}

// runSeq executes the operations on a real BitSet[T].
// Every operation runs under recover: the sequence is cut after a panicking operation, the case
// then lists one operation more than it has observations, which no run of the specification or
// of the model does — a failing input.
func runSeq[T anyUint](init uint64, ops []op) (out []obs, done int, pmsg string) {
	s := set.BitSet[T](init)
	out = make([]obs, 0, len(ops))
	defer func() {
		if r := recover(); r != nil {
			pmsg = fmt.Sprint("panic: ", r)
			done = len(out) + 1
		}
	}()
	for _, o := range ops {
		res := false
		switch o.Op {
		case "Make":
			s = set.MakeBitSet(conv[T](o.Args)...)
		case "Add":
			res = s.Add(conv[T](o.Args)...)
		case "Remove":
			res = s.Remove(conv[T](o.Args)...)
		case "MaskOf":
			s = s.MaskOf(T(o.Args[0]))
		case "Has":
			res = s.Has(T(o.Args[0]))
		case "HasAny":
			res = s.HasAny(conv[T](o.Args)...)
		}
		out = append(out, obs{uint64(s), res})
	}
	return out, len(ops), ""
}

func run(width int, init uint64, ops []op) ([]obs, int, string) {
	switch width {
	case 8:
		return runSeq[f8](init, ops)
	case 16:
		return runSeq[f16](init, ops)
	case 32:
		return runSeq[f32](init, ops)
	case 65:
		return runSeq[fu](init, ops)
	default:
		return runSeq[f64](init, ops)
	}
}

func galOp(o op) string {
	switch o.Op {
	case "Make":
		return "BMake " + gal.ListOf(o.Args, gal.N)
	case "Add":
		return "BAdd " + gal.ListOf(o.Args, gal.N)
	case "Remove":
		return "BRemove " + gal.ListOf(o.Args, gal.N)
	case "MaskOf":
		return "BMaskOf " + gal.N(o.Args[0])
	case "Has":
		return "BHas " + gal.N(o.Args[0])
	default:
		return "BHasAny " + gal.ListOf(o.Args, gal.N)
	}
}

func emit(out *gal.Out, kind string, width int, init uint64, ops []op) {
	ob, done, pmsg := run(width, init, ops)
	ops = ops[:done]
	g := "{| bc_init := " + gal.N(init) + "; bc_ops := " + gal.ListOf(ops, galOp) +
		"; bc_obs := " + gal.ListOf(ob, func(o obs) string { return gal.Pair(gal.N(o.Bits), gal.Bool(o.Res)) }) + " |}"
	w := width
	if w == 65 {
		w = 64
	}
	out.Case(g, jcase{kind, w, init, ops, ob, pmsg})
}

func mask(width int) uint64 {
	if width >= 64 {
		return ^uint64(0)
	}
	return (uint64(1) << uint(width)) - 1
}

// flagOf draws a flag: single bit, composite, zero, full, high bit — all within the width.
func flagOf(r *rand.Rand, width int, cur uint64) uint64 {
	m := mask(width)
	bits := width
	if bits > 64 {
		bits = 64
	}
	switch r.IntN(10) {
	case 0:
		return 0
	case 1:
		return m
	case 2:
		return uint64(1) << uint(bits-1) // top bit (bit 63 for the 64-bit types)
	case 3, 4:
		return uint64(1) << uint(r.IntN(bits))
	case 5:
		return cur & r.Uint64() & m // subset of what is stored
	case 6:
		return (cur | uint64(1)<<uint(r.IntN(bits))) & m // partly present composite
	case 7:
		return (uint64(1)<<uint(r.IntN(bits)) | uint64(1)<<uint(r.IntN(bits))) & m
	default:
		return r.Uint64() & r.Uint64() & m
	}
}

// maxArgs: longest argument list of the random sequences (every sixth call or so is long).
var maxArgs = 16

func randomCase(r *rand.Rand, out *gal.Out) {
	widths := []int{8, 16, 32, 64, 65}
	width := widths[r.IntN(len(widths))]
	m := mask(width)
	init := uint64(0)
	if r.IntN(3) > 0 {
		init = r.Uint64() & m
		if r.IntN(2) == 0 {
			init &= r.Uint64()
		}
	}
	n := 1 + r.IntN(30)
	ops := make([]op, 0, n)
	cur := init
	for i := 0; i < n; i++ {
		names := []string{"Add", "Add", "Remove", "Remove", "Remove", "Has", "HasAny", "MaskOf", "Make"}
		name := names[r.IntN(len(names))]
		var args []uint64
		switch name {
		case "Has", "MaskOf":
			args = []uint64{flagOf(r, width, cur)}
		default:
			k := r.IntN(5)
			if maxArgs > 4 && r.IntN(3) == 0 {
				k = 5 + r.IntN(maxArgs-4) // long argument lists (up to 16), zero flags included
			}
			args = make([]uint64, k)
			for j := range args {
				args[j] = flagOf(r, width, cur)
			}
		}
		ops = append(ops, op{name, args})
		// track the state so later flags can be chosen relative to it (impl is the oracle here)
		ob, _, pmsg := run(width, init, ops)
		if pmsg != "" || len(ob) == 0 {
			break // the sequence ends at the panicking operation; emit records it
		}
		cur = ob[len(ob)-1].Bits
	}
	emit(out, "random", width, init, ops)
}

// sweepCase: for one stored value s of the 8-bit type, every flag f (and a second flag g
// taken from the step pattern) through Add, Remove, Has, HasAny and MaskOf, each from state s.
func sweepCase(out *gal.Out, s uint64, gstep int) {
	ops := make([]op, 0, 256*9)
	for f := uint64(0); f < 256; f++ {
		g := (f*uint64(gstep) + s) & 0xff
		ops = append(ops,
			op{"Make", []uint64{s}}, op{"Add", []uint64{f}},
			op{"Make", []uint64{s}}, op{"Remove", []uint64{f}},
			op{"Make", []uint64{s}}, op{"Add", []uint64{f, g}},
			op{"Make", []uint64{s}}, op{"Remove", []uint64{f, g}},
			op{"Make", []uint64{s}}, op{"Has", []uint64{f}}, op{"HasAny", []uint64{f, g}},
			op{"MaskOf", []uint64{f}})
	}
	emit(out, "sweep8", 8, s, ops)
}

// tripleSum folds the outcomes of Add(f, g) and Remove(f, g) from stored value s over all
// (f, g) of the 8-bit type into one checksum (same fold as triple_sum in BitSetJudge.v).
func tripleSum(s uint64) uint64 {
	h := uint64(0)
	for f := uint64(0); f < 256; f++ {
		for g := uint64(0); g < 256; g++ {
			a := set.BitSet[f8](s)
			fa := a.Add(f8(f), f8(g))
			r := set.BitSet[f8](s)
			fr := r.Remove(f8(f), f8(g))
			v := uint64(a) + 256*uint64(r)
			if fa {
				v += 65536
			}
			if fr {
				v += 131072
			}
			h = (h*1000003 + v) % 2147483647
		}
	}
	return h
}

type jtri struct {
	Kind string `json:"kind"`
	S    uint64 `json:"s"`
	Sum  uint64 `json:"sum"`
}

func main() {
	seed := flag.Uint64("seed", 1, "PRNG seed")
	prefix := flag.String("out", "c11", "output prefix")
	mode := flag.String("mode", "random", "random|sweep|corpus")
	n := flag.Int("n", 300, "number of random cases / number of stored values to sweep")
	flag.IntVar(&maxArgs, "maxargs", 16, "longest argument list of random sequences")
	flag.Parse()
	r := gal.NewRand(*seed)
	out := gal.NewOut(*prefix)
	defer out.Close()
	switch *mode {
	case "corpus":
		// the two witnesses of the pinned defect (partly present composite flag; zero flag)
		emit(out, "corpus", 8, 3, []op{{"Remove", []uint64{6}}})
		emit(out, "corpus", 8, 3, []op{{"Remove", []uint64{0}}})
		emit(out, "corpus", 64, 1<<63|1, []op{{"Remove", []uint64{1<<63 | 2}}, {"Add", []uint64{0}}, {"Has", []uint64{0}}})
		// long argument lists (5, 8, 9, 16, 17 items) for every variadic function, in every width: flags
		// disjoint from the stored bits with and without the zero flag, partly present composites,
		// repeats, and no argument at all
		for _, width := range []int{8, 16, 32, 64, 65} {
			top := uint64(1) << uint(min(width, 64)-1)
			for _, k := range []int{5, 8, 9, 16, 17} {
				disj := make([]uint64, k) // all disjoint from the stored value 1
				mixed := make([]uint64, k)
				for i := range disj {
					disj[i] = uint64(2) << uint(i%(min(width, 64)-2))
					mixed[i] = disj[i] | uint64(i%2)
				}
				withZero := append(append([]uint64{}, disj[:k-1]...), 0)
				zeroFirst := append([]uint64{0}, disj[:k-1]...)
				emit(out, "corpus-long", width, 1, []op{{"HasAny", disj}, {"HasAny", withZero}, {"HasAny", zeroFirst}, {"HasAny", mixed},
					{"Add", withZero}, {"Remove", mixed}, {"Remove", withZero}, {"Make", mixed}, {"HasAny", append(disj[:k-1:k-1], top)},
					{"Add", nil}, {"Remove", nil}, {"HasAny", nil}, {"Make", nil}, {"HasAny", withZero}})
			}
		}
	case "triples":
		for st := uint64(0); st < 256; st++ {
			h := tripleSum(st)
			out.Case("{| tc_s := "+gal.N(st)+"; tc_sum := "+gal.N(h)+" |}", jtri{"triples8", st, h})
		}
	case "tripledetail":
		// all (f, g) for one stored value, one case per f (used to localise a checksum mismatch)
		st := uint64(*n)
		for f := uint64(0); f < 256; f++ {
			ops := make([]op, 0, 1024)
			for g := uint64(0); g < 256; g++ {
				ops = append(ops, op{"Make", []uint64{st}}, op{"Add", []uint64{f, g}},
					op{"Make", []uint64{st}}, op{"Remove", []uint64{f, g}})
			}
			emit(out, "tripledetail", 8, st, ops)
		}
	case "sweep":
		if *n >= 256 {
			for s := uint64(0); s < 256; s++ {
				sweepCase(out, s, 37)
			}
		} else {
			for i := 0; i < *n; i++ {
				sweepCase(out, uint64(r.IntN(256)), 1+2*r.IntN(64))
			}
		}
	default:
		for i := 0; i < *n; i++ {
			randomCase(r, out)
		}
	}
}
