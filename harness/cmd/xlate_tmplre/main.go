// xlate_tmplre — translator tie for C16: reads gconfig/yaml_templates.go of the current tree
// (stdlib go/parser, go/ast), finds the package variable initialised by regexp.MustCompile
// (whatever its name), parses it with regexp/syntax exactly as regexp.MustCompile does
// (syntax.Perl), requires ^...$ anchoring, and prints the pattern as a Gallina term of
// GT.TmplReModel.re:
//
//	xlate_tmplre -src <repo>/gconfig/yaml_templates.go -out <dir>/TmplReGen.v
package main

import (
	"flag"
	"fmt"
	"go/ast"
	"go/token"
	"os"
	"path/filepath"
	"regexp/syntax"
	"strconv"
	"strings"

	"gtverif/internal/srcset"
)

// name of the variable holding the compiled pattern (set by findPattern)
var matcherName string

func fail(format string, a ...any) {
	fmt.Fprintf(os.Stderr, "xlate_tmplre: "+format+"\n", a...)
	os.Exit(1)
}

// findPattern returns the literal of `var envVarTmplMatcher = regexp.MustCompile(<lit>)`.
// The variable is looked for in every file of the package that takes part in the build (build
// constraints honoured, harness/internal/srcset); it is an error if another function of the package
// — an init() in a sibling file included — assigns to it or takes its address, or if the file that
// declares it imports something else under the name `regexp`.
func findPattern(path, varName string) string {
	dir := path
	if strings.HasSuffix(path, ".go") {
		dir = filepath.Dir(path)
	}
	pkg, err := srcset.Load(dir, "verif")
	if err != nil {
		fail("%v", err)
	}
	f := &ast.File{Name: ast.NewIdent("gconfig")}
	for _, pf := range pkg.Files {
		f.Decls = append(f.Decls, pf.Decls...)
	}
	declFile := map[string]*ast.File{}
	for _, pf := range pkg.Files {
		for _, d := range pf.Decls {
			if gd, ok := d.(*ast.GenDecl); ok {
				for _, sp := range gd.Specs {
					if vs, ok := sp.(*ast.ValueSpec); ok {
						for _, nm := range vs.Names {
							declFile[nm.Name] = pf
						}
					}
				}
			}
		}
	}
	defer func() {
		if matcherName == "" {
			return
		}
		if w := pkg.WritesTo(matcherName); len(w) > 0 {
			fail("the compiled pattern %s is assigned to (or has its address taken) in %s", matcherName, strings.Join(w, ", "))
		}
		for _, im := range declFile[matcherName].Imports {
			name := ""
			if im.Name != nil {
				name = im.Name.Name
			}
			if pth, _ := strconv.Unquote(im.Path.Value); (name == "regexp" || (name == "" && strings.HasSuffix(pth, "/regexp"))) && pth != "regexp" {
				fail("`regexp` is not the standard library's regexp in the file declaring %s (%s)", matcherName, pth)
			}
		}
	}()
	found := ""
	ast.Inspect(f, func(n ast.Node) bool {
		vs, ok := n.(*ast.ValueSpec)
		if !ok {
			return true
		}
		for i, nm := range vs.Names {
			if i >= len(vs.Values) {
				continue
			}
			call, ok := vs.Values[i].(*ast.CallExpr)
			if !ok || len(call.Args) != 1 {
				continue
			}
			sel, ok := call.Fun.(*ast.SelectorExpr)
			if !ok || sel.Sel.Name != "MustCompile" {
				continue
			}
			// the variable is found by its initialiser (-var only disambiguates several patterns)
			if varName != "" && nm.Name != varName {
				continue
			}
			if found != "" {
				fail("several variables are initialised by regexp.MustCompile; name one with -var")
			}
			matcherName = nm.Name
			lit, ok := call.Args[0].(*ast.BasicLit)
			if !ok || lit.Kind != token.STRING {
				fail("the pattern of %s is not a string literal", varName)
			}
			s, err := strconv.Unquote(lit.Value)
			if err != nil {
				fail("%v", err)
			}
			found = s
		}
		return true
	})
	if found == "" {
		fail("no variable initialised by regexp.MustCompile(<string literal>) in %s", path)
	}
	return found
}

func gstr(s string) string { return "(b \"" + strings.ReplaceAll(s, "\"", "\"\"") + "\")" }

func sameRanges(r []rune, want ...rune) bool {
	if len(r) != len(want) {
		return false
	}
	for i := range r {
		if r[i] != want[i] {
			return false
		}
	}
	return true
}

func class(r []rune) string {
	switch {
	case sameRanges(r, 9, 10, 12, 13, 32, 32):
		return "CSpace"
	case sameRanges(r, 48, 57, 65, 90, 95, 95, 97, 122):
		return "CWord"
	case sameRanges(r, 0, 8, 11, 11, 14, 31, 33, 0x10ffff):
		return "CNotSpace"
	case sameRanges(r, 0, 9, 11, 0x10ffff):
		return "CAnyNotNL"
	}
	return fmt.Sprintf("(COther \"%v\")", r)
}

func cat(parts []string) string {
	if len(parts) == 0 {
		return "(RLit [])"
	}
	out := parts[len(parts)-1]
	for i := len(parts) - 2; i >= 0; i-- {
		out = "(RCat " + parts[i] + " " + out + ")"
	}
	return out
}

func tr(r *syntax.Regexp) string {
	switch r.Op {
	case syntax.OpEmptyMatch:
		return "(RLit [])"
	case syntax.OpLiteral:
		if r.Flags&syntax.FoldCase != 0 {
			return "(RCls (COther \"case-folded literal\"))"
		}
		return "(RLit " + gstr(string(r.Rune)) + ")"
	case syntax.OpCharClass:
		return "(RCls " + class(r.Rune) + ")"
	case syntax.OpAnyCharNotNL:
		return "(RCls CAnyNotNL)"
	case syntax.OpAnyChar:
		return "(RCls (COther \"any char incl. newline\"))"
	case syntax.OpCapture:
		return "(RCap " + strconv.Itoa(r.Cap) + " " + tr(r.Sub[0]) + ")"
	case syntax.OpStar:
		return "(RStar " + tr(r.Sub[0]) + ")"
	case syntax.OpPlus:
		return "(RPlus " + tr(r.Sub[0]) + ")"
	case syntax.OpQuest:
		return "(RQuest " + tr(r.Sub[0]) + ")"
	case syntax.OpConcat:
		parts := make([]string, len(r.Sub))
		for i, s := range r.Sub {
			parts[i] = tr(s)
		}
		return cat(parts)
	}
	return fmt.Sprintf("(RCls (COther \"unsupported operator %v\"))", r.Op)
}

func main() {
	src := flag.String("src", "", "path of gconfig/yaml_templates.go")
	out := flag.String("out", "", "output .v file")
	name := flag.String("var", "", "variable holding the compiled pattern (default: the one initialised by regexp.MustCompile)")
	flag.Parse()
	pat := findPattern(*src, *name)
	re, err := syntax.Parse(pat, syntax.Perl)
	if err != nil {
		fail("pattern %q does not parse: %v", pat, err)
	}
	anchored := "true"
	body := re
	if re.Op != syntax.OpConcat || len(re.Sub) < 2 || re.Sub[0].Op != syntax.OpBeginText ||
		re.Sub[len(re.Sub)-1].Op != syntax.OpEndText {
		anchored = "false"
	} else {
		body = &syntax.Regexp{Op: syntax.OpConcat, Sub: re.Sub[1 : len(re.Sub)-1]}
	}
	var sb strings.Builder
	sb.WriteString("(* generated by harness/cmd/xlate_tmplre from " + *src + " — do not edit *)\n")
	sb.WriteString("From Coq Require Import List String Ascii.\nImport ListNotations.\n")
	sb.WriteString("From GT Require Import TmplModel TmplReModel.\nLocal Open Scope string_scope.\n")
	sb.WriteString("Definition gen_source : string := \"" + strings.ReplaceAll(pat, "\"", "\"\"") + "\".\n")
	sb.WriteString("Definition gen_anchored : bool := " + anchored + ".\n")
	sb.WriteString("Definition gen_pattern : re :=\n  " + tr(body) + ".\n")
	if err := os.WriteFile(*out, []byte(sb.String()), 0o644); err != nil {
		fail("%v", err)
	}
}
