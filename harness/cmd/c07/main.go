// c07 — runs set.Set of the current tree on generated operation sequences over int, string
// and struct element types and records, after every operation, its boolean result and a full
// membership probe (sorted Slice(), nil-ness of Slice(), Has(u)/HasAny(u) for every u).
//
//	c07 -seed N -out PREFIX -mode random|corpus -n COUNT
package main

import (
	"bufio"
	"encoding/json"
	"flag"
	"fmt"
	"math/rand/v2"
	"os"
	"sort"
	"strconv"
	"strings"

	"github.com/drshriveer/gtools/set"

	"gtverif/internal/gal"
)

type pt struct {
	A int
	B string
}

type op struct {
	Op   string `json:"op"`
	Args []int  `json:"args,omitempty"` // indices into the universe
}

type obs struct {
	Ret     bool   `json:"ret"`
	Members []int  `json:"members"`
	Nil     bool   `json:"slice_nil"`
	Has     []bool `json:"has"`
	HasAny  []bool `json:"hasany"`
}

// multi-variable programs: V is the target variable, W the argument variable of AddSet/RemoveSet
type mop struct {
	Op   string `json:"op"`
	V    int    `json:"v"`
	W    int    `json:"w,omitempty"`
	Args []int  `json:"args,omitempty"`
}

type mcase struct {
	Kind  string  `json:"kind"`
	Elem  string  `json:"elem"`
	N     int     `json:"universe"`
	K     int     `json:"vars"`
	Ops   []mop   `json:"mops"`
	Obs   [][]obs `json:"mobs"`
	Panic string  `json:"panic,omitempty"` // the LAST operation of mops panicked (it has no row in mobs)
}

type jcase struct {
	Kind  string `json:"kind"`
	Elem  string `json:"elem"`
	N     int    `json:"universe"`
	Ops   []op   `json:"ops"`
	Obs   []obs  `json:"obs"`
	Panic string `json:"panic,omitempty"` // the LAST operation of ops panicked (it has no entry in obs)
}

// guarded runs one step of a program on the real code; a panic is returned as text.  The
// sequence is cut after a panicking operation: the case then lists one operation more than it has
// observations, which no run of the specification or of the model does — a failing input.
func guarded(step func()) (msg string) {
	defer func() {
		if r := recover(); r != nil {
			msg = fmt.Sprint("panic: ", r)
		}
	}()
	step()
	return ""
}

func pick[T any](univ []T, idx []int) []T {
	out := make([]T, len(idx))
	for i, k := range idx {
		out[i] = univ[k]
	}
	return out
}

func runSeq[T comparable](univ []T, ops []op) ([]obs, int, string) {
	index := make(map[T]int, len(univ))
	for i, u := range univ {
		index[u] = i
	}
	var s set.Set[T]
	out := make([]obs, 0, len(ops))
	for i, o := range ops {
		var ob obs
		if msg := guarded(func() {
			ret := false
			items := pick(univ, o.Args)
			switch o.Op {
			case "Nil":
				s = nil
			case "Make":
				s = set.Make(items...)
			case "Add":
				ret = s.Add(items...)
			case "AddSet":
				ret = s.AddSet(set.Make(items...))
			case "AddSetNil":
				ret = s.AddSet(nil)
			case "AddSelf":
				ret = s.AddSet(s)
			case "Remove":
				ret = s.Remove(items...)
			case "RemoveSet":
				ret = s.RemoveSet(set.Make(items...))
			case "RemoveSetNil":
				ret = s.RemoveSet(nil)
			case "RemoveSelf":
				ret = s.RemoveSet(s)
			case "Has":
				ret = s.Has(items...)
			case "HasAny":
				ret = s.HasAny(items...)
			default:
				panic("unknown op " + o.Op)
			}
			ob = probe(univ, index, s, ret)
		}); msg != "" {
			return out, i + 1, msg
		}
		out = append(out, ob)
	}
	return out, len(ops), ""
}

func probe[T comparable](univ []T, index map[T]int, s set.Set[T], ret bool) obs {
	sl := s.Slice()
	ob := obs{Ret: ret, Nil: sl == nil, Members: make([]int, 0, len(sl))}
	for _, v := range sl {
		k, ok := index[v]
		if !ok {
			k = -1
		}
		ob.Members = append(ob.Members, k)
	}
	sort.Ints(ob.Members)
	for _, u := range univ {
		ob.Has = append(ob.Has, s.Has(u))
		ob.HasAny = append(ob.HasAny, s.HasAny(u))
	}
	return ob
}

// runMulti executes a program over k set variables and probes all of them after every step.
func runMulti[T comparable](univ []T, k int, ops []mop) ([][]obs, int, string) {
	index := make(map[T]int, len(univ))
	for i, u := range univ {
		index[u] = i
	}
	vars := make([]set.Set[T], k)
	out := make([][]obs, 0, len(ops))
	for i, o := range ops {
		var row []obs
		if msg := guarded(func() {
			ret := false
			items := pick(univ, o.Args)
			switch o.Op {
			case "Nil":
				vars[o.V] = nil
			case "Make":
				vars[o.V] = set.Make(items...)
			case "Add":
				ret = vars[o.V].Add(items...)
			case "AddSet":
				ret = vars[o.V].AddSet(vars[o.W])
			case "Remove":
				ret = vars[o.V].Remove(items...)
			case "RemoveSet":
				ret = vars[o.V].RemoveSet(vars[o.W])
			case "Has":
				ret = vars[o.V].Has(items...)
			case "HasAny":
				ret = vars[o.V].HasAny(items...)
			default:
				panic("unknown op " + o.Op)
			}
			row = make([]obs, k)
			for i := range vars {
				row[i] = probe(univ, index, vars[i], ret)
			}
		}); msg != "" {
			return out, i + 1, msg
		}
		out = append(out, row)
	}
	return out, len(ops), ""
}

func universeOf(elem string, n int) any {
	switch elem {
	case "int":
		u := make([]int, n)
		for i := range u {
			u[i] = i*7 - 3
		}
		return u
	case "string":
		u := make([]string, n)
		for i := range u {
			u[i] = []string{"", "a", "A", "ab", "é", "a b", "true", "null"}[i%8]
			if i >= 8 {
				u[i] += fmt.Sprint(i / 8)
			}
		}
		return u
	default:
		u := make([]pt, n)
		for i := range u {
			u[i] = pt{A: i / 2, B: []string{"x", "y"}[i%2]}
		}
		return u
	}
}

func runM(elem string, n, k int, ops []mop) ([][]obs, int, string) {
	switch u := universeOf(elem, n).(type) {
	case []int:
		return runMulti(u, k, ops)
	case []string:
		return runMulti(u, k, ops)
	default:
		return runMulti(u.([]pt), k, ops)
	}
}

func galMop(o mop) string {
	v, w := gal.Nat(o.V), gal.Nat(o.W)
	switch o.Op {
	case "Nil":
		return "MNil " + v
	case "Make":
		return "MMake " + v + " " + galArgs(o.Args)
	case "Add":
		return "MAdd " + v + " " + galArgs(o.Args)
	case "AddSet":
		return "MAddSet " + v + " " + w
	case "Remove":
		return "MRemove " + v + " " + galArgs(o.Args)
	case "RemoveSet":
		return "MRemoveSet " + v + " " + w
	case "Has":
		return "MHas " + v + " " + galArgs(o.Args)
	default:
		return "MHasAny " + v + " " + galArgs(o.Args)
	}
}

func emitMulti(out *gal.Out, kind, elem string, n, k int, ops []mop) {
	ob, done, pmsg := runM(elem, n, k, ops)
	ops = ops[:done]
	univ := make([]int, n)
	for i := range univ {
		univ[i] = i
	}
	g := "{| mc_univ := " + galArgs(univ) + "; mc_vars := " + gal.Nat(k) + "; mc_ops := " + gal.ListOf(ops, galMop) +
		"; mc_obs := " + gal.ListOf(ob, func(row []obs) string { return gal.ListOf(row, galObs) }) + " |}"
	out.Case(g, mcase{kind, elem, n, k, ops, ob, pmsg})
}

func randomMulti(r *rand.Rand, out *gal.Out) {
	// (nat numerals are printed in nat scope by gal.Nat)
	elem := []string{"int", "string", "struct"}[r.IntN(3)]
	n := 3 + r.IntN(6)
	k := 2 + r.IntN(2)
	cnt := 2 + r.IntN(39)
	ops := make([]mop, 0, cnt)
	names := []string{"Add", "Add", "Add", "AddSet", "AddSet", "AddSet", "Remove", "Remove", "RemoveSet", "RemoveSet",
		"Has", "HasAny", "Nil", "Make", "Make"}
	for len(ops) < cnt {
		name := names[r.IntN(len(names))]
		o := mop{Op: name, V: r.IntN(k)}
		switch name {
		case "Has", "HasAny":
			o.Args = args(r, n, 1)
		case "Add", "Remove", "Make":
			o.Args = args(r, n, 0)
		case "AddSet", "RemoveSet":
			o.W = r.IntN(k)
		}
		ops = append(ops, o)
	}
	emitMulti(out, "multi", elem, n, k, ops)
}

func run(elem string, n int, ops []op) ([]obs, int, string) {
	switch elem {
	case "int":
		u := make([]int, n)
		for i := range u {
			u[i] = i*7 - 3
		}
		return runSeq(u, ops)
	case "string":
		u := make([]string, n)
		for i := range u {
			u[i] = []string{"", "a", "A", "ab", "é", "a b", "true", "null"}[i%8] + fmt.Sprint(i/8)
			if i < 8 {
				u[i] = []string{"", "a", "A", "ab", "é", "a b", "true", "null"}[i]
			}
		}
		return runSeq(u, ops)
	default:
		u := make([]pt, n)
		for i := range u {
			u[i] = pt{A: i / 2, B: []string{"x", "y"}[i%2]}
		}
		return runSeq(u, ops)
	}
}

func galArgs(a []int) string {
	return gal.ListOf(a, func(i int) string { return gal.Z(int64(i)) })
}

func galOp(o op) string {
	switch o.Op {
	case "Nil":
		return "ONil"
	case "Make":
		return "OMake " + galArgs(o.Args)
	case "Add":
		return "OAdd " + galArgs(o.Args)
	case "AddSet":
		return "OAddSet " + galArgs(o.Args)
	case "AddSetNil":
		return "OAddSetNil"
	case "AddSelf":
		return "OAddSelf"
	case "Remove":
		return "ORemove " + galArgs(o.Args)
	case "RemoveSet":
		return "ORemoveSet " + galArgs(o.Args)
	case "RemoveSetNil":
		return "ORemoveSetNil"
	case "RemoveSelf":
		return "ORemoveSelf"
	case "Has":
		return "OHas " + galArgs(o.Args)
	default:
		return "OHasAny " + galArgs(o.Args)
	}
}

func galObs(o obs) string {
	return "{| so_ret := " + gal.Bool(o.Ret) + "; so_members := " + galArgs(o.Members) +
		"; so_nil := " + gal.Bool(o.Nil) + "; so_has := " + gal.ListOf(o.Has, gal.Bool) +
		"; so_hasany := " + gal.ListOf(o.HasAny, gal.Bool) + " |}"
}

func emit(out *gal.Out, kind, elem string, n int, ops []op) {
	ob, done, pmsg := run(elem, n, ops)
	ops = ops[:done]
	univ := make([]int, n)
	for i := range univ {
		univ[i] = i
	}
	g := "{| sc_univ := " + galArgs(univ) + "; sc_ops := " + gal.ListOf(ops, galOp) +
		"; sc_obs := " + gal.ListOf(ob, galObs) + " |}"
	out.Case(g, jcase{kind, elem, n, ops, ob, pmsg})
}

func args(r *rand.Rand, n, min int) []int {
	k := min + r.IntN(7-min)
	a := make([]int, k)
	for i := range a {
		if i > 0 && r.IntN(3) == 0 {
			a[i] = a[r.IntN(i)] // repeat an earlier argument
		} else {
			a[i] = r.IntN(n)
		}
	}
	return a
}

// ---- beyond the small universes: sets larger than one map bucket, long argument lists ----

func seqInts(a, b int) []int { // a, a+1, ..., b-1
	out := make([]int, 0, b-a)
	for i := a; i < b; i++ {
		out = append(out, i)
	}
	return out
}

// longArgs draws 0..16 indices (with repeats, also the empty list).
func longArgs(r *rand.Rand, n, min int) []int {
	k := min + r.IntN(17-min)
	a := make([]int, k)
	for i := range a {
		if i > 0 && r.IntN(4) == 0 {
			a[i] = a[r.IntN(i)]
		} else {
			a[i] = r.IntN(n)
		}
	}
	return a
}

// setArgs draws the members of an argument SET for AddSet/RemoveSet on a universe of n: from a
// handful up to all n, contiguous ranges (so that disjoint / covering / half-overlapping
// arguments of the receiver's size occur) or scattered.
func setArgs(r *rand.Rand, n int) []int {
	switch r.IntN(4) {
	case 0:
		return longArgs(r, n, 0)
	case 1:
		return seqInts(0, n)
	default:
		a, b := r.IntN(n+1), r.IntN(n+1)
		if a > b {
			a, b = b, a
		}
		return seqInts(a, b)
	}
}

// bigCorpus: for a universe of n elements, a fixed script of operations on sets of about n/2 and
// n members with arguments that are disjoint from, cover, and partly overlap the receiver,
// argument lists of 16 items and of no item.
func bigCorpus(out *gal.Out, n int, multi bool) {
	h := n / 2
	for _, e := range []string{"int", "string", "struct"} {
		if multi {
			emitMulti(out, "multi-corpus-big", e, n, 3, []mop{
				{Op: "Make", V: 0, Args: seqInts(0, n)}, {Op: "Make", V: 1, Args: seqInts(0, h)}, {Op: "Make", V: 2, Args: seqInts(h, n)},
				{Op: "RemoveSet", V: 1, W: 2}, {Op: "RemoveSet", V: 0, W: 1}, {Op: "AddSet", V: 1, W: 0}, {Op: "RemoveSet", V: 0, W: 0},
				{Op: "AddSet", V: 0, W: 1}, {Op: "RemoveSet", V: 1, W: 0}, {Op: "Remove", V: 0}, {Op: "Has", V: 0, Args: seqInts(h, n)}})
			continue
		}
		emit(out, "corpus-big", e, n, []op{
			{"Make", seqInts(0, h)}, {"RemoveSet", seqInts(h, n)}, {"Remove", nil}, {"Has", seqInts(0, 16%n+1)},
			{"HasAny", append(seqInts(h, n), 0)}, {"RemoveSet", seqInts(0, n)}, {"Add", seqInts(0, n)},
			{"RemoveSet", seqInts(h/2, h/2+h)}, {"AddSet", seqInts(0, n)}, {"AddSet", seqInts(0, n)},
			{"Remove", append(seqInts(0, 8), seqInts(0, 8)...)}, {"RemoveSelf", nil}, {"AddSet", seqInts(h, n)},
			{"RemoveSet", seqInts(0, h)}, {"Add", nil}, {"Has", seqInts(h, n)}})
	}
}

func randomBig(r *rand.Rand, out *gal.Out, sizes []int, multi bool) {
	elem := []string{"int", "string", "struct"}[r.IntN(3)]
	n := sizes[r.IntN(len(sizes))]
	k := 2 + r.IntN(11)
	if multi {
		mops := []mop{{Op: "Make", V: 0, Args: setArgs(r, n)}, {Op: "Make", V: 1, Args: setArgs(r, n)}}
		for len(mops) < k {
			name := []string{"Add", "AddSet", "Remove", "RemoveSet", "RemoveSet", "Has", "HasAny"}[r.IntN(7)]
			o := mop{Op: name, V: r.IntN(2), W: r.IntN(2)}
			switch name {
			case "Has", "HasAny":
				o.Args = longArgs(r, n, 1)
			case "Add", "Remove":
				o.Args = longArgs(r, n, 0)
			}
			mops = append(mops, o)
		}
		emitMulti(out, "multi-big", elem, n, 2, mops)
		return
	}
	ops := []op{{"Make", setArgs(r, n)}}
	names := []string{"Add", "AddSet", "AddSet", "Remove", "Remove", "RemoveSet", "RemoveSet", "RemoveSet",
		"Has", "HasAny", "AddSelf", "RemoveSelf", "Make"}
	for len(ops) < k {
		name := names[r.IntN(len(names))]
		o := op{Op: name}
		switch name {
		case "Has", "HasAny":
			o.Args = longArgs(r, n, 1)
		case "Add", "Remove":
			o.Args = longArgs(r, n, 0)
		case "AddSet", "RemoveSet", "Make":
			o.Args = setArgs(r, n)
		}
		ops = append(ops, o)
	}
	emit(out, "random-big", elem, n, ops)
}

func randomCase(r *rand.Rand, out *gal.Out) {
	elem := []string{"int", "string", "struct"}[r.IntN(3)]
	n := 3 + r.IntN(6)
	k := 1 + r.IntN(40)
	ops := make([]op, 0, k)
	switch r.IntN(3) { // start: nil, empty, pre-filled
	case 1:
		ops = append(ops, op{"Make", nil})
	case 2:
		ops = append(ops, op{"Make", args(r, n, 1)})
	}
	names := []string{"Add", "Add", "Add", "AddSet", "Remove", "Remove", "Remove", "RemoveSet",
		"Has", "Has", "Has", "HasAny", "HasAny", "AddSelf", "RemoveSelf", "AddSetNil", "RemoveSetNil", "Nil", "Make"}
	for len(ops) < k {
		name := names[r.IntN(len(names))]
		o := op{Op: name}
		switch name {
		case "Has", "HasAny":
			o.Args = args(r, n, 1)
		case "Add", "AddSet", "Remove", "RemoveSet", "Make":
			o.Args = args(r, n, 0)
		}
		ops = append(ops, o)
	}
	emit(out, "random", elem, n, ops)
}

func main() {
	seed := flag.Uint64("seed", 1, "PRNG seed")
	prefix := flag.String("out", "c07", "output prefix")
	mode := flag.String("mode", "random", "random|corpus|big|multi|file|multifile")
	sizesFlag := flag.String("sizes", "9,17,33,65,129", "big mode / corpus: universe sizes beyond one map bucket")
	n := flag.Int("n", 300, "number of random cases")
	in := flag.String("in", "", "mode file: JSON lines {kind, elem, universe, ops} to execute")
	flag.Parse()
	r := gal.NewRand(*seed)
	out := gal.NewOut(*prefix)
	defer out.Close()
	var sizes []int
	for _, f := range strings.Split(*sizesFlag, ",") {
		if v, err := strconv.Atoi(strings.TrimSpace(f)); err == nil && v >= 2 && v <= 400 {
			sizes = append(sizes, v)
		}
	}
	if len(sizes) == 0 {
		sizes = []int{9, 17, 33, 65, 129}
	}
	if *mode == "big" || *mode == "bigmulti" {
		// sequences (big) resp. two-variable programs (bigmulti) over the large universes
		for i := 0; i < *n; i++ {
			randomBig(r, out, sizes, *mode == "bigmulti")
		}
		return
	}
	if *mode == "multifile" {
		f, err := os.Open(*in)
		if err != nil {
			panic(err)
		}
		sc := bufio.NewScanner(f)
		sc.Buffer(make([]byte, 1<<20), 1<<26)
		for sc.Scan() {
			var c mcase
			if err := json.Unmarshal(sc.Bytes(), &c); err != nil {
				panic(err)
			}
			emitMulti(out, c.Kind, c.Elem, c.N, c.K, c.Ops)
		}
		return
	}
	if *mode == "multi" {
		// storage must never be shared between two variables: AddSet into a nil / an empty
		// receiver, then mutate one side and look at the other
		for _, e := range []string{"int", "string", "struct"} {
			emitMulti(out, "multi-corpus", e, 4, 2, []mop{{Op: "Make", V: 1, Args: []int{0, 1}}, {Op: "AddSet", V: 0, W: 1},
				{Op: "Add", V: 0, Args: []int{2}}, {Op: "Remove", V: 1, Args: []int{0}}, {Op: "Has", V: 0, Args: []int{0, 2}}})
			emitMulti(out, "multi-corpus", e, 4, 3, []mop{{Op: "Make", V: 0}, {Op: "Make", V: 2, Args: []int{3, 3, 1}}, {Op: "AddSet", V: 0, W: 2},
				{Op: "RemoveSet", V: 2, W: 0}, {Op: "AddSet", V: 1, W: 0}, {Op: "RemoveSet", V: 0, W: 0}, {Op: "HasAny", V: 1, Args: []int{1, 2}}})
		}
		for _, sz := range sizes {
			bigCorpus(out, sz, true)
		}
		for i := 0; i < *n; i++ {
			randomMulti(r, out)
		}
		return
	}
	if *mode == "file" {
		f, err := os.Open(*in)
		if err != nil {
			panic(err)
		}
		sc := bufio.NewScanner(f)
		sc.Buffer(make([]byte, 1<<20), 1<<26)
		for sc.Scan() {
			var c jcase
			if err := json.Unmarshal(sc.Bytes(), &c); err != nil {
				panic(err)
			}
			emit(out, c.Kind, c.Elem, c.N, c.Ops)
		}
		return
	}
	if *mode == "corpus" {
		// witness of the pinned defect: Make(a).Has(a, a)
		for _, e := range []string{"int", "string", "struct"} {
			emit(out, "corpus", e, 3, []op{{"Make", []int{1}}, {"Has", []int{1, 1}}})
			emit(out, "corpus", e, 4, []op{{"Add", []int{0, 2}}, {"Has", []int{0, 2, 0, 2, 2}}, {"Has", []int{0, 1}},
				{"HasAny", []int{1, 3, 3}}, {"Remove", []int{2, 2}}, {"Remove", []int{2}}, {"RemoveSelf", nil}, {"RemoveSelf", nil}})
			emit(out, "corpus", e, 3, []op{{"Remove", []int{0}}, {"Has", []int{0}}, {"AddSetNil", nil}, {"AddSet", []int{1, 1}}, {"AddSelf", nil}})
			// every operation with no argument at all, on a nil, an empty and a filled set
			emit(out, "corpus", e, 3, []op{{"Add", nil}, {"Remove", nil}, {"Make", nil}, {"Remove", nil}, {"Add", nil}, {"Make", []int{0, 1}},
				{"Remove", nil}, {"Add", nil}, {"AddSet", nil}, {"RemoveSet", nil}, {"Has", []int{0}}})
		}
		for _, sz := range sizes {
			bigCorpus(out, sz, false)
		}
		return
	}
	for i := 0; i < *n; i++ {
		randomCase(r, out)
	}
}
