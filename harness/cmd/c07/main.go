// c07 — runs set.Set of the current tree on generated operation sequences over int, string
// and struct element types and records, after every operation, its boolean result and a full
// membership probe (sorted Slice(), nil-ness of Slice(), Has(u)/HasAny(u) for every u).
//
//	c07 -seed N -out PREFIX -mode random|corpus -n COUNT
package main

import (
	"bufio"
	"encoding/json"
	"flag"
	"fmt"
	"math/rand/v2"
	"os"
	"sort"

	"github.com/drshriveer/gtools/set"

	"gtverif/internal/gal"
)

type pt struct {
	A int
	B string
}

type op struct {
	Op   string `json:"op"`
	Args []int  `json:"args,omitempty"` // indices into the universe
}

type obs struct {
	Ret     bool   `json:"ret"`
	Members []int  `json:"members"`
	Nil     bool   `json:"slice_nil"`
	Has     []bool `json:"has"`
	HasAny  []bool `json:"hasany"`
}

// multi-variable programs: V is the target variable, W the argument variable of AddSet/RemoveSet
type mop struct {
	Op   string `json:"op"`
	V    int    `json:"v"`
	W    int    `json:"w,omitempty"`
	Args []int  `json:"args,omitempty"`
}

type mcase struct {
	Kind string  `json:"kind"`
	Elem string  `json:"elem"`
	N    int     `json:"universe"`
	K    int     `json:"vars"`
	Ops  []mop   `json:"mops"`
	Obs  [][]obs `json:"mobs"`
}

type jcase struct {
	Kind string `json:"kind"`
	Elem string `json:"elem"`
	N    int    `json:"universe"`
	Ops  []op   `json:"ops"`
	Obs  []obs  `json:"obs"`
}

func pick[T any](univ []T, idx []int) []T {
	out := make([]T, len(idx))
	for i, k := range idx {
		out[i] = univ[k]
	}
	return out
}

func runSeq[T comparable](univ []T, ops []op) []obs {
	index := make(map[T]int, len(univ))
	for i, u := range univ {
		index[u] = i
	}
	var s set.Set[T]
	out := make([]obs, 0, len(ops))
	for _, o := range ops {
		ret := false
		items := pick(univ, o.Args)
		switch o.Op {
		case "Nil":
			s = nil
		case "Make":
			s = set.Make(items...)
		case "Add":
			ret = s.Add(items...)
		case "AddSet":
			ret = s.AddSet(set.Make(items...))
		case "AddSetNil":
			ret = s.AddSet(nil)
		case "AddSelf":
			ret = s.AddSet(s)
		case "Remove":
			ret = s.Remove(items...)
		case "RemoveSet":
			ret = s.RemoveSet(set.Make(items...))
		case "RemoveSetNil":
			ret = s.RemoveSet(nil)
		case "RemoveSelf":
			ret = s.RemoveSet(s)
		case "Has":
			ret = s.Has(items...)
		case "HasAny":
			ret = s.HasAny(items...)
		default:
			panic("unknown op " + o.Op)
		}
		sl := s.Slice()
		ob := obs{Ret: ret, Nil: sl == nil, Members: make([]int, 0, len(sl))}
		for _, v := range sl {
			k, ok := index[v]
			if !ok {
				k = -1 // an element that was never in the universe
			}
			ob.Members = append(ob.Members, k)
		}
		sort.Ints(ob.Members)
		for _, u := range univ {
			ob.Has = append(ob.Has, s.Has(u))
			ob.HasAny = append(ob.HasAny, s.HasAny(u))
		}
		out = append(out, ob)
	}
	return out
}

func probe[T comparable](univ []T, index map[T]int, s set.Set[T], ret bool) obs {
	sl := s.Slice()
	ob := obs{Ret: ret, Nil: sl == nil, Members: make([]int, 0, len(sl))}
	for _, v := range sl {
		k, ok := index[v]
		if !ok {
			k = -1
		}
		ob.Members = append(ob.Members, k)
	}
	sort.Ints(ob.Members)
	for _, u := range univ {
		ob.Has = append(ob.Has, s.Has(u))
		ob.HasAny = append(ob.HasAny, s.HasAny(u))
	}
	return ob
}

// runMulti executes a program over k set variables and probes all of them after every step.
func runMulti[T comparable](univ []T, k int, ops []mop) [][]obs {
	index := make(map[T]int, len(univ))
	for i, u := range univ {
		index[u] = i
	}
	vars := make([]set.Set[T], k)
	out := make([][]obs, 0, len(ops))
	for _, o := range ops {
		ret := false
		items := pick(univ, o.Args)
		switch o.Op {
		case "Nil":
			vars[o.V] = nil
		case "Make":
			vars[o.V] = set.Make(items...)
		case "Add":
			ret = vars[o.V].Add(items...)
		case "AddSet":
			ret = vars[o.V].AddSet(vars[o.W])
		case "Remove":
			ret = vars[o.V].Remove(items...)
		case "RemoveSet":
			ret = vars[o.V].RemoveSet(vars[o.W])
		case "Has":
			ret = vars[o.V].Has(items...)
		case "HasAny":
			ret = vars[o.V].HasAny(items...)
		default:
			panic("unknown op " + o.Op)
		}
		row := make([]obs, k)
		for i := range vars {
			row[i] = probe(univ, index, vars[i], ret)
		}
		out = append(out, row)
	}
	return out
}

func universeOf(elem string, n int) any {
	switch elem {
	case "int":
		u := make([]int, n)
		for i := range u {
			u[i] = i*7 - 3
		}
		return u
	case "string":
		return []string{"", "a", "A", "ab", "é", "a b", "true", "null"}[:n]
	default:
		u := make([]pt, n)
		for i := range u {
			u[i] = pt{A: i / 2, B: []string{"x", "y"}[i%2]}
		}
		return u
	}
}

func runM(elem string, n, k int, ops []mop) [][]obs {
	switch u := universeOf(elem, n).(type) {
	case []int:
		return runMulti(u, k, ops)
	case []string:
		return runMulti(u, k, ops)
	default:
		return runMulti(u.([]pt), k, ops)
	}
}

func galMop(o mop) string {
	v, w := gal.Nat(o.V), gal.Nat(o.W)
	switch o.Op {
	case "Nil":
		return "MNil " + v
	case "Make":
		return "MMake " + v + " " + galArgs(o.Args)
	case "Add":
		return "MAdd " + v + " " + galArgs(o.Args)
	case "AddSet":
		return "MAddSet " + v + " " + w
	case "Remove":
		return "MRemove " + v + " " + galArgs(o.Args)
	case "RemoveSet":
		return "MRemoveSet " + v + " " + w
	case "Has":
		return "MHas " + v + " " + galArgs(o.Args)
	default:
		return "MHasAny " + v + " " + galArgs(o.Args)
	}
}

func emitMulti(out *gal.Out, kind, elem string, n, k int, ops []mop) {
	ob := runM(elem, n, k, ops)
	univ := make([]int, n)
	for i := range univ {
		univ[i] = i
	}
	g := "{| mc_univ := " + galArgs(univ) + "; mc_vars := " + gal.Nat(k) + "; mc_ops := " + gal.ListOf(ops, galMop) +
		"; mc_obs := " + gal.ListOf(ob, func(row []obs) string { return gal.ListOf(row, galObs) }) + " |}"
	out.Case(g, mcase{kind, elem, n, k, ops, ob})
}

func randomMulti(r *rand.Rand, out *gal.Out) {
	// (nat numerals are printed in nat scope by gal.Nat)
	elem := []string{"int", "string", "struct"}[r.IntN(3)]
	n := 3 + r.IntN(6)
	k := 2 + r.IntN(2)
	cnt := 2 + r.IntN(39)
	ops := make([]mop, 0, cnt)
	names := []string{"Add", "Add", "Add", "AddSet", "AddSet", "AddSet", "Remove", "Remove", "RemoveSet", "RemoveSet",
		"Has", "HasAny", "Nil", "Make", "Make"}
	for len(ops) < cnt {
		name := names[r.IntN(len(names))]
		o := mop{Op: name, V: r.IntN(k)}
		switch name {
		case "Has", "HasAny":
			o.Args = args(r, n, 1)
		case "Add", "Remove", "Make":
			o.Args = args(r, n, 0)
		case "AddSet", "RemoveSet":
			o.W = r.IntN(k)
		}
		ops = append(ops, o)
	}
	emitMulti(out, "multi", elem, n, k, ops)
}

func run(elem string, n int, ops []op) []obs {
	switch elem {
	case "int":
		u := make([]int, n)
		for i := range u {
			u[i] = i*7 - 3
		}
		return runSeq(u, ops)
	case "string":
		u := make([]string, n)
		for i := range u {
			u[i] = []string{"", "a", "A", "ab", "é", "a b", "true", "null"}[i%8] + fmt.Sprint(i/8)
			if i < 8 {
				u[i] = []string{"", "a", "A", "ab", "é", "a b", "true", "null"}[i]
			}
		}
		return runSeq(u, ops)
	default:
		u := make([]pt, n)
		for i := range u {
			u[i] = pt{A: i / 2, B: []string{"x", "y"}[i%2]}
		}
		return runSeq(u, ops)
	}
}

func galArgs(a []int) string {
	return gal.ListOf(a, func(i int) string { return gal.Z(int64(i)) })
}

func galOp(o op) string {
	switch o.Op {
	case "Nil":
		return "ONil"
	case "Make":
		return "OMake " + galArgs(o.Args)
	case "Add":
		return "OAdd " + galArgs(o.Args)
	case "AddSet":
		return "OAddSet " + galArgs(o.Args)
	case "AddSetNil":
		return "OAddSetNil"
	case "AddSelf":
		return "OAddSelf"
	case "Remove":
		return "ORemove " + galArgs(o.Args)
	case "RemoveSet":
		return "ORemoveSet " + galArgs(o.Args)
	case "RemoveSetNil":
		return "ORemoveSetNil"
	case "RemoveSelf":
		return "ORemoveSelf"
	case "Has":
		return "OHas " + galArgs(o.Args)
	default:
		return "OHasAny " + galArgs(o.Args)
	}
}

func galObs(o obs) string {
	return "{| so_ret := " + gal.Bool(o.Ret) + "; so_members := " + galArgs(o.Members) +
		"; so_nil := " + gal.Bool(o.Nil) + "; so_has := " + gal.ListOf(o.Has, gal.Bool) +
		"; so_hasany := " + gal.ListOf(o.HasAny, gal.Bool) + " |}"
}

func emit(out *gal.Out, kind, elem string, n int, ops []op) {
	ob := run(elem, n, ops)
	univ := make([]int, n)
	for i := range univ {
		univ[i] = i
	}
	g := "{| sc_univ := " + galArgs(univ) + "; sc_ops := " + gal.ListOf(ops, galOp) +
		"; sc_obs := " + gal.ListOf(ob, galObs) + " |}"
	out.Case(g, jcase{kind, elem, n, ops, ob})
}

func args(r *rand.Rand, n, min int) []int {
	k := min + r.IntN(7-min)
	a := make([]int, k)
	for i := range a {
		if i > 0 && r.IntN(3) == 0 {
			a[i] = a[r.IntN(i)] // repeat an earlier argument
		} else {
			a[i] = r.IntN(n)
		}
	}
	return a
}

func randomCase(r *rand.Rand, out *gal.Out) {
	elem := []string{"int", "string", "struct"}[r.IntN(3)]
	n := 3 + r.IntN(6)
	k := 1 + r.IntN(40)
	ops := make([]op, 0, k)
	switch r.IntN(3) { // start: nil, empty, pre-filled
	case 1:
		ops = append(ops, op{"Make", nil})
	case 2:
		ops = append(ops, op{"Make", args(r, n, 1)})
	}
	names := []string{"Add", "Add", "Add", "AddSet", "Remove", "Remove", "Remove", "RemoveSet",
		"Has", "Has", "Has", "HasAny", "HasAny", "AddSelf", "RemoveSelf", "AddSetNil", "RemoveSetNil", "Nil", "Make"}
	for len(ops) < k {
		name := names[r.IntN(len(names))]
		o := op{Op: name}
		switch name {
		case "Has", "HasAny":
			o.Args = args(r, n, 1)
		case "Add", "AddSet", "Remove", "RemoveSet", "Make":
			o.Args = args(r, n, 0)
		}
		ops = append(ops, o)
	}
	emit(out, "random", elem, n, ops)
}

func main() {
	seed := flag.Uint64("seed", 1, "PRNG seed")
	prefix := flag.String("out", "c07", "output prefix")
	mode := flag.String("mode", "random", "random|corpus")
	n := flag.Int("n", 300, "number of random cases")
	in := flag.String("in", "", "mode file: JSON lines {kind, elem, universe, ops} to execute")
	flag.Parse()
	r := gal.NewRand(*seed)
	out := gal.NewOut(*prefix)
	defer out.Close()
	if *mode == "multifile" {
		f, err := os.Open(*in)
		if err != nil {
			panic(err)
		}
		sc := bufio.NewScanner(f)
		sc.Buffer(make([]byte, 1<<20), 1<<26)
		for sc.Scan() {
			var c mcase
			if err := json.Unmarshal(sc.Bytes(), &c); err != nil {
				panic(err)
			}
			emitMulti(out, c.Kind, c.Elem, c.N, c.K, c.Ops)
		}
		return
	}
	if *mode == "multi" {
		// storage must never be shared between two variables: AddSet into a nil / an empty
		// receiver, then mutate one side and look at the other
		for _, e := range []string{"int", "string", "struct"} {
			emitMulti(out, "multi-corpus", e, 4, 2, []mop{{Op: "Make", V: 1, Args: []int{0, 1}}, {Op: "AddSet", V: 0, W: 1},
				{Op: "Add", V: 0, Args: []int{2}}, {Op: "Remove", V: 1, Args: []int{0}}, {Op: "Has", V: 0, Args: []int{0, 2}}})
			emitMulti(out, "multi-corpus", e, 4, 3, []mop{{Op: "Make", V: 0}, {Op: "Make", V: 2, Args: []int{3, 3, 1}}, {Op: "AddSet", V: 0, W: 2},
				{Op: "RemoveSet", V: 2, W: 0}, {Op: "AddSet", V: 1, W: 0}, {Op: "RemoveSet", V: 0, W: 0}, {Op: "HasAny", V: 1, Args: []int{1, 2}}})
		}
		for i := 0; i < *n; i++ {
			randomMulti(r, out)
		}
		return
	}
	if *mode == "file" {
		f, err := os.Open(*in)
		if err != nil {
			panic(err)
		}
		sc := bufio.NewScanner(f)
		sc.Buffer(make([]byte, 1<<20), 1<<26)
		for sc.Scan() {
			var c jcase
			if err := json.Unmarshal(sc.Bytes(), &c); err != nil {
				panic(err)
			}
			emit(out, c.Kind, c.Elem, c.N, c.Ops)
		}
		return
	}
	if *mode == "corpus" {
		// witness of the pinned defect: Make(a).Has(a, a)
		for _, e := range []string{"int", "string", "struct"} {
			emit(out, "corpus", e, 3, []op{{"Make", []int{1}}, {"Has", []int{1, 1}}})
			emit(out, "corpus", e, 4, []op{{"Add", []int{0, 2}}, {"Has", []int{0, 2, 0, 2, 2}}, {"Has", []int{0, 1}},
				{"HasAny", []int{1, 3, 3}}, {"Remove", []int{2, 2}}, {"Remove", []int{2}}, {"RemoveSelf", nil}, {"RemoveSelf", nil}})
			emit(out, "corpus", e, 3, []op{{"Remove", []int{0}}, {"Has", []int{0}}, {"AddSetNil", nil}, {"AddSet", []int{1, 1}}, {"AddSelf", nil}})
		}
		return
	}
	for i := 0; i < *n; i++ {
		randomCase(r, out)
	}
}
