// xlate_basic_kinds — (T) tie of properties C13 (and C19).
//
// Regenerates BasicKindsGen.v:
//
//   - `gen_kinds`: one row per go/types basic kind (types.Typ, plus the universe aliases byte
//     and rune): the kind's constant name, what (*types.Basic).String() prints for it, what
//     types.Default(t).String() prints, and whether a Go constant can have that type
//     (Info()&IsConstType != 0) — this table is read from the go/types package the generators
//     are compiled against (an oracle, not the repository);
//   - `gen_render`: the expression by which gencommon.(*ImportHandler).ExtractTypeRef renders a
//     *types.Basic — the `return` of the type switch's `case *types.Basic:` clause when there is
//     one, else of its `default:` clause — read from gencommon/imports.go with go/parser and
//     translated into the tiny expression language of GenBuildModel.v (RName, RDefaultName,
//     RTrimPrefix).  Anything the translator does not recognise becomes `RUnknown "<source>"`,
//     for which the Coq theorem cannot be proved (the check then reports the broken tie).
//
// Standard library only.
//
//	xlate_basic_kinds -repo DIR -out FILE
package main

import (
	"bytes"
	"flag"
	"fmt"
	"go/ast"
	"go/parser"
	"go/printer"
	"go/token"
	"go/types"
	"os"
	"path/filepath"
	"strconv"
	"strings"
)

var kindNames = map[types.BasicKind]string{
	types.Invalid: "Invalid", types.Bool: "Bool", types.Int: "Int", types.Int8: "Int8",
	types.Int16: "Int16", types.Int32: "Int32", types.Int64: "Int64", types.Uint: "Uint",
	types.Uint8: "Uint8", types.Uint16: "Uint16", types.Uint32: "Uint32", types.Uint64: "Uint64",
	types.Uintptr: "Uintptr", types.Float32: "Float32", types.Float64: "Float64",
	types.Complex64: "Complex64", types.Complex128: "Complex128", types.String: "String",
	types.UnsafePointer: "UnsafePointer", types.UntypedBool: "UntypedBool",
	types.UntypedInt: "UntypedInt", types.UntypedRune: "UntypedRune",
	types.UntypedFloat: "UntypedFloat", types.UntypedComplex: "UntypedComplex",
	types.UntypedString: "UntypedString", types.UntypedNil: "UntypedNil",
}

func q(s string) string { return "\"" + strings.ReplaceAll(s, "\"", "\"\"") + "\"" }

func src(fset *token.FileSet, n ast.Node) string {
	var b bytes.Buffer
	_ = printer.Fprint(&b, fset, n)
	return b.String()
}

// xlate translates the Go expression rendering the switch variable `tv` into the rexpr IR.
func xlate(fset *token.FileSet, e ast.Expr, tv string) string {
	unknown := func() string { return "(RUnknown " + q(src(fset, e)) + ")" }
	call, ok := e.(*ast.CallExpr)
	if !ok {
		return unknown()
	}
	sel, ok := call.Fun.(*ast.SelectorExpr)
	if !ok {
		return unknown()
	}
	// X.String()
	if sel.Sel.Name == "String" && len(call.Args) == 0 {
		if id, ok := sel.X.(*ast.Ident); ok && id.Name == tv {
			return "RName"
		}
		// types.Default(t).String()
		if c2, ok := sel.X.(*ast.CallExpr); ok && len(c2.Args) == 1 {
			if s2, ok := c2.Fun.(*ast.SelectorExpr); ok && s2.Sel.Name == "Default" {
				if p, ok := s2.X.(*ast.Ident); ok && p.Name == "types" {
					if id, ok := c2.Args[0].(*ast.Ident); ok && id.Name == tv {
						return "RDefaultName"
					}
				}
			}
		}
		return unknown()
	}
	// strings.TrimPrefix(E, "lit")
	if p, ok := sel.X.(*ast.Ident); ok && p.Name == "strings" && sel.Sel.Name == "TrimPrefix" && len(call.Args) == 2 {
		if lit, ok := call.Args[1].(*ast.BasicLit); ok && lit.Kind == token.STRING {
			s, err := strconv.Unquote(lit.Value)
			if err == nil {
				return "(RTrimPrefix " + q(s) + " " + xlate(fset, call.Args[0], tv) + ")"
			}
		}
	}
	return unknown()
}

func renderExpr(repo string) (string, string, error) {
	fset := token.NewFileSet()
	path := filepath.Join(repo, "gencommon", "imports.go")
	f, err := parser.ParseFile(fset, path, nil, 0)
	if err != nil {
		return "", "", err
	}
	for _, d := range f.Decls {
		fd, ok := d.(*ast.FuncDecl)
		if !ok || fd.Name.Name != "ExtractTypeRef" || fd.Body == nil {
			continue
		}
		var ts *ast.TypeSwitchStmt
		ast.Inspect(fd.Body, func(n ast.Node) bool {
			if x, ok := n.(*ast.TypeSwitchStmt); ok && ts == nil {
				ts = x
				return false
			}
			return true
		})
		if ts == nil {
			return "(RUnknown \"no type switch\")", "", nil
		}
		tv := ""
		if as, ok := ts.Assign.(*ast.AssignStmt); ok && len(as.Lhs) == 1 {
			if id, ok := as.Lhs[0].(*ast.Ident); ok {
				tv = id.Name
			}
		}
		var basic, deflt *ast.CaseClause
		for _, s := range ts.Body.List {
			cc := s.(*ast.CaseClause)
			if cc.List == nil {
				deflt = cc
			}
			for _, t := range cc.List {
				if src(fset, t) == "*types.Basic" && len(cc.List) == 1 {
					basic = cc
				}
			}
		}
		cc, which := deflt, "default"
		if basic != nil {
			cc, which = basic, "case *types.Basic"
		}
		if cc == nil {
			return "(RUnknown \"no clause for basic types\")", which, nil
		}
		if len(cc.Body) != 1 {
			return "(RUnknown " + q("clause with "+strconv.Itoa(len(cc.Body))+" statements") + ")", which, nil
		}
		rs, ok := cc.Body[0].(*ast.ReturnStmt)
		if !ok || len(rs.Results) != 1 {
			return "(RUnknown " + q(src(fset, cc.Body[0])) + ")", which, nil
		}
		return xlate(fset, rs.Results[0], tv), which, nil
	}
	return "", "", fmt.Errorf("ExtractTypeRef not found in %s", path)
}

func main() {
	repo := flag.String("repo", "/repo", "root of the tree to read")
	out := flag.String("out", "BasicKindsGen.v", "output file")
	flag.Parse()
	var sb strings.Builder
	sb.WriteString("(* BasicKindsGen.v — REGENERATED on every run by harness/cmd/xlate_basic_kinds.  Do not edit. *)\n" +
		"From Coq Require Import String List.\nFrom GT Require Import GenBuildModel.\nImport ListNotations.\nLocal Open Scope string_scope.\n\n")
	sb.WriteString("Definition gen_kinds : list bkind := [\n")
	var rows []string
	row := func(name string, t *types.Basic) {
		isConst := "false"
		if t.Info()&types.IsConstType != 0 {
			isConst = "true"
		}
		untyped := "false"
		if t.Info()&types.IsUntyped != 0 {
			untyped = "true"
		}
		rows = append(rows, fmt.Sprintf("  mk_bkind %s %s %s %s %s", q(name), q(t.String()),
			q(types.Default(t).String()), isConst, untyped))
	}
	for k, t := range types.Typ {
		n, ok := kindNames[types.BasicKind(k)]
		if !ok {
			n = "Kind" + strconv.Itoa(k)
		}
		row(n, t)
	}
	for _, alias := range []string{"byte", "rune"} {
		if b, ok := types.Universe.Lookup(alias).Type().(*types.Basic); ok {
			row("Alias_"+alias, b)
		}
	}
	sb.WriteString(strings.Join(rows, ";\n") + "\n].\n\n")
	expr, which, err := renderExpr(*repo)
	if err != nil {
		fmt.Fprintln(os.Stderr, "xlate_basic_kinds:", err)
		os.Exit(1)
	}
	fmt.Fprintf(&sb, "(* from gencommon/imports.go, ExtractTypeRef, clause `%s` *)\nDefinition gen_render : rexpr := %s.\n", which, expr)
	if err := os.WriteFile(*out, []byte(sb.String()), 0o644); err != nil {
		fmt.Fprintln(os.Stderr, "xlate_basic_kinds:", err)
		os.Exit(1)
	}
}
