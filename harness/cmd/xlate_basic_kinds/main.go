// xlate_basic_kinds — (T) tie of properties C13 (and C19).
//
// Regenerates BasicKindsGen.v:
//
//   - `gen_kinds`: one row per go/types basic kind (types.Typ, plus the universe aliases byte
//     and rune): the kind's constant name, what (*types.Basic).String() prints for it, what
//     types.Default(t).String() prints, and whether a Go constant can have that type
//     (Info()&IsConstType != 0) — this table is read from the go/types package the generators
//     are compiled against (an oracle, not the repository);
//   - `gen_render`: the expression by which gencommon.(*ImportHandler).ExtractTypeRef renders a
//     *types.Basic — what the clause of the type switch listing `*types.Basic` returns when there
//     is one (alone or next to other types), else its `default:` clause, else the code after the
//     switch — read from package gencommon with go/parser and translated into the tiny expression
//     language of GenBuildModel.v (RName, RDefaultName, RTrimPrefix).  The clause may define
//     locals before its `return` (they are substituted) and may call a one-parameter helper
//     function or method of the package with the switch variable (its body is translated in its
//     place).  Anything the translator does not recognise becomes `RUnknown "<source>"`, for
//     which the Coq theorem cannot be proved (the check then reports the broken tie).
//
// Standard library only.
//
//	xlate_basic_kinds -repo DIR -out FILE
package main

import (
	"bytes"
	"flag"
	"fmt"
	"go/ast"
	"go/printer"
	"go/token"
	"go/types"
	"os"
	"path/filepath"
	"strconv"
	"strings"

	"gtverif/internal/srcset"
)

var kindNames = map[types.BasicKind]string{
	types.Invalid: "Invalid", types.Bool: "Bool", types.Int: "Int", types.Int8: "Int8",
	types.Int16: "Int16", types.Int32: "Int32", types.Int64: "Int64", types.Uint: "Uint",
	types.Uint8: "Uint8", types.Uint16: "Uint16", types.Uint32: "Uint32", types.Uint64: "Uint64",
	types.Uintptr: "Uintptr", types.Float32: "Float32", types.Float64: "Float64",
	types.Complex64: "Complex64", types.Complex128: "Complex128", types.String: "String",
	types.UnsafePointer: "UnsafePointer", types.UntypedBool: "UntypedBool",
	types.UntypedInt: "UntypedInt", types.UntypedRune: "UntypedRune",
	types.UntypedFloat: "UntypedFloat", types.UntypedComplex: "UntypedComplex",
	types.UntypedString: "UntypedString", types.UntypedNil: "UntypedNil",
}

func q(s string) string { return "\"" + strings.ReplaceAll(s, "\"", "\"\"") + "\"" }

func src(fset *token.FileSet, n ast.Node) string {
	var b bytes.Buffer
	_ = printer.Fprint(&b, fset, n)
	return b.String()
}

// translator state: the package's functions (helpers may be called), and the substitution of
// local variables by the expressions assigned to them.
type xl struct {
	fset  *token.FileSet
	funcs map[string]*ast.FuncDecl // unexported helpers of gencommon, by name (functions and methods)
	depth int
}

func (x *xl) unknown(e ast.Node) string { return "(RUnknown " + q(src(x.fset, e)) + ")" }

// isVar: the expression is the variable `tv` (after substitution of locals), possibly asserted
// or converted to a type that does not change what String() prints: t, (t), t.(*types.Basic)
func isVar(e ast.Expr, tv string, env map[string]ast.Expr) bool {
	switch v := e.(type) {
	case *ast.ParenExpr:
		return isVar(v.X, tv, env)
	case *ast.TypeAssertExpr:
		return isVar(v.X, tv, env)
	case *ast.Ident:
		if v.Name == tv {
			return true
		}
		if b, ok := env[v.Name]; ok {
			return isVar(b, tv, env)
		}
	}
	return false
}

// expr translates the Go expression that renders the switch variable `tv` into the rexpr IR.
// env: locals -> their defining expressions (already in terms of tv).
func (x *xl) expr(e ast.Expr, tv string, env map[string]ast.Expr) string {
	switch v := e.(type) {
	case *ast.ParenExpr:
		return x.expr(v.X, tv, env)
	case *ast.Ident:
		if b, ok := env[v.Name]; ok {
			return x.expr(b, tv, env)
		}
		return x.unknown(e)
	}
	call, ok := e.(*ast.CallExpr)
	if !ok {
		return x.unknown(e)
	}
	// helper(t) / recv.helper(t): a function of the package with one parameter fed with tv
	if name := calleeName(call.Fun); name != "" && len(call.Args) == 1 && isVar(call.Args[0], tv, env) {
		if fd, ok := x.funcs[name]; ok && x.depth < 4 && fd.Type.Params != nil && len(fd.Type.Params.List) == 1 &&
			len(fd.Type.Params.List[0].Names) == 1 {
			x.depth++
			defer func() { x.depth-- }()
			return x.body(fd.Body.List, fd.Type.Params.List[0].Names[0].Name)
		}
	}
	sel, ok := call.Fun.(*ast.SelectorExpr)
	if !ok {
		return x.unknown(e)
	}
	// X.String()
	if sel.Sel.Name == "String" && len(call.Args) == 0 {
		if isVar(sel.X, tv, env) {
			return "RName"
		}
		// types.Default(t).String(), also through a local: d := types.Default(t); d.String()
		inner := sel.X
		for {
			if id, ok := inner.(*ast.Ident); ok {
				if b, ok := env[id.Name]; ok {
					inner = b
					continue
				}
			}
			if p, ok := inner.(*ast.ParenExpr); ok {
				inner = p.X
				continue
			}
			break
		}
		if c2, ok := inner.(*ast.CallExpr); ok && len(c2.Args) == 1 {
			if s2, ok := c2.Fun.(*ast.SelectorExpr); ok && s2.Sel.Name == "Default" {
				if p, ok := s2.X.(*ast.Ident); ok && p.Name == "types" && isVar(c2.Args[0], tv, env) {
					return "RDefaultName"
				}
			}
		}
		return x.unknown(e)
	}
	// strings.TrimPrefix(E, "lit")
	if p, ok := sel.X.(*ast.Ident); ok && p.Name == "strings" && sel.Sel.Name == "TrimPrefix" && len(call.Args) == 2 {
		if lit, ok := call.Args[1].(*ast.BasicLit); ok && lit.Kind == token.STRING {
			s, err := strconv.Unquote(lit.Value)
			if err == nil {
				return "(RTrimPrefix " + q(s) + " " + x.expr(call.Args[0], tv, env) + ")"
			}
		}
	}
	return x.unknown(e)
}

func calleeName(f ast.Expr) string {
	switch v := f.(type) {
	case *ast.Ident:
		return v.Name
	case *ast.SelectorExpr:
		if id, ok := v.X.(*ast.Ident); ok && id.Name != "types" && id.Name != "strings" && id.Name != "fmt" {
			return v.Sel.Name
		}
	}
	return ""
}

// body: zero or more single-variable definitions (`x := e`, `var x = e`) followed by one
// `return e`; the locals are substituted into the returned expression.
func (x *xl) body(stmts []ast.Stmt, tv string) string {
	env := map[string]ast.Expr{}
	for i, st := range stmts {
		switch v := st.(type) {
		case *ast.AssignStmt:
			if v.Tok == token.DEFINE && len(v.Lhs) == 1 && len(v.Rhs) == 1 {
				if id, ok := v.Lhs[0].(*ast.Ident); ok {
					env[id.Name] = v.Rhs[0]
					continue
				}
			}
		case *ast.DeclStmt:
			if gd, ok := v.Decl.(*ast.GenDecl); ok && gd.Tok == token.VAR && len(gd.Specs) == 1 {
				if vs, ok := gd.Specs[0].(*ast.ValueSpec); ok && len(vs.Names) == 1 && len(vs.Values) == 1 {
					env[vs.Names[0].Name] = vs.Values[0]
					continue
				}
			}
		case *ast.ReturnStmt:
			if i == len(stmts)-1 && len(v.Results) == 1 {
				return x.expr(v.Results[0], tv, env)
			}
		}
		return x.unknown(st)
	}
	return "(RUnknown \"no return\")"
}

func renderExpr(repo string) (string, string, error) {
	dir := filepath.Join(repo, "gencommon")
	// the package's file set as the compiler selects it: a second ExtractTypeRef behind a build
	// constraint, or none in the files that take part in the build, is an error
	pkg, err := srcset.Load(dir)
	if err != nil {
		return "", "", err
	}
	fset := pkg.Fset
	x := &xl{fset: fset, funcs: map[string]*ast.FuncDecl{}}
	target, err := pkg.FuncDecl("ImportHandler", "ExtractTypeRef")
	if err != nil {
		return "", "", err
	}
	dup := map[string]bool{}
	for _, f := range pkg.Files {
		for _, d := range f.Decls {
			fd, ok := d.(*ast.FuncDecl)
			if !ok || fd.Body == nil || fd == target {
				continue
			}
			if _, seen := x.funcs[fd.Name.Name]; seen {
				dup[fd.Name.Name] = true // two helpers of one name (function and method): not followed
			}
			x.funcs[fd.Name.Name] = fd
		}
	}
	for n := range dup {
		delete(x.funcs, n)
	}
	fd := target
	{
		var ts *ast.TypeSwitchStmt
		var after []ast.Stmt // the statements that follow the switch (reached when no clause matches)
		for i, st := range fd.Body.List {
			if sw, ok := st.(*ast.TypeSwitchStmt); ok && ts == nil {
				ts = sw
				after = fd.Body.List[i+1:]
			}
		}
		if ts == nil {
			return "(RUnknown \"no type switch\")", "", nil
		}
		tv, operand := "", ""
		if as, ok := ts.Assign.(*ast.AssignStmt); ok && len(as.Lhs) == 1 {
			if id, ok := as.Lhs[0].(*ast.Ident); ok {
				tv = id.Name
			}
			if ta, ok := as.Rhs[0].(*ast.TypeAssertExpr); ok {
				if id, ok := ta.X.(*ast.Ident); ok {
					operand = id.Name
				}
			}
		}
		var basic, deflt *ast.CaseClause
		for _, s := range ts.Body.List {
			cc := s.(*ast.CaseClause)
			if cc.List == nil {
				deflt = cc
			}
			for _, t := range cc.List {
				if src(fset, t) == "*types.Basic" {
					basic = cc
				}
			}
		}
		switch {
		case basic != nil:
			return x.body(basic.Body, tv), "case *types.Basic", nil
		case deflt != nil:
			return x.body(deflt.Body, tv), "default", nil
		case len(after) > 0:
			// no clause for basic types: the code after the switch renders them, in terms of the
			// switch operand
			return x.body(after, operand), "after the switch", nil
		}
		return "(RUnknown \"no clause for basic types\")", "", nil
	}
}

func main() {
	repo := flag.String("repo", "/repo", "root of the tree to read")
	out := flag.String("out", "BasicKindsGen.v", "output file")
	flag.Parse()
	var sb strings.Builder
	sb.WriteString("(* BasicKindsGen.v — REGENERATED on every run by harness/cmd/xlate_basic_kinds.  Do not edit. *)\n" +
		"From Coq Require Import String List.\nFrom GT Require Import GenBuildModel.\nImport ListNotations.\nLocal Open Scope string_scope.\n\n")
	sb.WriteString("Definition gen_kinds : list bkind := [\n")
	var rows []string
	row := func(name string, t *types.Basic) {
		isConst := "false"
		if t.Info()&types.IsConstType != 0 {
			isConst = "true"
		}
		untyped := "false"
		if t.Info()&types.IsUntyped != 0 {
			untyped = "true"
		}
		rows = append(rows, fmt.Sprintf("  mk_bkind %s %s %s %s %s", q(name), q(t.String()),
			q(types.Default(t).String()), isConst, untyped))
	}
	for k, t := range types.Typ {
		n, ok := kindNames[types.BasicKind(k)]
		if !ok {
			n = "Kind" + strconv.Itoa(k)
		}
		row(n, t)
	}
	for _, alias := range []string{"byte", "rune"} {
		if b, ok := types.Universe.Lookup(alias).Type().(*types.Basic); ok {
			row("Alias_"+alias, b)
		}
	}
	sb.WriteString(strings.Join(rows, ";\n") + "\n].\n\n")
	expr, which, err := renderExpr(*repo)
	if err != nil {
		fmt.Fprintln(os.Stderr, "xlate_basic_kinds:", err)
		os.Exit(1)
	}
	fmt.Fprintf(&sb, "(* from gencommon/imports.go, ExtractTypeRef, clause `%s` *)\nDefinition gen_render : rexpr := %s.\n", which, expr)
	if err := os.WriteFile(*out, []byte(sb.String()), 0o644); err != nil {
		fmt.Fprintln(os.Stderr, "xlate_basic_kinds:", err)
		os.Exit(1)
	}
}
